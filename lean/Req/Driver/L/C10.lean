import Req.Driver.Proto
import Req.Client.Retry
import Req.Client.Attempt
import Req.Client.Backoff
import Req.Client.RetryDyn
import Req.Client.Exchange
import Req.Client.Backoff64
import Req.Client.RetryKinds
import Req.Client.RetryObs
/-!
Driver lanes of C10.

`c10run <variant> <clientOps> <reqOps> <conds> <hooks> <after> <script> <backoffObs>
        <c.cookies> <c.headers> <c.form> <c.query> <c.allowGet>
        <method> <url> <cookies> <headers> <form> <ordered> <query> <multipart> <files> <body>
        <resend> <ivx> <rawQuery> <pathParams> <c.pathParams> <c.baseURL> <c.scheme> <setCookies> <dumpObs> <traceObs> <bodyObs> <pre>`
(`<dumpObs>`/`<traceObs>`: `1` the lane observes the dump / trace of the returned response, else `-`)
(`<url>` is a template: `a<origin>|<segs>` absolute, `s<authority>|<segs>` without scheme, `r|<segs>`
relative; `<segs>` = `l<hex>` literal / `p<hex>` `{placeholder}`, comma separated; `<setCookies>` =
per script position `-` or the `name:value` pairs (`name:` deletes) the response sets in the jar)
→ the whole trace of `Request.Do` (events, per-attempt wire requests, final result), and of every
further `Do` on the same `Request` (`resend`: per re-send the setter calls made before it).
Conditions / response middleware `<pred>[~<edit>]`, hooks `C<k>`, `I<src>`, `X` and the interval
function (`ivx`) may edit the retry option or cancel the context IN FLIGHT (`Req.RetryDyn`);
an edit `…@<j>` acts only when the callback sees attempt number `j`.

`c10backoff <guard> <min> <max> <attempt> <observed|p>` → `panic` / `ok` / `bad:<lo>:<hi>`.

`c10policy <clientOps> <reqOps>` → the effective retry option.
-/
namespace Req.Driver.L.C10
open Req.Proto Req.Retry Req.Attempt Req.RetryDyn

/-! ### decoding -/

def splitList (sep : String) (s : String) : List String :=
  if s == "-" then [] else s.splitOn sep

def decPair (s : String) : Option (Bytes × Bytes) :=
  match s.splitOn ":" with
  | [a, b] => do pure (← decodeHex a, ← decodeHex b)
  | _ => none

def decPairs (s : String) : Option (List (Bytes × Bytes)) := (splitList ";" s).mapM decPair

def decMultiEntry (s : String) : Option (Bytes × List Bytes) :=
  match s.splitOn ":" with
  | [k, vs] => do pure (← decodeHex k, ← (vs.splitOn ",").mapM decodeHex)
  | _ => none

def decMulti (s : String) : Option Multi := (splitList ";" s).mapM decMultiEntry

def decBool (s : String) : Option Bool :=
  if s == "1" then some true else if s == "0" then some false else none

def decVariant (s : String) : Option Variant :=
  match s.toList with
  | [a, b, c, d, e, g, h] => do
    let f (ch : Char) : Option Bool := if ch == '1' then some true else if ch == '0' then some false else none
    pure ⟨← f a, ← f b, ← f c, ← f d, ← f e, ← f g, ← f h⟩
  | _ => none

def dropS (s : String) (n : Nat) : String := String.ofList (s.toList.drop n)
def takeS (s : String) (n : Nat) : String := String.ofList (s.toList.take n)

def decInterval (s : String) : Option IntervalSrc :=
  let rest := dropS s 1
  match takeS s 1 with
  | "d" => if rest == "" then some .dflt else none
  | "f" => rest.toNat?.map .fn
  | "x" => rest.toNat?.map .fixed
  | "b" =>
    match rest.splitOn ":" with
    | [a, b] => do pure (.backoff (← a.toInt?) (← b.toInt?))
    | _ => none
  | _ => none

def decSetter (s : String) : Option Setter :=
  let rest := dropS s 2
  match takeS s 2 with
  | "n=" => rest.toInt?.map .count
  | "i=" => (decInterval rest).map .interval
  | "sh" => rest.toNat?.map .setHook
  | "ah" => rest.toNat?.map .addHook
  | "sc" => rest.toNat?.map .setCond
  | "ac" => rest.toNat?.map .addCond
  | _ => none

def decSetters (s : String) : Option (List Setter) := (splitList "," s).mapM decSetter

/-- The behaviour table of the logging stubs (conditions, failing response middleware). -/
inductive Pred
  | err | statusGe (n : Nat) | statusEq (n : Nat) | attemptLt (n : Nat) | always | never
deriving Repr

def Pred.eval (p : Pred) (o : Obs) : Bool :=
  match p with
  | .err => o.err.isSome
  | .statusGe n => match o.resp with | .status c => decide (n ≤ c) | _ => false
  | .statusEq n => match o.resp with | .status c => c == n | _ => false
  | .attemptLt n => decide (o.attempt < n)
  | .always => true
  | .never => false

def decPred (s : String) : Option Pred :=
  let rest := dropS s 1
  match takeS s 1 with
  | "E" => if rest == "" then some .err else none
  | "T" => if rest == "" then some .always else none
  | "F" => if rest == "" then some .never else none
  | "G" => rest.toNat?.map .statusGe
  | "Q" => rest.toNat?.map .statusEq
  | "L" => rest.toNat?.map .attemptLt
  | _ => none

/-- An in-flight edit of a stub: what, and (optionally) only at which attempt number. -/
structure StubEdit where
  edit : Edit
  at? : Option Nat

def StubEdit.eval (e : Option StubEdit) (attempt : Nat) : Edit :=
  match e with
  | none => .nop
  | some e =>
    match e.at? with
    | none => e.edit
    | some j => if attempt == j then e.edit else .nop

/-- `c<k>` SetRetryCount, `i<src>` SetRetry…Interval, `x` cancel the context; `@<j>` suffix. -/
def decStubEdit (s : String) : Option StubEdit :=
  let (body, at?) : String × Option (Option Nat) :=
    match s.splitOn "@" with
    | [b] => (b, some none)
    | [b, j] => (b, j.toNat?.map some)
    | _ => (s, none)
  match at? with
  | none => none
  | some at? =>
    let rest := dropS body 1
    match takeS body 1 with
    | "c" => rest.toInt?.map fun k => ⟨⟨some k, none, false⟩, at?⟩
    | "i" => (decInterval rest).map fun i => ⟨⟨none, some i, false⟩, at?⟩
    | "x" => if rest == "" then some ⟨⟨none, none, true⟩, at?⟩ else none
    | _ => none

structure PredStub where
  pred : Pred
  edit : Option StubEdit

def decPredStub (s : String) : Option PredStub :=
  match s.splitOn "~" with
  | [p] => (decPred p).map fun p => ⟨p, none⟩
  | [p, e] => do pure ⟨← decPred p, some (← decStubEdit e)⟩
  | _ => none

def decPreds (s : String) : Option (List PredStub) := (splitList "," s).mapM decPredStub

/-- What a hook stub does to the request. -/
inductive HookAct
  | noop
  | setHeader (k v : Bytes)
  | addCookie (n v : Bytes)
  | setQuery (k v : Bytes)
  | setBody (b : Bytes)
  /-- `SetBody(io.Reader)` while the call is in flight: the body KIND changes (round 5) -/
  | setReader (b : Bytes)
  /-- `SetFileReader("hp", "h.txt", <reader that cannot be rewound>)` while the call is in flight -/
  | addStream (b : Bytes)

def HookAct.apply (a : HookAct) (_ : Obs) (st : ReqState) : ReqState :=
  match a with
  | .noop => st
  | .setHeader k v => { st with headers := put st.headers k [v] }
  | .addCookie n v => { st with cookies := st.cookies ++ [(n, v)] }
  | .setQuery k v => { st with query := put st.query k [v] }
  | .setBody b => { st with body := .bytes b }
  | .setReader b => { st with body := .reader b false }
  | .addStream b =>
    { st with multipart := true, files := st.files ++ [⟨ofStr "hp", ofStr "h.txt", [], .stream b false⟩] }

def decHook (s : String) : Option HookAct :=
  let rest := dropS s 1
  match takeS s 1 with
  | "N" => if rest == "" then some .noop else none
  | "H" => (decPair rest).map fun p => .setHeader p.1 p.2
  | "K" => (decPair rest).map fun p => .addCookie p.1 p.2
  | "Q" => (decPair rest).map fun p => .setQuery p.1 p.2
  | "B" => (decodeHex rest).map .setBody
  | "R" => (decodeHex rest).map .setReader
  | "F" => (decodeHex rest).map .addStream
  | _ => none

/-- `-` or `R<hex>@<j>` / `F<hex>@<j>`: the caller's `OnBeforeRequest` middleware (it runs before the
built-in ones) changes the body kind when it sees attempt number `j`. -/
def decPre (s : String) : Option (Nat → ReqState → ReqState) :=
  if s == "-" then some fun _ st => st else
  match s.splitOn "@" with
  | [a, j] => do
    let act ← decHook a
    let j ← j.toNat?
    match act with
    | .setReader _ | .addStream _ => pure fun ra st => if ra == j then act.apply ⟨ra, .absent, none⟩ st else st
    | _ => none
  | _ => none

structure HookStub where
  act : HookAct
  edit : Option StubEdit

/-- `C<k>[@j]`, `I<src>[@j]`, `X[@j]`: the hook edits the retry option / cancels the context. -/
def decHookStub (s : String) : Option HookStub :=
  match takeS s 1 with
  | "C" => (decStubEdit ("c" ++ dropS s 1)).map fun e => ⟨.noop, some e⟩
  | "I" => (decStubEdit ("i" ++ dropS s 1)).map fun e => ⟨.noop, some e⟩
  | "X" => (decStubEdit ("x" ++ dropS s 1)).map fun e => ⟨.noop, some e⟩
  | _ => (decHook s).map fun a => ⟨a, none⟩

def decHooks (s : String) : Option (List HookStub) := (splitList "," s).mapM decHookStub

def decOutcome (s : String) : Option Outcome :=
  let rest := dropS s 1
  match takeS s 1 with
  | "s" => rest.toNat?.map .status
  | "b" => rest.toNat?.map .badBody
  | "t" => if rest == "" then some .transportErr else none
  | "d" => if rest == "" then some .deadline else none
  | "c" => if rest == "" then some .cancelled else none
  | "z" => if rest == "" then some .nilResp else none
  | "e" => if rest == "" then some .beforeErr else none
  | "D" => if rest == "" then some .deadlineCtx else none
  | "L" => rest.toNat?.map .lateCancel
  | "T" => if rest == "" then some .lateTransport else none
  | _ => none

def decScript (s : String) : Option (List Outcome) := (splitList "," s).mapM decOutcome

def decFile (s : String) : Option FileUp :=
  match s.splitOn ":" with
  | [p, n, ct, kind, c] => do
    let content ← decodeHex c
    let src ← match kind with
      | "b" => some (FileSrc.bytes content)
      | "p" => some (FileSrc.path content)
      | "s" => some (FileSrc.seeker content false)
      | "r" => some (FileSrc.stream content false)
      | "o" => some (FileSrc.closer content false)
      | "k" => some (FileSrc.shared content true false)
      | "q" => some (FileSrc.shared content false false)
      | _ => none
    pure ⟨← decodeHex p, ← decodeHex n, ← decodeHex ct, src⟩
  | _ => none

def decFiles (s : String) : Option (List FileUp) := (splitList ";" s).mapM decFile

def decBody (s : String) : Option BodySrc :=
  let rest := dropS s 1
  match takeS s 1 with
  | "n" => if rest == "" then some .none else none
  | "b" => (decodeHex rest).map .bytes
  | "u" => (decodeHex rest).map .user
  | "m" =>
    match rest.splitOn ":" with
    | [j, x] => do pure (.marshal (← decodeHex j) (← decodeHex x))
    | _ => none
  | "r" => (decodeHex rest).map fun b => .reader b false
  | _ => none

/-! ### printing -/

def bytesLt : Bytes → Bytes → Bool
  | [], [] => false
  | [], _ :: _ => true
  | _ :: _, [] => false
  | a :: as, b :: bs => if a < b then true else if b < a then false else bytesLt as bs

/-- stable insertion sort by key (Go: `sort.Strings(keys)`) -/
def insertBy {α : Type} (key : α → Bytes) (x : α) : List α → List α
  | [] => [x]
  | y :: ys => if bytesLt (key x) (key y) then x :: y :: ys else y :: insertBy key x ys

def sortBy {α : Type} (key : α → Bytes) (l : List α) : List α :=
  l.foldl (fun acc x => insertBy key x acc) []

def encPairs (l : List (Bytes × Bytes)) : String :=
  if l.isEmpty then "-" else ";".intercalate (l.map fun p => encodeHex p.1 ++ ":" ++ encodeHex p.2)

/-- sorted by key, entries with no value dropped (nothing reaches the wire for them) -/
def encMulti (m : Multi) : String :=
  let m := (sortBy (fun e => e.1) m).filter fun e => !e.2.isEmpty
  if m.isEmpty then "-" else
  ";".intercalate (m.map fun e => encodeHex e.1 ++ ":" ++ ",".intercalate (e.2.map encodeHex))

def encFilePart (f : FilePart) : String :=
  ":".intercalate [encodeHex f.param, encodeHex f.name, encodeHex f.ctype, encodeHex f.content]

def encBody : WBody → String
  | .none => "n"
  | .raw b => "r" ++ encodeHex b
  | .form m => "f" ++ encPairs ((sortBy (fun e => e.1) m).flatMap fun e => e.2.map fun v => (e.1, v))
  | .ordered kvs => "f" ++ encPairs kvs
  | .orderedForm kvs m =>
    "f" ++ encPairs (kvs ++ (sortBy (fun e => e.1) m).flatMap fun e => e.2.map fun v => (e.1, v))
  | .multipart fields files =>
    "p" ++ encPairs (sortBy (fun e => e.1) fields) ++ "/" ++
      (if files.isEmpty then "-" else ";".intercalate (files.map encFilePart))

/-- Go prints a `map[string][]string`: one entry per key, values in order of appearance. -/
def groupMulti (m : Multi) : Multi :=
  m.foldl (fun acc e =>
    if acc.any (fun a => a.1 == e.1) then acc.map fun a => if a.1 == e.1 then (a.1, a.2 ++ e.2) else a
    else acc ++ [e]) []

def encWire (w : Wire) : String :=
  "&".intercalate ["m=" ++ encodeHex w.method, "u=" ++ encodeHex w.url, "q=" ++ encMulti (groupMulti w.query),
    "h=" ++ encMulti w.headers, "c=" ++ encPairs w.cookies, "b=" ++ encBody w.body]

def encErrKind : ErrKind → String
  | .transport => "t" | .deadline => "d" | .cancel => "c" | .body => "b" | .wrapper => "w"
  | .before => "e" | .after i => "a" ++ toString i | .waitCtx => "x"

def encView : RespView → String
  | .absent => "nil" | .noHttp => "nohttp" | .status c => toString c

def encObs (o : Obs) : String :=
  toString o.attempt ++ "/" ++ encView o.resp ++ "/" ++ (match o.err with | some k => encErrKind k | none => "-")

/-- Duration the stub interval function `id` answers for `attempt`; the stubs numbered 100 and
up are "Retry-After style": they read the status of the response they are handed; those numbered
200 and up have STATE — a schedule consumed one step per call: the answer depends on `k`, the
number of interval calls made before this one (round 6: an extra call by an observer shifts every
later answer). -/
def stubInterval (id attempt : Nat) (v : RespView) (k : Nat) : Nat :=
  id * 1000 + attempt +
    (if id ≥ 200 then 13 * k
     else if id ≥ 100 then (match v with | .status c => 7 * c | _ => 0) else 0)

/-- Events → tokens; `obs` is the list of observed durations of the backoff calls, consumed in
order; `pass` counts the loop passes begun so far over all sends (= the script position of the
pass in progress), `sets` is what each script position's response stores in the cookie jar. -/
def encEvents (showWire : Bool) (sets : List (List (Bytes × Bytes))) (tot : Nat) :
    List (Event Wire) → List Int → Nat → List String × Nat
  | [], _, pass => ([], pass)
  | e :: t, obs, pass =>
    let cont (tok : String) (obs : List Int) (pass : Nat) : List String × Nat :=
      let r := encEvents showWire sets tot t obs pass
      (tok :: r.1, r.2)
    match e with
    | .before ra => cont ("B" ++ toString ra) obs (pass + 1)
    | .wire ra w =>
      -- the pass in progress has index `pass - 1`
      cont ("W" ++ toString ra ++
        (if showWire then "[" ++ encWire (withJar w (jarBefore sets [] (pass - 1))) ++ "]" else "")) obs pass
    | .after i o => cont ("A" ++ toString i ++ "@" ++ encObs o) obs pass
    | .cond id o r => cont ("C" ++ toString id ++ "@" ++ encObs o ++ "=" ++ (if r then "1" else "0")) obs pass
    | .hook id o => cont ("H" ++ toString id ++ "@" ++ encObs o) obs pass
    | .interval src a v =>
      -- every interval call was observed by the harness; the observation must be what the
      -- installed function answers (exactly, or — for the randomised backoff — within its bounds)
      let pre := "I" ++ toString a ++ "@" ++ encView v ++ "="
      match obs with
      | [] => cont (pre ++ "missing-observation") [] pass
      | d :: obs' =>
        let tok := match src with
          | .dflt => toString (100000000 : Nat)
          | .fn id => toString (stubInterval id a v (tot - obs.length))
          | .fixed n => toString n
          | .backoff mn mx =>
            let h := Req.Backoff.half mn mx a
            -- the repaired function answers 0 when there is nothing to randomise
            let ok := if h ≤ 0 then d == 0 else decide (h ≤ d) && decide (d < 2 * h)
            if ok then toString d else "out-of-bounds:" ++ toString h
        cont (pre ++ tok) obs' pass

def encFinal (f : Final) : String :=
  match f with
  | .panic => "panic"
  | .refused => "refused"
  | .exhausted => "exhausted"
  | .done _ _ =>
    match f.returned with
    | some (resp, err) =>
      let r := match resp with
        | some (a, .status c) => toString a ++ "/" ++ toString c
        | some (_, v) => "-/" ++ encView v
        | none => "-/nohttp"
      let e := match err with
        | some (a, k) => toString a ++ "/" ++ encErrKind k
        | none => "-"
      "R" ++ r ++ ":" ++ e
    | none => "?"

def textPlain : Bytes := ofStr "text/plain; charset=utf-8"

def isXMLType (ct : Bytes) : Bool :=
  -- `util.IsXMLType` on the harness's alphabet of content types
  let s := String.ofList (ct.map fun b => Char.ofNat b.toNat)
  (s.splitOn "xml").length > 1

def mkCfg (cookies : List (Bytes × Bytes)) (headers form query : Multi) (allowGet : Bool)
    (pathParams : List (Bytes × Bytes)) (baseURL scheme : Bytes) : ClientCfg :=
  { cookies, headers, form, query, allowGetPayload := allowGet,
    -- `http.DetectContentType` on the harness's alphabet (printable text; NUL only as padding)
    detect := fun b => if b.any (· == 0) then ofStr "application/octet-stream" else textPlain,
    boundaryCT := ofStr "multipart/form-data; boundary=B",
    formCT := ofStr "application/x-www-form-urlencoded",
    jsonCT := ofStr "application/json; charset=utf-8",
    ctKey := ofStr "Content-Type",
    mGet := ofStr "GET", mHead := ofStr "HEAD", mOptions := ofStr "OPTIONS",
    isXML := isXMLType, pathParams, baseURL,
    schemePrefix := if scheme.isEmpty then [] else scheme ++ ofStr "://" }

def decSeg (s : String) : Option Seg :=
  let rest := dropS s 1
  match takeS s 1 with
  | "l" => (decodeHex rest).map .lit
  | "p" => (decodeHex rest).map .param
  | _ => none

def decUrlT (s : String) : Option (UrlHead × List Seg) :=
  match s.splitOn "|" with
  | [h, segs] => do
    let segs ← (splitList "," segs).mapM decSeg
    let rest := dropS h 1
    match takeS h 1 with
    | "a" => pure (.abs (← decodeHex rest), segs)
    | "s" => pure (.noScheme (← decodeHex rest), segs)
    | "r" => if rest == "" then pure (.rel, segs) else none
    | _ => none
  | _ => none

def mkPolicy (ro : Option RetryOption) (conds : List PredStub) (hooks : List HookStub) (after : List PredStub) :
    Option (Policy ReqState) :=
  match ro with
  | none => some ⟨false, 0, [], [], after.map (·.pred.eval), .dflt⟩
  | some o => do
    let cs ← o.conds.mapM fun id => (conds[id]?).map fun p => (id, p.pred.eval)
    let hs ← o.hooks.mapM fun id => (hooks[id]?).map fun a => (id, a.act.apply)
    pure ⟨true, o.maxRetries, cs, hs, after.map (·.pred.eval), o.interval⟩

/-- The behaviour table of the in-flight edits. -/
def mkEdits (conds : List PredStub) (hooks : List HookStub) (after : List PredStub) (ivx : Option Nat) : Edits :=
  { after := fun i o => StubEdit.eval ((after[i]?).bind (·.edit)) o.attempt,
    cond := fun id o => StubEdit.eval ((conds[id]?).bind (·.edit)) o.attempt,
    hook := fun id o => StubEdit.eval ((hooks[id]?).bind (·.edit)) o.attempt,
    ivl := fun a _ => ⟨none, none, ivx == some a⟩ }

/-- The setter calls before a re-send (`n=`, `i=` only). -/
def decResendOps (s : String) : Option (List Edit) :=
  if s == "_" then some [] else
  (s.splitOn ",").mapM fun t =>
    match decSetter t with
    | some (.count n) => some ⟨some n, none, false⟩
    | some (.interval i) => some ⟨none, some i, false⟩
    | _ => none

def decResend (s : String) : Option (List (List Edit)) := (splitList ";" s).mapM decResendOps

def countIntervals : List (Event Wire) → Nat
  | [] => 0
  | .interval _ _ _ :: t => countIntervals t + 1
  | _ :: t => countIntervals t

/-- What the caller finds on the response finally returned: `K<body><result><dump><trace>`, each
`1` (still what the last attempt buffered), `0` (wiped) or `-` (nothing to observe: no HTTP
response / no result state / dump or trace off or not observable in the lane). -/
def encKept (script : List Outcome) (pass : Nat) (fin : Final) (held : Bool) (dumpObs traceObs bodyObs : String) : String :=
  match fin with
  | .done resp _ =>
    -- the pass whose response is handed back: the last one, or — when a request middleware failed
    -- on a retry — the one before it
    let last := script[pass - 1]?
    let src : Option Outcome :=
      if resp.isNone then none
      else if last == some Outcome.beforeErr then (if pass ≥ 2 then script[pass - 2]? else none)
      else last
    let bit (applicable : Bool) : String := if !applicable then "-" else if held then "1" else "0"
    let hasBody := match src with
      | some (.status _) | some (.badBody _) | some (.lateCancel _) => true
      | _ => false
    let hasResult := match src with
      | some (.status c) | some (.lateCancel c) => (decide (200 ≤ c) && decide (c < 300)) || decide (400 ≤ c)
      | _ => false
    "K" ++ bit (hasBody && bodyObs == "1") ++ bit hasResult ++ bit (dumpObs == "1") ++ bit (traceObs == "1")
  | _ => "K-"

def encSends (showWire : Bool) (sets : List (List (Bytes × Bytes))) (tot : Nat) (script : List Outcome) (dumpObs traceObs bodyObs : String) :
    List (List (Event Wire) × Final × Bool) → List Int → Nat → List String
  | [], _, _ => []
  | (ev, fin, held) :: more, obs, pass =>
    let r := encEvents showWire sets tot ev obs pass
    r.1 ++ [encFinal fin, encKept script r.2 fin held dumpObs traceObs bodyObs] ++
      encSends showWire sets tot script dumpObs traceObs bodyObs more (obs.drop (countIntervals ev)) r.2

def decSets (s : String) : Option (List (List (Bytes × Bytes))) :=
  (splitList "," s).mapM fun t => if t == "-" then some [] else (t.splitOn "+").mapM decPair

/-- `<debugLog><devMode><trace><dump>`, each 0 / 1. -/
def decObservers (s : String) : Option Req.RetryObs.Observers :=
  match s.toList.map (fun c => decBool (String.singleton c)) with
  | [some a, some b, some c, some d] => some ⟨a, b, c, d⟩
  | _ => none

def laneRun (showWire : Bool) : List String → String
  | v :: cops :: rops :: conds :: hooks :: after :: script :: bobs ::
     [cck, chd, cfm, cq, cag,
     method, url, ck, hd, fm, ord, q, mp, files, body, resend, ivx,
     rawq, pp, cpp, cbase, cscheme, sets, dumpObs, traceObs, bodyObs, pre, osw] =>
    let r : Option String := do
      let v ← decVariant v
      let ro := effective (← decSetters cops) (← decSetters rops)
      let conds ← decPreds conds
      let hooks ← decHooks hooks
      let after ← decPreds after
      let p ← mkPolicy ro conds hooks after
      let ivx ← if ivx == "-" then some none else ivx.toNat?.map some
      let ed := mkEdits conds hooks after ivx
      let script ← decScript script
      let resend ← decResend resend
      let bobs ← (splitList "," bobs).mapM String.toInt?
      let cfg := mkCfg (← decPairs cck) (← decMulti chd) (← decMulti cfm) (← decMulti cq) (← decBool cag)
        (← decPairs cpp) (← decodeHex cbase) (← decodeHex cscheme)
      let ut ← decUrlT url
      let st : ReqState := ⟨← decodeHex method, ut.1, ut.2, ← decPairs rawq, ← decPairs pp,
        ← decPairs ck, ← decMulti hd, ← decMulti fm,
        ← decPairs ord, ← decMulti q, ← decBool mp, ← decFiles files, ← decBody body⟩
      let sets ← decSets sets
      let pre ← decPre pre
      -- the caller's middleware first, then the built-in chain
      -- the client's observation switches: the loop as the client with these switches runs it
      -- (`Req.Props.C10Obs.observers_do_not_call_policy`: the same calls whatever they are)
      let osw ← decObservers osw
      let sends := Req.RetryObs.odsends osw .code v p ed (fun ra s => mw v cfg ra (pre ra s)) (unreplayable v)
        resend script 0 st (dynOf p)
      pure (" ".intercalate (encSends showWire sets bobs.length script dumpObs traceObs bodyObs sends bobs 0))
    r.getD "bad-op"
  | _ => "bad-op"

def laneBackoff : List String → String
  | [g, mn, mx, a, d] =>
    let r : Option String := do
      let g ← decBool g
      let mn ← mn.toInt?
      let mx ← mx.toInt?
      let a ← a.toNat?
      -- the jitter is existential: the observed value must be reachable by SOME jitter
      match Req.Backoff.interval g mn mx a 0 with
      | .panic => pure "panic"
      | .ok _ =>
        if d == "p" then pure "ok-expected" else
        let d ← d.toInt?
        let h := Req.Backoff.half mn mx a
        let ok := if h ≤ 0 then d == 0 else decide (h ≤ d) && decide (d < 2 * h)
        pure (if ok then "ok" else "bad:" ++ toString h ++ ":" ++ toString (2 * h))
    r.getD "bad-op"
  | _ => "bad-op"

def encInterval : IntervalSrc → String
  | .dflt => "d" | .fn id => "f" ++ toString id | .fixed d => "x" ++ toString d
  | .backoff a b => "b" ++ toString a ++ ":" ++ toString b

def lanePolicy : List String → String
  | [cops, rops] =>
    let r : Option String := do
      match effective (← decSetters cops) (← decSetters rops) with
      | none => pure "nil"
      | some o =>
        pure ("n=" ++ toString o.maxRetries ++ " i=" ++ encInterval o.interval ++
          " c=" ++ encodeNatList o.conds ++ " h=" ++ encodeNatList o.hooks)
    r.getD "bad-op"
  | _ => "bad-op"

/-! ### `c10inner <honest> <proto> <N|-2> <method> <idem> <digest> <kind> <script> <reusedObs>` -/

section inner
open Req.Exchange

def decCut (s : String) : Option Cut :=
  match s with
  | "h" => some .headers | "p" => some .half | "f" => some .full | _ => none

def decAct (s : String) : Option Act :=
  let rest := dropS s 2
  match takeS s 2 with
  | "ok" => rest.toNat?.map .answer
  | "rd" => rest.toNat?.map .redirect
  | "dg" => if rest == "" then some .challenge else none
  | "ga" => (decCut (dropS rest 1)).map .goAway
  | "rs" => (decCut (dropS rest 1)).map .refused
  | "cl" => (decCut (dropS rest 1)).map .hangUp
  | _ => none

def decKind (s : String) : Option BodyKind :=
  match s with
  | "n" => some .none
  | "b" | "s" | "u" | "m" | "f" | "x" => some .fresh
  | "r" | "c" => some .once
  | "p" => some .pipe
  | _ => none

def encSent : Sent → String
  | .none => "none" | .full => "full" | .part => "part" | .drained => "drained"

def laneInner : List String → String
  | [honest, proto, n, method, idem, digest, kind, script, obs] =>
    let r : Option String := do
      let honest ← decBool honest
      let proto ← if proto == "h1" then some Proto.h1 else if proto == "h2" then some Proto.h2 else none
      let retries ← if n == "-2" then some none else n.toInt?.map some
      let idem ← decBool idem
      let idempotent := idem || method == "GET" || method == "HEAD" || method == "OPTIONS" || method == "TRACE"
      let cfg : Cfg := ⟨proto, retries, idempotent, ← decBool digest, ← decKind kind, honest⟩
      let acts ← (splitList "," script).mapM decAct
      let reused ← (splitList "," obs).mapM decBool
      -- the peer answers 200 once its script has run out
      let len := max acts.length reused.length + 2
      let sc := (List.range len).map fun i => (acts.getD i (.answer 200), reused.getD i false)
      let res := run cfg sc
      let exs := res.1.map fun e =>
        "E" ++ toString e.attempt ++ ":" ++ method ++ ":" ++ encSent e.sent ++ (if e.auth then "+auth" else "")
      let fin := match res.2 with
        | .status c ra => "F" ++ toString c ++ "@" ++ toString ra
        | .err ra => "Ferr@" ++ toString ra
        | .refused => "Frefused"
        | .exhausted => "Fexhausted"
      pure (" ".intercalate (exs ++ [fin]))
    r.getD "bad-op"
  | _ => "bad-op"

end inner

/-- `c10half <min> <max> <attempt>` → `halfTemp` of the exact float model;
`c10backoff64 <min> <max> <attempt> <jitter>` → the interval for that value of `rand.Int63n`. -/
def laneHalf64 : List String → String
  | [mn, mx, a] =>
    let r : Option String := do
      pure (toString (Req.Backoff64.half (← mn.toInt?) (← mx.toInt?) (← a.toNat?)))
    r.getD "bad-op"
  | _ => "bad-op"

def laneBackoff64 : List String → String
  | [mn, mx, a, j] =>
    let r : Option String := do
      pure ("ok:" ++ toString (Req.Backoff64.interval (← mn.toInt?) (← mx.toInt?) (← a.toNat?) (← j.toNat?)))
    r.getD "bad-op"
  | _ => "bad-op"

/-- `c10kind <cause> <ctx> <code>` → the script symbol of `Att.outcome`, whether an error of that
cause matches `context.DeadlineExceeded` / `context.Canceled` under `errors.Is`, coherence. -/
def laneKind : List String → String
  | [cause, ctx, code] =>
    let r : Option String := do
      let cause ← match cause with
        | "none" => some Req.RetryKinds.Cause.none | "transport" => some .transport
        | "clientTimeout" => some .clientTimeout | "netTimeout" => some .netTimeout
        | "ctxDeadline" => some .ctxDeadline | "ctxCanceled" => some .ctxCanceled | _ => none
      let ctx ← match ctx with
        | "alive" => some Req.RetryKinds.Ctx.alive | "canceled" => some .canceled | "expired" => some .expired | _ => none
      let a : Req.RetryKinds.Att := ⟨cause, ← code.toNat?, ctx⟩
      let sym ← match a.outcome with
        | .status c => some ("s" ++ toString c) | .lateCancel c => some ("L" ++ toString c)
        | .cancelled => some "c" | .transportErr => some "t" | .lateTransport => some "T"
        | .deadline => some "d" | .deadlineCtx => some "D" | _ => none
      let b (x : Bool) : String := if x then "1" else "0"
      pure (sym ++ " dl=" ++ b cause.isDeadlineExceeded ++ " cn=" ++ b cause.isCanceled ++ " coh=" ++ b a.coherent)
    r.getD "bad-op"
  | _ => "bad-op"

def lanes : List (String × (List String → String)) := [
  ("c10kind", laneKind),
  ("c10half", laneHalf64),
  ("c10backoff64", laneBackoff64),
  ("c10inner", laneInner),
  ("c10run", laneRun true),
  -- same model, the per-attempt wire requests not printed (the e2e lane compares raw captures itself)
  ("c10trace", laneRun false),
  ("c10backoff", laneBackoff),
  ("c10policy", lanePolicy)
]

end Req.Driver.L.C10
