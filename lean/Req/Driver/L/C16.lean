import Req.Driver.Proto
import Req.Client.HeaderSort
/-! Driver lanes of C16. -/
namespace Req.Driver.L.C16
open Req.Proto

/-- `sort <keys> <order>` → sorted keys + the input-position tag each one carries. -/
def laneSort : List String → String
  | [keys, order] =>
    match decodeList keys, decodeList order with
    | some ks, some os =>
      let kvs := ks.zipIdx.map fun (k, i) => (⟨k, [ofStr (toString i)]⟩ : Req.HeaderSort.KV)
      let out := Req.HeaderSort.sortKeyValues kvs os
      encodeList (out.map fun kv => kv.key) ++ " " ++
        encodeList (out.map fun kv => kv.values.headD [])
    | _, _ => "bad-op"
  | _ => "bad-op"

def lanes : List (String × (List String → String)) := [
  ("sort", laneSort)
]

end Req.Driver.L.C16
