import Req.Driver.Proto
import Req.Client.HeaderSort
import Req.Client.HeaderSortSpec
import Req.H2.Fields
import Req.Driver.WireUtil
import Req.H2.HeaderBlock
import Req.Client.Resend
import Req.Client.Rewrite
import Req.Client.SharedScratch
import Req.Client.OrderScope
/-! Driver lanes of C16. -/
namespace Req.Driver.L.C16
open Req.Proto

/-- `sort <keys> <order>` → sorted keys + the input-position tag each one carries. -/
def laneSort : List String → String
  | [keys, order] =>
    match decodeList keys, decodeList order with
    | some ks, some os =>
      let kvs := ks.zipIdx.map fun (k, i) => (⟨k, [ofStr (toString i)]⟩ : Req.HeaderSort.KV)
      let out := Req.HeaderSort.sortKeyValues kvs os
      encodeList (out.map fun kv => kv.key) ++ " " ++
        encodeList (out.map fun kv => kv.values.headD [])
    | _, _ => "bad-op"
  | _ => "bad-op"


/-- `c16listed <keys> <order>` → the SPECIFICATION's answer (HeaderSortSpec): the listed keys stably
sorted by the position of the last list entry naming them (+ the input-position tag of each), then
the duplicate-free form of the order list (`dedupLast`), then the listed keys under that form. -/
def laneListed : List String → String
  | [keys, order] =>
    match decodeList keys, decodeList order with
    | some ks, some os =>
      let kvs := ks.zipIdx.map fun (k, i) => (⟨k, [ofStr (toString i)]⟩ : Req.HeaderSort.KV)
      let out := Req.HeaderSort.listedSorted kvs os
      let dd := Req.HeaderSort.dedupLast os
      let out2 := Req.HeaderSort.listedSorted kvs dd
      encodeList (out.map fun kv => kv.key) ++ " " ++ encodeList (out.map fun kv => kv.values.headD []) ++ " " ++
        encodeList dd ++ " " ++ encodeList (out2.map fun kv => kv.values.headD [])
    | _, _ => "bad-op"
  | _ => "bad-op"

def encodeFields (l : List (Bytes × Bytes)) : String :=
  if l.isEmpty then "-" else ",".intercalate (l.map fun f => encodeHex f.1 ++ ":" ++ encodeHex f.2)

def fieldLe (a b : Bytes × Bytes) : Bool :=
  if a.1 == b.1 then Req.BStr.le a.2 b.2 else Req.BStr.le a.1 b.1

def showFErr : Req.H2.FErr → String
  | .nonAsciiHost => "err:outside"
  | .invalidHost => "err:host"
  | .invalidPath => "err:path"
  | .invalidHeader => "err:header"
  | .headerListTooLarge => "err:toolarge"

/-- `c16fields <h2|h3> <method> <rawurl> <host> <hdr> <cl> <hasBody> <noBody> <gzip> <maxHeaderListSize|->` → the field
list of the header block in canonical form: pseudo fields in order, regular fields sorted (their
wire order follows Go's map iteration), canonical names of the LISTED regular fields in order. -/
def laneFields : List String → String
  | [fl, m, raw, host, hdr, cl, hb, nb, gz, lim] =>
    let fl? : Option Req.H2.Flavor :=
      if fl == "h2" then some .h2 else if fl == "h3" then some .h3 else none
    let lim? : Option (Option Nat) := if lim == "-" then some none else lim.toNat?.map some
    match fl?, decodeHex m, decodeHex raw, decodeHex host, Wire.decodeHdr hdr, decodeInt cl,
          Wire.decodeBool hb, Wire.decodeBool nb, Wire.decodeBool gz, lim? with
    | some fl, some m, some raw, some host, some hdr, some cl, some hb, some nb, some gz, some lim =>
      match Req.Url.parse raw with
      | .error _ => "bad-op"
      | .ok u =>
        let r : Req.H2.FReq := { method := m, url := u, host := host, header := hdr,
                                 contentLength := cl, hasBody := hb, noBody := nb, addGzip := gz,
                                 maxHeaderList := lim }
        match Req.H2.fields fl r with
        | .error e => showFErr e
        | .ok fs =>
          let pseudo := fs.filter fun f => f.1.head? == some 58
          let regular := fs.filter fun f => f.1.head? != some 58
          let order := Req.H1.orderList hdr
          let listed := regular.filterMap fun f =>
            if (Req.HeaderSort.lastIndex order f.1).isSome
            then some (Req.Ascii.canonicalMIMEHeaderKey f.1) else none
          "ok " ++ encodeFields pseudo ++ " " ++ encodeFields (regular.mergeSort fieldLe) ++ " " ++
            encodeList listed
    | _, _, _, _, _, _, _, _, _, _ => "bad-op"
  | _ => "bad-op"

def showHFrame (f : Req.H2.HeaderBlock.HFrame) : String :=
  (if f.cont then "C" else "H") ++ toString f.frag.length ++
    (if f.endHeaders then "h" else "") ++ (if f.endStream then "s" else "") ++
    (if f.prio then "p" else "")

def showRecv : Req.H2.HeaderBlock.Recv → String
  | .idle => "idle"
  | .waiting acc _ => s!"waiting:{acc.length}"
  | .delivered b es => s!"delivered:{b.length}:{if es then 1 else 0}"
  | .error => "error"

/-- `c16hframes <blockLen> <maxFrameSize> <prio 0|1> <endStream 0|1>` → the HEADERS / CONTINUATION
frames `writeHeaders` emits for a block of that length (fragment length + flags each) and what a
peer enforcing that frame size ends up with. -/
def laneHFrames : List String → String
  | [len, mf, pr, es] =>
    match len.toNat?, mf.toNat?, Wire.decodeBool pr, Wire.decodeBool es with
    | some len, some mf, some pr, some es =>
      if mf ≤ 5 then "bad-op" else
      let fs := Req.H2.HeaderBlock.writeHeaders es pr mf (List.replicate len 0)
      (if fs.isEmpty then "-" else ",".intercalate (fs.map showHFrame)) ++ " " ++
        showRecv (Req.H2.HeaderBlock.receive mf fs)
    | _, _, _, _ => "bad-op"
  | _ => "bad-op"

def decodeKind (kind p : String) : Option Req.Resend.Kind :=
  match kind, decodeHex p with
  | "same", some _ => some .same
  | "digest", some a => some (.digest a)
  | "redir0", some ref => some (.redirect false ref)
  | "redir1", some ref => some (.redirect true ref)
  | _, _ => none

def showWErr : Req.H1.WErr → String
  | .nonAsciiHost => "err:outside"
  | .invalidHostProxy => "err:hostproxy"
  | .ctlInURI => "err:ctl"
  | .contentLengthNilBody => "err:clnil"
  | .bodyLength => "err:bodylen"

/-- `c16resend <same|digest|redir0|redir1> <param> <disableCompression> <disableKeepAlives>
<method> <rawurl> <host> <hdr1> <cl> <hasBody> <body> <close>`: the bytes on an HTTP/1.1 connection
for a SECOND send whose header map derives from the FIRST request's header map `hdr1` by the given
mechanism (`same` with the first request's own attributes = the first send itself); method, URL,
Host, body are those of the request being written; the transport's extra headers are computed
(`transportExtra`). Exact in normal mode, `Wire.showOrdered` in header-order mode. -/
def laneResend : List String → String
  | [kind, p, dc, dk, m, raw, host, hdr, cl, hb, body, close] =>
    match decodeKind kind p, Wire.decodeBool dc, Wire.decodeBool dk, decodeHex m, decodeHex raw,
          decodeHex host, Wire.decodeHdr hdr, decodeInt cl, Wire.decodeBool hb, Wire.decodeBody body,
          Wire.decodeBool close with
    | some kind, some dc, some dk, some m, some raw, some host, some hdr, some cl, some hb, some body,
      some close =>
      match Req.Url.parse raw with
      | .error _ => "bad-op"
      | .ok u =>
        let r0 : Req.H1.WReq := { method := m, url := u, host := host,
                                  header := Req.Resend.secondHeader kind hdr, contentLength := cl,
                                  hasBody := hb, body := body, close := close }
        let r := { r0 with extra := Req.Resend.transportExtra dc dk r0 }
        match Req.H1.serializeH1 r with
        | .error e => showWErr e
        | .ok wire =>
          let order := Req.H1.orderList r.header
          if order.isEmpty then "ok " ++ Wire.showBlob wire else Wire.showOrdered wire order
    | _, _, _, _, _, _, _, _, _, _, _ => "bad-op"
  | _ => "bad-op"


/-- the case line of `c01h1` (decoded here too, so that the C16 driver file stands on its own):
`<method> <rawurl> <host> <hdr> <cl> <hasBody> <body> <reads> <close> <extra> <proxy> <rawQuery>`. -/
def decodeWReq : List String → Option Req.H1.WReq
  | [m, raw, host, hdr, cl, hb, body, reads, close, extra, proxy, rq] => do
    let m ← decodeHex m
    let raw ← decodeHex raw
    let host ← decodeHex host
    let hdr ← Wire.decodeHdr hdr
    let cl ← decodeInt cl
    let hb ← Wire.decodeBool hb
    let body ← Wire.decodeBody body
    let reads ← decodeNatList reads
    let close ← Wire.decodeBool close
    let extra ← Wire.decodeHdr extra
    let proxy ← Wire.decodeBool proxy
    let rq ← if rq == "-" then pure none else (decodeHex rq).map some
    match Req.Url.parse raw with
    | .ok u0 =>
      let u := match rq with
        | some q => { u0 with rawQuery := q }
        | none => u0
      pure { method := m, url := u, host := host, header := hdr, contentLength := cl,
             hasBody := hb, body := body, reads := reads, close := close, extra := extra,
             usingProxy := proxy }
    | .error _ => none
  | _ => none

def encodeHdrSorted (h : List Req.HeaderSort.KV) : String :=
  let h := h.mergeSort fun a b => Req.BStr.le a.key b.key
  if h.isEmpty then "-" else
  ",".intercalate (h.map fun kv => ":".intercalate (encodeHex kv.key :: kv.values.map encodeHex))

/-- `c16rewrite <n> <c01h1 arguments…>`: the SAME request object written `n` times in a row by
`persistConn.writeRequest` (transparent re-send on a new connection): the rendering of every
attempt (as `c01h1`), then the header map the request is left with (sorted by key; rendered by
meaning: the values of the keys the writer writes in their sanitised form — idempotent, so the
in-place sanitising of `headerWriteSubset` and a copying implementation give the same answer). -/
def laneRewrite : List String → String
  | n :: args =>
    match n.toNat?, decodeWReq args with
    | some n, some r =>
      let res := Req.Rewrite.writeAttempts n r
      let order := Req.H1.orderList r.header
      let showOne : Except Req.H1.WErr Bytes → String
        | .error e => showWErr e
        | .ok wire => if order.isEmpty then "ok " ++ Wire.showBlob wire else Wire.showOrdered wire order
      " | ".intercalate (res.1.map showOne) ++ " after=" ++
        encodeHdrSorted (Req.Rewrite.sanitizedInPlace res.2.header Req.H1.reqWriteExcludeHeader)
    | _, _ => "bad-op"
  | _ => "bad-op"

/-- `c16values <h2|h3> …` (arguments of `c16fields`) → for every header-map key whose lower-cased
name has a single spelling in the map, sorted by name: the values of the fields of that name in
ARRIVAL order (value order and multiplicity within a name; independent of the map iteration
order). -/
def laneValues : List String → String
  | [fl, m, raw, host, hdr, cl, hb, nb, gz, lim] =>
    let fl? : Option Req.H2.Flavor :=
      if fl == "h2" then some .h2 else if fl == "h3" then some .h3 else none
    let lim? : Option (Option Nat) := if lim == "-" then some none else lim.toNat?.map some
    match fl?, decodeHex m, decodeHex raw, decodeHex host, Wire.decodeHdr hdr, decodeInt cl,
          Wire.decodeBool hb, Wire.decodeBool nb, Wire.decodeBool gz, lim? with
    | some fl, some m, some raw, some host, some hdr, some cl, some hb, some nb, some gz, some lim =>
      match Req.Url.parse raw with
      | .error _ => "bad-op"
      | .ok u =>
        let r : Req.H2.FReq := { method := m, url := u, host := host, header := hdr,
                                 contentLength := cl, hasBody := hb, noBody := nb, addGzip := gz,
                                 maxHeaderList := lim }
        match Req.H2.fields fl r with
        | .error e => showFErr e
        | .ok fs =>
          let lowers := hdr.map fun kv => Req.Ascii.lower kv.key
          let names := (lowers.filter fun n => lowers.count n == 1).mergeSort Req.BStr.le
          if names.isEmpty then "vals -" else
          "vals " ++ ",".intercalate (names.map fun n =>
            encodeHex n ++ "=" ++
              ":".intercalate ((fs.filter fun f => f.1 == n).map fun f => encodeHex f.2))
    | _, _, _, _, _, _, _, _, _, _ => "bad-op"
  | _ => "bad-op"


/-- names the three stacks write or rewrite themselves (outside the cross-protocol comparison). -/
def xOwn : List Bytes :=
  [Req.H2.sHostL, Req.H2.sUserAgentL, Req.H2.sContentLengthL, Req.H2.sTransferEncodingL,
   Req.H2.sConnectionL, Req.H2.sAcceptEncodingL, Req.H2.sCookieL, [116, 101],
   [116, 114, 97, 105, 108, 101, 114]]

def trimBlanks (v : Bytes) : Bytes :=
  ((v.dropWhile fun b => b == 32 || b == 9).reverse.dropWhile fun b => b == 32 || b == 9).reverse

/-- `c16xbag <h2|h3> …` (arguments of `c16fields`) → what an origin's handler sees of the caller's
headers: the regular fields whose name no stack owns, as sorted `name: value` lines (values
without surrounding blanks). -/
def laneXBag : List String → String
  | [fl, m, raw, host, hdr, cl, hb, nb, gz, lim] =>
    let fl? : Option Req.H2.Flavor :=
      if fl == "h2" then some .h2 else if fl == "h3" then some .h3 else none
    let lim? : Option (Option Nat) := if lim == "-" then some none else lim.toNat?.map some
    match fl?, decodeHex m, decodeHex raw, decodeHex host, Wire.decodeHdr hdr, decodeInt cl,
          Wire.decodeBool hb, Wire.decodeBool nb, Wire.decodeBool gz, lim? with
    | some fl, some m, some raw, some host, some hdr, some cl, some hb, some nb, some gz, some lim =>
      match Req.Url.parse raw with
      | .error _ => "bad-op"
      | .ok u =>
        let r : Req.H2.FReq := { method := m, url := u, host := host, header := hdr,
                                 contentLength := cl, hasBody := hb, noBody := nb, addGzip := gz,
                                 maxHeaderList := lim }
        match Req.H2.fields fl r with
        | .error e => showFErr e
        | .ok fs =>
          let keep := fs.filter fun f => f.1.head? != some 58 && !xOwn.contains f.1
          let lines := keep.map fun f => f.1 ++ [58, 32] ++ trimBlanks f.2
          "bag " ++ encodeList (lines.mergeSort Req.BStr.le)
    | _, _, _, _, _, _, _, _, _, _ => "bad-op"
  | _ => "bad-op"

/-- `c16scratch <hold 0|1> <cap|-> <lens> <sched>` → the model of writers borrowing a shared scratch
object (`Req.SharedScratch`): writer `i` has the items `1000·i + k` (k < lens[i]); after the schedule,
for every writer its phase and what it has put on its own connection. -/
def laneScratch : List String → String
  | [hold, cap, lens, sched] =>
    let cap? : Option (Option Nat) := if cap == "-" then some none else cap.toNat?.map some
    match Wire.decodeBool hold, cap?, decodeNatList lens, decodeNatList sched with
    | some hold, some cap, some lens, some sched =>
      let reqs : Nat → List Nat := fun i => (List.range (lens.getD i 0)).map fun k => 1000 * i + k
      let s := Req.SharedScratch.run hold cap reqs Req.SharedScratch.init sched
      " ".intercalate ((List.range lens.length).map fun i =>
        let ph := match s.phase i with
          | .idle => "idle"
          | .holding _ _ => "writing"
          | .done => "done"
        "w" ++ toString i ++ "=" ++ ph ++ ":" ++ encodeNatList (s.out i))
    | _, _, _, _ => "bad-op"
  | _ => "bad-op"

def decodeDotList (s : String) : Option (List Bytes) :=
  if s == "-" then some [] else (s.splitOn ".").mapM decodeHex

def encodeDotList (l : List Bytes) : String :=
  if l.isEmpty then "-" else ".".intercalate (l.map encodeHex)

/-- `c16cloneorder <op> <op> …` with ops `h:<client>:<list>` (SetCommonHeaderOrder), `p:<client>:<list>`
(SetCommonPseudoHeaderOder), `k:<src>:<dst>` (Clone), `s:<client>:<request-level list|~>:<names on the wire>`
(a request sent by that client; lists are `.`-joined hex) → for every send: the names on the wire that the
effective header-order list names, in the order the specification of the sort puts them
(`HeaderSortSpec.listedSorted`), the effective header-order list and the effective
pseudo-header-order list (`~` none). Model:
`Req.OrderScope` (wrapper lists per client, copied by Clone; the oldest wrapper assigns last). -/
def laneCloneOrder (args : List String) : String :=
  let rec go (st : Req.OrderScope.Store) (acc : List String) : List String → Option (List String)
    | [] => some acc.reverse
    | a :: rest =>
      match a.splitOn ":" with
      | ["h", c, l] =>
        match c.toNat?, decodeDotList l with
        | some c, some l => go (Req.OrderScope.apply st (.setOrder c l)) acc rest
        | _, _ => none
      | ["p", c, l] =>
        match c.toNat?, decodeDotList l with
        | some c, some l => go (Req.OrderScope.apply st (.setPseudo c l)) acc rest
        | _, _ => none
      | ["k", s, d] =>
        match s.toNat?, d.toNat? with
        | some s, some d => go (Req.OrderScope.apply st (.clone s d)) acc rest
        | _, _ => none
      | ["s", c, rl, names] =>
        let rl? : Option (Option (List Bytes)) := if rl == "~" then some none else (decodeDotList rl).map some
        match c.toNat?, rl?, decodeDotList names with
        | some c, some rl, some names =>
          let eh := Req.OrderScope.effective (st c).hdr rl
          let ep := Req.OrderScope.effective (st c).pse none
          let kvs := names.map fun k => (⟨k, []⟩ : Req.HeaderSort.KV)
          let listed := match eh with
            | none => []
            | some order => (Req.HeaderSort.listedSorted kvs order).map fun kv => kv.key
          let showP := match ep with
            | none => "~"
            | some l => encodeDotList l
          let showE := match eh with
            | none => "~"
            | some l => encodeDotList l
          go st (("H=" ++ encodeDotList listed ++ "/E=" ++ showE ++ "/P=" ++ showP) :: acc) rest
        | _, _, _ => none
      | _ => none
  match go Req.OrderScope.fresh [] args with
  | some out => if out.isEmpty then "none" else " ".intercalate out
  | none => "bad-op"

def lanes : List (String × (List String → String)) := [
  ("c16scratch", laneScratch),
  ("c16cloneorder", laneCloneOrder),
  ("c16values", laneValues),
  ("c16rewrite", laneRewrite),
  ("c16listed", laneListed),
  ("c16xbag", laneXBag),
  ("c16hframes", laneHFrames),
  ("c16resend", laneResend),
  ("sort", laneSort),
  ("c16fields", laneFields)
]

end Req.Driver.L.C16
