import Req.Driver.Proto
import Req.Client.Result
/-! Driver lanes of C18 (classification and binding; the pipeline lane is in `C18Pipe`). -/
namespace Req.Driver.L.C18
open Req.Proto Req.Result

def parseBool : String → Option Bool
  | "0" => some false
  | "1" => some true
  | _ => none

def parseState : String → Option (Option ResultState)
  | "-" => some none
  | "S" => some (some .success)
  | "E" => some (some .error)
  | "U" => some (some .unknown)
  | _ => none

def showState : ResultState → String
  | .success => "S"
  | .error => "E"
  | .unknown => "U"

def showBool (b : Bool) : String := if b then "1" else "0"

def parseErr (s : String) : Option (Option Err) :=
  if s == "-" then some none
  else if s == "unm" then some (some .unmarshal)
  else if s == "read" then some (some .read)
  else if s == "getbody" then some (some .getBody)
  else if s == "builtin" then some (some .builtin)
  else if s == "builder" then some (some .builder)
  else if s == "unreplay" then some (some .unreplayable)
  else if s == "digest" then some (some .digest)
  else if s.startsWith "s" then (s.drop 1).toNat?.map fun n => some (.stage n)
  else none

def showErr : Option Err → String
  | none => "-"
  | some (.stage n) => "s" ++ toString n
  | some .unmarshal => "unm"
  | some .read => "read"
  | some .getBody => "getbody"
  | some .builtin => "builtin"
  | some .builder => "builder"
  | some .unreplayable => "unreplay"
  | some .digest => "digest"

def showCodec : Option Codec → String
  | none => "-"
  | some .json => "json"
  | some .xml => "xml"

def showSlotErr : Option Target → String
  | none => "-"
  | some .errorReq => "R"
  | some .errorCommon => "C"
  | some .success => "?"

/-- `c18classify <hasHttp> <custom> <status>` → `<state> <isSuccessState> <isErrorState> <autoReadGuard>` -/
def laneClassify : List String → String
  | [hh, cu, st] =>
    match parseBool hh, parseState cu, decodeInt st with
    | some hh, some cu, some st =>
      showState (classify hh cu st) ++ " " ++ showBool (isSuccessState hh cu st) ++ " " ++
        showBool (isErrorState hh cu st) ++ " " ++ showBool (autoReadStatus st)
    | _, _, _ => "bad-op"
  | _ => "bad-op"

/-- `c18ct <content-type hex>` → `json|xml` -/
def laneCt : List String → String
  | [ct] =>
    match decodeHex ct with
    | some ct => showCodec (some (codecFor ct))
    | none => "bad-op"
  | _ => "bad-op"

/-- `c18bind <hasHttp> <status> <custom> <succTarget> <errTarget> <commonErr> <respErr> <cached>
<readOK> <ct> <jsonOK> <xmlOK>` → `res=… err=… ret=… respErr=… cached=… codec=…` -/
def laneBind : List String → String
  | [hh, st, cu, sT, eT, cE, re, ca, rd, ct, jo, xo] =>
    match parseBool hh, decodeInt st, parseState cu, parseBool sT, parseBool eT, parseBool cE,
          parseErr re, parseBool ca, parseBool rd, decodeHex ct, parseBool jo, parseBool xo with
    | some hh, some st, some cu, some sT, some eT, some cE, some re, some ca, some rd, some ct, some jo, some xo =>
      let h : Http := { status := st, ct := ct, custom := cu, readOK := rd, jsonOK := jo, xmlOK := xo }
      let o := parseBody { http := if hh then some h else none, successTarget := sT, errorTarget := eT,
                           commonErr := cE, respErr := re, bodyCached := ca, slots := {} }
      "res=" ++ showBool o.slots.result ++ " err=" ++ showSlotErr o.slots.error ++ " ret=" ++ showErr o.err ++
        " respErr=" ++ showErr o.respErr ++ " cached=" ++ showBool o.bodyCached ++ " codec=" ++ showCodec o.codec
    | _, _, _, _, _, _, _, _, _, _, _, _ => "bad-op"
  | _ => "bad-op"

def lanes : List (String × (List String → String)) := [
  ("c18classify", laneClassify),
  ("c18ct", laneCt),
  ("c18bind", laneBind)
]

end Req.Driver.L.C18
