import Req.Driver.Proto
/-! Driver lanes of C18. -/
namespace Req.Driver.L.C18
open Req.Proto

def lanes : List (String × (List String → String)) := []

end Req.Driver.L.C18
