import Req.Driver.L.C18Codec
import Req.Driver.L.C18Pipe
import Req.Driver.L.C18Clone
import Req.Driver.L.C18Finish
/-! Driver lanes of C18 (classification and binding; the pipeline lane is in `C18Pipe`). -/
namespace Req.Driver.L.C18
open Req.Proto Req.Result

/-- `c18classify <hasHttp> <custom> <status>` → `<state> <isSuccessState> <isErrorState> <autoReadGuard>` -/
def laneClassify : List String → String
  | [hh, cu, st] =>
    match parseBool hh, parseState cu, decodeInt st with
    | some hh, some cu, some st =>
      showState (classify hh cu st) ++ " " ++ showBool (isSuccessState hh cu st) ++ " " ++
        showBool (isErrorState hh cu st) ++ " " ++ showBool (autoReadStatus st)
    | _, _, _ => "bad-op"
  | _ => "bad-op"

/-- `c18ct <content-type hex>` → `json|xml` -/
def laneCt : List String → String
  | [ct] =>
    match decodeHex ct with
    | some ct => showCodec (some (codecFor ct))
    | none => "bad-op"
  | _ => "bad-op"

/-- `c18bind <hasHttp> <status> <custom> <succTarget> <errTarget> <commonErr> <respErr> <cached>
<readOK> <ct> <jsonOK> <xmlOK> [<xf>]` → `res=… err=… ret=… respErr=… cached=… codec=…` -/
def laneBind13 : List String → String
  | [hh, st, cu, sT, eT, cE, re, ca, rd, ct, jo, xo, xf] =>
    match parseBool hh, decodeInt st, parseState cu, parseBool sT, parseBool eT, parseBool cE,
          parseErr re, parseBool ca, parseBool rd, decodeHex ct, parseBool jo, parseBool xo, parseXf xf with
    | some hh, some st, some cu, some sT, some eT, some cE, some re, some ca, some rd, some ct, some jo, some xo, some xf =>
      let h : Http := { status := st, ct := ct, custom := cu, readOK := rd, jsonOK := jo, xmlOK := xo, xf := xf }
      let o := parseBody { http := if hh then some h else none, successTarget := sT, errorTarget := eT,
                           commonErr := cE, respErr := re, bodyCached := ca, slots := {} }
      "res=" ++ showBool o.slots.result ++ " err=" ++ showSlotErr o.slots.error ++ " ret=" ++ showErr o.err ++
        " respErr=" ++ showErr o.respErr ++ " cached=" ++ showBool o.bodyCached ++ " codec=" ++ showCodec o.codec
    | _, _, _, _, _, _, _, _, _, _, _, _, _ => "bad-op"
  | _ => "bad-op"

def laneBind (args : List String) : String :=
  if args.length = 12 then laneBind13 (args ++ ["-"]) else laneBind13 args

def lanes : List (String × (List String → String)) := [
  ("c18classify", laneClassify),
  ("c18ct", laneCt),
  ("c18bind", laneBind),
  ("c18pipe", lanePipe),
  ("c18clone", laneClone),
  ("c18consume", laneConsume),
  ("c18finish", laneFinish)
]

end Req.Driver.L.C18
