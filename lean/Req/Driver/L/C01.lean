import Req.Driver.Proto
/-! Driver lanes of C01. -/
namespace Req.Driver.L.C01
open Req.Proto

def lanes : List (String × (List String → String)) := []

end Req.Driver.L.C01
