import Req.Driver.Proto
import Req.Client.Url
/-! Driver lanes of C01. -/
namespace Req.Driver.L.C01
open Req.Proto

/-- `k:v,k:v` (hex) or `-`. -/
def decodePMap (s : String) : Option (List (Bytes × Bytes)) :=
  if s == "-" then some [] else
  (s.splitOn ",").mapM fun e =>
    match e.splitOn ":" with
    | [k, v] => do pure ((← decodeHex k), (← decodeHex v))
    | _ => none

/-- `k:v1:v2,k2,k3:v` (hex; a bare key has no values) or `-`. -/
def decodeQMap (s : String) : Option (List (Bytes × List Bytes)) :=
  if s == "-" then some [] else
  (s.splitOn ",").mapM fun e =>
    match e.splitOn ":" with
    | k :: vs => do pure ((← decodeHex k), (← vs.mapM decodeHex))
    | [] => none

def b01 (b : Bool) : String := if b then "1" else "0"

def showUrl (u : Req.Url.Url) : String :=
  let user := match u.user with
    | none => "-"
    | some (n, none) => encodeHex n
    | some (n, some p) => encodeHex n ++ ":" ++ encodeHex p
  s!"ok scheme={encodeHex u.scheme} opaque={encodeHex u.opaq} user={user} host={encodeHex u.host} " ++
  s!"path={encodeHex u.path} rawpath={encodeHex u.rawPath} omit={b01 u.omitHost} " ++
  s!"fq={b01 u.forceQuery} rq={encodeHex u.rawQuery} frag={encodeHex u.fragment} " ++
  s!"rawfrag={encodeHex u.rawFragment} ruri={encodeHex (Req.Url.requestURI u)}"

def showUrlResult : Except Req.Url.Err Req.Url.Url → String
  | .ok u => showUrl u
  | .error _ => "err"

/-- `c01url <rawURL> <rPath> <cPath> <cScheme> <baseURL> <cQuery> <rQuery>` -/
def laneUrl : List String → String
  | [raw, rp, cp, sch, base, cq, rq] =>
    match decodeHex raw, decodePMap rp, decodePMap cp, decodeHex sch, decodeHex base,
          decodeQMap cq, decodeQMap rq with
    | some raw, some rp, some cp, some sch, some base, some cq, some rq =>
      showUrlResult (Req.Url.parseRequestURL
        { rawURL := raw, rPath := rp, cPath := cp, cScheme := sch, baseURL := base,
          cQuery := cq, rQuery := rq })
    | _, _, _, _, _, _, _ => "bad-op"
  | _ => "bad-op"

/-- `c01parse <raw>`: `url.Parse` + `String()` + `RequestURI()`. -/
def laneParse : List String → String
  | [raw] =>
    match decodeHex raw with
    | some raw =>
      match Req.Url.parse raw with
      | .ok u => showUrl u ++ " str=" ++ encodeHex (Req.Url.toString u)
      | .error _ => "err"
    | none => "bad-op"
  | _ => "bad-op"

/-- `c01esc <mode> <s>`: escape, then unescape of the input itself. -/
def laneEsc : List String → String
  | [mode, s] =>
    let m : Option Req.Pct.Mode := match mode with
      | "path" => some .path | "seg" => some .pathSegment | "host" => some .host
      | "zone" => some .zone | "user" => some .userPassword | "query" => some .queryComponent
      | "frag" => some .fragment | _ => none
    match m, decodeHex s with
    | some m, some s =>
      encodeHex (Req.Pct.escape m s) ++ " " ++
        (match Req.Pct.unescape m s with
         | some r => "ok:" ++ encodeHex r
         | none => "err")
    | _, _ => "bad-op"
  | _ => "bad-op"

def lanes : List (String × (List String → String)) := [
  ("c01url", laneUrl),
  ("c01parse", laneParse),
  ("c01esc", laneEsc)
]

end Req.Driver.L.C01
