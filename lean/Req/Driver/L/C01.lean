import Req.Driver.Proto
import Req.Client.Url
import Req.Driver.WireUtil
import Req.Client.Merge
import Req.Client.ResendEdit
import Req.H2.Fields
import Req.H1.Origin
import Req.H3.BodyWrite
import Req.H1.BodyWrite
import Req.H2.BodyWire
import Req.Client.AttemptOrder
import Req.H1.RoundTrip
import Req.H1.ExpectContinue
import Req.Client.Replay
import Req.Props.C01ConnSeq
import Req.Driver.L.C16
/-! Driver lanes of C01. -/
namespace Req.Driver.L.C01
open Req.Proto

/-- `k:v,k:v` (hex) or `-`. -/
def decodePMap (s : String) : Option (List (Bytes × Bytes)) :=
  if s == "-" then some [] else
  (s.splitOn ",").mapM fun e =>
    match e.splitOn ":" with
    | [k, v] => do pure ((← decodeHex k), (← decodeHex v))
    | _ => none

/-- `k:v1:v2,k2,k3:v` (hex; a bare key has no values) or `-`. -/
def decodeQMap (s : String) : Option (List (Bytes × List Bytes)) :=
  if s == "-" then some [] else
  (s.splitOn ",").mapM fun e =>
    match e.splitOn ":" with
    | k :: vs => do pure ((← decodeHex k), (← vs.mapM decodeHex))
    | [] => none

def b01 (b : Bool) : String := if b then "1" else "0"

def showUrl (u : Req.Url.Url) : String :=
  let user := match u.user with
    | none => "-"
    | some (n, none) => encodeHex n
    | some (n, some p) => encodeHex n ++ ":" ++ encodeHex p
  s!"ok scheme={encodeHex u.scheme} opaque={encodeHex u.opaq} user={user} host={encodeHex u.host} " ++
  s!"path={encodeHex u.path} rawpath={encodeHex u.rawPath} omit={b01 u.omitHost} " ++
  s!"fq={b01 u.forceQuery} rq={encodeHex u.rawQuery} frag={encodeHex u.fragment} " ++
  s!"rawfrag={encodeHex u.rawFragment} ruri={encodeHex (Req.Url.requestURI u)}"

def showUrlResult : Except Req.Url.Err Req.Url.Url → String
  | .ok u => showUrl u
  | .error _ => "err"

/-- `c01url <rawURL> <rPath> <cPath> <cScheme> <baseURL> <cQuery> <rQuery>` -/
def laneUrl : List String → String
  | [raw, rp, cp, sch, base, cq, rq] =>
    match decodeHex raw, decodePMap rp, decodePMap cp, decodeHex sch, decodeHex base,
          decodeQMap cq, decodeQMap rq with
    | some raw, some rp, some cp, some sch, some base, some cq, some rq =>
      showUrlResult (Req.Url.parseRequestURL
        { rawURL := raw, rPath := rp, cPath := cp, cScheme := sch, baseURL := base,
          cQuery := cq, rQuery := rq })
    | _, _, _, _, _, _, _ => "bad-op"
  | _ => "bad-op"

/-- `c01ruri …` (same arguments as `c01url`): only the request target an origin observes. -/
def laneRuri : List String → String
  | [raw, rp, cp, sch, base, cq, rq] =>
    match decodeHex raw, decodePMap rp, decodePMap cp, decodeHex sch, decodeHex base,
          decodeQMap cq, decodeQMap rq with
    | some raw, some rp, some cp, some sch, some base, some cq, some rq =>
      match Req.Url.parseRequestURL
        { rawURL := raw, rPath := rp, cPath := cp, cScheme := sch, baseURL := base,
          cQuery := cq, rQuery := rq } with
      | .ok u => "ruri=" ++ encodeHex (Req.Url.requestURI u)
      | .error _ => "err"
    | _, _, _, _, _, _, _ => "bad-op"
  | _ => "bad-op"

/-- `c01valid <s>`: every validation / sanitising predicate of the request path on one string. -/
def laneValid : List String → String
  | [x] =>
    match decodeHex x with
    | some v =>
      s!"method={b01 (Req.Validate.validMethod v)} name={b01 (Req.Validate.validHeaderFieldName v)} " ++
      s!"value={b01 (Req.Validate.validHeaderFieldValue v)} host={b01 (Req.Validate.validHostHeader v)} " ++
      s!"ctl={b01 (Req.BStr.containsCTL v)} close={b01 (Req.Validate.hasToken v Req.H1.sClose)} " ++
      s!"san={encodeHex (Req.Validate.sanitizeValue v)} zone={encodeHex (Req.Validate.removeZone v)} " ++
      s!"port={encodeHex (Req.Url.removeEmptyPort v)} excl2={b01 (Req.H2.isExcluded v)} " ++
      s!"excl1={b01 (Req.H1.reqWriteExcludeHeader.contains v)} lacks={b01 (Req.H1.methodUsuallyLacksBody v)}"
    | none => "bad-op"
  | _ => "bad-op"

/-- `c01origin <wire>`: the independent Lean origin `parseRequestH1` on a byte stream: method,
target, Host, the other header lines (lower-cased names, sorted; framing fields dropped), body,
length of what is left. -/
def laneOrigin : List String → String
  | [w] =>
    match decodeHex w with
    | none => "bad-op"
    | some wire =>
      match Req.H1.Origin.parseRequestH1 wire with
      | none => "none"
      | some (v, rest) =>
        let isF (n : Bytes) : Bool :=
          n == Req.H1.Origin.sTE || n == Req.H1.Origin.sCL || n == Req.H2.sHostL
        let hosts := v.fields.filterMap fun f => if Req.Ascii.lower f.1 == Req.H2.sHostL then some f.2 else none
        let lines := (v.fields.filter fun f => !isF (Req.Ascii.lower f.1)).map fun f =>
          Req.Ascii.lower f.1 ++ [58, 32] ++ f.2
        s!"ok {encodeHex v.method} {encodeHex v.target} {encodeList hosts} " ++
          s!"{encodeList (lines.mergeSort fun a b => Req.BStr.le a b)} {Wire.showBlob v.body} {rest.length}"
  | _ => "bad-op"

/-- `c01chunks <body> <write sizes>`: `chunkedWriter` output for the given writes (zero-length
writes emit nothing; what is left after the listed sizes is one last write) + final CRLF. -/
def laneChunks : List String → String
  | [body, sizes] =>
    match Wire.decodeBody body, decodeNatList sizes with
    | some b, some ss => "ok " ++ Wire.showBlob (Req.H1.chunkedBody b ss)
    | _, _ => "bad-op"
  | _ => "bad-op"

/-- `c01parse <raw>`: `url.Parse` + `String()` + `RequestURI()`. -/
def laneParse : List String → String
  | [raw] =>
    match decodeHex raw with
    | some raw =>
      match Req.Url.parse raw with
      | .ok u => showUrl u ++ " str=" ++ encodeHex (Req.Url.toString u)
      | .error _ => "err"
    | none => "bad-op"
  | _ => "bad-op"

/-- `c01esc <mode> <s>`: escape, then unescape of the input itself. -/
def laneEsc : List String → String
  | [mode, s] =>
    let m : Option Req.Pct.Mode := match mode with
      | "path" => some .path | "seg" => some .pathSegment | "host" => some .host
      | "zone" => some .zone | "user" => some .userPassword | "query" => some .queryComponent
      | "frag" => some .fragment | _ => none
    match m, decodeHex s with
    | some m, some s =>
      encodeHex (Req.Pct.escape m s) ++ " " ++
        (match Req.Pct.unescape m s with
         | some r => "ok:" ++ encodeHex r
         | none => "err")
    | _, _ => "bad-op"
  | _ => "bad-op"

def showWErr : Req.H1.WErr → String
  | .nonAsciiHost => "err:outside"
  | .invalidHostProxy => "err:hostproxy"
  | .ctlInURI => "err:ctl"
  | .contentLengthNilBody => "err:clnil"
  | .bodyLength => "err:bodylen"

/-- decode the common part of an H1 write case:
`<method> <rawurl> <host> <hdr> <cl> <hasBody> <body> <reads> <close> <extra> <proxy> <rawQuery>`
(`rawQuery`: `-` or a hex value assigned to `URL.RawQuery` after parsing). -/
def decodeWReq : List String → Option Req.H1.WReq
  | [m, raw, host, hdr, cl, hb, body, reads, close, extra, proxy, rq] => do
    let m ← decodeHex m
    let raw ← decodeHex raw
    let host ← decodeHex host
    let hdr ← Wire.decodeHdr hdr
    let cl ← decodeInt cl
    let hb ← Wire.decodeBool hb
    let body ← Wire.decodeBody body
    let reads ← decodeNatList reads
    let close ← Wire.decodeBool close
    let extra ← Wire.decodeHdr extra
    let proxy ← Wire.decodeBool proxy
    let rq ← if rq == "-" then pure none else (decodeHex rq).map some
    match Req.Url.parse raw with
    | .ok u0 =>
      let u := match rq with
        | some q => { u0 with rawQuery := q }
        | none => u0
      pure { method := m, url := u, host := host, header := hdr, contentLength := cl,
                      hasBody := hb, body := body, reads := reads, close := close, extra := extra,
                      usingProxy := proxy }
    | .error _ => none
  | _ => none

/-- `c01h1 …`: bytes of `persistConn.writeRequest`. Exact in normal mode; in header-order mode
(where unlisted keys keep Go's map order) the canonical form of `Wire.showOrdered`. -/
def laneH1 (args : List String) : String :=
  match decodeWReq args with
  | none => "bad-op"
  | some r =>
    match Req.H1.serializeH1 r with
    | .error e => showWErr e
    | .ok wire =>
      let order := Req.H1.orderList r.header
      if order.isEmpty then "ok " ++ Wire.showBlob wire
      else Wire.showOrdered wire order

/-- `c01send <full|head> …` (then the arguments of `c01h1`): `Transport.roundTrip`'s validation +
`persistConn.writeRequest`: the error class, or the bytes on the wire (`head`: only up to the
blank line — used when the reference server parser refused the request, so that the capture of
the body is not reliable). -/
def laneSend : List String → String
  | mode :: args =>
    match decodeWReq args with
    | none => "bad-op"
    | some r =>
      match Req.H1.sendH1 r with
      | .error .invalidHeader => "err:header"
      | .error .invalidMethod => "err:method"
      | .error .noHost => "err:nohost"
      | .error (.write e) => showWErr e
      | .ok wire =>
        let order := Req.H1.orderList r.header
        if mode == "head" then
          let (head, _) := Wire.splitHead wire
          if order.isEmpty then "head " ++ Wire.showBlob head
          else "head-" ++ Wire.showOrdered (head ++ [13, 10, 13, 10]) order
        else
          if order.isEmpty then "ok " ++ Wire.showBlob wire
          else Wire.showOrdered wire order
  | _ => "bad-op"

/-- `c01expect <Request.Close> <response Connection: close>` (round 7): a request with a body and
`Expect: 100-continue` whose head was answered with a FINAL status before 100 Continue — does the
write loop send the body, may the connection carry another request (`Req.H1.Expect`). -/
def laneExpect : List String → String
  | [rc, pc] =>
    match Wire.decodeBool rc, Wire.decodeBool pc with
    | some rc, some pc =>
      s!"body={b01 (Req.H1.Expect.sendsBody rc (.final pc))} reuse={b01 (Req.H1.Expect.reusable rc pc)}"
    | _, _ => "bad-op"
  | _ => "bad-op"

/-- cookies: `name:value:q,…` (hex, q = 0/1) or `-`. -/
def decodeCookies (s : String) : Option (List Req.Merge.Cookie) :=
  if s == "-" then some [] else
  (s.splitOn ",").mapM fun e =>
    match e.splitOn ":" with
    | [n, v, q] => do pure { name := (← decodeHex n), value := (← decodeHex v), quoted := (← Wire.decodeBool q) }
    | _ => none

def encodeHdr (h : List Req.HeaderSort.KV) : String :=
  if h.isEmpty then "-" else
  ",".intercalate (h.map fun kv => ":".intercalate (encodeHex kv.key :: kv.values.map encodeHex))

/-- `c01pipe <method> <rawURL> <rPath> <cPath> <cScheme> <baseURL> <cQuery> <rQuery> <cHdr|nil> <rHdr>
<cCookies> <rCookies> <bodyKind none|bytes|reader> <body> <allowGet>` → the `*http.Request` that
`Client.roundTrip` hands to the transport. -/
def decodeApi : List String → Option Req.Merge.Api
  | [m, raw, rp, cp, sch, base, cq, rq, ch, rh, cc, rc, bk, body, ag] =>
    let ch? : Option (Option (List Req.HeaderSort.KV)) :=
      if ch == "nil" then some none else (Wire.decodeHdr ch).map some
    match decodeHex m, decodeHex raw, decodePMap rp, decodePMap cp, decodeHex sch, decodeHex base,
          decodeQMap cq, decodeQMap rq, ch?, Wire.decodeHdr rh, decodeCookies cc, decodeCookies rc,
          Wire.decodeBody body, Wire.decodeBool ag with
    | some m, some raw, some rp, some cp, some sch, some base, some cq, some rq, some ch, some rh,
      some cc, some rc, some body, some ag =>
      let bs? : Option Req.Merge.BodySpec :=
        if bk == "none" then some .none else if bk == "bytes" then some (.bytes body)
        else if bk == "reader" then some (.reader body) else if bk == "func" then some (.func body) else none
      bs?.map fun bs =>
        { method := m,
          url := { rawURL := raw, rPath := rp, cPath := cp, cScheme := sch, baseURL := base,
                   cQuery := cq, rQuery := rq },
          cHeaders := ch, rHeaders := rh, cCookies := cc, rCookies := rc, body := bs,
          allowGetPayload := ag }
    | _, _, _, _, _, _, _, _, _, _, _, _, _, _ => none
  | _ => none

def showBuilt : Except Req.Url.Err Req.Merge.HttpReq → String
  | .error _ => "err"
  | .ok r =>
    showUrl r.url ++ s!" m={encodeHex r.method} host={encodeHex r.host} hdr={encodeHdr r.header} " ++
      s!"cl={r.contentLength} hasbody={b01 r.hasBody} getbody={b01 r.getBody} " ++ Wire.showBlob r.body

def lanePipe (args : List String) : String :=
  match decodeApi args with
  | none => "bad-op"
  | some api => showBuilt (Req.Merge.buildRequest api)

/-- the edit that turns the caller's bookkeeping `a0` into `a1`, as an operation on the LIVE fields
(`Request.Headers` / `Request.Cookies` hold what the earlier pass wrote into them): scalar fields,
maps and the client's fields are assigned; every request header key whose entry changed is
`Header[k] = vs`; cookies appended since are appended. -/
def editTo (a0 a1 : Req.Merge.Api) (a : Req.Merge.Api) : Req.Merge.Api :=
  { a with method := a1.method, url := a1.url, body := a1.body, allowGetPayload := a1.allowGetPayload,
           cHeaders := a1.cHeaders, cCookies := a1.cCookies,
           rHeaders := (a1.rHeaders.filter fun kv => !(a0.rHeaders.contains kv)).foldl
                         (fun h kv => Req.Merge.hdrSet h kv.key kv.values) a.rHeaders,
           rCookies := a.rCookies ++ a1.rCookies.drop a0.rCookies.length }

/-- `c01resend <n> <15 fields of the first description> <15 fields of the edited description>`:
the SAME Request transmitted, edited, then retried `n` times (`n = 0`: sent a second time) —
`ResendEdit.run` of the code as it is; answer: every transmission, ` | `-separated. -/
def laneResend : List String → String
  | n :: rest =>
    match n.toNat?, decodeApi (rest.take 15), decodeApi (rest.drop 15) with
    | some n, some a0, some a1 =>
      let ops : List Req.ResendEdit.Op :=
        [.send, .edit (editTo a0 a1)] ++ (if n == 0 then [.send] else List.replicate n .retry)
      " | ".intercalate ((Req.ResendEdit.run .asIs { api := a0 } ops).map showBuilt)
    | _, _, _ => "bad-op"
  | _ => "bad-op"

/-! ### request-body DATA framing (HTTP/2, HTTP/3) -/

def decodeEnding : String → Option Req.H2.BodyWrite.Ending
  | "eof" => some .eof
  | "eofl" => some .eofWithLast
  | "err" => some .error
  | "errl" => some .errorWithLast
  | _ => none

def showOutcomeH2 : Req.H2.BodyWrite.Outcome → String
  | .done => "done"
  | .tooLong => "toolong"
  | .readError => "readerr"
  | .blocked => "blocked"

def showFrameH2 : Req.H2.BodyWrite.Frame → String
  | .data p e => s!"{p.length}:{b01 e}"
  | .trailers => "T"

/-- `c01h2body <cl|-1> <trailers 0|1|2> <maxFrame> <buf> <body> <read sizes> <ending> <avails>`:
`writeRequestBody` — outcome, the (length:END_STREAM) list of the frames (`T` = trailers), the
reassembled payload, `frameScratchBufferLen`. trailers: 0 none, 1 a trailer block, 2 `req.Trailer`
non-nil but nothing to send. -/
def laneH2Body : List String → String
  | [cl, tr, mf, buf, body, sizes, ending, avails] =>
    match decodeInt cl, tr.toNat?, mf.toNat?, buf.toNat?, Wire.decodeBody body, decodeNatList sizes,
          decodeEnding ending, decodeNatList avails with
    | some cl, some tr, some mf, some buf, some body, some sizes, some ending, some avails =>
      let cfg : Req.H2.BodyWrite.Cfg :=
        { maxFrame := mf, buf := buf, cl := if cl < 0 then none else some cl.toNat,
          hasTrailers := tr != 0, trailerBlock := tr == 1 }
      let (sent, o) := Req.H2.BodyWrite.writeBody cfg { data := body, sizes := sizes, ending := ending } avails
      let fs := Req.H2.BodyWrite.frames sent
      let shown := if fs.isEmpty then "-" else ",".intercalate (fs.map showFrameH2)
      s!"{showOutcomeH2 o} frames={shown} scratch={Req.H2.Conn.scratchLen cl mf} " ++
        Wire.showBlob (Req.H2.BodyWrite.payloads fs)
    | _, _, _, _, _, _, _, _ => "bad-op"
  | _ => "bad-op"

/-- `c01h3body <buf> <body> <read sizes> <ending>`: `sendRequestBody` + `stream.Write` — outcome,
the sizes of the `Write` calls, every byte written to the QUIC stream. -/
def laneH3Body : List String → String
  | [buf, body, sizes, ending] =>
    match buf.toNat?, Wire.decodeBody body, decodeNatList sizes, decodeEnding ending with
    | some buf, some body, some sizes, some ending =>
      let (ws, o) := Req.H3.BodyWrite.sendBody buf { data := body, sizes := sizes, ending := ending }
      let os := match o with | .closed => "closed" | .reset => "reset"
      match Req.H3.BodyWrite.wire ws with
      | none => "panic"
      | some w => s!"{os} writes={encodeNatList (ws.map (·.length))} " ++ Wire.showBlob w
    | _, _, _, _ => "bad-op"
  | _ => "bad-op"

/-- `c01h1body <method> <cl|-1> <buf> <body> <read sizes> <ending>`: `newTransferWriter` +
`transferWriter.writeBody` on a scripted body reader — the framing chosen, how `writeBody` ends,
every byte it wrote. -/
def laneH1Body : List String → String
  | [method, cl, buf, body, sizes, ending] =>
    match decodeHex method, decodeInt cl, buf.toNat?, Wire.decodeBody body, decodeNatList sizes,
          decodeEnding ending with
    | some method, some cl, some buf, some body, some sizes, some ending =>
      let p := Req.H1.BodyWrite.plan method (if cl ≤ 0 then none else some cl.toNat)
        { data := body, sizes := sizes, ending := ending }
      let (w, o) := Req.H1.BodyWrite.writeBody buf p
      let ms := match p.mode with
        | .noBody => "nobody" | .chunked => "chunked" | .identity => "identity" | .known n => s!"known:{n}"
      let os := match o with | .ok => "ok" | .readError => "readerr" | .bodyLength => "bodylen"
      s!"{ms} {os} " ++ Wire.showBlob w
    | _, _, _, _, _, _ => "bad-op"
  | _ => "bad-op"

/-- `c01h2wire <sid> <maxRead> <body> <frame sizes> <ends> <tail>`: `Framer.WriteData` for every
frame (`ends`: 0 plain, 1 END_STREAM, 2 a frame of stream `sid+2`) and an origin collecting the
content of stream `sid` with `Framer.ReadFrame`. -/
def laneH2Wire : List String → String
  | [sid, maxRead, body, sizes, ends, tail] =>
    match sid.toNat?, maxRead.toNat?, Wire.decodeBody body, decodeNatList sizes, decodeNatList ends, decodeHex tail with
    | some sid, some maxRead, some body, some sizes, some ends, some tail =>
      if sizes.length != ends.length then "bad-op" else
      let rec cut (b : Bytes) : List Nat → List Bytes
        | [] => []
        | z :: zs => b.take z :: cut (b.drop z) zs
      let other := if sid + 2 ≥ 2147483648 then 1 else sid + 2
      let parts := (cut body sizes).zip ends
      let enc := parts.map fun (p, e) =>
        if e == 2 then Req.H2.BodyWire.frameWire other (.data p false)
        else Req.H2.BodyWire.frameWire sid (.data p (e == 1))
      match enc.foldr (fun x acc => match x, acc with | some a, some b => some (a ++ b) | _, _ => none) (some []) with
      | none => "write-error"
      | some w =>
        let rd : Req.H2.Frame.Reader := { maxReadSize := Req.H2.Frame.setMaxReadFrameSize maxRead }
        match Req.H2.BodyWire.readBody sid (parts.length + 1) rd (w ++ tail) with
        | none => s!"wire {Wire.showBlob w} read none"
        | some (ds, rest) =>
          s!"wire {Wire.showBlob w} read {encodeNatList (ds.map (·.length))} {Wire.showBlob ds.flatten} rest={rest.length}"
    | _, _, _, _, _, _ => "bad-op"
  | _ => "bad-op"

/-! ### transparent replays -/

def decodeKind : String → Option Req.Replay.BodyKind
  | "none" => some .none
  | "rew" => some .rewindable
  | "one" => some .oneShot
  | _ => none

def showResult : Req.Replay.Result → String
  | .accepted b => "accepted " ++ Wire.showBlob b
  | .failed => "failed"
  | .pending => "pending"

def decodeH2Attempt (t : String) : Option Req.Replay.H2Attempt :=
  match t.toList with
  | ['A'] => some .accepted
  | ['U'] => some .unusable
  | c :: rest =>
    match (String.ofList rest).toNat? with
    | some k =>
      if c == 'R' then some (.refused k) else if c == 'G' then some (.goAway k)
      else if c == 'P' then some (.protoFromPeer k) else if c == 'O' then some (.other k) else none
    | none => none
  | [] => none

def decodeTry (t : String) : Option Req.Attempts.Try :=
  match t.toList with
  | ['S'] => some .skipped
  | ['R'] => some .response
  | ['N'] => some (.noConn 0 false)
  | 'E' :: rest => (String.ofList rest).toNat?.map fun k => .error k
  | _ => none

def showStage : Req.Attempts.Stage → String
  | .altSvc => "alt" | .h2Cached => "h2" | .h3Cached => "h3" | .conn => "conn"

/-- `c01attempts <kind> <idempotent> <data> <alt> <h2> <h3>`: `Transport.roundTrip` with the given
stage outcomes (`S` skipped, `R` response, `E<k>` error after k body bytes, `N` cache miss) and a
connection loop whose first attempt is answered: the result and the attempts that reached a
connection (stage:body position:answered). -/
def laneAttempts : List String → String
  | [kind, idem, data, alt, h2, h3] =>
    match decodeKind kind, Wire.decodeBody data, decodeTry alt, decodeTry h2, decodeTry h3 with
    | some kind, some data, some alt, some h2, some h3 =>
      let r : Req.Replay.Req := { kind := kind, data := data, idempotent := idem == "1" }
      let (res, w) := Req.Attempts.roundTrip Req.Replay.Fixes.all r
        ⟨alt, h2, h3, [⟨false, none, 0, false⟩]⟩
      let tr := if w.isEmpty then "-" else
        ",".intercalate (w.map fun e => s!"{showStage e.stage}:{e.pos}:{b01 e.answered}")
      showResult res ++ " trace=" ++ tr
    | _, _, _, _, _ => "bad-op"
  | _ => "bad-op"

/-- `c01h2retry <honest> <kind> <attempts> <data>`: attempts `A` accepted, `U` unusable connection,
`R<k>` refused / `G<k>` GOAWAY / `P<k>` PROTOCOL_ERROR from the peer / `O<k>` other error after `k`
more bytes of the body were read. -/
def laneH2Retry : List String → String
  | [honest, kind, attempts, data] =>
    match Wire.decodeBool honest, decodeKind kind, (attempts.splitOn ",").mapM decodeH2Attempt,
          Wire.decodeBody data with
    | some h, some k, some as, some d =>
      showResult (Req.Replay.h2Run ⟨h, true⟩ { kind := k, data := d, idempotent := false } as 0 0)
    | _, _, _, _ => "bad-op"
  | _ => "bad-op"

def decodeH1Attempt (t : String) : Option Req.Replay.H1Attempt :=
  match t.splitOn ":" with
  | [flags, c] =>
    match flags.toList, c.toNat? with
    | [r, e, tch], some c =>
      let err : Option (Option Req.Replay.H1Err) :=
        if e == 'A' then some none else if e == 'N' then some (some .nothingWritten)
        else if e == 'S' then some (some .readFromServer) else if e == 'I' then some (some .serverClosedIdle)
        else if e == 'O' then some (some .other) else none
      err.map fun err => { reused := r == '1', err := err, consumed := c, touched := tch == '1' }
    | _, _ => none
  | _ => none

/-- `c01h1retry <honest> <kind> <idempotent> <attempts> <data>`: attempt = `<reused 0|1><A|N|S|I|O><touched 0|1>:<consumed>`. -/
def laneH1Retry : List String → String
  | [honest, kind, idem, attempts, data] =>
    match Wire.decodeBool honest, decodeKind kind, Wire.decodeBool idem,
          (attempts.splitOn ",").mapM decodeH1Attempt, Wire.decodeBody data with
    | some h, some k, some i, some as, some d =>
      showResult (Req.Replay.h1Run ⟨h, true⟩ { kind := k, data := d, idempotent := i } as 0)
    | _, _, _, _, _ => "bad-op"
  | _ => "bad-op"

def decodeH3Attempt (t : String) : Option Req.Replay.H3Attempt :=
  match t.splitOn ":" with
  | [flags, c] =>
    match flags.toList, c.toNat? with
    | [r, e], some c =>
      let err : Option (Option Req.Replay.H3Err) :=
        if e == 'A' then some none else if e == 'T' then some (some .timeout)
        else if e == 'C' then some (some .connection) else if e == 'O' then some (some .other) else none
      err.map fun err => { reused := r == '1', err := err, consumed := c }
    | _, _ => none
  | _ => none

/-- `c01h3retry <honest> <timeout-fix> <kind> <idempotent> <attempts> <data>`: attempt = `<reused 0|1><A|T|C|O>:<consumed>`. -/
def laneH3Retry : List String → String
  | [honest, tfix, kind, idem, attempts, data] =>
    match Wire.decodeBool honest, Wire.decodeBool tfix, decodeKind kind, Wire.decodeBool idem,
          (attempts.splitOn ",").mapM decodeH3Attempt, Wire.decodeBody data with
    | some h, some tf, some k, some i, some as, some d =>
      showResult (Req.Replay.h3Run ⟨h, tf⟩ { kind := k, data := d, idempotent := i } as 0)
    | _, _, _, _, _, _ => "bad-op"
  | _ => "bad-op"

/-! ### sequences of requests on one connection (stateful field codec) -/

/-- one request of a `c01connseq` line: what the send path decides, and how to render its list -/
structure SeqReq where
  item : Req.H2.ConnSeq.Item
  /-- why nothing was written (`none` = the block is written) -/
  refusal : Option String
  order : List Bytes

def decodeSeqReq (fl : Req.H2.Flavor) (lim : Option Nat) : List String → Option SeqReq
  | [kind, m, raw, host, hdr, cl, hb, nb, gz] => do
    let m ← decodeHex m
    let raw ← decodeHex raw
    let host ← decodeHex host
    let hdr ← Wire.decodeHdr hdr
    let cl ← decodeInt cl
    let hb ← Wire.decodeBool hb
    let nb ← Wire.decodeBool nb
    let gz ← Wire.decodeBool gz
    match Req.Url.parse raw with
    | .error _ => none
    | .ok u =>
      let r : Req.H2.FReq := { method := m, url := u, host := host, header := hdr, contentLength := cl,
                               hasBody := hb, noBody := nb, addGzip := gz, maxHeaderList := lim }
      let order := Req.H1.orderList hdr
      if kind == "cancelbefore" then
        -- the context is already done when `encodeAndWriteHeaders` looks: nothing is enumerated
        pure { item := { fields := [], admitted := false }, refusal := some "cancelled", order := order }
      else match Req.H2.fields fl r with
        | .error e =>
          pure { item := { fields := [], admitted := false, late := e == .headerListTooLarge },
                 refusal := some (C16.showFErr e), order := order }
        | .ok fs => pure { item := { fields := fs, admitted := true }, refusal := none, order := order }
  | _ => none

def chunk9 : List String → List (List String)
  | a :: b :: c :: d :: e :: f :: g :: h :: i :: rest => [a, b, c, d, e, f, g, h, i] :: chunk9 rest
  | _ => []

def showSeqFields (fs : List (Bytes × Bytes)) (order : List Bytes) : String :=
  let pseudo := fs.filter fun f => f.1.head? == some 58
  let regular := fs.filter fun f => f.1.head? != some 58
  let listed := regular.filterMap fun f =>
    if (Req.HeaderSort.lastIndex order f.1).isSome then some (Req.Ascii.canonicalMIMEHeaderKey f.1) else none
  "ok " ++ C16.encodeFields pseudo ++ " " ++ C16.encodeFields (regular.mergeSort C16.fieldLe) ++ " " ++
    encodeList listed

/-- give every request its answer: the refusal, or the next list the server decoded -/
def zipSeq : List SeqReq → List (List (Bytes × Bytes)) → List String
  | [], _ => []
  | r :: rs, ds =>
    match r.refusal with
    | some why => why :: zipSeq rs ds
    | none =>
      match ds with
      | d :: ds' => showSeqFields d r.order :: zipSeq rs ds'
      | [] => "missing" :: zipSeq rs []

/-- `c01connseq <peer SETTINGS_MAX_HEADER_LIST_SIZE|-> {<send|cancelbefore> <method> <rawurl> <host>
<hdr> <cl> <hasBody> <noBody> <gzip>}*`: the requests run one after the other on ONE connection; the
client encodes the admitted ones with a stateful codec (`ConnSeq.Toy`), the server decodes the blocks
in arrival order: per request the refusal class, or the field list the SERVER ends up with. -/
def laneConnSeqFl (fl : Req.H2.Flavor) : List String → String
  | lim :: rest =>
    let lim? : Option (Option Nat) := if lim == "-" then some none else lim.toNat?.map some
    match lim? with
    | none => "bad-op"
    | some lim =>
      if rest.length % 9 != 0 then "bad-op" else
      match (chunk9 rest).mapM (decodeSeqReq fl lim) with
      | none => "bad-op"
      | some reqs =>
        let items := reqs.map (·.item)
        let blocks := (Req.H2.ConnSeq.clientRun Req.Props.C01ConnSeq.Toy true [] items).2
        match Req.H2.ConnSeq.serverRun Req.Props.C01ConnSeq.Toy [] blocks with
        | none => "desync"
        | some ds => " ; ".intercalate (zipSeq reqs ds)
  | _ => "bad-op"

def laneConnSeq : List String → String := laneConnSeqFl .h2
/-- `c01connseq3 …`: the same for the HTTP/3 field list (one `requestWriter` / QPACK encoder per connection). -/
def laneConnSeq3 : List String → String := laneConnSeqFl .h3

def lanes : List (String × (List String → String)) := [
  ("c01connseq", laneConnSeq),
  ("c01connseq3", laneConnSeq3),
  ("c01h2retry", laneH2Retry),
  ("c01h1retry", laneH1Retry),
  ("c01h3retry", laneH3Retry),
  ("c01send", laneSend),
  ("c01expect", laneExpect),
  ("c01h2body", laneH2Body),
  ("c01h3body", laneH3Body),
  ("c01h1body", laneH1Body),
  ("c01h2wire", laneH2Wire),
  ("c01attempts", laneAttempts),
  ("c01pipe", lanePipe),
  ("c01resend", laneResend),
  ("c01h1", laneH1),
  ("c01url", laneUrl),
  ("c01chunks", laneChunks),
  ("c01origin", laneOrigin),
  ("c01valid", laneValid),
  ("c01ruri", laneRuri),
  ("c01parse", laneParse),
  ("c01esc", laneEsc)
]

end Req.Driver.L.C01
