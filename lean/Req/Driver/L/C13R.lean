import Req.Driver.Proto
import Req.Client.DumpSetters
import Req.Client.DumpStop
import Req.Client.DumpPartial
/-! Driver lanes of C13, round 5: request-level setter order, life cycle with data in flight,
HTTP/2 uploads cut short. -/
namespace Req.Driver.L.C13R
open Req.Proto Req.Client.Dump

def optW (n : Nat) : Option Writer := if n = 0 then none else some n

/-- `out,reqOut,respOut,reqHOut,reqBOut,respHOut,respBOut,qh,qb,rh,rb,async` (writers: 0 = nil) -/
def parseOpts (s : String) : Option Opts :=
  match decodeNatList s with
  | some [o, qo, ro, qho, qbo, rho, rbo, qh, qb, rh, rb, a] =>
    some { output := optW o, requestOutput := optW qo, responseOutput := optW ro,
           requestHeaderOutput := optW qho, requestBodyOutput := optW qbo,
           responseHeaderOutput := optW rho, responseBodyOutput := optW rbo,
           requestHeader := qh != 0, requestBody := qb != 0, responseHeader := rh != 0,
           responseBody := rb != 0, async := a != 0 }
  | _ => none

def presetOf (n : Nat) : Option Preset :=
  match n with
  | 0 => some .all | 1 => some .withoutRequestBody | 2 => some .withoutResponseBody
  | 3 => some .withoutResponse | 4 => some .withoutRequest | 5 => some .withoutHeader
  | 6 => some .withoutBody
  | n => if n ≥ 100 then some (.to n) else none

open Req.Client.DumpSetters in
/-- `p<n>` = preset number n (0 `EnableDump`, 1..6 `EnableDumpWithout…`, ≥ 100 `EnableDumpTo`),
`s<opts>` = `SetDumpOptions`. -/
def parseROp (s : String) : Option ROp :=
  if s.startsWith "p" then (s.drop 1).toNat?.bind presetOf |>.map ROp.preset
  else if s.startsWith "s" then (parseOpts (s.drop 1).toString).map ROp.set
  else none

def renderOpts (o : Opts) : String :=
  " ".intercalate (Part.all.map fun p => (if o.enabled p then "1" else "0") ++ ":" ++ toString (o.resolve p)) ++
    " out=" ++ toString o.out

open Req.Client.DumpSetters in
/-- `c13rset <buffer writer> <op>…` → what the transport reads through the request-level dumper:
per part `enabled:writer`, `Output()`; `no-dumper` if the context holds none. -/
def laneRSet : List String → String
  | buf :: ops =>
    match buf.toNat?, ops.mapM parseROp with
    | some b, some l =>
      match (run b false l).effective with
      | some o => renderOpts o
      | none => "no-dumper"
    | _, _ => "bad-op"
  | _ => "bad-op"

def partOf : Nat → Option Part
  | 0 => some .reqHeader | 1 => some .reqBody | 2 => some .respHeader | 3 => some .respBody
  | _ => none

open Req.Client.DumpStop in
/-- `D<part>:<hex>` dump, `X` DisableDumpAll, `E` EnableDumpAllAsync, `C` Clone, `O<opts>`
SetCommonDumpOptions, `H` / `R` the dump writer stalls / resumes. -/
def parseCOp (s : String) : Option COp :=
  if s == "X" then some .disable
  else if s == "E" then some .enable
  else if s == "C" then some .clone
  else if s == "H" then some .hold
  else if s == "R" then some .release
  else if s.startsWith "O" then (parseOpts (s.drop 1).toString).map COp.setOpts
  else if s.startsWith "D" then
    match ((s.drop 1).toString).splitOn ":" with
    | [p, d] => do
      let p ← p.toNat?.bind partOf
      let d ← decodeHex d
      pure (COp.dump p d)
    | _ => none
  else none

/-- adjacent writes to the same writer joined: how often `Write` is called is not part of the
property (a drain loop may gather), the per-writer content and the order across writers are -/
def mergeRuns : List Event → List Event
  | [] => []
  | e :: rest =>
    match mergeRuns rest with
    | [] => [e]
    | f :: tl => if e.writer = f.writer then ⟨e.writer, e.data ++ f.data⟩ :: tl else e :: f :: tl

open Req.Client.DumpStop in
/-- `c13stop <op>…` → per dumper generation what its writers must have received once every
`Start` loop has returned: `g<k>=<writer>:<hex>,…`. -/
def laneStop (ops : List String) : String :=
  match ops.mapM parseCOp with
  | none => "bad-op"
  | some l =>
    let s := crun l
    let gens := (List.range s.count).map fun g =>
      let evs := mergeRuns (expectedOf s g)
      "g" ++ toString g ++ "=" ++
        (if evs.isEmpty then "-" else ",".intercalate (evs.map fun e => toString e.writer ++ ":" ++ encodeHex e.data))
    if gens.isEmpty then "-" else " ".intercalate gens

open Req.Client.DumpPartial in
/-- `c13gdatap <maxFrame> <body reads> <grants> <budget>` → the DATA payloads written (= the dump
calls) when the `budget`+1-th `awaitFlowControl` fails, and whether the upload was cut short. -/
def laneGDataP : List String → String
  | [m, ps, gs, k] =>
    match m.toNat?, decodeList ps, decodeNatList gs, k.toNat? with
    | some m, some ps, some gs, some k =>
      let o := sendBody m ps gs k
      encodeList (dumpAtWrite o) ++ " aborted=" ++ (if o.aborted then "1" else "0")
    | _, _, _, _ => "bad-op"
  | _ => "bad-op"

def lanes : List (String × (List String → String)) := [
  ("c13rset", laneRSet),
  ("c13stop", laneStop),
  ("c13gdatap", laneGDataP)
]

end Req.Driver.L.C13R
