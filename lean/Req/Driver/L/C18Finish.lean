import Req.Driver.L.C18Codec
import Req.Client.Finish
/-! Driver lane of C18 (round 5): `finish` at one site on one fresh response. -/
namespace Req.Driver.L.C18
open Req.Proto Req.Result Req.Pipeline

/-- `c18finish <site c|d> <save> <outFails> <autoRead> <succTarget> <errTarget> <commonErr> <status>
<ct hex> <readOK> <jsonOK> <xmlOK>` →
`err=<what the site ends with> rerr=<resp.Err> res=… eslot=… cached=… saved=…` -/
def laneFinish : List String → String
  | [site, sv, ofl, ar, sT, eT, cE, st, ct, rd, jo, xo] =>
    let site? : Option Site := if site == "c" then some .clientLoop else if site == "d" then some .digestTail else none
    match site?, parseBool sv, parseBool ofl, parseBool ar, parseBool sT, parseBool eT, parseBool cE,
          decodeInt st, decodeHex ct, parseBool rd, parseBool jo, parseBool xo with
    | some site, some sv, some ofl, some ar, some sT, some eT, some cE, some st, some ct, some rd, some jo, some xo =>
      let h : Http := { status := st, ct := ct, custom := none, readOK := rd, jsonOK := jo, xmlOK := xo }
      let s : Stack := { save := sv, outFails := [ofl], autoRead := ar, successTarget := sT, errorTarget := eT, commonErr := cE }
      let r1 : Resp := { origin := .roundTrip 0, http := some h, tag := if site = .digestTail then 1 else 0 }
      let f := finish site s 0 r1
      "err=" ++ showErr (Fin.error site f) ++ " rerr=" ++ showErr f.resp.err ++ " res=" ++ showBool f.resp.slots.result ++
        " eslot=" ++ showSlotErr f.resp.slots.error ++ " cached=" ++ showBool f.resp.bodyCached ++
        " saved=" ++ showBool f.resp.savedOf.isSome
    | _, _, _, _, _, _, _, _, _, _, _, _ => "bad-op"
  | _ => "bad-op"

end Req.Driver.L.C18
