import Req.Driver.Proto
import Req.Pool.H2Hpack
/-! Driver lane `c09hpack <SETTINGS_HEADER_TABLE_SIZE> <blocks>` of C09 (round 5).
blocks joined by `/`, fields of a block by `,`, a field = `<name hex>:<value hex>:<sensitive 0|1>`.
The blocks are the request header lists in the order their HEADERS reached the wire on ONE
connection. Answer, per block joined by `;`: the representation the encoder must have chosen for
each field (`I<index>` indexed · `L<name index>+` literal with incremental indexing · `L<n>-`
without indexing · `L<n>!` never indexed) `/` number of entries in the dynamic table afterwards. -/
namespace Req.Driver.L.C09Hpack
open Req.Proto Req.Pool.H2Hpack

def parseField (s : String) : Option HF :=
  match s.splitOn ":" with
  | [n, v, x] => do
    let n ← decodeHex n
    let v ← decodeHex v
    pure ⟨n, v, x == "1"⟩
  | _ => none

def parseBlock (s : String) : Option (List HF) :=
  if s == "-" then some [] else (s.splitOn ",").mapM parseField

def laneHpack : List String → String
  | [m, blocks] =>
    match m.toNat?, (blocks.splitOn "/").mapM parseBlock with
    | some maxSize, some bs => ";".intercalate (runLane ⟨rfcStatic, maxSize⟩ [] bs)
    | _, _ => "bad-op"
  | _ => "bad-op"

end Req.Driver.L.C09Hpack
