import Req.Driver.Proto
/-! Driver lanes of C06. -/
namespace Req.Driver.L.C06
open Req.Proto

def lanes : List (String × (List String → String)) := []

end Req.Driver.L.C06
