import Req.Driver.Proto
import Req.H2.Flow
import Req.H2.Conn
import Req.H2.Monitor
import Req.H2.Cut
/-!
Driver lanes of C06.

* `c06flow <fn> <ints…>` — the hand model of flow.go / frameScratchBufferLen / awaitFlowControl's
  take on one argument tuple.
* `c06script <fixes> <strict> <settings> <connFlow> <prio> <hdrPrio> <maxHeaderList> <ops>` —
  the connection model run on a script (pumped after every operation); answer = the frames
  emitted per operation.
* `c06monitor <events>` — the strict-peer monitor on a recorded history.
-/
namespace Req.Driver.L.C06
open Req.Proto Req.H2 Req.H2.Flow Req.H2.Conn

def ints (args : List String) : Option (List Int) := args.mapM String.toInt?

def showBool (b : Bool) : String := if b then "1" else "0"

def laneFlow : List String → String
  | fn :: args =>
    match fn, ints args with
    | "iadd", some [a, u, n] =>
      match Inflow.add ⟨a, u⟩ n with
      | .panic => "panic"
      | .ok (f, s) => s!"{f.avail} {f.unsent} {s}"
    | "itake", some [a, u, n] =>
      let (f, ok) := Inflow.take ⟨a, u⟩ n
      s!"{f.avail} {f.unsent} {showBool ok}"
    | "itakes", some [a1, u1, a2, u2, n] =>
      let (f1, f2, ok) := takeInflows ⟨a1, u1⟩ ⟨a2, u2⟩ n
      s!"{f1.avail} {f1.unsent} {f2.avail} {f2.unsent} {showBool ok}"
    | "oavail", some [n, hc, cn] => s!"{Outflow.available ⟨n, hc != 0, cn⟩}"
    | "otake", some [n, hc, cn, k] =>
      match Outflow.take ⟨n, hc != 0, cn⟩ k with
      | .panic => "panic"
      | .ok f => s!"{f.n} {f.conn_n}"
    | "oadd", some [n, k] =>
      let (f, ok) := Outflow.add ⟨n, false, 0⟩ k
      s!"{f.n} {showBool ok}"
    | "scratch", some [cl, mf] => s!"{scratchLen cl mf}"
    | "await", some [a, mb, mf] => s!"{awaitTake a mb mf}"
    | _, _ => "bad-op"
  | _ => "bad-op"

/-! ### script parsing -/

def splitNonEmpty (s : String) (sep : String) : List String :=
  if s == "-" || s == "" then [] else s.splitOn sep

def parsePair (s : String) : Option (Nat × Nat) :=
  match s.splitOn "=" with
  | [a, b] => do
    let x ← a.toNat?
    let y ← b.toNat?
    pure (x, y)
  | _ => none

def parsePairs (s : String) : Option (List (Nat × Nat)) :=
  (splitNonEmpty s "/").mapM parsePair

def parseNats (s : String) : Option (List Nat) := (splitNonEmpty s ",").mapM String.toNat?

/-- one character per repair (`1` = applied), in the order of the fields of `Fixes`; repairs not
mentioned are applied -/
def parseFixes (s : String) : Option Fixes :=
  let l := s.toList
  if l.length < 4 ∨ l.length > 9 ∨ !(l.all fun c => c == '0' || c == '1') then none
  else
    let g (i : Nat) : Bool := (l.getD i '1') == '1'
    some { maxFrame := g 0, streamInflow := g 1, prioIds := g 2, hdrPrio := g 3, readCredit := g 4,
           dataCredit := g 5, trailerFrame := g 6, trailerNoBody := g 7, mcsWake := g 8 }

def parseOptNat (s : String) : Option (Option Nat) :=
  if s == "-" then some none else s.toNat?.map some

def parseOp (s : String) : Option Op :=
  match s.splitOn ":" with
  | ["o", h, b, k] => do pure (.openStream (← h.toNat?) (← b.toNat?) (k == "1"))
  | ["oq", h, b, k, hd, tr] => do
    pure (.openReq { hdrLen := ← h.toNat?, bodyLen := ← b.toNat?, known := k == "1", head := hd == "1",
                     trailer := ← parseOptNat tr })
  | ["f", id, n] => do pure (.feed (← id.toNat?) (← n.toNat?))
  | ["w", id] => do pure (.write (← id.toNat?))
  | ["c", id] => do pure (.cancel (← id.toNat?))
  | ["r", id, n] => do pure (.read (← id.toNat?) (← n.toNat?))
  | ["x", id] => do pure (.close (← id.toNat?))
  | ["ps", vals] => do pure (.peer (.settings (← parsePairs vals)))
  | ["pa"] => some (.peer .settingsAck)
  | ["pw", id, inc] => do pure (.peer (.windowUpdate (← id.toNat?) (← inc.toNat?)))
  | ["pr", id, code] => do pure (.peer (.rst (← id.toNat?) (← code.toNat?)))
  | ["pg", last] => do pure (.peer (.goaway (← last.toNat?)))
  | ["ph", id, e] => do pure (.peer (.headers (← id.toNat?) (e == "1")))
  | ["ph", id, e, status, cl] => do
    pure (.peer (.resp (← id.toNat?) (e == "1") (← status.toNat?) (← parseOptNat cl)))
  | ["pp", ack, d] => do pure (.peer (.ping (ack == "1") (← d.toNat?)))
  | ["pu", id, promised] => do pure (.peer (.pushPromise (← id.toNat?) (← promised.toNat?)))
  | ["pd", id, len, pad, e] => do
    pure (.peer (.data (← id.toNat?) (← len.toNat?) (← pad.toNat?) (e == "1")))
  | _ => none

def parseOps (s : String) : Option (List Op) := (splitNonEmpty s ";").mapM parseOp

/-- round 5: `oc:<hdrLen>:<body>:<known>:<head>:<trailer>:<cut>` = a request cancelled after `cut`
octets of its header block; `hx:<fid>:<n>:<id>` / `hr:<fid>:<n>:<id>:<m>` / `hc:<fid>:<n>:<id>` =
Body.Close / Body.Read / cancel on stream `id` while the writer of stream `fid` (handed `n` octets)
is parked inside a DATA frame; `tc:<fid>:<n>:<cut>` = the last feed of an upload with trailers, cancelled
after `cut` octets of the trailer block -/
def parseXOp (s : String) : Option Cut.XOp :=
  match s.splitOn ":" with
  | ["oc", h, b, k, hd, tr, cut] => do
    pure (.openCancel { hdrLen := ← h.toNat?, bodyLen := ← b.toNat?, known := k == "1", head := hd == "1",
                        trailer := ← parseOptNat tr } (← cut.toNat?))
  | ["hx", fid, n, id] => do pure (.held (← fid.toNat?) (← n.toNat?) (.close (← id.toNat?)))
  | ["hr", fid, n, id, m] => do pure (.held (← fid.toNat?) (← n.toNat?) (.read (← id.toNat?) (← m.toNat?)))
  | ["hc", fid, n, id] => do pure (.held (← fid.toNat?) (← n.toNat?) (.cancel (← id.toNat?)))
  | ["tc", fid, n, cut] => do pure (.feedCancel (← fid.toNat?) (← n.toNat?) (← cut.toNat?))
  | _ => (parseOp s).map Cut.XOp.plain

def parseXOps (s : String) : Option (List Cut.XOp) := (splitNonEmpty s ";").mapM parseXOp

def flag (b : Bool) (c : String) : String := if b then c else "-"

def showFrame : Frame → String
  | .settings vals => "S" ++ "/".intercalate (vals.map fun p => s!"{p.1}={p.2}")
  | .settingsAck => "A"
  | .windowUpdate id inc => s!"W{id}+{inc}"
  | .priority id => s!"P{id}"
  | .headers id len e h => s!"H{id}:{len}:{flag e "e"}{flag h "h"}"
  | .continuation id len h => s!"C{id}:{len}:{flag h "h"}"
  | .data id len e => s!"D{id}:{len}:{flag e "e"}"
  | .rst id => s!"R{id}"
  | .ping ack d => (if ack then "Y" else "Z") ++ toString d

def frameStream : Frame → Nat
  | .settings _ => 0
  | .settingsAck => 0
  | .windowUpdate id _ => id
  | .priority id => id
  | .headers id _ _ _ => id
  | .continuation id _ _ => id
  | .data id _ _ => id
  | .rst id => id
  | .ping _ _ => 0

/-- stable insertion by stream id: frames of one stream keep their order; the order between
streams is not compared (different goroutines write them) -/
def insertByStream (x : Frame) : List Frame → List Frame
  | [] => [x]
  | y :: ys => if frameStream x < frameStream y then x :: y :: ys else y :: insertByStream x ys

def sortByStream (l : List Frame) : List Frame := l.foldl (fun acc x => insertByStream x acc) []

def showStep (r : List Frame × Bool × Bool) : String :=
  let fs := (sortByStream r.1).map showFrame
  let body := if fs.isEmpty then "-" else ",".intercalate fs
  body ++ (if r.2.1 then ",X" else "") ++ (if r.2.2 then ",P" else "")

def laneScript : List String → String
  | [fx, strict, settings, connFlow, prio, hdrPrio, mhl, ops] =>
    match parseFixes fx, parsePairs settings, connFlow.toNat?, parseNats prio, mhl.toNat?, parseXOps ops with
    | some fx, some settings, some connFlow, some prio, some mhl, some ops =>
      let cfg : Cfg := { settings := settings, connFlow := connFlow, prio := prio, hdrPrio := hdrPrio == "1",
                         maxHeaderList := mhl, strict := strict == "1", fixes := fx }
      let (st, pre) := newConn cfg
      let steps := Cut.xscriptRun Cut.Variant.real st ops
      ";".intercalate (((pre.map showFrame) |> fun l => ",".intercalate l) :: steps.map showStep)
    | _, _, _, _, _, _ => "bad-op"
  | _ => "bad-op"

/-! ### monitor lane: events are the frame renderings above, peer frames prefixed with `<` -/

def parseBoolFlag (s : String) (c : Char) : Bool := s.toList.contains c

def parseFrame (s : String) : Option Frame :=
  match s.toList with
  | 'S' :: rest => do pure (.settings (← parsePairs (if rest.isEmpty then "-" else String.ofList rest)))
  | ['A'] => some .settingsAck
  | 'W' :: rest =>
    match (String.ofList rest).splitOn "+" with
    | [id, inc] => do pure (.windowUpdate (← id.toNat?) (← inc.toInt?))
    | _ => none
  | 'P' :: rest => do pure (.priority (← (String.ofList rest).toNat?))
  | 'H' :: rest =>
    match (String.ofList rest).splitOn ":" with
    | [id, len, fl] => do pure (.headers (← id.toNat?) (← len.toNat?) (parseBoolFlag fl 'e') (parseBoolFlag fl 'h'))
    | _ => none
  | 'C' :: rest =>
    match (String.ofList rest).splitOn ":" with
    | [id, len, fl] => do pure (.continuation (← id.toNat?) (← len.toNat?) (parseBoolFlag fl 'h'))
    | _ => none
  | 'D' :: rest =>
    match (String.ofList rest).splitOn ":" with
    | [id, len, fl] => do pure (.data (← id.toNat?) (← len.toNat?) (parseBoolFlag fl 'e'))
    | _ => none
  | 'R' :: rest => do pure (.rst (← (String.ofList rest).toNat?))
  | 'Y' :: rest => do pure (.ping true (← (String.ofList rest).toNat?))
  | 'Z' :: rest => do pure (.ping false (← (String.ofList rest).toNat?))
  | _ => none

def parseEvent (s : String) : Option Event :=
  match s.toList with
  | '<' :: rest =>
    match parseOp ("p" ++ String.ofList rest) with
    | some (.peer f) => some (.p f)
    | _ => none
  | _ => (parseFrame s).map Event.c

/-- the events of a recorded history; a GOAWAY written by the client (`G`, seen only when the
flush of a later RST_STREAM carries it out before the socket is closed) is always legal and not
a frame of the model: dropped -/
def historyEvents (events : String) : Option (List Event) :=
  ((splitNonEmpty events ";").filter (· != "G")).mapM parseEvent

def laneMonitor : List String → String
  | [consumed, events] =>
    match historyEvents events with
    | some evs => if consumed == "1" then Monitor.verdictConsumed evs else Monitor.verdict evs
    | none => "bad-op"
  | _ => "bad-op"

/-- the race-tolerant reading (classification of the known finding `c06-settings-ack-race`) -/
def laneMonitorTolerant : List String → String
  | [consumed, events] =>
    match historyEvents events with
    | some evs => Monitor.verdictTolerant evs (consumed == "1")
    | none => "bad-op"
  | _ => "bad-op"

def lanes : List (String × (List String → String)) := [
  ("c06flow", laneFlow),
  ("c06script", laneScript),
  ("c06monitor", laneMonitor),
  ("c06monitortol", laneMonitorTolerant)
]

end Req.Driver.L.C06
