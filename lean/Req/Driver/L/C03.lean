import Req.Driver.Proto
/-! Driver lanes of C03. -/
namespace Req.Driver.L.C03
open Req.Proto

def lanes : List (String × (List String → String)) := []

end Req.Driver.L.C03
