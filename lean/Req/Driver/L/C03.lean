import Req.Driver.Proto
import Req.H1.Response
import Req.H1.Conn
import Req.C03.H2Cut
import Req.C03.H2Pool
import Req.C03.H3Cut
import Req.C03.GzipCut
import Req.C03.EncCut
import Req.C03.H2Multi
import Req.C03.H1End
import Req.C03.H3Next
/-! Driver lanes of C03.

`c03cut <G|H> <eof|reset|hold|early> <hex stream> <k>`: the peer sends the first `k` bytes of the stream in
answer to the first request of a fresh client and then ends the connection (`eof`: FIN; `reset`:
RST — a close-delimited body then ends in an error, `Req.C03.parseFinalEnd`) or keeps it
open (`hold`, only used with `k` = whole stream).  Answer: what the caller of the real client
must observe — `fail` or `ok code=… body=…` — and how many connections the client will have
dialled after a second request (`dials=1` iff the model's `connReusable` allows reuse).
Mode `early`: connection kept open, but the caller closes the body without reading it.

`c03h2 <head 0|1> <stream id> <events> <mode s|a>`: HTTP/2 — the frames and connection events the
scripted peer produces for the first request of a fresh client (`H;<es>;<fields>` HEADERS,
`D;<es>;<padded>;<hex>` DATA, `R;<code>` RST_STREAM, `G;<last>;<code>` GOAWAY, `X` the connection
is lost — at a frame boundary or inside a frame).  Answer: what the caller observes (`retry` =
the call failed before the response head with an error the transport replays a body-less request
for; mode `s` = streaming caller: a body failure names the bytes delivered before it) and how
many connections will have been dialled after the next request (`dials=1` iff the connection can
take a new request and is still in the pool).  Mode `c<j>`: the streaming caller reads `j` bytes and
closes the body early.

`c03h3 <head 0|1> <segs> <fin|reset|close> <fieldlists> <mode s|a>`: HTTP/3 — the bytes of the
response stream as they arrive, how the stream ends (FIN, stream reset, connection close) and the
decoded field list of every HEADERS frame (QPACK is external).  Answer: `fail` / `fail-call` /
`fail-body delivered=…` / `ok status=… body=…` and the dials after the next request (2 iff the
call failed — `RoundTripOpt` drops the cached connection — or the connection was closed).

`c03gz`: see `laneGz`.
-/
namespace Req.Driver.L.C03
open Req.Proto Req.H1

def laneCut : List String → String
  | [meth, mode, hex, ks] =>
    match decodeHex hex, ks.toNat? with
    | some s, some k =>
      if meth != "G" && meth != "H" then "bad-op"
      else if mode != "eof" && mode != "reset" && mode != "hold" && mode != "early" then "bad-op"
      else
        let isHead := meth == "H"
        -- `reset`: the connection ends with ECONNRESET instead of io.EOF (`Req.C03.parseFinalEnd`)
        let o := if mode == "reset" then Req.C03.parseFinalEnd .reset isHead 4096 (s.take k)
                 else parseFinal isHead 4096 (s.take k)
        let env : ReuseEnv := ⟨false, isHead, false, mode == "eof" || mode == "reset", true, true, mode != "early"⟩
        let dials := if connReusable o env then "1" else "2"
        match o with
        | .reject => "fail dials=" ++ dials
        | .resp m b =>
          if mode == "early" then "ok-early code=" ++ toString m.sl.code ++ " dials=" ++ dials
          else if b.ok then "ok code=" ++ toString m.sl.code ++ " body=" ++ encodeHex b.data ++ " dials=" ++ dials
          else "fail dials=" ++ dials
    | _, _ => "bad-op"
  | _ => "bad-op"

/-- `c03over <G|H> <hex segment> <hold|eof> <hex second>`: the peer answers the first request of a
fresh client with `segment` (a complete response, possibly with unsolicited bytes behind it) and
keeps the connection open (`hold`: it would answer further requests on it with `second`) or closes
it (`eof`); every other connection answers with `second`.  Two requests through the Transport
model of C04 (`Req.H1.transportRun`): both outcomes (status + body) and the number of dials. -/
def renderOver : Delivery → String
  | .fail => "fail"
  | .resp m seen .eof _ => "ok code=" ++ toString m.sl.code ++ " body=" ++ encodeHex seen
  | .resp _ _ .err _ => "fail"
  | .resp _ _ .closed _ => "closed"
  | .resp _ _ .raw _ => "raw"

def laneOver : List String → String
  | [meth, hex, mode, hex2] =>
    match decodeHex hex, decodeHex hex2 with
    | some seg, some second =>
      if (meth != "G" && meth != "H") || (mode != "eof" && mode != "hold") then "bad-op" else
      let q1 : ConnReq := ⟨meth == "H", false, false, .full⟩
      let q : ConnReq := ⟨false, false, false, .full⟩
      let sc1 : ConnScript := if mode == "eof" then ⟨[seg], true⟩ else ⟨[seg, second, second], false⟩
      let sc2 : ConnScript := ⟨[second, second, second], false⟩
      let (ds, n) := transportRun 4096 [q1, q] ⟨none, [sc1, sc2], 0⟩
      " | ".intercalate (ds.map renderOver) ++ " dials=" ++ toString n
    | _, _ => "bad-op"
  | _ => "bad-op"

/-! ### HTTP/2 -/
open Req.C03 Req.C02

def parseBool01 (s : String) : Option Bool :=
  if s == "0" then some false else if s == "1" then some true else none

def decodeKV (s : String) : Option (Bytes × Bytes) :=
  match s.splitOn ":" with
  | [k, v] => do let k ← decodeHex k; let v ← decodeHex v; pure (k, v)
  | _ => none

def decodeFields (s : String) : Option (List (Bytes × Bytes)) :=
  if s == "-" then some [] else (s.splitOn ",").mapM decodeKV

def decodeH2XEv (s : String) : Option H2XEv :=
  match s.splitOn ";" with
  | ["H", es, fs] => do
    let es ← parseBool01 es
    let fs ← decodeFields fs
    pure (.headers fs es)
  | ["D", es, pad, d] => do
    let es ← parseBool01 es
    let pad ← parseBool01 pad
    let d ← decodeHex d
    pure (.data d pad es)
  | ["R", c] => c.toNat?.map H2XEv.rst
  | ["G", last, c] => do
    let last ← last.toNat?
    let c ← c.toNat?
    pure (.goAway last c)
  | ["X"] => some .connLost
  | _ => none

def decodeH2XEvs (s : String) : Option (List H2XEv) :=
  if s == "none" then some [] else (s.splitOn "/").mapM decodeH2XEv

def laneH2 : List String → String
  | [hd, sid, evs, mode] =>
    match parseBool01 hd, sid.toNat?, decodeH2XEvs evs with
    | some isHead, some sid, some evs =>
      if mode.startsWith "c" then
        -- the streaming caller reads `j` bytes, then closes the body (`transportResponseBody.Close`)
        match (mode.drop 1).toNat? with
        | none => "bad-op"
        | some j =>
          let (obs, x) := (H2X.init sid isHead).run (evs.map .ev ++ [.read j, .closeBody, .read 1])
          let after := match obs.getLast? with
            | some (some (_, some .closedBody)) => "closed"
            | _ => "not-closed"
          (match x.st.res with
           | none => "fail-call"
           | some _ => "closed delivered=" ++ encodeHex (outOf obs) ++ " then=" ++ after)
          ++ " dials=" ++ toString (h2DialsAfterNext x)
      else
      if mode != "s" && mode != "a" then "bad-op" else
      let x := ((H2X.init sid isHead).run (evs.map .ev)).2
      let dials := " dials=" ++ toString (h2DialsAfterNext x)
      (match x.outcome 512 with
       | .pending => "pending"
       | .callFailed true => "retry"
       | .callFailed false => if mode == "s" then "fail-call" else "fail"
       | .ok st body => "ok status=" ++ toString st ++ " body=" ++ encodeHex body
       | .bodyFailed _ d _ => if mode == "s" then "fail-body delivered=" ++ encodeHex d else "fail"
       | .bodyBlocked _ d => "blocked delivered=" ++ encodeHex d) ++ dials
    | _, _, _ => "bad-op"
  | _ => "bad-op"

/-! ### HTTP/3 -/

def decodeFieldLists (s : String) : Option (List (List (Bytes × Bytes))) :=
  if s == "none" then some [] else (s.splitOn "/").mapM decodeFields

def parseH3End : String → Option H3End
  | "fin" => some .fin
  | "reset" => some (.reset 0)
  | "close" => some (.connClose 0)
  | _ => none

/-- `<safe><hasBody><idemKey>` (three 0/1 digits): the kind of the NEXT request. -/
def parseNextReq (s : String) : Option NextReq :=
  match s.toList with
  | [a, b, c] => do
    let a ← parseBool01 (String.singleton a)
    let b ← parseBool01 (String.singleton b)
    let c ← parseBool01 (String.singleton c)
    pure ⟨a, b, c⟩
  | _ => none

/-- ` dials=N` (historical form) or, with the kind of the next request, ` next=ok|fail dials=N`
(`Req.C03.h3Next` = `RoundTripOpt` on the cache the first request left). -/
def h3Tail (e : H3End) (o : H3Outcome) : Option String → String
  | none => " dials=" ++ toString (h3DialsAfterSecond e o)
  | some nx =>
    match parseNextReq nx with
    | none => " bad-op"
    | some q =>
      let r := h3Next e o q
      " next=" ++ (if r.1 then "ok" else "fail") ++ " dials=" ++ toString r.2

def laneH3A (nx : Option String) : List String → String
  | [hd, segs, fin, fls, mode] =>
    match parseBool01 hd, decodeList segs, parseH3End fin, decodeFieldLists fls with
    | some isHead, some segs, some e, some fls =>
      if mode != "s" && mode != "a" then "bad-op" else
      let o := h3Outcome isHead segs e.net fls 10485760 512
      (match o with
       | .callFailed => if mode == "s" then "fail-call" else "fail"
       | .ok st body => "ok status=" ++ toString st ++ " body=" ++ encodeHex body
       | .bodyFailed _ d _ =>
         -- after a reset / connection close the bytes still in flight are lost: only FIN fixes them
         if mode == "s" && e == .fin then "fail-body delivered=" ++ encodeHex d
         else if mode == "s" then "fail-body" else "fail"
       | .bodyOpen _ d => "open delivered=" ++ encodeHex d)
      ++ h3Tail e o nx
    | _, _, _, _ => "bad-op"
  | _ => "bad-op"

/-- `c03h3 … <mode> [<next kind>]`. -/
def laneH3 : List String → String
  | [hd, segs, fin, fls, mode, nx] => laneH3A (some nx) [hd, segs, fin, fls, mode]
  | args => laneH3A none args

/-! ### gzip -/

/-- `c03gz <hex stream> <k> <zlen> <hex plain>`: a gzip-encoded HTTP/1.1 response cut at `k`, then
EOF; `zlen` / `plain` = the reference decompressor's knowledge of the one complete stream. -/
def laneGz : List String → String
  | [hex, ks, zl, plain] =>
    match decodeHex hex, ks.toNat?, zl.toNat?, decodeHex plain with
    | some s, some k, some zlen, some plain =>
      match gzOutcomeRef 4096 (s.take k) zlen plain with
      | none => "fail"
      | some (out, .eof) => "ok body=" ++ encodeHex out
      | some (_, .err _) => "fail"
    | _, _, _, _ => "bad-op"
  | _ => "bad-op"

/-! ### encoded bodies (gzip / deflate: the container model of C14 behind the framing model) -/

def parseEnc : String → Option Enc
  | "gzip" => some .gzip
  | "deflate" => some .deflate
  | _ => none

def renderEnc (mode : String) : EncOutcome → String
  | .pending => "pending"
  | .callFailed true => "retry"
  | .callFailed false => if mode == "s" then "fail-call" else "fail"
  | .ok st body => "ok status=" ++ toString st ++ " body=" ++ encodeHex body
  | .bodyFailed _ _ => if mode == "s" then "fail-body" else "fail"

/-- `c03h2z <gzip|deflate> <head> <stream id> <events> <mode s|a>`: `c03h2` with the body decoded. -/
def laneH2z : List String → String
  | [enc, hd, sid, evs, mode] =>
    match parseEnc enc, parseBool01 hd, sid.toNat?, decodeH2XEvs evs with
    | some enc, some isHead, some sid, some evs =>
      if mode != "s" && mode != "a" then "bad-op" else
      let x := ((H2X.init sid isHead).run (evs.map .ev)).2
      renderEnc mode (h2Enc enc x 512) ++ " dials=" ++ toString (h2DialsAfterNext x)
    | _, _, _, _ => "bad-op"
  | _ => "bad-op"

/-- `c03h3z <gzip|deflate> <head> <segs> <fin|reset|close> <fieldlists> <mode s|a>`: `c03h3` decoded. -/
def laneH3zA (nx : Option String) : List String → String
  | [enc, hd, segs, fin, fls, mode] =>
    match parseEnc enc, parseBool01 hd, decodeList segs, parseH3End fin, decodeFieldLists fls with
    | some enc, some isHead, some segs, some e, some fls =>
      if mode != "s" && mode != "a" then "bad-op" else
      let (zo, o) := h3Enc enc isHead segs e.net fls 10485760 512
      renderEnc mode zo ++ h3Tail e o nx
    | _, _, _, _, _ => "bad-op"
  | _ => "bad-op"

def laneH3z : List String → String
  | [enc, hd, segs, fin, fls, mode, nx] => laneH3zA (some nx) [enc, hd, segs, fin, fls, mode]
  | args => laneH3zA none args

/-- `c03h1z <gzip|deflate> <hex stream> <k>`: an HTTP/1.1 response with an encoded body under
`EnableAutoDecompress`, cut at `k`, then EOF. -/
def laneH1z : List String → String
  | [enc, hex, ks] =>
    match parseEnc enc, decodeHex hex, ks.toNat? with
    | some enc, some s, some k =>
      match h1Enc enc 4096 (s.take k) with
      | none => "fail"
      | some (.ok _ body) => "ok body=" ++ encodeHex body
      | some _ => "fail"
    | _, _, _ => "bad-op"
  | _ => "bad-op"

/-! ### HTTP/2, concurrent streams -/

def decodeH2MEv (s : String) : Option H2MEv :=
  match s.splitOn "@" with
  | ["C", e] => (decodeH2XEv e).map .conn
  | [id, e] => do
    let id ← id.toNat?
    let e ← decodeH2XEv e
    pure (.frame id e)
  | _ => none

def renderH2Plain : H2Outcome → String
  | .pending => "pending"
  | .callFailed true => "retry"
  | .callFailed false => "fail"
  | .ok st body => "ok status=" ++ toString st ++ " body=" ++ encodeHex body
  | .bodyFailed _ _ _ => "fail"
  | .bodyBlocked _ _ => "blocked"

/-- `c03h2m <id a> <id b> <events>`: two concurrent streams on one connection; `events` =
`<id>@<event>` (a frame of that stream) / `C@<event>` (GOAWAY, connection lost) joined by `|`.
Answer: what the two callers observe and the dials after a follow-up request. -/
def laneH2m : List String → String
  | [a, b, evs] =>
    match a.toNat?, b.toNat?, (if evs == "none" then some [] else (evs.splitOn "|").mapM decodeH2MEv) with
    | some a, some b, some evs =>
      let m := H2M.init.run evs
      "a=" ++ renderH2Plain ((m a).outcome 512) ++ " b=" ++ renderH2Plain ((m b).outcome 512) ++
        " dials=" ++ toString (h2mDialsAfterNext m [a, b])
    | _, _, _ => "bad-op"
  | _ => "bad-op"

def lanes : List (String × (List String → String)) := [
  ("c03h2m", laneH2m),
  ("c03h2z", laneH2z),
  ("c03h3z", laneH3z),
  ("c03h1z", laneH1z),
  ("c03cut", laneCut),
  ("c03gz", laneGz),
  ("c03over", laneOver),
  ("c03h2", laneH2),
  ("c03h3", laneH3)
]

end Req.Driver.L.C03
