import Req.Driver.Proto
import Req.H1.Response
/-! Driver lanes of C03.

`c03cut <G|H> <eof|hold> <hex stream> <k>`: the peer sends the first `k` bytes of the stream in
answer to the first request of a fresh client and then ends the connection (`eof`) or keeps it
open (`hold`, only used with `k` = whole stream).  Answer: what the caller of the real client
must observe — `fail` or `ok code=… body=…` — and how many connections the client will have
dialled after a second request (`dials=1` iff the model's `connReusable` allows reuse).
Mode `early`: connection kept open, but the caller closes the body without reading it.
-/
namespace Req.Driver.L.C03
open Req.Proto Req.H1

def laneCut : List String → String
  | [meth, mode, hex, ks] =>
    match decodeHex hex, ks.toNat? with
    | some s, some k =>
      if meth != "G" && meth != "H" then "bad-op"
      else if mode != "eof" && mode != "hold" && mode != "early" then "bad-op"
      else
        let isHead := meth == "H"
        let o := parseFinal isHead 4096 (s.take k)
        let env : ReuseEnv := ⟨false, isHead, false, mode == "eof", true, true, mode != "early"⟩
        let dials := if connReusable o env then "1" else "2"
        match o with
        | .reject => "fail dials=" ++ dials
        | .resp m b =>
          if mode == "early" then "ok-early code=" ++ toString m.sl.code ++ " dials=" ++ dials
          else if b.ok then "ok code=" ++ toString m.sl.code ++ " body=" ++ encodeHex b.data ++ " dials=" ++ dials
          else "fail dials=" ++ dials
    | _, _ => "bad-op"
  | _ => "bad-op"

def lanes : List (String × (List String → String)) := [
  ("c03cut", laneCut)
]

end Req.Driver.L.C03
