import Req.Driver.Proto
import Req.Client.Form
import Req.Client.Multipart
/-! Driver lanes of C17. -/
namespace Req.Driver.L.C17
open Req.Proto

/-- keys + per-key counts + flat values → `Form.Values`. -/
def mkValues (keys : List Bytes) (counts : List Nat) (vals : List Bytes) : Option Req.Form.Values :=
  let rec go : List Bytes → List Nat → List Bytes → Option Req.Form.Values
    | [], [], [] => some []
    | k :: ks, n :: ns, vs =>
      if vs.length < n then none
      else (go ks ns (vs.drop n)).map fun r => (k, vs.take n) :: r
    | _, _, _ => none
  go keys counts vals

/-- `c17ordered <args>` → body of handleOrderedFormData, or `err` (odd count). -/
def laneOrdered : List String → String
  | [args] =>
    match decodeList args with
    | some l => match Req.Form.encodeOrdered l with
      | some b => encodeHex b
      | none => "err"
    | none => "bad-op"
  | _ => "bad-op"

/-- `c17form <rk> <rc> <rv> <ck> <cc> <cv>` → `Encode()` of request form merged with client form. -/
def laneForm : List String → String
  | [rk, rc, rv, ck, cc, cv] =>
    match decodeList rk, decodeNatList rc, decodeList rv, decodeList ck, decodeNatList cc, decodeList cv with
    | some rk, some rc, some rv, some ck, some cc, some cv =>
      match mkValues rk rc rv, mkValues ck cc cv with
      | some r, some c => encodeHex (Req.Form.encode (Req.Form.mergeForm r c))
      | _, _ => "bad-op"
    | _, _, _, _, _, _ => "bad-op"
  | _ => "bad-op"

/-- stable insertion sort of pairs by key (canonical rendering of a Go map of value lists). -/
def sortPairs (ps : List Req.Form.Pair) : List Req.Form.Pair :=
  ps.foldr (fun x acc =>
    let rec ins : List Req.Form.Pair → List Req.Form.Pair
      | [] => [x]
      | y :: ys => if Req.Form.bytesLt y.1 x.1 then y :: ins ys else x :: y :: ys
    ins acc) []

/-- `c17parseq <body>` → server view (`url.ParseQuery`): keys, values (sorted by key, value
order kept) and the error flag. -/
def laneParseQ : List String → String
  | [body] =>
    match decodeHex body with
    | some b =>
      let (ps, err) := Req.Form.parseForm b
      let sp := sortPairs ps
      encodeList (sp.map (·.1)) ++ " " ++ encodeList (sp.map (·.2)) ++ " " ++ (if err then "err" else "ok")
    | none => "bad-op"
  | _ => "bad-op"

def lanes : List (String × (List String → String)) := [
  ("c17ordered", laneOrdered),
  ("c17form", laneForm),
  ("c17parseq", laneParseQ)
]

end Req.Driver.L.C17
