import Req.Driver.Proto
/-! Driver lanes of C17. -/
namespace Req.Driver.L.C17
open Req.Proto

def lanes : List (String × (List String → String)) := []

end Req.Driver.L.C17
