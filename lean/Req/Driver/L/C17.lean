import Req.Driver.Proto
import Req.Client.Form
import Req.Client.Multipart
import Req.Client.Body
import Req.Client.Progress
import Req.Client.EarlyResponse
import Req.Client.UploadReader
import Req.Client.ProgressClock
import Req.Client.SetBody
import Req.Client.ResponseStages
import Req.Client.BodyTable
import Req.Client.Utf8
/-! Driver lanes of C17. -/
namespace Req.Driver.L.C17
open Req.Proto

/-- keys + per-key counts + flat values → `Form.Values`. -/
def mkValues (keys : List Bytes) (counts : List Nat) (vals : List Bytes) : Option Req.Form.Values :=
  let rec go : List Bytes → List Nat → List Bytes → Option Req.Form.Values
    | [], [], [] => some []
    | k :: ks, n :: ns, vs =>
      if vs.length < n then none
      else (go ks ns (vs.drop n)).map fun r => (k, vs.take n) :: r
    | _, _, _ => none
  go keys counts vals

/-- `c17ordered <args>` → body of handleOrderedFormData, or `err` (odd count). -/
def laneOrdered : List String → String
  | [args] =>
    match decodeList args with
    | some l => match Req.Form.encodeOrdered l with
      | some b => encodeHex b
      | none => "err"
    | none => "bad-op"
  | _ => "bad-op"

/-- `c17form <rk> <rc> <rv> <ck> <cc> <cv>` → `Encode()` of request form merged with client form. -/
def laneForm : List String → String
  | [rk, rc, rv, ck, cc, cv] =>
    match decodeList rk, decodeNatList rc, decodeList rv, decodeList ck, decodeNatList cc, decodeList cv with
    | some rk, some rc, some rv, some ck, some cc, some cv =>
      match mkValues rk rc rv, mkValues ck cc cv with
      | some r, some c => encodeHex (Req.Form.encode (Req.Form.mergeForm r c))
      | _, _ => "bad-op"
    | _, _, _, _, _, _ => "bad-op"
  | _ => "bad-op"

/-- stable insertion sort of pairs by key (canonical rendering of a Go map of value lists). -/
def sortPairs (ps : List Req.Form.Pair) : List Req.Form.Pair :=
  ps.foldr (fun x acc =>
    let rec ins : List Req.Form.Pair → List Req.Form.Pair
      | [] => [x]
      | y :: ys => if Req.Form.bytesLt y.1 x.1 then y :: ins ys else x :: y :: ys
    ins acc) []

/-- `c17parseq <body>` → server view (`url.ParseQuery`): keys, values (sorted by key, value
order kept) and the error flag. -/
def laneParseQ : List String → String
  | [body] =>
    match decodeHex body with
    | some b =>
      let (ps, err) := Req.Form.parseForm b
      let sp := sortPairs ps
      encodeList (sp.map (·.1)) ++ " " ++ encodeList (sp.map (·.2)) ++ " " ++ (if err then "err" else "ok")
    | none => "bad-op"
  | _ => "bad-op"

/-! ### multipart -/

/-- flat `k,v,k,v…` list → pairs (odd = none). -/
def mkPairs : List Bytes → Option (List (Bytes × Bytes))
  | [] => some []
  | [_] => none
  | k :: v :: r => (mkPairs r).map fun x => (k, v) :: x

/-- parallel lists → files. -/
def mkFiles : List Bytes → List Bytes → List Bytes → List Bytes → List Nat → List Bytes →
    Option (List Req.Multipart.File)
  | [], [], [], [], [], [] => some []
  | p :: ps, n :: ns, t :: ts, c :: cs, k :: ks, ex =>
    if ex.length < 2 * k then none
    else do
      let e ← mkPairs (ex.take (2 * k))
      let r ← mkFiles ps ns ts cs ks (ex.drop (2 * k))
      pure (⟨p, n, e, t, c⟩ :: r)
  | _, _, _, _, _, _ => none

def decodeFiles (a b c d e f : String) : Option (List Req.Multipart.File) := do
  let a ← decodeList a
  let b ← decodeList b
  let c ← decodeList c
  let d ← decodeList d
  let e ← decodeNatList e
  let f ← decodeList f
  mkFiles a b c d e f

/-- `c17mpwrite <boundary> <fields flat k,v> <params> <names> <ctypes> <contents> <extracounts> <extras>`
→ the multipart body. -/
def laneMpWrite : List String → String
  | [b, flds, a1, a2, a3, a4, a5, a6] =>
    match decodeHex b, (decodeList flds).bind mkPairs, decodeFiles a1 a2 a3 a4 a5 a6 with
    | some b, some flds, some files =>
      match Req.Multipart.writeChecked b flds files with
      | .ok body => encodeHex body
      | .error _ => "err"
    | _, _, _ => "bad-op"
  | _ => "bad-op"

def showItems (items : List Req.Multipart.Item) : String :=
  if items.isEmpty then "-" else
  ";".intercalate (items.map fun
    | .field n v => "v:" ++ encodeHex n ++ ":" ++ encodeHex v
    | .file n f t c => "f:" ++ encodeHex n ++ ":" ++ encodeHex f ++ ":" ++ encodeHex t ++ ":" ++ encodeHex c)

/-- `c17mpserver <boundary> <body>` → what the Lean SERVER makes of a body. -/
def laneMpServer : List String → String
  | [b, body] =>
    match decodeHex b, decodeHex body with
    | some b, some body =>
      match Req.Multipart.serverForm b body with
      | .ok items => showItems items
      | .error .unsupported => "unsupported"
      | .error _ => "reject"
    | _, _ => "bad-op"
  | _ => "bad-op"

/-- `c17mpe2e <boundary> <fields> <files…>` → Lean server ∘ Lean client. -/
def laneMpE2E : List String → String
  | [b, flds, a1, a2, a3, a4, a5, a6] =>
    match decodeHex b, (decodeList flds).bind mkPairs, decodeFiles a1 a2 a3 a4 a5 a6 with
    | some b, some flds, some files =>
      match Req.Multipart.writeChecked b flds files with
      | .error _ => "err"
      | .ok body =>
        match Req.Multipart.serverForm b body with
        | .ok items => showItems items
        | .error .unsupported => "unsupported"
        | .error _ => "reject"
    | _, _, _ => "bad-op"
  | _ => "bad-op"

/-- `c17cd <param> <filename> <extras flat> <ctype>` → the part header block of a file
(`createMultipartHeader` as `CreatePart` writes it). -/
def laneCd : List String → String
  | [p, n, ex, t] =>
    match decodeHex p, decodeHex n, (decodeList ex).bind mkPairs, decodeHex t with
    | some p, some n, some ex, some t => encodeHex (Req.Multipart.fileHeader ⟨p, n, ex, t, []⟩)
    | _, _, _, _ => "bad-op"
  | _ => "bad-op"

/-- `c17quote <value>` → what a standard server reads back from `; filename="<quoted value>"`. -/
def laneQuote : List String → String
  | [v] =>
    match decodeHex v with
    | some v =>
      match Req.Multipart.parseMediaType (Req.Multipart.fileDisposition ⟨[120], v, [], [], []⟩) with
      | .ok (_, ps) => "ok " ++ encodeHex (Req.Multipart.lookup Req.Multipart.filenameKey ps)
      | .error _ => "reject"
    | none => "bad-op"
  | _ => "bad-op"

/-! ### body dispatch -/

def decodeOpt (s : String) : Option (Option Bytes) :=
  if s == "!" then some none else (decodeHex s).map some

def showKind : Req.Body.Kind → String
  | .none => "none" | .multipart => "multipart" | .form => "form"
  | .marshalJson => "json" | .marshalXml => "xml" | .raw => "raw"

/-- `c17body method allowGet multipart ck cc cv rk rc rv ordered boundary f1..f6 marshal json xml body reqCT clientCT sniffed` -/
def decodeCfg : List String → Option Req.Body.Cfg
  | [m, ag, mp, ck, cc, cv, rk, rc, rv, ord, b, f1, f2, f3, f4, f5, f6, mf, js, xm, body, rct, cct, sn] => do
      let m ← decodeHex m
      let ck ← decodeList ck; let cc ← decodeNatList cc; let cv ← decodeList cv
      let rk ← decodeList rk; let rc ← decodeNatList rc; let rv ← decodeList rv
      let cform ← mkValues ck cc cv
      let rform ← mkValues rk rc rv
      let ord ← decodeList ord
      let b ← decodeHex b
      let files ← decodeFiles f1 f2 f3 f4 f5 f6
      let js ← decodeOpt js
      let xm ← decodeOpt xm
      let body ← decodeOpt body
      let rct ← decodeHex rct
      let cct ← decodeHex cct
      let sn ← decodeHex sn
      pure {
        method := toStr m, allowGet := ag == "1", multipart := mp == "1",
        clientForm := cform, reqForm := rform, ordered := ord, files := files, boundary := b,
        marshal := if mf == "1" then some (js, xm) else none,
        body := body, reqCT := rct, clientCT := cct, sniffed := sn }
  | _ => none

def laneBody (args : List String) : String :=
  match decodeCfg args with
  | none => "bad-op"
  | some cfg =>
    match Req.Body.dispatch cfg with
    | none => "err"
    | some o => (match o.body with | none => "nil" | some x => encodeHex x) ++ " " ++ encodeHex o.ct

/-- `c17bodytable <the arguments of c17body>` → `kind=<k> ct=<hex> parser=<p>` read off the DECISION
TABLE (`Body.kindTable`, `Body.expectedCT`) — not off `dispatch` — and the parser a standard
server picks for that Content-Type (`Body.serverParser`); `err` when the call fails. -/
def laneBodyTable (args : List String) : String :=
  match decodeCfg args with
  | none => "bad-op"
  | some cfg =>
    match Req.Body.dispatch cfg with
    | none => "err"
    | some _ =>
      let k := Req.Body.kindTable cfg
      let ct := Req.Body.expectedCT cfg k
      let ks := match k with
        | .none => "none" | .multipart => "multipart" | .form => "form"
        | .marshalJson => "marshal-json" | .marshalXml => "marshal-xml" | .raw => "raw"
      let ps := match Req.Body.serverParser ct with
        | .urlencoded => "urlencoded"
        | .multipart b => "multipart:" ++ encodeHex b
        | .other => "other"
      s!"kind={ks} ct={encodeHex ct} parser={ps}"

/-- `c17wire …` = `c17body …` as seen on the wire: an empty body and no body look the same. -/
def laneWire (args : List String) : String :=
  let a := laneBody args
  if a.startsWith "_ " then "nil " ++ (a.drop 2).toString else a

/-- `c17forme2e rk rc rv ck cc cv ordered` → Lean server ∘ Lean client for urlencoded forms:
what `ParseForm` holds (sorted by key, value order kept) and the error flag; `err` when the
client refuses (odd ordered count). -/
def laneFormE2E : List String → String
  | [rk, rc, rv, ck, cc, cv, ord] =>
    let r : Option String := do
      let rk ← decodeList rk; let rc ← decodeNatList rc; let rv ← decodeList rv
      let ck ← decodeList ck; let cc ← decodeNatList cc; let cv ← decodeList cv
      let rform ← mkValues rk rc rv
      let cform ← mkValues ck cc cv
      let ord ← decodeList ord
      match Req.Form.pairUp ord with
      | none => pure "err"
      | some pairs =>
        let body := Req.Body.joinAmp (Req.Form.encodePairs pairs)
          (Req.Form.encode (Req.Form.mergeForm rform cform))
        let (ps, err) := Req.Form.parseForm body
        let sp := sortPairs ps
        pure (encodeList (sp.map (·.1)) ++ " " ++ encodeList (sp.map (·.2)) ++ " " ++ (if err then "err" else "ok"))
    r.getD "bad-op"
  | _ => "bad-op"

/-! ### progress automata -/

def showInts (l : List Int) : String :=
  if l.isEmpty then "-" else ",".intercalate (l.map toString)

def decodeIntList (s : String) : Option (List Int) :=
  if s == "-" then some [] else (s.splitOn ",").mapM String.toInt?

/-- `c17progw <total> <ns> <clock bits>` → callback arguments of the upload writer. -/
def laneProgW : List String → String
  | [tot, ns, cl] =>
    match tot.toInt?, decodeIntList ns, decodeNatList cl with
    | some tot, some ns, some cl =>
      if ns.length != cl.length then "bad-op" else
      showInts (Req.Progress.runW ⟨0, tot⟩ ((ns.zip cl).map fun (n, c) => ⟨n, c == 1⟩))
    | _, _, _ => "bad-op"
  | _ => "bad-op"

/-- `c17progr <ns> <eof bits> <clock bits>` → callback arguments of the download reader. -/
def laneProgR : List String → String
  | [ns, eofs, cl] =>
    match decodeIntList ns, decodeNatList eofs, decodeNatList cl with
    | some ns, some eofs, some cl =>
      if ns.length != cl.length || ns.length != eofs.length then "bad-op" else
      showInts (Req.Progress.runR ⟨0, 0⟩
        (((ns.zip eofs).zip cl).map fun ((n, e), c) => ⟨n, e == 1, c == 1⟩))
    | _, _, _ => "bad-op"
  | _ => "bad-op"

/-! ### early answers while the upload is in flight -/

def decodeProto : String → Option Req.EarlyResponse.Proto
  | "h1" => some .h1 | "h2" => some .h2 | "h3" => some .h3 | _ => none

def showVerdict : Req.EarlyResponse.Verdict → String
  | .ok => "ok" | .uploadCut => "upload-cut" | .garbage => "not-a-prefix" | .responseLost => "response-lost"

/-- `c17early <proto> <interim codes> <status|0> <declared|-> <bodySent> <fin> <stop> <finalStatus>
<uploadComplete> <prefixOK> <obsStatus>` → `may-stop|must-complete <verdict>`: the model's rule for the
early answer and its judgement of what the origin and the caller observed. -/
def laneEarly : List String → String
  | [pr, ints, st, decl, sent, fin, stop, fs, uc, pf, os] =>
    let r : Option String := do
      let p ← decodeProto pr
      let ints ← decodeNatList ints
      let st ← st.toNat?
      let decl ← if decl == "-" then some none else decl.toNat?.map some
      let sent ← sent.toNat?
      let fs ← fs.toNat?
      let os ← os.toNat?
      let x : Req.EarlyResponse.Early := ⟨ints, st, decl, sent, fin == "1", stop == "1"⟩
      let o : Req.EarlyResponse.Obs := ⟨uc == "1", pf == "1", os⟩
      pure ((if x.mayStop p then "may-stop " else "must-complete ") ++
        showVerdict (Req.EarlyResponse.judge p x fs o))
    r.getD "bad-op"
  | _ => "bad-op"

/-! ### files given by a reader -/

def mkScript : List Nat → List Bytes → Option (List Req.UploadReader.Rd)
  | [], [] => some []
  | k :: ks, b :: bs => do
    let r ← mkScript ks bs
    match k with
    | 0 => pure (.data b :: r)
    | 1 => pure (.eof b :: r)
    | 2 => pure (.fail b :: r)
    | _ => none
  | _, _ => none

/-- `c17reader <opens> <kinds 0=data 1=eof 2=fail> <chunks>` → `err`, or `ok <bytes of the first read>
<part content>` (`writeMultipartFormFile` on a scripted reader). -/
def laneReader : List String → String
  | [op, kinds, chunks] =>
    match decodeNatList kinds, decodeList chunks with
    | some ks, some cs =>
      match mkScript ks cs with
      | none => "bad-op"
      | some script =>
        if Req.UploadReader.succeeds (op == "1") script then
          match Req.UploadReader.writeFile (op == "1") script, Req.UploadReader.readCap Req.UploadReader.sniffCap script with
          | some r, (.data b, _) => "ok " ++ toString b.length ++ " " ++ encodeHex r.written
          | some r, (.eof b, _) => "ok " ++ toString b.length ++ " " ++ encodeHex r.written
          | _, _ => "err"
        else "err"
    | _, _ => "bad-op"
  | _ => "bad-op"

/-- `c17progwt <total> <interval> <last0> <ns> <nows>` → `<callback arguments> <times at which the
interval test fired>` (upload writer under an explicit clock). -/
def laneProgWT : List String → String
  | [tot, iv, l0, ns, nows] =>
    match tot.toInt?, iv.toInt?, l0.toInt?, decodeIntList ns, decodeIntList nows with
    | some tot, some iv, some l0, some ns, some nows =>
      if ns.length != nows.length then "bad-op" else
      let calls := (ns.zip nows).map fun (n, t) => (⟨n, t⟩ : Req.Progress.WCall)
      showInts (Req.Progress.runWT ⟨0, tot⟩ ⟨l0, iv⟩ calls) ++ " " ++
        showInts (Req.Progress.intervalTimesW ⟨0, tot⟩ ⟨l0, iv⟩ calls)
    | _, _, _, _, _ => "bad-op"
  | _ => "bad-op"

/-- `c17progrt <interval> <last0> <ns> <eof bits> <nows>` → callback arguments of the download
reader under an explicit clock, then `Close`. -/
def laneProgRT : List String → String
  | [iv, l0, ns, eofs, nows] =>
    match iv.toInt?, l0.toInt?, decodeIntList ns, decodeNatList eofs, decodeIntList nows with
    | some iv, some l0, some ns, some eofs, some nows =>
      if ns.length != nows.length || ns.length != eofs.length then "bad-op" else
      let calls := ((ns.zip eofs).zip nows).map fun ((n, e), t) => (⟨n, e == 1, t⟩ : Req.Progress.RCall)
      showInts (Req.Progress.runRC ⟨0, 0⟩ (Req.Progress.bitsR ⟨0, 0⟩ ⟨l0, iv⟩ calls))
    | _, _, _, _, _ => "bad-op"
  | _ => "bad-op"

/-- `c17progrc <ns> <eof bits> <clock bits>` → callback arguments of the download reader, reads
then `Close`. -/
def laneProgRC : List String → String
  | [ns, eofs, cl] =>
    match decodeIntList ns, decodeNatList eofs, decodeNatList cl with
    | some ns, some eofs, some cl =>
      if ns.length != cl.length || ns.length != eofs.length then "bad-op" else
      showInts (Req.Progress.runRC ⟨0, 0⟩
        (((ns.zip eofs).zip cl).map fun ((n, e), c) => ⟨n, e == 1, c == 1⟩))
    | _, _, _ => "bad-op"
  | _ => "bad-op"

/-- `c17progfiles <attempts> <totals> <sizes>` → `id:count,…`: `attempts` sends of files 0..k-1
(`totals` = FileSize, 0 unknown; `sizes` = bytes really written) with a clock that never elapses
and one write per file (the split does not matter then). -/
def laneProgFiles : List String → String
  | [att, tots, szs] =>
    match att.toNat?, decodeIntList tots, decodeIntList szs with
    | some att, some tots, some szs =>
      if tots.length != szs.length then "bad-op" else
      let files : List Req.Progress.FileRun :=
        ((List.range tots.length).zip (tots.zip szs)).map fun (i, (t, z)) => ⟨i, t, [⟨z, false⟩]⟩
      let out := Req.Progress.runAttempts (List.replicate att files)
      if out.isEmpty then "-" else ",".intercalate (out.map fun (i, x) => toString i ++ ":" ++ toString x)
    | _, _, _ => "bad-op"
  | _ => "bad-op"

/-- `c17setbody <class> <bytes>` → the slot `Request.SetBody` fills: `unchanged`, `stream`,
`raw <hex>`, `provider`, `marshal`. -/
def laneSetBody : List String → String
  | [cls, b] =>
    match decodeHex b with
    | none => "bad-op"
    | some b =>
      let arg : Option Req.SetBody.Arg := match cls with
        | "nil" => some .untypedNil | "readcloser" => some .readCloser | "reader" => some .reader
        | "bytes" => some (.bytes b) | "string" => some (.str b) | "func" => some .bodyFunc
        | "composite" => some .composite | "scalar" => some (.scalar b) | _ => none
      match arg with
      | none => "bad-op"
      | some a => match Req.SetBody.setBody a with
        | .unchanged => "unchanged" | .stream => "stream" | .raw x => "raw " ++ encodeHex x
        | .provider => "provider" | .marshal => "marshal"
  | _ => "bad-op"

/-- `c17dlhops <final body size per attempt> <hop body sizes, all attempts>` → the download
callback's arguments with a clock that never elapses (each body read in one piece, EOF seen or
not does not matter once closed): redirect hops are silent, every attempt reports its own final
body. -/
def laneDlHops : List String → String
  | [finals, hops] =>
    match decodeIntList finals, decodeIntList hops with
    | some fs, some hs =>
      let hopRuns : List (List Req.Progress.REvent) := hs.map fun h => [⟨h, false, false⟩]
      showInts (Req.Progress.runDownloadAttempts
        ((fs.zipIdx).map fun (f, i) => ((if i == 0 then hopRuns else []), [⟨f, false, false⟩])))
    | _, _ => "bad-op"
  | _ => "bad-op"

/-- `c17dlstages <content decoding 0/1> <wrapper 0/1> <charset decoding 0/1> <dump 0/1> <wire size>
<size after content decoding> <size after charset decoding>` → `last=<n|-> out=<n>`: the stack
`handleResponseBody` builds for these options (`Stages.stackOf`), run on a wire body of the given
size with decoders that produce bodies of the given sizes; `last` = the final argument of the
download callback once the body has been read and closed (the observed bytes in one read, clock
never elapsing: `Stages.reports`), `out` = the number of bytes the caller receives. -/
def laneDlStages : List String → String
  | [cd, w, cs, d, wire, dec, tr] =>
    match cd.toNat?, w.toNat?, cs.toNat?, d.toNat?, wire.toNat?, dec.toNat?, tr.toNat? with
    | some cd, some w, some cs, some d, some wire, some dec, some tr =>
      let o : Req.Stages.Opts := ⟨cd == 1, w == 1, cs == 1, d == 1⟩
      let c : Req.Stages.Codec := ⟨fun _ => List.replicate dec 0, fun _ => List.replicate tr 0⟩
      let wb : Req.Stages.Bytes := List.replicate wire 0
      let st := Req.Stages.stackOf o
      let last := match Req.Stages.observed c st wb with
        | none => "-"
        | some b => match (Req.Stages.reports [⟨b.length, false, false⟩]).getLast? with
          | some x => toString x
          | none => "-"
      s!"last={last} out={(Req.Stages.deliver c st wb).length}"
    | _, _, _, _, _, _, _ => "bad-op"
  | _ => "bad-op"

/-- `c17utf8 <code points>` → the UTF-8 encoding (`Multipart.utf8Enc`) and its quoted form. -/
def laneUtf8 : List String → String
  | [cps] =>
    match decodeNatList cps with
    | some l =>
      let b := l.flatMap Req.Multipart.utf8Enc
      encodeHex b ++ " " ++ encodeHex (Req.Multipart.quote b)
    | none => "bad-op"
  | _ => "bad-op"

def lanes : List (String × (List String → String)) := [
  ("c17utf8", laneUtf8),
  ("c17dlstages", laneDlStages),
  ("c17bodytable", laneBodyTable),
  ("c17dlhops", laneDlHops),
  ("c17setbody", laneSetBody),
  ("c17progwt", laneProgWT),
  ("c17progrt", laneProgRT),
  ("c17progrc", laneProgRC),
  ("c17progfiles", laneProgFiles),
  ("c17reader", laneReader),
  ("c17early", laneEarly),
  ("c17ordered", laneOrdered),
  ("c17form", laneForm),
  ("c17parseq", laneParseQ),
  ("c17mpwrite", laneMpWrite),
  ("c17mpserver", laneMpServer),
  ("c17mpe2e", laneMpE2E),
  ("c17cd", laneCd),
  ("c17quote", laneQuote),
  ("c17body", laneBody),
  ("c17wire", laneWire),
  ("c17forme2e", laneFormE2E),
  ("c17progw", laneProgW),
  ("c17progr", laneProgR)
]

end Req.Driver.L.C17
