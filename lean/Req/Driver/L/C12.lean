import Req.Driver.Proto
/-! Driver lanes of C12. -/
namespace Req.Driver.L.C12
open Req.Proto

def lanes : List (String × (List String → String)) := []

end Req.Driver.L.C12
