import Req.Driver.Proto
import Req.Pool.Dispatch
import Req.Pool.Tls
import Req.Pool.TlsFamily
import Req.Pool.TlsPaths
import Req.Pool.TlsOrder
import Req.Pool.AlpnSeq
import Req.Pool.ProxyDispatch
import Req.Pool.AltSvcState
import Req.Pool.AltSvcClient
import Req.Pool.WrapChain
/-! Driver lanes of C12.

* `c12route <force> <h3> <allowHTTP> <dialTLS> <handshake> <protos> <scheme> <reqH1> <alpn>
  <tcpAccept> <h3Up> <quicAccept> <plainH2> <custom> <cachedH2> <cachedH3> <alt>`
  → `ok:h1|ok:h2|ok:h3|err:tls|err:other|crash` (`Dispatch.route`).
* `c12routeu …` same arguments → `Dispatch.routeUnpatched` (the un-patched order; used to tag
  the known Alt-Svc findings precisely).
* `c12set <goSupportsH3> <setters>` → the protocol settings after a setter sequence
  (`Dispatch.applySetting` folded from `T()`).
* `c12cfg <stack> <onlyH1> <host> <issuer> <names> <ops>` → `sni=<n> alpn=<protos> accept=<0|1>
  cert=<id|->`: the configuration stack `<stack>` builds for a new connection after the
  setter sequence `<ops>` (starting from `T()`'s initial config), judged by `acceptsStd`
  against a server certificate issued by CA `<issuer>` for names `<names>`.

Encodings: booleans `0/1`; force `-|1|2|3`; ALPN lists are strings over `2` (h2), `1`
(http/1.1), `3` (h3), `x` (other), `-` = empty; custom `fail|plain|tls:<proto|->:<mutual>`;
id lists are digit strings (`-` = empty).
-/
namespace Req.Driver.L.C12
open Req.Proto Req.Pool.Dispatch Req.Pool.TLS

def pBool : String → Option Bool
  | "0" => some false
  | "1" => some true
  | _ => none

def pAlpn1 : Char → Option Alpn
  | '2' => some .h2
  | '1' => some .http11
  | '3' => some .h3
  | 'x' => some .other
  | _ => none

def pAlpns (s : String) : Option (List Alpn) :=
  if s == "-" then some [] else s.toList.mapM pAlpn1

def sAlpn : Alpn → Char
  | .h2 => '2'
  | .http11 => '1'
  | .h3 => '3'
  | .other => 'x'

def sAlpns (l : List Alpn) : String := if l.isEmpty then "-" else String.ofList (l.map sAlpn)

def pDigits (s : String) : Option (List Nat) :=
  if s == "-" then some [] else s.toList.mapM fun c => if c.isDigit then some (c.toNat - 48) else none

def pForce : String → Option (Option Ver)
  | "-" => some none
  | "1" => some (some .h1)
  | "2" => some (some .h2)
  | "3" => some (some .h3)
  | _ => none

def pScheme : String → Option Scheme
  | "http" => some .http
  | "https" => some .https
  | "other" => some .other
  | _ => none

def pCustom (s : String) : Option Custom :=
  match s.splitOn ":" with
  | ["fail"] => some .fail
  | ["plain"] => some .plain
  | ["tls", p, m] => do
    let m ← pBool m
    let pr ← (if p == "-" then some none else
      match p.toList with
      | [c] => (pAlpn1 c).map some
      | _ => none)
    pure (.tls ⟨pr, m⟩)
  | _ => none

def sRoute : Route → String
  | .ok .h1 => "ok:h1"
  | .ok .h2 => "ok:h2"
  | .ok .h3 => "ok:h3"
  | .error .tlsReject => "err:tls"
  | .error _ => "err:other"
  | .crash => "crash"

def parseRoute (args : List String) : Option (Cfg × Req × Net) :=
  match args with
  | [force, h3, allow, dial, hs, protos, scheme, reqH1, alpn, tcpA, h3Up, quicA, plainH2, custom, cH2, cH3, alt] => do
    let cfg : Cfg := ⟨← pForce force, ← pBool h3, ← pBool allow, ← pBool dial, ← pBool hs, ← pAlpns protos⟩
    let req : Req := ⟨← pScheme scheme, ← pBool reqH1⟩
    let net : Net := ⟨← pAlpns alpn, ← pBool tcpA, ← pBool h3Up, ← pBool quicA, ← pBool plainH2, ← pCustom custom,
      ← pBool cH2, ← pBool cH3, ← pBool alt⟩
    pure (cfg, req, net)
  | _ => none

def laneRoute (args : List String) : String :=
  match parseRoute args with
  | some (cfg, req, net) => sRoute (route cfg req net)
  | none => "bad-op"

def laneRouteU (args : List String) : String :=
  match parseRoute args with
  | some (cfg, req, net) => sRoute (routeUnpatched cfg req net)
  | none => "bad-op"

def pStack : String → Option Stack
  | "h1" => some .h1
  | "h2" => some .h2
  | "h3" => some .h3
  | _ => none

def pRoots (s : String) : Option (Option (List Nat)) :=
  match s.toList with
  | ['n'] => some none
  | 'r' :: ds => (ds.mapM fun (c : Char) => if c.isDigit then some (c.toNat - 48) else none).map some
  | _ => none

def pTagged (tag : Char) (s : String) : Option String :=
  match s.toList with
  | c :: rest => if c == tag then some (String.ofList rest) else none
  | [] => none

def pOp (s : String) : Option Op :=
  match s.splitOn ":" with
  | ["nil"] => some (.setConfig none)
  | ["clone"] => some .clone
  | ["use"] => some .use
  | ["ins1"] => some (.insecure true)
  | ["ins0"] => some (.insecure false)
  | ["roots", r] => (pRoots r).map .setRoots
  | ["cfg", sn, ins, roots, certs, protos] => do
    let sn ← sn.toNat?
    let ins ← pBool ins
    let roots ← pRoots roots
    let certs ← (pTagged 'c' certs) >>= fun d => pDigits (if d.isEmpty then "-" else d)
    let protos ← (pTagged 'p' protos) >>= fun d => pAlpns (if d.isEmpty then "-" else d)
    pure (.setConfig (some { serverName := sn, insecure := ins, roots := roots, certs := certs, protos := protos }))
  | [one] =>
    if one.startsWith "root" then (one.drop 4).toString.toNat?.map .addRoot
    else if one.startsWith "cert" then (one.drop 4).toString.toNat?.map .addCert
    else if one.startsWith "sn" then (one.drop 2).toString.toNat?.map .setServerName
    else none
  | _ => none

def pOps (s : String) : Option (List Op) :=
  if s == "-" then some [] else (s.splitOn ",").mapM pOp

def laneCfg : List String → String
  | [stack, onlyH1, host, issuer, names, ops] =>
    match pStack stack, pBool onlyH1, host.toNat?, issuer.toNat?, pDigits names, pOps ops with
    | some s, some o, some h, some iss, some ns, some os =>
      let eff := effective s o h (run (some initialCfg) os)
      let acc := acceptsStd eff.toVerifyCfg ⟨iss, ns⟩
      let cert := if acc then (match eff.certs with | c :: _ => toString c | [] => "-") else "-"
      s!"sni={eff.serverName} alpn={sAlpns eff.protos} accept={if acc then 1 else 0} cert={cert}"
    | _, _, _, _, _, _ => "bad-op"
  | _ => "bad-op"

def pFOp (s : String) : Option FOp :=
  if s == "fork" then some .fork
  else if s.startsWith "sw" then (s.drop 2).toString.toNat?.map .switch
  else (pOp s).map .set

/-- `c12fam <stack> <onlyH1> <host> <issuer> <names> <acceptableCAs> <member> <fops>`: the
configuration stack `<stack>` of MEMBER `<member>` of the family builds for a new connection
after the interleaved setters / forks / switches `<fops>` (from `C()`), judged against a
server certificate of CA `<issuer>` for `<names>`; `cert=` is the client certificate
presented to a server naming `<acceptableCAs>` (`-` = no list). -/
def laneFam : List String → String
  | [stack, onlyH1, host, issuer, names, acc, member, fops] =>
    match pStack stack, pBool onlyH1, host.toNat?, issuer.toNat?, pDigits names, pDigits acc, member.toNat?,
      (if fops == "-" then some [] else (fops.splitOn ",").mapM pFOp) with
    | some s, some o, some h, some iss, some ns, some acc, some m, some os =>
      match (famRun famInit os).members[m]? with
      | none => "no-member"
      | some r =>
        let eff := effective s o h r
        let ok := acceptsStd eff.toVerifyCfg ⟨iss, ns⟩
        let cert := if ok then (match presented eff.certs acc with | some c => toString c | none => "-") else "-"
        s!"sni={eff.serverName} alpn={sAlpns eff.protos} accept={if ok then 1 else 0} cert={cert}"
    | _, _, _, _, _, _, _, _ => "bad-op"
  | _ => "bad-op"

def pPath : String → Option DialPath
  | "direct" => some .h1Direct
  | "tunnel" => some .h1Tunnel
  | "h2own" => some .h2Own
  | "quic" => some .h3Quic
  | _ => none

def pHs : String → Option (Option HsKind)
  | "-" => some none
  | "fp" => some (some .fingerprint)
  | "user" => some (some .user)
  | _ => none

def sGiven : Option Given → String
  | none => "-"
  | some (.bare _) => "bare"
  | some (.withPort _) => "port"

def fpCopiedFull : List FpField := [.serverName, .rootCAs, .insecureSkipVerify, .certificates, .nextProtos]

def pHookOp : String → Option HookOp
  | "Hfp" => some .fingerprint
  | "Huser" => some .userHandshake
  | "Hnone" => some .noHandshake
  | "Hdial1" => some (.dialTLS true)
  | "Hdial0" => some (.dialTLS false)
  | _ => none

/-- setter sequences of `c12path`: TLS setters (`pOp`) and hook setters (`H…`) in any order -/
def pPOps (s : String) : Option (List POp) :=
  if s == "-" then some [] else (s.splitOn ",").mapM fun t =>
    if t.startsWith "H" then (pHookOp t).map .hook else (pOp t).map .tls

/-- `c12path <path> <dialTLS> <hs> <trustOK> <onlyH1> <force> <host> <issuer> <names> <acceptableCAs>
<serverALPN> <ops>`: a NEW connection on dial path `<path>` of a client after the setter
sequence `<ops>` (TLS setters and hook setters `Hfp|Huser|Hnone|Hdial1|Hdial0` interleaved,
run by the pointer-level `Req.Pool.TLS.prun`), then the hook setters `<hs>` / `<dialTLS>`
(when not `-` / `0`): who governs the handshake, what the hook is
handed, and — when no user function governs — the SNI, the offered ALPN list (under the
fingerprint the preset's list), the verdict against a server certificate of CA
`<issuer>` for `<names>`, the client certificate presented, and whether `dialConn` hands the
connection to HTTP/2. A user function (the lane's: verifies against the name it is given,
trusts per `<trustOK>`, offers no ALPN) only yields its verdict. -/
def lanePathWith (copied : List FpField) : List String → String
  | [path, dial, hs, trust, onlyH1, force, host, issuer, names, acc, srvAlpn, ops] =>
    match pPath path, pBool dial, pHs hs, pBool trust, pBool onlyH1, pForce force, host.toNat?, issuer.toNat?,
      pDigits names, pDigits acc, pAlpns srvAlpn, pPOps ops with
    | some p, some d0, some hk0, some tr, some o, some f, some h, some iss, some ns, some acc, some sa, some os =>
      let tail : List POp :=
        (match hk0 with
         | some .fingerprint => [.hook .fingerprint]
         | some .user => [.hook .userHandshake]
         | none => []) ++ (if d0 then [.hook (.dialTLS true)] else [])
      let fin := prun .atHandshake PClient.init (os ++ tail)
      let hooks : Hooks := hooksOf fin
      let d := hooks.dialTLS
      let hk := hooks.handshake
      let read := readFor .atHandshake fin p
      match governs hooks p with
      | .userDialTLS => s!"gov=dial given={sGiven (dialTLSGiven h p)} accept={if tr && ns.contains h then 1 else 0}"
      | .userHandshake =>
        let g := handshakeGiven h p
        let a := match g with | some g => hookAccepts tr ns g | none => false
        s!"gov=hs given={sGiven g} accept={if a then 1 else 0}"
      | gov =>
        match pathCfg copied hooks p o h read with
        | none => "no-config"
        | some eff =>
          let fp := gov == .fingerprint
          let neg := negotiate sa eff.protos
          let ok := acceptsStd eff.toVerifyCfg ⟨iss, ns⟩ && neg.isSome
          let cert := if ok then (match presented eff.certs acc with | some c => toString c | none => "-") else "-"
          let dcfg : Cfg := ⟨f, false, false, d, hk.isSome, []⟩
          let hand :=
            if !ok then "-" else
            match neg with
            | none => "-"
            | some pr =>
              match p with
              | .h2Own => if pr = some .h2 then "h2" else "no-h2"
              | .h3Quic => "-"
              | _ => if handsOff dcfg (some ⟨pr, true⟩) then "1" else "0"
          let given := if fp then sGiven (handshakeGiven h p) else "-"
          s!"gov={if fp then "fp" else "cfg"} given={given} sni={eff.serverName} alpn={sAlpns eff.protos} accept={if ok then 1 else 0} cert={cert} handoff={hand}"
    | _, _, _, _, _, _, _, _, _, _, _, _ => "bad-op"
  | _ => "bad-op"

def lanePath := lanePathWith fpCopiedFull
/-- the fingerprint closure of the un-repaired tree (used only to recognise the known finding) -/
def lanePathU := lanePathWith fpCopiedUnpatched

def pProxy (s : String) : Option (Option ProxyNet) :=
  match s.splitOn ":" with
  | ["-"] => some none
  | [k, up, tun] => do
    let k ← (match k with | "http" => some ProxyKind.http | "https" => some ProxyKind.http | "socks5" => some ProxyKind.socks5 | _ => none)
    pure (some ⟨k, ← pBool up, ← pBool tun⟩)
  | _ => none

/-- `c12proxy <proxy> <the 17 arguments of c12route>` → `<route> via=<0|1|->` (`Dispatch.routeP`,
`viaProxy`; `-` when the proxy is down: nothing to observe); `<proxy>` = `-` | `http:<up>:<tunnel>` | `socks5:<up>:<tunnel>` | `https:<up>:<tunnel>` (the HTTP proxy
reached over TLS, `SetProxyURL("https://…")`: same kind — CONNECT for https; its certificate is acceptable
under exactly the settings the origin's is, so `routeP` is unchanged). -/
def laneProxy : List String → String
  | px :: rest =>
    match pProxy px, parseRoute rest with
    | some px, some (cfg, req, net) =>
      let via := match px with
        | some p => if !p.up then "-" else if viaProxy px cfg req net then "1" else "0"
        | none => "0"
      s!"{sRoute (routeP px cfg req net)} via={via}"
    | _, _ => "bad-op"
  | _ => "bad-op"

/-- `c12offer <force> <reqH1> <protos>` → the ALPN list offered (`Dispatch.offered`). -/
def laneOffer : List String → String
  | [force, reqH1, protos] =>
    match pForce force, pBool reqH1, pAlpns protos with
    | some f, some r, some ps => sAlpns (offered ⟨f, false, false, false, false, ps⟩ ⟨.https, r⟩)
    | _, _, _ => "bad-op"
  | _ => "bad-op"

/-- `c12alpn <force> <h3on> <reqH1> <protos> <serverALPN> <h3Up>`: a fresh client's first https
request to an origin whose certificate it accepts → `offer=<list|none> quic=<0|1> route=<…>`:
the ALPN list of the ClientHello the origin receives (`Dispatch.offered`; `none` when a forced
HTTP/3 finds no QUIC listener), on which listener, and `Dispatch.route`. -/
def laneAlpn : List String → String
  | [force, h3on, reqH1, protos, srvAlpn, h3Up] =>
    match pForce force, pBool h3on, pBool reqH1, pAlpns protos, pAlpns srvAlpn, pBool h3Up with
    | some f, some h3on, some r, some ps, some sa, some up =>
      let cfg : Cfg := ⟨f, h3on || f == some .h3, false, false, false, ps⟩
      let req : Req := ⟨.https, r⟩
      let net : Net := ⟨sa, true, up, true, false, .fail, false, false, false⟩
      let quic := f == some .h3
      let offer := if quic && !up then "none" else sAlpns (offered cfg req)
      s!"offer={offer} quic={if quic then 1 else 0} route={sRoute (route cfg req net)}"
    | _, _, _, _, _, _ => "bad-op"
  | _ => "bad-op"

section alpnseq
open Req.Pool.Alpn

def pAOp (t : String) : Option AOp :=
  if t == "pn" then some (.setProtos none)
  else if t.startsWith "p:" then (pAlpns (t.drop 2).toString).map fun l => .setProtos (some l)
  else if t == "uf" then some (.force none)
  else if t == "f1" then some (.force (some .h1))
  else if t == "f2" then some (.force (some .h2))
  else if t == "f3" then some (.force (some .h3))
  else if t == "e3" then some .enableH3
  else if t == "fork" then some .fork
  else if t.startsWith "sw" then (t.drop 2).toString.toNat?.map .switch
  else if t == "r0" then some (.request false)
  else if t == "r1" then some (.request true)
  else none

/-- `c12alpnseq <serverALPN> <h3Up> <ops>`: a family of clients (from `C()`) through setters,
mode switches, `Clone` and requests (`Req.Pool.Alpn.astep`, the code's `assignNil`); every
request makes a NEW connection to an origin whose certificate is trusted. Per request
`offer=<list|none>;quic=<0|1>;route=<…>` (as lane `c12alpn`), comma separated. -/
def laneAlpnSeq : List String → String
  | [srvAlpn, h3Up, ops] =>
    match pAlpns srvAlpn, pBool h3Up, (if ops == "-" then some [] else (ops.splitOn ",").mapM pAOp) with
    | some sa, some up, some os =>
      let net : Net := ⟨sa, true, up, true, false, .fail, false, false, false⟩
      let (_, out) := os.foldl (fun (acc : World × List String) op =>
        let w := acc.1
        let (w', o) := astep .assignNil w op
        match op, o, w.members[w.cur]? with
        | .request h1, some offer, some m =>
          let cfg := cfgOf w.arrays m
          let quic := m.force == some .h3
          let offerS := if quic && !up then "none" else sAlpns offer
          (w', acc.2 ++ [s!"offer={offerS};quic={if quic then 1 else 0};route={sRoute (route cfg ⟨.https, h1⟩ net)}"])
        | _, _, _ => (w', acc.2)) (World.init, [])
      if out.isEmpty then "-" else ",".intercalate out
    | _, _, _ => "bad-op"
  | _ => "bad-op"
end alpnseq

section wrap
open Req.Pool.Wrap

def pWOp (t : String) : Option WOp :=
  if t == "uf" then some (.set (.force none))
  else if t == "f1" then some (.set (.force (some .h1)))
  else if t == "f2" then some (.set (.force (some .h2)))
  else if t == "f3" then some (.set (.force (some .h3)))
  else if t == "e3" then some (.set .enableH3)
  else if t == "px1" then some (.set (.proxy true))
  else if t == "px0" then some (.set (.proxy false))
  else if t.startsWith "tr" then (t.drop 2).toString.toNat?.map fun k => .set (.trust k)
  else if t.startsWith "tw" then (t.drop 2).toString.toNat?.map .twrap
  else if t.startsWith "cw" then (t.drop 2).toString.toNat?.map .cwrap
  else if t == "fork" then some .fork
  else if t.startsWith "sw" then (t.drop 2).toString.toNat?.map .switch
  else if t == "rq" then some .request
  else none

/-- `c12wrap <serverALPN> <h3Up> <serverCA> <ops>`: a family of clients (from `C()`) through
per-client settings (forced version, HTTP/3, trust root, proxy), middleware installations on
the transport (`tw<id>`; id 0 = a wrapper the library builds itself: header order, pseudo
header order, impersonation — not traceable) and on the client (`cw<id>`), `Clone` (`fork`),
switches and requests (`Req.Pool.Wrap.wstep .onCopy`). Every request makes a NEW connection.
Per request `route=<…>;via=<0|1>;trace=<ids outermost first, . separated|->`, comma separated:
`Dispatch.routeP` / `viaProxy` under the settings of the member the chains end in. -/
def laneWrap : List String → String
  | [srvAlpn, h3Up, ca, ops] =>
    match pAlpns srvAlpn, pBool h3Up, ca.toNat?, (if ops == "-" then some [] else (ops.splitOn ",").mapM pWOp) with
    | some sa, some up, some ca, some os =>
      let (_, out) := os.foldl (fun (acc : Req.Pool.Wrap.Fam × List String) op =>
        let f := acc.1
        let f' := wstep .onCopy f op
        match op with
        | .request =>
          let tr := (trace f f.cur).filter (· != 0)
          let trS := if tr.isEmpty then "-" else ".".intercalate (tr.map toString)
          let o := match outcome f f.cur sa up ca with
            | some (r, via) => s!"route={sRoute r};via={if via then 1 else 0}"
            | none => "route=none;via=0"
          (f', acc.2 ++ [s!"{o};trace={trS}"])
        | _ => (f', acc.2)) (Req.Pool.Wrap.Fam.init, [])
      if out.isEmpty then "-" else ",".intercalate out
    | _, _, _, _ => "bad-op"
  | _ => "bad-op"
end wrap

def pSetting : String → Option Setting
  | "f1" => some .forceH1
  | "f2" => some .forceH2
  | "f3" => some .forceH3
  | "uf" => some .unforce
  | "e3" => some .enableH3
  | "d3" => some .disableH3
  | "eh" => some .enableH2C
  | "dh" => some .disableH2C
  | "cl" => some .clone
  | _ => none

section altsm
open Req.Pool.AltSvc

def pOrigin (s : String) : Option Origin :=
  match s.splitOn "." with
  | [h, p] => do pure ⟨.https, ← h.toNat?, ← p.toNat?⟩
  | _ => none

def pMas (s : String) : Option (List (Option Nat)) :=
  if s == "-" then some [] else (s.splitOn "/").mapM fun x => if x == "n" then some none else x.toNat?.map some

def pAltEvent (s : String) : Option Event :=
  match s.splitOn ":" with
  | ["h", o, now, mas] => do pure (.header (← pOrigin o) (← now.toNat?) (← pMas mas))
  | ["d", o, rs] => do pure (.dialed (← pOrigin o) (← rs.toList.mapM fun c => if c == '1' then some true else if c == '0' then some false else none))
  | ["r", o, now, ok] => do pure (.request (← pOrigin o) (← now.toNat?) (← pBool ok))
  | _ => none

def sPending (s : State) (o : Origin) : String :=
  match s.pending o with
  | none => "-"
  | some p => s!"{p.idx}{if p.ready then "r" else "w"}"

/-- `c12altsm <events>` → per event the disposition of a request (`A1`/`A0` = through the Alt-Svc
shortcut, response / error; `N` = normal dispatch) and the pending entry of the event's origin
afterwards (`-` | `<idx>r` ready | `<idx>w` waiting); `s:<setter>` events (tokens of `c12set`)
change the protocol settings in between; from `C()` (`Req.Pool.AltSvc.cstep`). -/
def laneAltSm : List String → String
  | [evs] =>
    let pEv (t : String) : Option CEvent :=
      if t.startsWith "s:" then (pSetting (t.drop 2).toString).map .setting else (pAltEvent t).map .alt
    match (evs.splitOn ",").mapM pEv with
    | none => "bad-op"
    | some es =>
      let (_, out) := es.foldl (fun (acc : Client × List String) e =>
        let (c', served) := cstep true acc.1 e
        let tag := match e, served with
          | .setting _, _ => "s"
          | .alt (.header o ..), _ => "h" ++ sPending c'.alt o
          | .alt (.dialed o ..), _ => "d" ++ sPending c'.alt o
          | .alt (.request o ..), some (.alt true) => "rA1" ++ sPending c'.alt o
          | .alt (.request o ..), some (.alt false) => "rA0" ++ sPending c'.alt o
          | .alt (.request o ..), _ => "rN" ++ sPending c'.alt o
        (c', acc.2 ++ [tag])) (Client.init, [])
      ",".intercalate out
  | _ => "bad-op"
end altsm

/-- `c12set <supported> <settings>` → `force=… h3=… allow=… dial=…` after the setters, from `T()`
(`allow=?` once a clone occurred: whether Clone carries `t2.AllowHTTP` is C19's subject). -/
def laneSetWith (ap : Bool → Cfg → Setting → Cfg) : List String → String
  | [sup, ss] =>
    match pBool sup, (if ss == "-" then some [] else (ss.splitOn ",").mapM pSetting) with
    | some sup, some l =>
      let c := l.foldl (ap sup) initialProto
      let f := match c.force with | none => "-" | some .h1 => "1" | some .h2 => "2" | some .h3 => "3"
      let b := fun (x : Bool) => if x then "1" else "0"
      let allow := if l.contains .clone then "?" else b c.allowHTTP
      s!"force={f} h3={b c.h3} allow={allow} dial={b c.dialTLS}"
    | _, _ => "bad-op"
  | _ => "bad-op"

def laneSet := laneSetWith applySetting
/-- the un-patched `DisableHTTP3` (used only to recognise the known finding exactly) -/
def laneSetU := laneSetWith applySettingUnpatched

def lanes : List (String × (List String → String)) := [
  ("c12set", laneSet),
  ("c12setu", laneSetU),
  ("c12route", laneRoute),
  ("c12routeu", laneRouteU),
  ("c12cfg", laneCfg),
  ("c12fam", laneFam),
  ("c12path", lanePath),
  ("c12pathu", lanePathU),
  ("c12proxy", laneProxy),
  ("c12offer", laneOffer),
  ("c12alpn", laneAlpn),
  ("c12alpnseq", laneAlpnSeq),
  ("c12wrap", laneWrap),
  ("c12altsm", laneAltSm)
]

end Req.Driver.L.C12
