import Req.Driver.L.C18Codec
import Req.Client.Pipeline
import Req.Client.Consume
/-!
Driver lane `c18pipe`: a scripted call (`Req.Pipeline.Stack`) → the caller-visible outcome and
the per-attempt invocation log.

```
c18pipe <fixes> <entry> <flags> <udReq> <builtin> <wrappers> <getBody> <transport> <clientResp> <reqResp> <retry> [<outFails> [<hooks>]]
  fixes      3 or 4 bits  keepErr nilGuard digestRebind [digestSave]   ("1111" = repaired code)
  entry      d | s | v | m                                   (Do, Send, verb helper, Must*)
  flags      7 or 8 bits  builderErr unreplayable successTarget errorTarget commonErr autoRead hook [save]
             (save = Request.SetOutput / SetOutputFile)
  udReq      stages ';'  per-attempt acts ','   act = o | f<err>            ("-" = no stage)
  builtin    per-attempt acts ','               act = o | f<err>            ("-" = none)
  wrappers   stages ';'  acts ','   act = p | sn<err> | sf<err> | nn | pe<err> | pn<err> | sw | ps<err>
  getBody    per-attempt bits ','                                            ("-" = none)
  transport  per-attempt ','   f<err> | r<status>:<custom>:<readOK>:<jsonOK>:<xmlOK>:<ct hex>[:<xf>]
             xf = - (no body transformer) | k (accepts) | n<err> (fails, nil body) | b<err> (fails, returns a body)
  clientResp stages ';'  acts ','   act = n | r<err> | s<err> | c
  reqResp    stages ';'  acts ','   act = n | r<err> | s<err> | c | d<chalOK>/<transport outcome>
  retry      <maxRetries>:<conds>[:<ctxDone>]    conds = "-" (default rule) | bits, one per attempt
             maxRetries = n | u<fuel> (SetRetryCount(-1): unbounded; fuel = attempts the script describes)
             ctxDone = bits, one per attempt: the context is done at the wait after that attempt
  outFails   bits, one per attempt: creating / writing the output fails ("-" = never)
  hooks      <OnError hook>:<retry hooks per attempt ','>   act = n | s<err> (resp.Err = err) | c (resp.Err = nil)
```
-/
namespace Req.Driver.L.C18
open Req.Proto Req.Result Req.Pipeline

def splitList (sep : String) (s : String) : List String :=
  if s == "-" then [] else s.splitOn sep

def parseReqAct (s : String) : Option ReqAct :=
  if s == "o" then some .ok
  else if s.startsWith "f" then (parseErr1 (s.drop 1).toString).map .fail
  else none

def parseRespAct (s : String) : Option RespAct :=
  if s == "n" then some .nop
  else if s == "c" then some .clear
  else if s.startsWith "r" then (parseErr1 (s.drop 1).toString).map .ret
  else if s.startsWith "s" then (parseErr1 (s.drop 1).toString).map .set
  else none

def parseTOut (s : String) : Option TOut :=
  if s.startsWith "f" then (parseErr1 (s.drop 1).toString).map .fail
  else if s.startsWith "r" then
    let mk (st cu rd jo xo ct xf : String) : Option TOut :=
      match decodeInt st, parseState cu, parseBool rd, parseBool jo, parseBool xo, decodeHex ct, parseXf xf with
      | some st, some cu, some rd, some jo, some xo, some ct, some xf =>
        some (.resp { status := st, ct := ct, custom := cu, readOK := rd, jsonOK := jo, xmlOK := xo, xf := xf })
      | _, _, _, _, _, _, _ => none
    match (s.drop 1).toString.splitOn ":" with
    | [st, cu, rd, jo, xo, ct] => mk st cu rd jo xo ct "-"
    | [st, cu, rd, jo, xo, ct, xf] => mk st cu rd jo xo ct xf
    | _ => none
  else none

def parseRAct (s : String) : Option RAct :=
  if s.startsWith "d" then
    match (s.drop 1).toString.splitOn "/" with
    | [ok, t] =>
      match parseBool ok, parseTOut t with
      | some ok, some t => some (.digest ok t)
      | _, _ => none
    | _ => none
  else (parseRespAct s).map .mw

def parseWAct (s : String) : Option WAct :=
  if s == "p" then some .pass
  else if s == "nn" then some .nilNil
  else if s == "sw" then some .swallow
  else if s.startsWith "sn" then (parseErr1 (s.drop 2).toString).map .shortNil
  else if s.startsWith "sf" then (parseErr1 (s.drop 2).toString).map .shortFresh
  else if s.startsWith "pe" then (parseErr1 (s.drop 2).toString).map .postErr
  else if s.startsWith "pn" then (parseErr1 (s.drop 2).toString).map .postNil
  else if s.startsWith "ps" then (parseErr1 (s.drop 2).toString).map .postSet
  else none

def parseStages {α} (f : String → Option α) (s : String) : Option (List (List α)) :=
  (splitList ";" s).mapM fun st => (st.splitOn ",").mapM f

def parseAtts {α} (f : String → Option α) (s : String) : Option (List α) :=
  (splitList "," s).mapM f

def parseBits (s : String) : Option (List Bool) :=
  s.toList.mapM fun c => if c == '0' then some false else if c == '1' then some true else none

def parseEntry : String → Option Entry
  | "d" => some .do_
  | "s" => some .send
  | "v" => some .verb
  | "m" => some .must
  | _ => none

structure Retry where
  n : Nat
  unbounded : Bool
  fuel : Nat
  conds : Option (List Bool)
  ctxDone : List Bool

def parseRetry (s : String) : Option Retry :=
  let go (n c x : String) : Option Retry :=
    let conds : Option (Option (List Bool)) := if c == "-" then some none else (parseBits c).map some
    let ctx : Option (List Bool) := if x == "-" then some [] else parseBits x
    match conds, ctx with
    | some conds, some ctx =>
      if n.startsWith "u" then (n.drop 1).toNat?.map fun f => ⟨0, true, f, conds, ctx⟩
      else n.toNat?.map fun k => ⟨k, false, 0, conds, ctx⟩
    | _, _ => none
  match s.splitOn ":" with
  | [n, c] => go n c "-"
  | [n, c, x] => go n c x
  | _ => none

def parseHookAct (s : String) : Option HookAct :=
  if s == "n" then some .nop
  else if s == "c" then some .clear
  else if s.startsWith "s" then (parseErr1 (s.drop 1).toString).map .set
  else none

/-- `<OnError hook act>:<retry hook acts, one per attempt, ','>` (`n` | `s<err>` | `c`; `-` = none) -/
def parseHooks (s : String) : Option (HookAct × List HookAct) :=
  match s.splitOn ":" with
  | [h, rh] =>
    match parseHookAct h, (splitList "," rh).mapM parseHookAct with
    | some h, some rh => some (h, rh)
    | _, _ => none
  | _ => none

def parseStack12 : List String → Option (Fixes × Stack)
  | [fx, en, fl, ud, bi, wr, gb, tr, cr, rr, rt, ofl] =>
    match parseBits fx, parseEntry en, parseBits fl, parseStages parseReqAct ud, parseAtts parseReqAct bi,
          parseStages parseWAct wr, parseAtts parseBool gb, parseAtts parseTOut tr,
          parseStages parseRespAct cr, parseStages parseRAct rr, parseRetry rt,
          (if ofl == "-" then some [] else parseBits ofl) with
    | some (f1 :: f2 :: f3 :: fmore), some en, some (b1 :: b2 :: b3 :: b4 :: b5 :: b6 :: b7 :: more), some ud, some bi, some wr, some gb, some tr,
      some cr, some rr, some rt, some ofl =>
      let save : Option Bool := match more with
        | [] => some false
        | [b] => some b
        | _ => none
      let f4 : Option Bool := match fmore with
        | [] => some true
        | [b] => some b
        | _ => none
      (save.bind fun save => f4.map fun f4 => (save, f4)).map fun (save, f4) =>
        (⟨f1, f2, f3⟩,
          { entry := en, builderErr := b1, unreplayable := b2, successTarget := b3, errorTarget := b4,
            commonErr := b5, autoRead := b6, hook := b7, save := save, udReq := ud, builtin := bi, wrappers := wr,
            getBodyFails := gb, transport := tr, clientResp := cr, reqResp := rr, maxRetries := rt.n,
            unbounded := rt.unbounded, fuel := rt.fuel, conds := rt.conds, ctxDone := rt.ctxDone, outFails := ofl,
            fixDigestSave := f4 })
    | _, _, _, _, _, _, _, _, _, _, _, _ => none
  | _ => none

def parseStack13 : List String → Option (Fixes × Stack)
  | [fx, en, fl, ud, bi, wr, gb, tr, cr, rr, rt, ofl, hk] =>
    match parseStack12 [fx, en, fl, ud, bi, wr, gb, tr, cr, rr, rt, ofl], parseHooks hk with
    | some (f, s), some (h, rh) => some (f, { s with hookAct := h, retryHooks := rh })
    | _, _ => none
  | _ => none

def parseStack (args : List String) : Option (Fixes × Stack) :=
  if args.length = 11 then parseStack13 (args ++ ["-", "n:-"])
  else if args.length = 12 then parseStack13 (args ++ ["n:-"])
  else parseStack13 args

def showEv : Ev → Option String
  | .udReq i => some ("u" ++ toString i)
  | .builtin => some "b"
  | .wrap i => some ("w" ++ toString i)
  | .send => some "t"
  | .resend => some "T"
  | .unm .json => some "j"
  | .unm .xml => some "x"
  | .cResp i => some ("c" ++ toString i)
  | .rResp i => some ("r" ++ toString i)
  | .raised _ => none

def showLog (atts : List Att) : String :=
  if atts.isEmpty then "-" else
  "|".intercalate (atts.map fun t => ".".intercalate (t.evs.filterMap showEv))

def showResp (r : Resp) : String :=
  let (tag, st, state) := match r.http with
    | some h => (toString r.tag, toString h.status, showState (stateOf h))
    | none => ("-", "-", "U")
  "rerr=" ++ showErr r.err ++ " http=" ++ tag ++ " status=" ++ st ++ " state=" ++ state ++
    -- X = a body is cached that is not the body of the exchange the response carries
    " cached=" ++ (if r.bodyCached then (if r.http.isSome && r.bodyOf != r.tag then "X" else "1") else "0") ++ " res=" ++ showBool r.slots.result ++ " eslot=" ++ showSlotErr r.slots.error

def showOut : Out → String
  | .crash atts => "crash log=" ++ showLog atts
  | .ret none err hooks atts => "ret resp=nil err=" ++ showErr err ++ " hooks=" ++ toString hooks ++ " log=" ++ showLog atts
  | .ret (some r) err hooks atts =>
    "ret err=" ++ showErr err ++ " hooks=" ++ toString hooks ++ " " ++ showResp r ++ " log=" ++ showLog atts
  | .mustPanic e hooks atts => "must err=" ++ showErr (some e) ++ " hooks=" ++ toString hooks ++ " log=" ++ showLog atts
  | .exhausted atts => "exhausted log=" ++ showLog atts

/-- `c18consume <uses> <c18pipe arguments…>`: the call, then the consumptions in order
(`b` ToBytes, `s` ToString, `j` UnmarshalJson, `x` UnmarshalXml, `i` Into, `u` Unmarshal) →
`errs=<e1>,<e2>,… rerr=<resp.Err at the end> cached=<bit>` (`nocall` when the call returns no
response: crash / Must* panic / exhausted). -/
def laneConsume : List String → String
  | uses :: args =>
    let us : Option (List Req.Consume.Use) := uses.toList.mapM fun c =>
      if c == 'b' || c == 's' then some .toBytes
      else if c == 'j' then some .unmarshalJson
      else if c == 'x' then some .unmarshalXml
      else if c == 'i' || c == 'u' then some .into
      else none
    match us, parseStack args with
    | some us, some (fx, s) =>
      match run fx s with
      | .ret (some r) _ _ _ =>
        let (r1, es) := Req.Consume.consumeAll r us
        "errs=" ++ ",".intercalate (es.map showErr) ++ " rerr=" ++ showErr r1.err ++ " cached=" ++ showBool r1.bodyCached
      | _ => "nocall"
    | _, _ => "bad-op"
  | _ => "bad-op"

def lanePipe (args : List String) : String :=
  match parseStack args with
  | some (fx, s) => showOut (run fx s)
  | none => "bad-op"

end Req.Driver.L.C18
