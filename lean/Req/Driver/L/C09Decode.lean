import Req.Driver.Proto
import Req.Pool.DecodeOwner
/-! Driver lane `c09decown <shared 0|1> <table> <ops>` of C09 (round 6).
table = `<index>:<rune>` joined by `,` (JIS X 0208 entries the case uses; JIS X 0212 entries with
index + 100000; `-` = none); ops joined by `/`: `w<r>:<label>` (the body of response r is wrapped in a
decoder for charset label `label`) or `f<r>:<chunk hex>:<eof 0|1>` (these bytes of r's body have
arrived and r's caller reads them through its decoder).  Answer: what every `f` op delivered to
its caller (hex, `_` = nothing), joined by `,`, in op order. -/
namespace Req.Driver.L.C09Decode
open Req.Proto Req.Pool.DecodeOwner

def parseEntry (s : String) : Option (Nat × Nat) :=
  match s.splitOn ":" with
  | [a, b] => do
    let a ← a.toNat?
    let b ← b.toNat?
    pure (a, b)
  | _ => none

def parseOp (s : String) : Option Op :=
  match s.toList with
  | 'w' :: rest =>
    match (String.ofList rest).splitOn ":" with
    | [r, l] => do
      let r ← r.toNat?
      let l ← l.toNat?
      pure (.wrap r l)
    | _ => none
  | 'f' :: rest =>
    match (String.ofList rest).splitOn ":" with
    | [r, ch, e] => do
      let r ← r.toNat?
      let ch ← decodeHex ch
      if e == "0" then pure (.feed r ch false) else if e == "1" then pure (.feed r ch true) else none
    | _ => none
  | _ => none

def laneDecOwn : List String → String
  | [sh, tbl, ops] =>
    let tbl? := if tbl == "-" then some [] else (tbl.splitOn ",").mapM parseEntry
    match tbl?, (ops.splitOn "/").mapM parseOp with
    | some tbl, some ops =>
      if sh == "0" ∨ sh == "1" then
        encodeList (runLane { shared := sh == "1" } tbl (start (iso tbl)) ops)
      else "bad-op"
    | _, _ => "bad-op"
  | _ => "bad-op"

end Req.Driver.L.C09Decode
