import Req.Driver.Proto
import Req.Pool.Lockset
import Req.Pool.Monitor
import Req.Pool.H1PoolLane
/-! Driver lanes of C09. -/
namespace Req.Driver.L.C09
open Req.Proto

/-! ### `c09lockset <fieldId> <site>/<site>/…`
site = `<fn hex>:<write 0|1>:<cfg 0|1>:<lock ids comma-joined or ->`.
Answer: `guarded <common lock ids>` or `unguarded <majority lock> <offending fn hex list>`. -/

def parseSite (s : String) : Option Req.Pool.Lockset.Access :=
  match s.splitOn ":" with
  | [fn, w, c, ls] => do
    let f ← decodeHex fn
    let locks ← decodeNatList ls
    let wb ← (if w == "1" then some true else if w == "0" then some false else none)
    let cb ← (if c == "1" then some true else if c == "0" then some false else none)
    pure ⟨f.map (·.toNat), wb, cb, locks⟩
  | _ => none

def encFn (f : List Nat) : String := encodeHex (f.map UInt8.ofNat)

def laneLockset : List String → String
  | [_fid, sites] =>
    match (if sites == "-" then some [] else (sites.splitOn "/").mapM parseSite) with
    | some as =>
      match Req.Pool.Lockset.verdict as with
      | .guarded ls => "guarded " ++ encodeNatList ls
      | .unguarded l fns => "unguarded " ++ toString l ++ " " ++
          (if fns.isEmpty then "-" else ",".intercalate (fns.map encFn))
    | none => "bad-op"
  | _ => "bad-op"

/-! ### `c09mon <MaxConnsPerHost> <effective MaxIdleConnsPerHost> <MaxIdleConns> <events>`
events are comma-joined, each `kind.arg.arg…` (decimal):
0 send t · 1 opened c host · 2 closed c · 3 req c t · 4 respLast c t · 5 mreq c t · 6 mresp c t ·
7 done t echo ok partial · 8 fail t · 9 sample host idleHost idleTotal connsHost waiters.
Answer: `ok` or `violation <clause> <event index>`. -/

def parseEv (s : String) : Option Req.Pool.Monitor.Ev :=
  match (s.splitOn ".").mapM String.toNat? with
  | some [0, t] => some (.send t)
  | some [1, c, h] => some (.opened c h)
  | some [2, c] => some (.closed c)
  | some [3, c, t] => some (.req c t)
  | some [4, c, t] => some (.respLast c t)
  | some [5, c, t] => some (.mreq c t)
  | some [6, c, t] => some (.mresp c t)
  | some [7, t, e, ok, p] => some (.done t e (ok != 0) (p != 0))
  | some [8, t] => some (.fail t)
  | some [9, h, ih, it, ch, w] => some (.sample h ih it ch w)
  | _ => none

def laneMon : List String → String
  | [mc, ih, mi, evs] =>
    match mc.toNat?, ih.toNat?, mi.toNat?,
          (if evs == "-" then some [] else (evs.splitOn ",").mapM parseEv) with
    | some mc, some ih, some mi, some es => Req.Pool.Monitor.verdict ⟨mc, ih, mi⟩ es
    | _, _, _, _ => "bad-op"
  | _ => "bad-op"

/-! ### `c09pool <MaxIdleConns> <MaxIdleConnsPerHost> <MaxConnsPerHost> <DisableKeepAlives 0|1> <nKeys> <nWants> <nConns> <ops>`
ops comma-joined: `N.w.k` getConn creates want · `QI.w` queueForIdleConn · `QD.w` queueForDial ·
`DO.w.c` dial of w succeeds with new connection c · `DX.w` dial fails · `RV.w` getConn receives ·
`CA.w` wantConn.cancel · `FP.w` request done, readLoop tryPutIdleConn · `FC.w` connection of w dies ·
`SC.c` peer closes idle c · `RI.c` removeIdleConn · `IT.c` closeConnIfStillIdle · `CI` CloseIdleConnections.
Answer: per op `<return>/<state dump>` joined with `;`. -/

def parseMOp (s : String) : Option Req.Pool.H1PoolLane.MOp :=
  match s.splitOn "." with
  | ["N", w, k] => do pure (.newWant (← w.toNat?) (← k.toNat?))
  | ["QI", w] => do pure (.queueIdle (← w.toNat?))
  | ["QD", w] => do pure (.queueDial (← w.toNat?))
  | ["DO", w, c] => do pure (.dialOk (← w.toNat?) (← c.toNat?))
  | ["DX", w] => do pure (.dialFail (← w.toNat?))
  | ["RV", w] => do pure (.recv (← w.toNat?))
  | ["CA", w] => do pure (.cancel (← w.toNat?))
  | ["FP", w] => do pure (.finishPut (← w.toNat?))
  | ["FC", w] => do pure (.finishClose (← w.toNat?))
  | ["SC", c] => do pure (.serverClose (← c.toNat?))
  | ["RI", c] => do pure (.removeIdle (← c.toNat?))
  | ["IT", c] => do pure (.idleTimeout (← c.toNat?))
  | ["CI"] => some .closeIdle
  | _ => none

def lanePool : List String → String
  | [mi, mh, mc, dk, nk, nw, nc, ops] =>
    match mi.toNat?, mh.toInt?, mc.toInt?, nk.toNat?, nw.toNat?, nc.toNat?,
          (if ops == "-" then some [] else (ops.splitOn ",").mapM parseMOp) with
    | some mi, some mh, some mc, some nk, some nw, some nc, some os =>
      let cfg : Req.Pool.H1Pool.Cfg := ⟨mi, mh, mc, dk == "1"⟩
      ";".intercalate (Req.Pool.H1PoolLane.runLane cfg nk nw nc {} os)
    | _, _, _, _, _, _, _ => "bad-op"
  | _ => "bad-op"

def lanes : List (String × (List String → String)) := [
  ("c09lockset", laneLockset),
  ("c09pool", lanePool),
  ("c09mon", laneMon)
]

end Req.Driver.L.C09
