import Req.Driver.Proto
import Req.Pool.Lockset
/-! Driver lanes of C09. -/
namespace Req.Driver.L.C09
open Req.Proto

/-! ### `c09lockset <fieldId> <site>/<site>/…`
site = `<fn hex>:<write 0|1>:<cfg 0|1>:<lock ids comma-joined or ->`.
Answer: `guarded <common lock ids>` or `unguarded <majority lock> <offending fn hex list>`. -/

def parseSite (s : String) : Option Req.Pool.Lockset.Access :=
  match s.splitOn ":" with
  | [fn, w, c, ls] => do
    let f ← decodeHex fn
    let locks ← decodeNatList ls
    let wb ← (if w == "1" then some true else if w == "0" then some false else none)
    let cb ← (if c == "1" then some true else if c == "0" then some false else none)
    pure ⟨f.map (·.toNat), wb, cb, locks⟩
  | _ => none

def encFn (f : List Nat) : String := encodeHex (f.map UInt8.ofNat)

def laneLockset : List String → String
  | [_fid, sites] =>
    match (if sites == "-" then some [] else (sites.splitOn "/").mapM parseSite) with
    | some as =>
      match Req.Pool.Lockset.verdict as with
      | .guarded ls => "guarded " ++ encodeNatList ls
      | .unguarded l fns => "unguarded " ++ toString l ++ " " ++
          (if fns.isEmpty then "-" else ",".intercalate (fns.map encFn))
    | none => "bad-op"
  | _ => "bad-op"

def lanes : List (String × (List String → String)) := [
  ("c09lockset", laneLockset)
]

end Req.Driver.L.C09
