import Req.Driver.Proto
import Req.Pool.Lockset
import Req.Pool.Monitor
import Req.Pool.H1PoolLane
import Req.Pool.Pairing
import Req.Pool.WriteTok
import Req.Pool.H2MuxLane
import Req.Pool.H3Map
import Req.Driver.L.C09Dump
import Req.Driver.L.C09Hpack
import Req.Driver.L.C09Decode
/-! Driver lanes of C09. -/
namespace Req.Driver.L.C09
open Req.Proto

/-! ### `c09lockset <fieldId> <site>/<site>/…`
site = `<fn hex>:<write 0|1>:<cfg 0|1>:<lock ids comma-joined or ->`.
Answer: `guarded <common lock ids>`, `pairwise` (no common lock, but every two sites of which one
can write share a lock) or `unguarded <majority lock> <offending fn hex list>`. -/

def parseSite (s : String) : Option Req.Pool.Lockset.Access :=
  match s.splitOn ":" with
  | [fn, w, c, ls] => do
    let f ← decodeHex fn
    let locks ← decodeNatList ls
    let wb ← (if w == "1" then some true else if w == "0" then some false else none)
    let cb ← (if c == "1" then some true else if c == "0" then some false else none)
    pure ⟨f.map (·.toNat), wb, cb, locks⟩
  | _ => none

def encFn (f : List Nat) : String := encodeHex (f.map UInt8.ofNat)

def laneLockset : List String → String
  | [_fid, sites] =>
    match (if sites == "-" then some [] else (sites.splitOn "/").mapM parseSite) with
    | some as =>
      match Req.Pool.Lockset.verdict as with
      | .guarded ls => "guarded " ++ encodeNatList ls
      | .pairwise => "pairwise"
      | .unguarded l fns => "unguarded " ++ toString l ++ " " ++
          (if fns.isEmpty then "-" else ",".intercalate (fns.map encFn))
    | none => "bad-op"
  | _ => "bad-op"

/-! ### `c09mon <MaxConnsPerHost> <effective MaxIdleConnsPerHost> <MaxIdleConns> <events>`
events are comma-joined, each `kind.arg.arg…` (decimal):
0 send t · 1 opened c host · 2 closed c · 3 req c t · 4 respLast c t · 5 mreq c t · 6 mresp c t ·
7 done t echo ok partial · 8 fail t · 9 sample host idleHost idleTotal connsHost waiters.
Answer: `ok` or `violation <clause> <event index>`. -/

def parseEv (s : String) : Option Req.Pool.Monitor.Ev :=
  match (s.splitOn ".").mapM String.toNat? with
  | some [0, t] => some (.send t)
  | some [1, c, h] => some (.opened c h)
  | some [2, c] => some (.closed c)
  | some [3, c, t] => some (.req c t)
  | some [4, c, t] => some (.respLast c t)
  | some [5, c, t] => some (.mreq c t)
  | some [6, c, t] => some (.mresp c t)
  | some [7, t, e, ok, p] => some (.done t e (ok != 0) (p != 0))
  | some [8, t] => some (.fail t)
  | some [9, h, ih, it, ch, w] => some (.sample h ih it ch w)
  | _ => none

def laneMon : List String → String
  | [mc, ih, mi, evs] =>
    match mc.toNat?, ih.toNat?, mi.toNat?,
          (if evs == "-" then some [] else (evs.splitOn ",").mapM parseEv) with
    | some mc, some ih, some mi, some es => Req.Pool.Monitor.verdict ⟨mc, ih, mi⟩ es
    | _, _, _, _ => "bad-op"
  | _ => "bad-op"

/-! ### `c09pool <MaxIdleConns> <MaxIdleConnsPerHost> <MaxConnsPerHost> <DisableKeepAlives 0|1> <nKeys> <nWants> <nConns> <ops>`
ops comma-joined: `N.w.k` getConn creates want · `QI.w` queueForIdleConn · `QD.w` queueForDial ·
`DO.w.c` dial of w succeeds with new connection c · `DX.w` dial fails · `RV.w` getConn receives ·
`CA.w` wantConn.cancel · `FP.w` request done, readLoop tryPutIdleConn · `FC.w` connection of w dies ·
`SC.c` peer closes idle c · `RI.c` removeIdleConn · `IT.c` closeConnIfStillIdle · `CI` CloseIdleConnections.
Answer: per op `<return>/<state dump>` joined with `;`. -/

def parseMOp (s : String) : Option Req.Pool.H1PoolLane.MOp :=
  match s.splitOn "." with
  | ["N", w, k] => do pure (.newWant (← w.toNat?) (← k.toNat?))
  | ["QI", w] => do pure (.queueIdle (← w.toNat?))
  | ["QD", w] => do pure (.queueDial (← w.toNat?))
  | ["DO", w, c] => do pure (.dialOk (← w.toNat?) (← c.toNat?))
  | ["DX", w] => do pure (.dialFail (← w.toNat?))
  | ["RV", w] => do pure (.recv (← w.toNat?))
  | ["CA", w] => do pure (.cancel (← w.toNat?))
  | ["FP", w] => do pure (.finishPut (← w.toNat?))
  | ["FC", w] => do pure (.finishClose (← w.toNat?))
  | ["SC", c] => do pure (.serverClose (← c.toNat?))
  | ["RI", c] => do pure (.removeIdle (← c.toNat?))
  | ["IT", c] => do pure (.idleTimeout (← c.toNat?))
  | ["CI"] => some .closeIdle
  | _ => none

def lanePool : List String → String
  | [mi, mh, mc, dk, nk, nw, nc, ops] =>
    match mi.toNat?, mh.toInt?, mc.toInt?, nk.toNat?, nw.toNat?, nc.toNat?,
          (if ops == "-" then some [] else (ops.splitOn ",").mapM parseMOp) with
    | some mi, some mh, some mc, some nk, some nw, some nc, some os =>
      let cfg : Req.Pool.H1Pool.Cfg := ⟨mi, mh, mc, dk == "1"⟩
      ";".intercalate (Req.Pool.H1PoolLane.runLane cfg nk nw nc {} os)
    | _, _, _, _, _, _, _ => "bad-op"
  | _ => "bad-op"

/-! ### `c09pair <kind>,<kind>,…` — sequential requests of one caller on one keep-alive host
kinds: `NB` no body · `B` body read to EOF · `CH` chunked body read to EOF · `HD` HEAD ·
`BX` body, caller closes early · `BK` body + `Connection: close` · `NBK` no body + close ·
`BI` body, `CloseIdleConnections` called before the body is read to EOF · `E1`/`EX` POST with
`Expect: 100-continue` answered by `100 Continue` + 200 / by a final 403 without 100 (keep-alive) ·
`NBU`/`BU` like `NB`/`B`, but the origin sends unsolicited bytes (a duplicate of the response, an
unrequested response, garbage, half a status line) after the complete response, and the caller
lets the read loop see them before its next request · `UE`/`UB` (round 7) POST whose body tail the
caller holds back, answered at once by a final 401/413 without / with a body on a kept-alive
connection: the write of THIS request has not been reported when the read loop decides
(`wrote = false`, computed by `Req.Pool.WriteTok`) · `WL` marker: the connections of this sequence
report every write late (the write-report channel model runs with `lateReport`); no request.
Answer per request `<conn>:<reused>:<events>` (joined with `;`): conn = sequence number of the
connection used, events = `R` response returned to the caller, `P` PutIdleConn(nil), `p`
PutIdleConn(error), `E` caller saw EOF, `C` caller closed early — in observation order. -/

structure PairSim where
  st : Req.Pool.Pairing.St := {}
  tok : Req.Pool.WriteTok.St := {}   -- the write-report channel of the current connection
  late : Bool := false               -- `WL`: reports arrive after the response was processed
  conn : Nat := 1
  fresh : Bool := true      -- the current connection has not carried a request yet
  out : List String := []

def pairReq (sim : PairSim) (r : Nat) (kind : String) : Option PairSim :=
  -- (hasBody, keep, accept, eof)
  let held := kind == "UE" || kind == "UB"
  let spec : Option (Bool × Bool × Bool × Bool) :=
    match kind with
    | "UE" => some (false, true, true, true)
    | "UB" => some (true, true, true, true)
    | "NB" => some (false, true, true, true)
    | "HD" => some (false, true, true, true)
    | "B" => some (true, true, true, true)
    | "CH" => some (true, true, true, true)
    | "BX" => some (true, true, true, false)
    | "BK" => some (true, false, true, true)
    | "NBK" => some (false, false, true, true)
    | "BI" => some (true, true, false, true)
    -- POST with Expect: 100-continue: the origin sends 100 Continue and then 200 (E1), or
    -- answers 403 straight away without 100 and keeps the connection (EX): either way the body
    -- is delivered, the response is read to EOF and the connection goes back to the pool
    | "E1" => some (true, true, true, true)
    | "EX" => some (true, true, true, true)
    | "NBU" => some (false, true, true, true)
    | "BU" => some (true, true, true, true)
    | _ => none
  let unsolicited := kind == "NBU" || kind == "BU"
  match spec with
  | none => none
  | some (hasBody, keep, accept, eof) =>
    -- a closed (or never available) connection is replaced by a freshly dialled one
    let (st0, tok0, conn, fresh) :=
      if sim.st.avail then (sim.st, sim.tok, sim.conn, sim.fresh) else ({}, {}, sim.conn + 1, true)
    -- the write side (Req.Pool.WriteTok): writeLoop takes the request; unless the caller holds
    -- the body back its write finishes; the report is filed before the response is processed,
    -- or (late-reporting connection) while `wroteRequest` waits for it
    let (t4, wrote) := Req.Pool.WriteTok.serveOne {} tok0 ⟨r, held, sim.late, !(held || kind == "E1" || kind == "EX")⟩
    let s1 := Req.Pool.Pairing.step (Req.Pool.Pairing.step st0 (.start r)) .peerAnswer
    let s2 := Req.Pool.Pairing.step s1 (.readHead hasBody keep wrote accept)
    let s3 := if hasBody then Req.Pool.Pairing.step s2 (.bodyDone eof wrote accept) else s2
    -- events of this request = what was added to the log, oldest first
    let added := (s3.log.take (s3.log.length - st0.log.length)).reverse
    let letters := added.filterMap fun e =>
      match e with
      | .head _ _ _ => some "R"
      | .put => some "P"
      | .putRefused => some "p"
      | .eof _ => some "E"
      | _ => none
    -- the caller observes EOF only after the read loop has dealt with the connection
    let evs :=
      if hasBody then
        if eof then "R" ++ String.join (letters.filter (fun l => l == "P" || l == "p")) ++ "E" else "RC"
      else String.join letters
    -- unsolicited bytes behind the response: the read loop finds them on the idle connection
    let s3 := if unsolicited then
        Req.Pool.Pairing.step (Req.Pool.Pairing.step s3 .peerExtra) .peekIdle else s3
    some { st := s3, tok := t4, late := sim.late, conn := conn, fresh := false,
           out := (toString conn ++ ":" ++ (if fresh then "0" else "1") ++ ":" ++ evs) :: sim.out }

def lanePair : List String → String
  | [kinds] =>
    let ks := kinds.splitOn ","
    let rec go (sim : PairSim) (r : Nat) : List String → Option PairSim
      | [] => some sim
      | "WL" :: rest => go { sim with late := true } r rest
      | k :: rest => match pairReq sim r k with
        | none => none
        | some sim' => go sim' (r + 1) rest
    match go {} 0 ks with
    | some sim => ";".intercalate sim.out.reverse
    | none => "bad-op"
  | _ => "bad-op"

/-! ### `c09h2mux <strict 0|1> <singleUse 0|1> <MAX_CONCURRENT_STREAMS> <nCallers> <ops>`
One HTTP/2 `ClientConn`, forced schedule. ops comma-joined: `R.k` ReserveNewRequest for caller k ·
`S.k.<head>.<upload>.<stall>` caller k starts `roundTrip` (HEAD / upload that stalls on flow control /
parks in the stream hook with its id allocated) · `U.k` release caller k from the hook · `C.k` cancel ·
`B.k` close the response body · `T` closeIfIdle · peer frames `PH.<tgt>.<kind 0 2xx|1 1xx|2 no status>.<fin>.<tag>`,
`PD.<tgt>.<len>.<fin>.<tag>`, `PR.<tgt>.<code>`, `PW.<tgt>.<overflow>`, `PP.<tgt>`, `PG.<tgt>.<code>`,
`PS.<max|->`, `PE` (peer closes). tgt = `k<n>` the stream caller n opened · `u<j>` nextStreamID+2j · `z` 0.
Answer per op (joined with `;`): `skip` or `<resolved id|->|<return>|<dump>`. -/

def parseTgt (s : String) : Option Req.Pool.H2MuxLane.Tgt :=
  if s == "z" then some .zero
  else if s.startsWith "k" then (s.drop 1).toNat?.map .ofCaller
  else if s.startsWith "u" then (s.drop 1).toNat?.map .unopened
  else none

def parseB (s : String) : Option Bool := if s == "1" then some true else if s == "0" then some false else none

def parseLOp (s : String) : Option Req.Pool.H2MuxLane.LOp :=
  match s.splitOn "." with
  | ["R", k] => do pure (.reserve (← k.toNat?))
  | ["S", k, h, u, st] => do pure (.start (← k.toNat?) (← parseB h) (← parseB u) (← parseB st))
  | ["U", k] => do pure (.release (← k.toNat?))
  | ["C", k] => do pure (.cancel (← k.toNat?))
  | ["B", k] => do pure (.closeBody (← k.toNat?))
  | ["T"] => some .idleTimeout
  | ["PH", t, kind, fin, tag] => do
    let kd ← (match kind with | "0" => some Req.Pool.H2Mux.HKind.status2xx | "1" => some .status1xx | "2" => some .noStatus | _ => none)
    pure (.pHeaders (← parseTgt t) kd (← parseB fin) (← tag.toNat?))
  | ["PD", t, len, fin, tag] => do pure (.pData (← parseTgt t) (← len.toNat?) (← parseB fin) (← tag.toNat?))
  | ["PR", t, code] => do pure (.pRst (← parseTgt t) (← code.toNat?))
  | ["PW", t, ov] => do pure (.pWindowUpdate (← parseTgt t) (← parseB ov))
  | ["PP", t] => do pure (.pPush (← parseTgt t))
  | ["PG", t, code] => do pure (.pGoAway (← parseTgt t) (← code.toNat?))
  | ["PS", m] => if m == "-" then some (.pSettings none) else m.toNat?.map (fun v => .pSettings (some v))
  | ["PE"] => some .pEOF
  | _ => none

def laneH2Mux : List String → String
  | [st, su, mc, n, ops] =>
    match parseB st, parseB su, mc.toNat?, n.toNat?,
          (if ops == "-" then some [] else (ops.splitOn ",").mapM parseLOp) with
    | some st, some su, some mc, some n, some os =>
      ";".intercalate (Req.Pool.H2MuxLane.runLane ⟨st, su⟩ mc n os)
    | _, _, _, _, _ => "bad-op"
  | _ => "bad-op"

def insertSortedH3 (x : Nat × Nat) : List (Nat × Nat) → List (Nat × Nat)
  | [] => [x]
  | y :: ys => if x.1 ≤ y.1 then x :: y :: ys else y :: insertSortedH3 x ys

/-! ### `c09h3map <nClients> <nReqs> <ops>` — the HTTP/3 client cache, one driving goroutine
ops comma-joined: `S.r.h.<onlyCached>` request r (`RoundTripOpt`) for host h starts · `D.c.<ok>` the dial
of client c (numbered in creation order) finishes · `X.c` the connection of c dies · `U.r` the context
of r ends while its dial runs · `F.r.<connErr>` the round trip of r returns (nil / a connection-level
error) · `CI` CloseIdleConnections · `CL` Close.  After each op everything the library then does on
its own is applied (a request whose dial failed returns; the dial of a client that was closed while
dialling fails).  Answer per op (joined with `;`): `skip` or
`M=<host>:<client>,… C=<client>:<useCount>:<closed 0|1, - without a connection>,… R=<r>:<w|t<client>|o>,…`. -/

namespace H3Lane
open Req.Pool.H3Map

def st1 (s : St) (op : Op) : St × Bool := let r := step s op; (r.1, r.2 != .ignored)

/-- what happens on its own -/
def settle (nc nr : Nat) (only : Nat → Bool) : Nat → St → St
  | 0, s => s
  | fuel + 1, s =>
    -- a client closed by us while its dial runs: the dial's context is cancelled
    let r1 := (List.range nc).foldl (fun (a : St × Bool) c =>
      if (a.1.cl c).closedByUs && (a.1.cl c).dial == .running && (a.1.cl c).host.isSome then
        ((step a.1 (.dialDone c .failed)).1, true) else a) (s, false)
    -- the dial runs under the context of the request that created the client: when that
    -- request has given up, the dial fails
    let r1 := (List.range nc).foldl (fun (a : St × Bool) c =>
      if (a.1.cl c).dial == .running && (a.1.cl c).host.isSome && a.1.rst (a.1.cl c).creator == .over then
        ((step a.1 (.dialDone c .cancelled)).1, true) else a) r1
    -- a request whose dial was cancelled together with the request that had started it starts
    -- over: `RoundTripOpt` again with the same options, i.e. `getClient` for the same host (an
    -- OnlyCachedConn request that had joined the running dial now finds nothing cached)
    let r1 := (List.range nr).foldl (fun (a : St × Bool) r =>
      match a.1.rst r, a.1.rhost r with
      | .holding _, some h =>
        let x := st1 a.1 (.retryDial r)
        if x.2 then ((step x.1 (.get r h (only r))).1, true) else a
      | _, _ => a) r1
    -- a request that waited for a dial that failed returns
    let r2 := (List.range nr).foldl (fun (a : St × Bool) r =>
      let x := st1 a.1 (.dialFailed r); (x.1, a.2 || x.2)) r1
    if r2.2 then settle nc nr only fuel r2.1 else r2.1

def dump (nc nr : Nat) (s : St) : String :=
  let m := (s.clients.foldr (fun p acc => Req.Driver.L.C09.insertSortedH3 p acc) []).map
    (fun p => toString p.1 ++ ":" ++ toString p.2)
  let cs := ((List.range nc).filter (fun c => (s.cl c).host.isSome)).map fun c =>
    -- `Close()` on a client without a connection (dial running or failed) leaves nothing to observe
    toString c ++ ":" ++ toString (s.cl c).useCount ++ ":" ++
      (if (s.cl c).dial != .ok then "-" else if (s.cl c).closedByUs then "1" else "0")
  let rs := (List.range nr).filterMap fun r =>
    match s.rst r with
    | .fresh => none
    | .holding c => some (toString r ++ ":" ++ (if (s.cl c).dial == .ok then "t" ++ toString c else "w"))
    | .over => some (toString r ++ ":o")
  let j (l : List String) := if l.isEmpty then "-" else ",".intercalate l
  "M=" ++ j m ++ " C=" ++ j cs ++ " R=" ++ j rs

end H3Lane

def parseH3Op (s : String) : Option Req.Pool.H3Map.Op :=
  match s.splitOn "." with
  | ["S", r, h, oc] => do pure (.get (← r.toNat?) (← h.toNat?) (← parseB oc))
  | ["D", c, ok] => do pure (.dialDone (← c.toNat?) (if (← parseB ok) then .ok else .failed))
  | ["X", c] => do pure (.connDies (← c.toNat?))
  | ["U", r] => do pure (.giveUp (← r.toNat?))
  | ["F", r, ce] => do pure (.finish (← r.toNat?) (← parseB ce))
  | ["CI"] => some .closeIdle
  | ["CL"] => some .close
  | _ => none

def laneH3Map : List String → String
  | [nc, nr, ops] =>
    match nc.toNat?, nr.toNat?, (if ops == "-" then some [] else (ops.splitOn ",").mapM parseH3Op) with
    | some nc, some nr, some os =>
      let only : Nat → Bool := fun r => os.any fun op =>
        match op with
        | .get r' _ oc => r' == r && oc
        | _ => false
      let r := os.foldl (fun (acc : Req.Pool.H3Map.St × List String) op =>
        let x := Req.Pool.H3Map.step acc.1 op
        -- the request that started a dial gives up while two or more others wait for it: they all
        -- dial again, and which of them gets to start the new dial is up to the Go scheduler
        let racy := match op with
          | .giveUp r =>
            match acc.1.rst r with
            | .holding c => (acc.1.cl c).creator == r &&
                ((List.range nr).filter (fun r' => r' != r && acc.1.rst r' == .holding c)).length ≥ 2
            | _ => false
          | _ => false
        -- `S` with onlyCached and nothing cached is a real call (returns ErrNoCachedConn); any other
        -- ignored op is outside the calling protocol
        if x.2 == .ignored || racy then (acc.1, "skip" :: acc.2)
        else
          let s2 := H3Lane.settle nc nr only 16 x.1
          (s2, H3Lane.dump nc nr s2 :: acc.2)) ({}, [])
      ";".intercalate r.2.reverse
    | _, _, _ => "bad-op"
  | _ => "bad-op"

def lanes : List (String × (List String → String)) := [
  ("c09decown", Req.Driver.L.C09Decode.laneDecOwn),
  ("c09dumpq", Req.Driver.L.C09Dump.laneDumpQ),
  ("c09hpack", Req.Driver.L.C09Hpack.laneHpack),
  ("c09h3map", laneH3Map),
  ("c09h2mux", laneH2Mux),
  ("c09lockset", laneLockset),
  ("c09pair", lanePair),
  ("c09pool", lanePool),
  ("c09mon", laneMon)
]

end Req.Driver.L.C09
