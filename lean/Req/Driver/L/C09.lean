import Req.Driver.Proto
/-! Driver lanes of C09. -/
namespace Req.Driver.L.C09
open Req.Proto

def lanes : List (String × (List String → String)) := []

end Req.Driver.L.C09
