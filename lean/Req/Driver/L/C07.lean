import Req.Driver.Proto
/-! Driver lanes of C07. -/
namespace Req.Driver.L.C07
open Req.Proto

def lanes : List (String × (List String → String)) := []

end Req.Driver.L.C07
