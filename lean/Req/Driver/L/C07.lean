import Req.Driver.Proto
import Req.Pool.AltSvcParse
import Req.Pool.MetaCharset
import Req.H1.Response
import Req.H2.Meta
import Req.H3.Fields
import Req.C07.ProtoOpts
import Req.C07.Interim
import Req.C07.Token
import Req.C07.H1Budget
import Req.C07.H3Budget
import Req.Client.DigestAuth
import Req.C07.H1Conn
import Req.C07.H3Sections
import Req.C07.DigestAlg
import Req.C07.H2Settings
import Req.C07.DataBuf
import Req.C07.Exchanges
/-! Driver lanes of C07. -/
namespace Req.Driver.L.C07
open Req.Proto

/-- `c07altsvc <value>` → `ok|err <proto,host,port,ma;…>` -/
def laneAltSvc : List String → String
  | [v] =>
    match decodeHex v with
    | some bs =>
      match Req.AltSvcParse.parse bs with
      | none => "out-of-fuel"
      | some (es, err) =>
        let cls := if err == .eof then "ok" else "err"
        let items := es.map fun e =>
          encodeHex e.proto ++ "," ++ encodeHex e.host ++ "," ++ encodeHex e.port ++ "," ++ (if e.hasMa then "1" else "0")
        cls ++ " " ++ (if items.isEmpty then "-" else ";".intercalate items)
    | none => "bad-op"
  | _ => "bad-op"

/-- `c07meta <content attribute>` → charset name found by `fromMetaElement` -/
def laneMeta : List String → String
  | [v] =>
    match decodeHex v with
    | some bs =>
      match Req.MetaCharset.fromMetaElement bs with
      | none => "out-of-fuel"
      | some r => encodeHex r
    | none => "bad-op"
  | _ => "bad-op"

/-! ### round 4: byte-position matrix, option life cycle, interim loops, budgets -/

def parseOps (ops : String) : Option (List Req.C07.ProtoOpts.Op) :=
  let cs := if ops == "-" then [] else ops.toList.map (fun c => String.singleton c)
  cs.mapM Req.C07.ProtoOpts.opOfString

/-- `c07opts <supported 0|1> <ops E D 1 2 3 U C | ->` → nil-ness of the HTTP/3 fields and the forced
version after the setter sequence -/
def laneOpts : List String → String
  | [sup, ops] =>
    match parseOps ops with
    | none => "bad-op"
    | some l => Req.C07.ProtoOpts.render (Req.C07.ProtoOpts.run (sup == "1") {} l)
  | _ => "bad-op"

/-- `c07optuse <supported> <ops> <https 0|1> <respH3 0|1>` → what an Alt-Svc response with a usable
h3 entry and what the forced-version dispatch do in the state the sequence leaves -/
def laneOptUse : List String → String
  | [sup, ops, https, r3] =>
    match parseOps ops with
    | none => "bad-op"
    | some l =>
      let s := Req.C07.ProtoOpts.run (sup == "1") {} l
      "altsvc=" ++ Req.C07.ProtoOpts.useString (Req.C07.ProtoOpts.onAltSvc s (https == "1") (r3 == "1")) ++
      " forced=" ++ Req.C07.ProtoOpts.useString (Req.C07.ProtoOpts.onForced s)
  | _ => "bad-op"

def parseHeadTok (t : String) : Option Req.C07.Interim.Head :=
  if t.endsWith "e" then (t.dropEnd 1).toString.toNat?.map fun c => { code := c, endStream := true }
  else t.toNat?.map fun c => { code := c }

/-- `c07interim <1|2|3> <code[e],code[e],… | ->` → `final <code> <#interim>` / `error` (too many, 1xx with END_STREAM, or no final head) -/
def laneInterim : List String → String
  | [p, hs] =>
    let proto : Option Req.C07.Interim.Proto :=
      if p == "1" then some .h1 else if p == "2" then some .h2 else if p == "3" then some .h3 else none
    let heads := if hs == "-" then some [] else (hs.splitOn ",").mapM parseHeadTok
    match proto, heads with
    | some pr, some l =>
      match Req.C07.Interim.run pr l with
      | .final c k => "final " ++ toString c ++ " " ++ toString k
      | _ => "error"
    | _, _ => "bad-op"
  | _ => "bad-op"

/-- `c07token <0..255>` → `field=<0|1|panic> value=<0|1>` -/
def laneToken : List String → String
  | [n] =>
    match n.toNat? with
    | some k =>
      if k < 256 then
        let b := UInt8.ofNat k
        "field=" ++ (match Req.C07.Token.validHeaderFieldByte b with
                     | none => "panic" | some true => "1" | some false => "0") ++
        " value=" ++ (if Req.C07.Token.validHeaderValueByte b then "1" else "0")
      else "bad-op"
    | none => "bad-op"
  | _ => "bad-op"

def renderFraming : Req.H1.RespFraming → String
  | .none => "none"
  | .length n => "len" ++ toString n
  | .chunked => "chunked"
  | .untilClose => "close"

def countVals (m : Req.H1.HeaderMap) : Nat := (m.map fun kv => kv.2.length).sum

/-- the outcome CLASS of one response read (what C07 fixes: ok / error, never stuck) -/
def renderH1 : Req.H1.Outcome → String
  | .reject => "rej"
  | .resp m b =>
    "ok code=" ++ toString m.sl.code ++ " framing=" ++ renderFraming m.framing ++
    " keys=" ++ toString m.header.length ++ " vals=" ++ toString (countVals m.header) ++
    " end=" ++ (if b.ok then "eof" else "err") ++ " blen=" ++ toString b.data.length ++
    " tr=" ++ toString b.trailer.length

/-- `c07h1pos <H|G> <B> <hex stream>` → class of `parseResponse` (one head, then the body) -/
def laneH1Pos : List String → String
  | [meth, b, hex] =>
    match b.toNat?, decodeHex hex with
    | some B, some s => renderH1 (Req.H1.parseResponse (meth == "H") B s)
    | _, _ => "bad-op"
  | _ => "bad-op"

/-- `c07h1final <H|G> <B> <hex stream>` → class of `parseFinal` (interim heads skipped, at most 5) -/
def laneH1Final : List String → String
  | [meth, b, hex] =>
    match b.toNat?, decodeHex hex with
    | some B, some s => renderH1 (Req.H1.parseFinal (meth == "H") B s)
    | _, _ => "bad-op"
  | _ => "bad-op"

def parsePair (t : String) : Option (Nat × Nat) :=
  match t.splitOn ":" with
  | [a, b] => match a.toNat?, b.toNat? with
    | some x, some y => some (x, y)
    | _, _ => none
  | _ => none

/-- replay of `pc.Read` calls: results (`X` = exhausted error) -/
def pcReplay : Nat → List (Nat × Nat) → List String
  | _, [] => []
  | limit, (w, a) :: rest =>
    match Req.C07.H1Budget.pcRead limit w a with
    | none => "X" :: pcReplay limit rest
    | some (n, limit') => toString n :: pcReplay limit' rest

/-- `c07pcread <limit> <want:avail,… | ->` → per-call results of `persistConn.Read` -/
def lanePcRead : List String → String
  | [l, evs] =>
    let ps := if evs == "-" then some [] else (evs.splitOn ",").mapM parsePair
    match l.toNat?, ps with
    | some L, some l' => let r := pcReplay L l'; if r.isEmpty then "-" else ",".intercalate r
    | _, _ => "bad-op"
  | _ => "bad-op"

def parseFieldTok (t : String) : Option Req.H2.Meta.Event :=
  if t == "!" then some .decodeError else
  match t.splitOn "=" with
  | [n, v] => match decodeHex n, decodeHex v with
    | some a, some b => some (.field a b)
    | _, _ => none
  | _ => none

def parseFragTok (t : String) : Option Req.H2.Meta.Frag :=
  match t.splitOn ":" with
  | [l, evs] =>
    let es := if evs == "-" then some [] else (evs.splitOn "+").mapM parseFieldTok
    match l.toNat?, es with
    | some n, some e => some ⟨n, e⟩
    | _, _ => none
  | _ => none

/-- `c07h2meta <MaxHeaderListSize> <len:name=value+…;len:…>` → class of `readMetaFrame` -/
def laneH2Meta : List String → String
  | [m, frs] =>
    match m.toNat?, (frs.splitOn ";").mapM parseFragTok with
    | some M, some fs =>
      match Req.H2.Meta.readMeta M fs false with
      | .ok fields tr => "ok " ++ toString fields.length ++ (if tr then " truncated" else " complete")
      | .conn c => "conn " ++ toString c
      | .stream c => "stream " ++ toString c
    | _, _ => "bad-op"
  | _ => "bad-op"

/-- `c07h2accept <MaxHeaderListSize> <frags>` → `response` iff the header list is returned complete
(a truncated list is refused by `processHeaders`, every error fails the call) -/
def laneH2Accept : List String → String
  | [m, frs] =>
    match m.toNat?, (frs.splitOn ";").mapM parseFragTok with
    | some M, some fs =>
      match Req.H2.Meta.readMeta M fs false with
      | .ok _ false => "response"
      | _ => "error"
    | _, _ => "bad-op"
  | _ => "bad-op"

/-- `c07h3accept <maxHeaderBytes> <hex stream>` → `block` iff the header block is read (what follows
is QPACK / field validation), else `error` -/
def laneH3Accept : List String → String
  | [m, hex] =>
    match m.toNat?, decodeHex hex with
    | some M, some s =>
      match (Req.C07.H3Budget.readHead M s).out with
      | .block _ _ => "block"
      | _ => "error"
    | _, _ => "bad-op"
  | _ => "bad-op"

/-- `c07h3head <maxHeaderBytes> <hex stream>` → what `ReadResponse` does at the frame level -/
def laneH3Head : List String → String
  | [m, hex] =>
    match m.toNat?, decodeHex hex with
    | some M, some s => Req.C07.H3Budget.render s (Req.C07.H3Budget.readHead M s)
    | _, _ => "bad-op"
  | _ => "bad-op"

def parseH3FieldTok (t : String) : Option Req.H3.Fields.Field :=
  match t.splitOn "=" with
  | [n, v] => match decodeHex n, decodeHex v with
    | some a, some b => some ⟨a, b⟩
    | _, _ => none
  | _ => none

/-- `c07h3fields <name=value+…>` → `ok <status>` / `err` of `updateResponseFromHeaders` -/
def laneH3Fields : List String → String
  | [fs] =>
    match (if fs == "-" then some [] else (fs.splitOn "+").mapM parseH3FieldTok) with
    | some l =>
      match Req.H3.Fields.updateResponseFromHeaders l with
      | .error _ => "err"
      | .ok r => "ok " ++ toString r.statusCode
    | none => "bad-op"
  | _ => "bad-op"

/-- `c07digest <hex WWW-Authenticate value>` → `ok <realm> <nonce> <qop> <algorithm>` / `bad` / `charset`
/ `alg` / `qop` (the repaired RFC 7235 challenge reader, model `Req.DigestAuth` of C20) -/
def laneDigest : List String → String
  | [hex] =>
    match decodeHex hex with
    | some s =>
      match Req.DigestAuth.parseChallenge Req.Digest.algOf s with
      | .ok c => "ok " ++ encodeHex c.realm ++ " " ++ encodeHex c.nonce ++ " " ++ encodeHex c.qop ++ " " ++ encodeHex c.algorithm
      | .error .badChallenge => "bad"
      | .error .charset => "charset"
      | .error .algNotSupported => "alg"
      | .error .qopNotSupported => "qop"
      | .error _ => "other-error"
    | none => "bad-op"
  | _ => "bad-op"

/-! ### round 5: sequences -/

def parseNatList (sep : String) (t : String) : Option (List Nat) :=
  if t == "-" then some [] else (t.splitOn sep).mapM (·.toNat?)

def parseResp (t : String) : Option Req.C07.H1Conn.Resp :=
  match t.splitOn ":" with
  | [i, f, b, c] =>
    match parseNatList "+" i, f.toNat? with
    | some il, some fn => some ⟨il, fn, b == "1", c == "1"⟩
    | _, _ => none
  | _ => none

/-- `c07h1conn <L> <resp;resp;…>` (resp = `<i1+i2…|->:<final>:<bodiless>:<close>`) → per response
`ok@conn` / `big@conn/taken` / `many@conn` -/
def laneH1Conn : List String → String
  | [l, rs] =>
    match l.toNat?, (rs.splitOn ";").mapM parseResp with
    | some L, some resps => ",".intercalate ((Req.C07.H1Conn.connRun L 0 resps).map Req.C07.H1Conn.renderOut)
    | _, _ => "bad-op"
  | _ => "bad-op"

/-- `c07h3sections <max> <statuses|-> <hex stream>` → class, block buffers allocated, bytes consumed -/
def laneH3Sections : List String → String
  | [m, sts, hex] =>
    match m.toNat?, parseNatList "," sts, decodeHex hex with
    | some M, some st, some s =>
      let r := Req.C07.H3Sections.readResponse M st s
      Req.C07.H3Sections.render s { r with allocs := r.allocs.filter (· != 0) }
    | _, _, _ => "bad-op"
  | _ => "bad-op"

/-- `c07digestuse <hex WWW-Authenticate value>` → `ok <hex digest length> <qop>` / error class / `panic` -/
def laneDigestUse : List String → String
  | [hex] =>
    match decodeHex hex with
    | some s => Req.C07.DigestAlg.render (Req.C07.DigestAlg.answer Req.C07.DigestAlg.real s)
    | none => "bad-op"
  | _ => "bad-op"

/-- `c07h2settings <id:val,…|-> <blockLen>` → what the caller of a request on that connection gets -/
def laneH2Settings : List String → String
  | [f, bl] =>
    match (if f == "-" then some [] else (f.splitOn ",").mapM parsePair), bl.toNat? with
    | some l, some n => Req.C07.H2Settings.callOutcome l n
    | _, _ => "bad-op"
  | _ => "bad-op"

/-! ### round 6 -/

/-- `c07databuf <expected (may be negative)> <w<n>|r<n>,…>` → the state of the receive buffer after every
whole `Write(n bytes)` / `Read(n bytes)` call: chunk capacities, r, size; joined by `;` -/
def laneDataBuf : List String → String
  | [e, ops] =>
    match e.toInt? with
    | none => "bad-op"
    | some ev =>
      let step (acc : Req.C07.DataBuf.Buf × List String) (t : String) : Req.C07.DataBuf.Buf × List String :=
        let (b, out) := acc
        match (t.drop 1).toString.toNat? with
        | none => (b, out ++ ["bad-op"])
        | some n =>
          let b' := if t.startsWith "w" then Req.C07.DataBuf.Buf.write n b n
                    else Req.C07.DataBuf.Buf.read (n + 1) b n
          (b', out ++ [Req.C07.DataBuf.render b'])
      let (_, out) := (ops.splitOn ",").foldl step ({ expected := ev }, [])
      ";".intercalate out
  | _ => "bad-op"

/-- `c07exchanges <maxRedirects> <maxRetries> <digest 0|1> <pattern over O R C A, repeated for ever>` →
`n=<requests of the call> <last answer>` -/
def laneExchanges : List String → String
  | [k, n, d, pat] =>
    match k.toNat?, n.toNat?, pat.toList.mapM Req.C07.Exchanges.Ans.ofChar with
    | some k, some n, some p =>
      let r := Req.C07.Exchanges.call (Req.C07.Exchanges.cyclic p) { maxRedirects := k, maxRetries := n, digest := d == "1" }
      "n=" ++ toString r.1 ++ " " ++ r.2.name
    | _, _, _ => "bad-op"
  | _ => "bad-op"

def lanes : List (String × (List String → String)) := [
  ("c07databuf", laneDataBuf),
  ("c07exchanges", laneExchanges),
  ("c07h1conn", laneH1Conn),
  ("c07h3sections", laneH3Sections),
  ("c07digestuse", laneDigestUse),
  ("c07h2settings", laneH2Settings),
  ("c07digest", laneDigest),
  ("c07altsvc", laneAltSvc),
  ("c07meta", laneMeta),
  ("c07opts", laneOpts),
  ("c07optuse", laneOptUse),
  ("c07interim", laneInterim),
  ("c07token", laneToken),
  ("c07h1pos", laneH1Pos),
  ("c07h1final", laneH1Final),
  ("c07pcread", lanePcRead),
  ("c07h2meta", laneH2Meta),
  ("c07h3head", laneH3Head),
  ("c07h2accept", laneH2Accept),
  ("c07h3accept", laneH3Accept),
  ("c07h3fields", laneH3Fields)
]

end Req.Driver.L.C07
