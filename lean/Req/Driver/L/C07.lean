import Req.Driver.Proto
import Req.Pool.AltSvcParse
import Req.Pool.MetaCharset
/-! Driver lanes of C07. -/
namespace Req.Driver.L.C07
open Req.Proto

/-- `c07altsvc <value>` → `ok|err <proto,host,port,ma;…>` -/
def laneAltSvc : List String → String
  | [v] =>
    match decodeHex v with
    | some bs =>
      match Req.AltSvcParse.parse bs with
      | none => "out-of-fuel"
      | some (es, err) =>
        let cls := if err == .eof then "ok" else "err"
        let items := es.map fun e =>
          encodeHex e.proto ++ "," ++ encodeHex e.host ++ "," ++ encodeHex e.port ++ "," ++ (if e.hasMa then "1" else "0")
        cls ++ " " ++ (if items.isEmpty then "-" else ";".intercalate items)
    | none => "bad-op"
  | _ => "bad-op"

/-- `c07meta <content attribute>` → charset name found by `fromMetaElement` -/
def laneMeta : List String → String
  | [v] =>
    match decodeHex v with
    | some bs =>
      match Req.MetaCharset.fromMetaElement bs with
      | none => "out-of-fuel"
      | some r => encodeHex r
    | none => "bad-op"
  | _ => "bad-op"

def lanes : List (String × (List String → String)) := [
  ("c07altsvc", laneAltSvc),
  ("c07meta", laneMeta)
]

end Req.Driver.L.C07
