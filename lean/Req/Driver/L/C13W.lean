import Req.Driver.Proto
import Req.Driver.WireUtil
import Req.H1.DumpWrite
import Req.Client.DumpSites
import Req.Client.DumpExtra
/-! Driver lanes of C13, part 2: the per-stack dump call sites (write programs). -/
namespace Req.Driver.L.C13W
open Req.Proto Req.Driver

/-- `<method> <rawurl> <host> <hdr> <cl> <hasBody> <body> <close>` (hex / C01 conventions). -/
def decodeReq : List String → Option Req.H1.WReq
  | [m, raw, host, hdr, cl, hb, body, close] => do
    let m ← decodeHex m
    let raw ← decodeHex raw
    let host ← decodeHex host
    let hdr ← Wire.decodeHdr hdr
    let cl ← decodeInt cl
    let hb ← Wire.decodeBool hb
    let body ← Wire.decodeBody body
    let close ← Wire.decodeBool close
    match Req.Url.parse raw with
    | .ok u => pure { method := m, url := u, host := host, header := hdr, contentLength := cl,
                      hasBody := hb, body := body, close := close }
    | .error _ => none
  | _ => none

open Req.H1.DumpWrite in
/-- `c13h1w <B> <limit|-> <hdrDump> <bodyDump> <inMemory> <bodyFails> <old> <obs> <reads> <request: 8 args>`
→ `final=<hex> dh=<hex> db=<hex> err=<0|1> at=<n> bufn=<n> pend=<list|->`: every byte the wire
accepted once `writeLoop` has done its final flush (none after a body read error), what a header / body dumper was handed,
whether the wire failed; `at`/`bufn`: bytes on the wire / still buffered when `writeRequest`
returned, `pend`: the buffered byte count at every body `Read` (all three `x` when `obs` = 0:
the reads the harness saw are not aligned with the writes, e.g. in-memory bodies, the one-byte
probe of a GET body). -/
def laneH1W : List String → String
  | b :: lim :: hd :: bd :: im :: bf :: old :: obs :: reads :: rest =>
    match b.toNat?, (if lim == "-" then some none else lim.toNat?.map some), Wire.decodeBool hd,
          Wire.decodeBool bd, Wire.decodeBool im, Wire.decodeBool bf, Wire.decodeBool old,
          Wire.decodeBool obs, decodeNatList reads, decodeReq rest with
    | some B, some limit, some hd, some bd, some im, some bf, some old, some obs, some reads, some r =>
      match Req.H1.framing r with
      | .error _ => "refused"
      | .ok f =>
      let md : Mode := { hdrDump := hd, bodyDump := bd, flushHeaders := flushHeadersOf r f im,
                         bodyFails := bf, connectOld := old }
      match writeRequest B limit r md (cutPieces r.body reads) with
      | .error _ => "refused"
      | .ok st =>
        let fin := if bf then st.w else st.w.flush  -- writeLoop flushes only after success
        "final=" ++ encodeHex fin.wire ++
        " dh=" ++ encodeHex st.dumpH ++ " db=" ++ encodeHex st.dumpB ++
        " err=" ++ (if fin.err then "1" else "0") ++
        (if obs then " at=" ++ toString st.w.wire.length ++ " bufn=" ++ toString st.w.buf.length ++
                     " pend=" ++ encodeNatList st.pending
         else " at=x bufn=x pend=x")
    | _, _, _, _, _, _, _, _, _, _ => "bad-op"
  | _ => "bad-op"

/-! #### HTTP/2 / HTTP/3 dump call sites -/

/-- `n:v,n:v` (hex) or `-`. -/
def decodeFields (s : String) : Option (List (Bytes × Bytes)) :=
  if s == "-" then some [] else
  (s.splitOn ",").mapM fun e =>
    match e.splitOn ":" with
    | [n, v] => do pure ((← decodeHex n), (← decodeHex v))
    | _ => none

def encodeFields (l : List (Bytes × Bytes)) : String :=
  if l.isEmpty then "-" else ",".intercalate (l.map fun f => encodeHex f.1 ++ ":" ++ encodeHex f.2)

open Req.Client.DumpSites in
/-- `c13ghead <skipNonASCII> <dumpOn> <enumerated fields>` → fields handed to the compressor and
the header dump. -/
def laneGHead : List String → String
  | [sk, d, fs] =>
    match Wire.decodeBool sk, Wire.decodeBool d, decodeFields fs with
    | some sk, some d, some fs =>
      let o := encodeHead sk d fs
      "wire=" ++ encodeFields o.wire ++ " d=" ++ encodeHex o.dump
    | _, _, _ => "bad-op"
  | _ => "bad-op"

open Req.Client.DumpSites in
/-- `c13gresp3 <dumpOn> <decoded fields | x>` → the HTTP/3 response-head dump (`x`: the HEADERS
frame was refused before it was decoded). -/
def laneGResp3 : List String → String
  | [d, fs] =>
    match Wire.decodeBool d, (if fs == "x" then some none else (decodeFields fs).map some) with
    | some d, some fs => "d=" ++ encodeHex (respHeadH3 d fs)
    | _, _ => "bad-op"
  | _ => "bad-op"

open Req.Client.DumpSites in
/-- `c13gdata <maxFrame> <body reads> <grants>` → the DATA payloads = the dump calls. -/
def laneGData : List String → String
  | [m, ps, gs] =>
    match m.toNat?, decodeList ps, decodeNatList gs with
    | some m, some ps, some gs => encodeList (dataDump m ps gs)
    | _, _, _ => "bad-op"
  | _ => "bad-op"

open Req.H2.Meta in
def decodeEvent (e : String) : Option Event :=
  if e == "!" then some Event.decodeError else
  match e.splitOn ":" with
  | [n, v] => do pure (Event.field (← decodeHex n) (← decodeHex v))
  | _ => none

open Req.H2.Meta in
/-- fragments `len|ev,ev;len|…`, an event `n:v` (hex) or `!` (decoder error); `-` = none. -/
def decodeFrags (s : String) : Option (List Frag) :=
  if s == "-" then some [] else
  (s.splitOn ";").mapM fun f =>
    match f.splitOn "|" with
    | [l, evs] => do
      let l ← l.toNat?
      let evs ← (if evs == "" then some [] else (evs.splitOn ",").mapM decodeEvent)
      pure ⟨l, evs⟩
    | _ => none

open Req.Client.DumpSites Req.H2.Meta in
/-- `c13gmeta <MaxHeaderListSize> <closeErr> <frags>` → outcome class and the response-head dump. -/
def laneGMeta : List String → String
  | [m, ce, fr] =>
    match m.toNat?, Wire.decodeBool ce, decodeFrags fr with
    | some m, some ce, some fr =>
      (match readMeta m fr ce with
       | .ok fs tr => "ok:" ++ toString fs.length ++ (if tr then ":trunc" else "")
       | .conn c => "conn:" ++ toString c
       | .stream c => "stream:" ++ toString c) ++ " d=" ++ encodeHex (metaDump m fr ce)
    | _, _, _ => "bad-op"
  | _ => "bad-op"

open Req.Client.DumpSites in
/-- `c13g3body <limit|-> <body reads>` → bytes the stream accepted, the body dump, failed. -/
def laneG3Body : List String → String
  | [lim, ps] =>
    match (if lim == "-" then some none else lim.toNat?.map some), decodeList ps with
    | some lim, some ps =>
      let o := h3Body lim ps
      "wire=" ++ encodeHex o.wire ++ " d=" ++ encodeHex o.dump ++ " failed=" ++ (if o.failed then "1" else "0")
    | _, _ => "bad-op"
  | _ => "bad-op"

/-! #### failing sink, Response.Dump() after retries -/

open Req.Client.Dump in
/-- `c13wraps <limit> <writes> <k>`: the wrapper over a connection writer accepting `limit` bytes
and a dump sink failing from its (k+1)-th write on → the caller's results, what the connection
writer got, what the sink was offered (write by write). -/
def laneWrapS : List String → String
  | [limit, writes, k] =>
    match limit.toNat?, decodeList writes, k.toNat? with
    | some l, some ps, some k =>
      let (rs, ((_, got), (_, seen))) := (wrapWriterSink limitedWriter (failingSink k)).runAll ((l, []), (0, [])) ps
      (if rs.isEmpty then "-" else ",".intercalate (rs.map fun r => toString r.n ++ ":" ++ toString r.err)) ++
        " got=" ++ encodeHex got ++ " seen=" ++ encodeList seen
    | _, _, _ => "bad-op"
  | _ => "bad-op"

open Req.Client.Dump in
def optW (n : Nat) : Option Writer := if n = 0 then none else some n

open Req.Client.Dump in
def parseOpts (s : String) : Option (Option Opts) :=
  if s == "-" then some none else
  match decodeNatList s with
  | some [o, qo, ro, qho, qbo, rho, rbo, qh, qb, rh, rb, a] =>
    some (some { output := optW o, requestOutput := optW qo, responseOutput := optW ro,
                 requestHeaderOutput := optW qho, requestBodyOutput := optW qbo,
                 responseHeaderOutput := optW rho, responseBodyOutput := optW rbo,
                 requestHeader := qh != 0, requestBody := qb != 0, responseHeader := rh != 0,
                 responseBody := rb != 0, async := a != 0 })
  | _ => none

open Req.Client.Dump in
def mkExchanges : List Bytes → Option (List Exchange)
  | [] => some []
  | a :: b :: c :: d :: rest => (mkExchanges rest).map (⟨a, b, c, d⟩ :: ·)
  | _ => none

/-- cut a list into consecutive groups of the given sizes. -/
def groupBy {α : Type} : List Nat → List α → List (List α)
  | [], _ => []
  | n :: ns, l => l.take n :: groupBy ns (l.drop n)

def dedupSorted (l : List Nat) : List Nat :=
  (l.foldl (fun acc x => if acc.contains x then acc else x :: acc) []).reverse.mergeSort

open Req.Client.Dump in
/-- `c13expr <client opts|-> <request opts|-> <buffer writer> <exchanges per retry attempt> <parts: 4
per exchange>` → per writer the bytes it must hold after the call (`dumpAfterRetries`). -/
def laneExpR : List String → String
  | [c, r, buf, sizes, parts] =>
    match parseOpts c, parseOpts r, buf.toNat?, decodeNatList sizes, decodeList parts with
    | some co, some ro, some buf, some sizes, some ps =>
      match mkExchanges ps with
      | none => "bad-op"
      | some es =>
        if sizes.sum != es.length then "bad-op" else
        let ds := getDumpers (co.map newDumper) (ro.map newDumper)
        let attempts := groupBy sizes es
        let ws := dedupSorted (ds.flatMap fun o => Part.all.map o.resolve)
        let body := ws.filterMap fun w =>
          let b := dumpAfterRetries ds attempts buf w
          if b.isEmpty then none else some ("w" ++ toString w ++ "=" ++ encodeHex b)
        " ".intercalate body ++ " chan=-"
    | _, _, _, _, _ => "bad-op"
  | _ => "bad-op"

def lanes : List (String × (List String → String)) := [
  ("c13h1w", laneH1W),
  ("c13wraps", laneWrapS),
  ("c13expr", laneExpR),
  ("c13ghead", laneGHead),
  ("c13gdata", laneGData),
  ("c13gresp3", laneGResp3),
  ("c13gmeta", laneGMeta),
  ("c13g3body", laneG3Body)
]

end Req.Driver.L.C13W
