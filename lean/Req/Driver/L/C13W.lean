import Req.Driver.Proto
import Req.Driver.WireUtil
import Req.H1.DumpWrite
/-! Driver lanes of C13, part 2: the per-stack dump call sites (write programs). -/
namespace Req.Driver.L.C13W
open Req.Proto Req.Driver

/-- `<method> <rawurl> <host> <hdr> <cl> <hasBody> <body> <close>` (hex / C01 conventions). -/
def decodeReq : List String → Option Req.H1.WReq
  | [m, raw, host, hdr, cl, hb, body, close] => do
    let m ← decodeHex m
    let raw ← decodeHex raw
    let host ← decodeHex host
    let hdr ← Wire.decodeHdr hdr
    let cl ← decodeInt cl
    let hb ← Wire.decodeBool hb
    let body ← Wire.decodeBody body
    let close ← Wire.decodeBool close
    match Req.Url.parse raw with
    | .ok u => pure { method := m, url := u, host := host, header := hdr, contentLength := cl,
                      hasBody := hb, body := body, close := close }
    | .error _ => none
  | _ => none

open Req.H1.DumpWrite in
/-- `c13h1w <B> <limit|-> <hdrDump> <bodyDump> <inMemory> <bodyFails> <old> <obs> <reads> <request: 8 args>`
→ `final=<hex> dh=<hex> db=<hex> err=<0|1> at=<n> bufn=<n> pend=<list|->`: every byte the wire
accepted once `writeLoop` has done its final flush (none after a body read error), what a header / body dumper was handed,
whether the wire failed; `at`/`bufn`: bytes on the wire / still buffered when `writeRequest`
returned, `pend`: the buffered byte count at every body `Read` (all three `x` when `obs` = 0:
the reads the harness saw are not aligned with the writes, e.g. in-memory bodies, the one-byte
probe of a GET body). -/
def laneH1W : List String → String
  | b :: lim :: hd :: bd :: im :: bf :: old :: obs :: reads :: rest =>
    match b.toNat?, (if lim == "-" then some none else lim.toNat?.map some), Wire.decodeBool hd,
          Wire.decodeBool bd, Wire.decodeBool im, Wire.decodeBool bf, Wire.decodeBool old,
          Wire.decodeBool obs, decodeNatList reads, decodeReq rest with
    | some B, some limit, some hd, some bd, some im, some bf, some old, some obs, some reads, some r =>
      match Req.H1.framing r with
      | .error _ => "refused"
      | .ok f =>
      let md : Mode := { hdrDump := hd, bodyDump := bd, flushHeaders := flushHeadersOf r f im,
                         bodyFails := bf, connectOld := old }
      match writeRequest B limit r md (cutPieces r.body reads) with
      | .error _ => "refused"
      | .ok st =>
        let fin := if bf then st.w else st.w.flush  -- writeLoop flushes only after success
        "final=" ++ encodeHex fin.wire ++
        " dh=" ++ encodeHex st.dumpH ++ " db=" ++ encodeHex st.dumpB ++
        " err=" ++ (if fin.err then "1" else "0") ++
        (if obs then " at=" ++ toString st.w.wire.length ++ " bufn=" ++ toString st.w.buf.length ++
                     " pend=" ++ encodeNatList st.pending
         else " at=x bufn=x pend=x")
    | _, _, _, _, _, _, _, _, _, _ => "bad-op"
  | _ => "bad-op"

def lanes : List (String × (List String → String)) := [
  ("c13h1w", laneH1W)
]

end Req.Driver.L.C13W
