import Req.Driver.Proto
/-! Driver lanes of C20. -/
namespace Req.Driver.L.C20
open Req.Proto

def lanes : List (String × (List String → String)) := []

end Req.Driver.L.C20
