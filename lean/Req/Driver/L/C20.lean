import Req.Driver.Proto
import Req.Base.Base64
import Req.Client.Auth
import Req.Client.AuthWire
import Req.Client.Digest
import Req.Client.DigestAuth
import Req.Client.Rfc7616
import Req.Client.DigestResend
import Req.Client.AuthSet
import Req.Client.AuthHeap
/-! Driver lanes of C20. -/
namespace Req.Driver.L.C20
open Req.Proto Req.Digest

/-- The lanes' stand-in for the hash: lower-case hex of a tag byte (which constructor) followed
by the pre-image. The Go harness installs the same function into `hashFuncs`. -/
def tagOf : Alg → UInt8
  | .md5 => 109        -- 'm'
  | .sha256 => 50      -- '2'
  | .sha512_256 => 53  -- '5'
  | .sha512 => 120     -- 'x'

def idH (a : Alg) (data : Bytes) : Bytes := hex (tagOf a :: data)

def errName : Err → String
  | .badChallenge => "bad-challenge"
  | .charset => "charset"
  | .algNotSupported => "alg"
  | .qopNotSupported => "qop"
  | .rand => "rand"
  | .bodySetup => "body-setup"
  | .unreplayableBody => "unreplayable-body"
  | .invalidHeader => "invalid-header"

def optHex : Option Bytes → String
  | some b => "some:" ++ encodeHex b
  | none => "none"

def laneB64 : List String → String
  | [s] =>
    match decodeHex s with
    | some bs => encodeHex (Req.Base64.encode bs)
    | none => "bad-op"
  | _ => "bad-op"

def laneB64Dec : List String → String
  | [s] =>
    match decodeHex s with
    | some bs => optHex (Req.Base64.decode bs)
    | none => "bad-op"
  | _ => "bad-op"

def laneBasic : List String → String
  | [u, p] =>
    match decodeHex u, decodeHex p with
    | some u, some p =>
      let h := Req.Auth.basic u p
      encodeHex h ++ " " ++
        (match Req.Auth.serverBasic h with
         | some (u', p') => encodeHex u' ++ " " ++ encodeHex p'
         | none => "none")
    | _, _ => "bad-op"
  | _ => "bad-op"

/-- server side only: arbitrary Authorization value → what an origin recovers -/
def laneBasicDec : List String → String
  | [h] =>
    match decodeHex h with
    | some h =>
      (match Req.Auth.serverBasic h with
       | some (u', p') => encodeHex u' ++ " " ++ encodeHex p'
       | none => "none")
    | none => "bad-op"
  | _ => "bad-op"

def laneBearer : List String → String
  | [t] =>
    match decodeHex t with
    | some t =>
      let h := Req.Auth.bearer t
      encodeHex h ++ " " ++ optHex (Req.Auth.serverBearer h)
    | none => "bad-op"
  | _ => "bad-op"

def chalFields (c : Challenge) : List Bytes :=
  [c.realm, c.domain, c.nonce, c.opaq, c.stale, c.algorithm, c.qop, c.userhash]

def chalOfFields : List Bytes → Option Challenge
  | [realm, domain, nonce, opaq, stale, algorithm, qop, userhash] =>
    some { realm, domain, nonce, opaq, stale, algorithm, qop, userhash }
  | _ => none

def laneParse : List String → String
  | [raw] =>
    match decodeHex raw with
    | some raw =>
      (match parseChallenge raw with
       | .ok c => "ok " ++ encodeList (chalFields c)
       | .error e => "err " ++ errName e)
    | none => "bad-op"
  | _ => "bad-op"

def decodeRnd (s : String) : Option (Option Bytes) :=
  if s == "x" then some none else (decodeHex s).map some

def laneAuth : List String → String
  | [chal, user, pass, method, uri, nc, rnd] =>
    match decodeList chal, decodeHex user, decodeHex pass, decodeHex method, decodeHex uri,
          nc.toNat?, decodeRnd rnd with
    | some fs, some user, some pass, some method, some uri, some nc, some rnd =>
      (match chalOfFields fs with
       | some c =>
         (match authorize idH algOf c { user, pass, method, uri, nc } rnd with
          | .ok h => "ok " ++ encodeHex h
          | .error e => "err " ++ errName e)
       | none => "bad-op")
    | _, _, _, _, _, _, _ => "bad-op"
  | _ => "bad-op"

def decodeBody (kind body : String) : Option Body :=
  match kind, decodeHex body with
  | "none", some _ => some .none
  | "bytes", some b => some (.replayable b)
  | "stream", some b => some (.stream b)
  | _, _ => none

/-- on the wire "no body" and "empty body" are the same observation -/
def wireBody : Option Bytes → String
  | some b => encodeHex b
  | none => "_"

def laneHandleWith (full : Bool) : List String → String
  | [status, err, www, user, pass, method, uri, kind, body, rnd] =>
    match status.toNat?, decodeHex www, decodeHex user, decodeHex pass, decodeHex method,
          decodeHex uri, decodeBody kind body, decodeRnd rnd with
    | some status, some www, some user, some pass, some method, some uri, some body, some rnd =>
      (match handle idH algOf user pass method uri body rnd
          { err := err == "1", status, wwwAuth := www } with
       | .untouched => "untouched"
       | .failed e => "err " ++ errName e
       | .resend h b =>
         -- the transport's refusal of a field value with a control byte is independent of
         -- digest.go: it applies to the code as found as well
         if !h.all Req.DigestAuth.isFieldByte then "err invalid-header"
         else if full then "resend " ++ encodeHex h ++ " " ++ wireBody b else "resend " ++ wireBody b)
    | _, _, _, _, _, _, _, _ => "bad-op"
  | _ => "bad-op"

def decodeOpt (s : String) : Option (Option Bytes) :=
  if s == "." then some none else (decodeHex s).map some

/-- `c20verify realm nonce opaque|. algorithm|. qops userhash method uri user pass body hdr` -/
def laneVerify : List String → String
  | [realm, nonce, opaq, alg, qops, uh, method, uri, user, pass, body, hdr] =>
    match decodeHex realm, decodeHex nonce, decodeOpt opaq, decodeOpt alg, decodeList qops,
          decodeHex method, decodeHex uri, decodeHex user, decodeHex pass, decodeHex body,
          decodeHex hdr with
    | some realm, some nonce, some opaq, some algorithm, some qops, some method, some uri,
      some user, some pass, some body, some hdr =>
      let sc : Req.Rfc7616.Issued := { realm, nonce, opaq, algorithm, qops, userhash := uh == "1" }
      toString (Req.Rfc7616.verify idH Req.Rfc7616.specAlg
        { issued := sc, method, uri, user, pass, body } hdr)
    | _, _, _, _, _, _, _, _, _, _, _ => "bad-op"
  | _ => "bad-op"


/-! ### the repaired code (fixes/C20-5): `Req.DigestAuth` -/

def laneParse2 : List String → String
  | [raw] =>
    match decodeHex raw with
    | some raw =>
      (match Req.DigestAuth.parseChallenge algOf raw with
       | .ok c => "ok " ++ encodeList (chalFields c)
       | .error e => "err " ++ errName e)
    | none => "bad-op"
  | _ => "bad-op"

def laneAuth2 : List String → String
  | [chal, user, pass, method, uri, nc, rnd] =>
    match decodeList chal, decodeHex user, decodeHex pass, decodeHex method, decodeHex uri,
          nc.toNat?, decodeRnd rnd with
    | some fs, some user, some pass, some method, some uri, some nc, some rnd =>
      (match chalOfFields fs with
       | some c =>
         (match Req.DigestAuth.authorize idH algOf c { user, pass, method, uri, nc } rnd with
          | .ok h => "ok " ++ encodeHex h
          | .error e => "err " ++ errName e)
       | none => "bad-op")
    | _, _, _, _, _, _, _ => "bad-op"
  | _ => "bad-op"

/-- `c20create2 lines user pass method uri rnd`: `createDigestAuth` on all field lines -/
def laneCreate2 : List String → String
  | [lines, user, pass, method, uri, rnd] =>
    match decodeList lines, decodeHex user, decodeHex pass, decodeHex method, decodeHex uri, decodeRnd rnd with
    | some lines, some user, some pass, some method, some uri, some rnd =>
      (match Req.DigestAuth.createDigestAuth idH algOf lines { user, pass, method, uri } rnd with
       | .ok h => "ok " ++ encodeHex h
       | .error e => "err " ++ errName e)
    | _, _, _, _, _, _ => "bad-op"
  | _ => "bad-op"

/-- the code as found: `Header.Get` (first line only), legacy parser, legacy authorize -/
def laneCreate : List String → String
  | [lines, user, pass, method, uri, rnd] =>
    match decodeList lines, decodeHex user, decodeHex pass, decodeHex method, decodeHex uri, decodeRnd rnd with
    | some lines, some user, some pass, some method, some uri, some rnd =>
      let first := lines.headD []
      if first.isEmpty then "err bad-challenge" else
      (match parseChallenge first with
       | .error e => "err " ++ errName e
       | .ok c =>
         (match authorize idH algOf c { user, pass, method, uri } rnd with
          | .ok h => "ok " ++ encodeHex h
          | .error e => "err " ++ errName e))
    | _, _, _, _, _, _ => "bad-op"
  | _ => "bad-op"

def laneHandle2With (full : Bool) : List String → String
  | [status, err, www, user, pass, method, uri, kind, body, rnd] =>
    match status.toNat?, decodeList www, decodeHex user, decodeHex pass, decodeHex method,
          decodeHex uri, decodeBody kind body, decodeRnd rnd with
    | some status, some www, some user, some pass, some method, some uri, some body, some rnd =>
      (match Req.DigestAuth.handle idH algOf user pass method uri body rnd
          { err := err == "1", status, wwwAuth := www } with
       | .untouched => "untouched"
       | .failed e => "err " ++ errName e
       | .resend h b =>
         if full then "resend " ++ encodeHex h ++ " " ++ wireBody b else "resend " ++ wireBody b)
    | _, _, _, _, _, _, _, _ => "bad-op"
  | _ => "bad-op"

/-! ### basic / bearer on the wire -/

def pairHex : Option (Bytes × Bytes) → String
  | some (u, p) => "some:" ++ encodeHex u ++ ":" ++ encodeHex p
  | none => "none"

/-- `c20wirebasic h1|h2 user pass` → `refused` | `none` | `some:<user>:<pass>` -/
def laneWireBasic : List String → String
  | [proto, u, p] =>
    match decodeHex u, decodeHex p with
    | some u, some p =>
      (match Req.Auth.wireBasic (proto == "h2") u p with
       | none => "refused"
       | some r => pairHex r)
    | _, _ => "bad-op"
  | _ => "bad-op"

/-- `c20wirebearer h1|h2 token` → `refused` | `none` | `some:<token>` -/
def laneWireBearer : List String → String
  | [proto, t] =>
    match decodeHex t with
    | some t =>
      (match Req.Auth.wireBearer (proto == "h2") t with
       | none => "refused"
       | some r => optHex r)
    | none => "bad-op"
  | _ => "bad-op"

/-- `c20effective h1|h2 req|. client|. urluser|. urlpass` → the Authorization value on the wire -/
def laneEffective : List String → String
  | [proto, r, c, uu, up] =>
    match decodeOpt r, decodeOpt c, decodeOpt uu, decodeHex up with
    | some r, some c, some uu, some up =>
      (match Req.Auth.effective r c (uu.map fun u => (u, up)) with
       | none => "none"
       | some v =>
         (match Req.Auth.transport (proto == "h2") v with
          | none => "refused"
          | some w => "some:" ++ encodeHex w))
    | _, _, _, _ => "bad-op"
  | _ => "bad-op"

/-! ### round 5: uploads under a challenge, setter sequences -/

def pairsOf : List Bytes → Option (List (Bytes × Bytes))
  | [] => some []
  | k :: v :: r => (pairsOf r).map ((k, v) :: ·)
  | _ => none

def filesOf : List Bytes → Option (List Req.DigestAuth.FilePart)
  | [] => some []
  | kind :: param :: name :: content :: r =>
    let src : Option Req.DigestAuth.Source :=
      if kind == [99] then some (.content content)       -- "c"
      else if kind == [115] then some (.seekable content) -- "s"
      else if kind == [111] then some (.oneShot content)  -- "o"
      else none
    match src, filesOf r with
    | some src, some fs => some ({ param, filename := name, src } :: fs)
    | _, _ => none
  | _ => none

def partStr (p : Req.DigestAuth.Part) : String :=
  encodeHex p.name ++ "/" ++ encodeHex p.filename ++ "=" ++ encodeHex p.content

/-- sorted, `;`-joined (`-` = no part) -/
def partsStr (ps : List Req.DigestAuth.Part) : String :=
  if ps.isEmpty then "-" else
  ";".intercalate ((ps.map partStr).toArray.qsort (fun a b => a < b)).toList

/-- `c20upload[2] status www user pass method uri streamed ordered form clientform files` →
`first <parts> -> untouched | err <kind> | resend <parts>` -/
def laneUploadWith (m : Req.DigestAuth.Mode) : List String → String
  | [status, www, user, pass, method, uri, streamed, ordered, form, cform, files] =>
    match status.toNat?, decodeList www, decodeHex user, decodeHex pass, decodeHex method, decodeHex uri,
          (decodeList ordered).bind pairsOf, (decodeList form).bind pairsOf, (decodeList cform).bind pairsOf,
          (decodeList files).bind filesOf with
    | some status, some www, some user, some pass, some method, some uri, some ordered, some form, some cform,
      some files =>
      let u : Req.DigestAuth.Upload := { ordered, form, clientForm := cform, files, streamed := streamed == "1" }
      let answer := if status != 401 then none else
        some (Req.DigestAuth.createDigestAuth idH algOf www { user, pass, method, uri } (some (List.replicate 16 0)))
      "first " ++ partsStr (Req.DigestAuth.firstParts u) ++ " -> " ++
        (match Req.DigestAuth.handleUpload m answer u with
         | .untouched => "untouched"
         | .failed e => "err " ++ errName e
         | .resend ps => "resend " ++ partsStr ps)
    | _, _, _, _, _, _, _, _, _, _ => "bad-op"
  | _ => "bad-op"

def setOpsOf : List Bytes → Option (List Req.Auth.SetOp)
  | [] => some []
  | kind :: a :: b :: r =>
    let op : Option Req.Auth.SetOp :=
      if kind == [99, 98] then some (.clientBasic a b)        -- "cb"
      else if kind == [99, 116] then some (.clientBearer a)   -- "ct"
      else if kind == [114, 98] then some (.reqBasic a b)     -- "rb"
      else if kind == [114, 116] then some (.reqBearer a)     -- "rt"
      else none
    match op, setOpsOf r with
    | some op, some ops => some (op :: ops)
    | _, _ => none
  | _ => none

/-- `c20set h1|h2 ops urluser|. urlpass` → `refused` | `basic=<none|some:u:p> bearer=<none|some:t>` -/
def laneSet : List String → String
  | [proto, ops, uu, up] =>
    match (decodeList ops).bind setOpsOf, decodeOpt uu, decodeHex up with
    | some ops, some uu, some up =>
      let url := uu.map fun u => (u, up)
      let h2 := proto == "h2"
      (match Req.Auth.recoveredBasic h2 ops url, Req.Auth.recoveredBearer h2 ops url with
       | some b, some t => "basic=" ++ pairHex b ++ " bearer=" ++ optHex t
       | _, _ => "refused")
    | _, _, _ => "bad-op"
  | _ => "bad-op"

/-- events of lane `life`: groups of four byte strings `kind idx a b`; kinds `cb ct` (client-level
setter), `nr` (`Client.R()`), `rb rt` (setter of request `idx`), `sd` (attempt of request `idx`, no
user information in the URL), `su` (attempt, URL user information `a:b`); `idx` in ASCII decimal -/
def lifeEvsOf : List Bytes → Option (List Req.Auth.Ev)
  | [] => some []
  | kind :: idx :: a :: b :: r =>
    let i := (String.ofList (idx.map fun c => Char.ofNat c.toNat)).toNat?
    let ev : Option Req.Auth.Ev :=
      if kind == [99, 98] then some (.client (Req.Auth.basic a b))             -- "cb"
      else if kind == [99, 116] then some (.client (Req.Auth.bearer a))        -- "ct"
      else if kind == [110, 114] then some .newReq                             -- "nr"
      else if kind == [114, 98] then i.map (.request · (Req.Auth.basic a b))   -- "rb"
      else if kind == [114, 116] then i.map (.request · (Req.Auth.bearer a))   -- "rt"
      else if kind == [115, 100] then i.map (.send · none)                     -- "sd"
      else if kind == [115, 117] then i.map (.send · (some (a, b)))            -- "su"
      else none
    match ev, lifeEvsOf r with
    | some ev, some evs => some (ev :: evs)
    | _, _ => none
  | _ => none

/-- what the origin recovers from one attempt -/
def lifeAttempt (h2 : Bool) : Option Bytes → String
  | none => "basic=none bearer=none"
  | some v =>
    match Req.Auth.transport h2 v with
    | none => "refused"
    | some w => "basic=" ++ pairHex (Req.Auth.serverBasic w) ++ " bearer=" ++ optHex (Req.Auth.serverBearer w)

/-- `c20life h1|h2 events` → the attempts, `;`-joined (`-` = none): `refused` | `basic=… bearer=…` each.
Model: `Req.Auth.life .fresh` (the heap with shared slices; `sharing_unobservable` makes it the
value-only description). -/
def laneLife : List String → String
  | [proto, evs] =>
    match (decodeList evs).bind lifeEvsOf with
    | some evs =>
      let outs := (Req.Auth.life .fresh evs).map (lifeAttempt (proto == "h2"))
      if outs.isEmpty then "-" else ";".intercalate outs
    | none => "bad-op"
  | _ => "bad-op"

def lanes : List (String × (List String → String)) := [
  ("c20b64", laneB64),
  ("c20b64dec", laneB64Dec),
  ("c20basic", laneBasic),
  ("c20basicdec", laneBasicDec),
  ("c20bearer", laneBearer),
  ("c20parse", laneParse),
  ("c20auth", laneAuth),
  ("c20handle", laneHandleWith true),
  ("c20kind", laneHandleWith false),
  ("c20verify", laneVerify),
  ("c20parse2", laneParse2),
  ("c20auth2", laneAuth2),
  ("c20create2", laneCreate2),
  ("c20create", laneCreate),
  ("c20handle2", laneHandle2With true),
  ("c20kind2", laneHandle2With false),
  ("c20wirebasic", laneWireBasic),
  ("c20wirebearer", laneWireBearer),
  ("c20effective", laneEffective),
  ("c20upload2", laneUploadWith .repaired),
  ("c20upload", laneUploadWith .asFound),
  ("c20set", laneSet),
  ("c20life", laneLife)
]

end Req.Driver.L.C20
