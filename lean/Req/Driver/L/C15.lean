import Req.Driver.Proto
/-! Driver lanes of C15. -/
namespace Req.Driver.L.C15
open Req.Proto

def lanes : List (String × (List String → String)) := []

end Req.Driver.L.C15
