import Req.Driver.Proto
import Req.Client.Decode
import Req.Client.DecodeSettings
import Req.Client.RespHeader
import Req.Client.Sniff
import Req.Client.PrefixCode
import Req.Client.DecodePath
import Req.Client.HtmlSpec
/-!
Driver lanes of C15.

Decoder ids: `none`, `latin1`, `w1252`, `u16le`, `u16be` (Lean decoders), `tbl` (table decoder over
the `<tbl>` argument: `in=out;in=out…`, hex, sent by the harness from x/text).

* `c15read <disable> <filter> <ae> <ct> <mp> <lk> <pre> <tbl> <segs> <term> <lwt> <bufs> <tail>`
  — `autoDecodeResponseBody` + reads, patched model.  `filter` = `default|all|list:<hexlist>|custom:<0|1>`,
  `mp` = `err|nocs|cs:<hex>`, `lk` = decoder id the header charset resolves to, `pre` = prescan
  table `content=decid/name;…` (`-` = empty), `segs`/`term`/`lwt` = the scripted source, `bufs` =
  caller buffer sizes of the first reads, then `tail`-sized buffers until the stream ends.
  Answer: `<hex of everything returned> <eof|err|panic|none> <raw|hdr|auto:<detected><hasDecoder><peek>>`.
* `c15readp <prog> <use> <ae> <ct> …as c15read…` — the same, with the configuration COMPUTED by the
  model from a program of setter calls / clonings over a family of clients (`Req.Decode.runFam`)
  and the index of the member that performs the request.  `prog` = `;`-joined operations (`-` = none):
  `D<i>` Disable, `E<i>` Enable, `A<i>` SetAutoDecodeAllContentType, `N<i>` SetAutoDecodeContentTypeFunc(nil),
  `F<i>:<0|1>` a custom function (its verdict on this content type), `L<i>:<hexlist>`
  SetAutoDecodeContentType(list), `C<i>` Clone of member `i`.
* `c15out …as c15read…` / `c15outp …as c15readp…` — the same, answer reduced to `<hex of everything returned> <eof|…>` (lane
  `e2e`: responses whose outcome the theorems make independent of the network split; the installed reader is not observable there).
* `c15cfg <prog> <use> <grid>` — the selection alone, over a grid of responses: `grid` =
  `,`-joined `<content-type hex>/<ae hex>/<mp>/<lk>` entries (`lk` = a decoder id, or `W:<ok|nil|err>`: WHATWG table of the model, then what ianaindex says); in `prog` a custom function may also be named
  (`G<i>:<k>`, the harness' three fixed functions: suffix `+verif`, even length, contains `charset`).
  Answer: `,`-joined `raw|hdr|auto` (what `autoDecodeResponseBody` installs), one per grid entry.
* `c15hdrs <mech> <fields> <disable> <filter> <cts> <tbl> <body> <full|wire> [<transport wrappers>,<client wrappers>]` — a response from its header FIELDS in
  wire order: `mech` = `add` (HTTP/3: `Header.Add`) or `slots:<n>` (HTTP/1.1, HTTP/2: `n` pre-allocated
  value slots), `fields` = `;`-joined `<name hex>=<value hex>` (`-` = none), `cts` = what the harness says
  about every Content-Type value in the block (and about `""`): `;`-joined `<ct hex>=<mp>/<lk>`.  The body
  arrives in one piece and carries no BOM / markup (nothing to sniff).  Answer:
  `<header map: keys sorted, key=v1,v2;…> <body delivered hex>` and, with `full`, ` <eof|…> <raw|hdr|auto:…>`.
  With `pre` = `C` the model runs the CONCRETE scanner (`Req.Prescan` automaton + `Req.Labels` table) on the
  sniffed bytes instead of looking the verdict up in a table stated by the harness.
* `c15findc <content>` — `FindEncoding` with the concrete scanner: `none` or the canonical name (hex) of the
  encoding whose decoder is applied.
* `c15spec cmt <text>` — the WHATWG comment rule stated on the text (`Req.Prescan.commentEndAt`, no automaton): `open` or
  `closed <k>`, the length of the shortest prefix of the text after `<!--` that closes the comment;
  `c15spec raw <name> <text>` — the RCDATA / RAWTEXT end-tag rule (`Req.Prescan.rawSplit`): `open` or `closed <offset of the '<' of
  the first end tag>`.
* `c15label <label>` — `htmlcharset.Lookup(label)`: canonical name (hex) or `none`; `c15labels` — the
  `,`-joined hex list of all labels of the model's table.
* `c15mb <singles> <pairs> <chunks>` — the generic double-byte prefix code (`dbcsCode`) over tables stated by the
  harness from x/text on 1- and 2-byte strings: `singles` = `;`-joined `<byte hex>=<out hex>` (a byte not listed
  is a lead byte), `pairs` = `;`-joined `<2 bytes hex>=<out hex>/<1|2>` (bytes consumed).  Answer as `c15dec`.
* `c15gbk <gbk|gb18030> <pairs> <fours> <chunks>` — GBK / GB18030 with the byte ranges of the MODEL; `pairs` =
  `<2 bytes hex>=<code point, 0 = unmapped>`, `fours` = `<4 bytes hex>=<out hex>/<1|4>`.  Answer as `c15dec`.
* `c15legacy …same… <dirty>` — the pinned tree's `peekRead`; buffers are pre-filled with the
  `dirty` pattern repeated.
* `c15drain <peek|nil> <decid> <tbl> <segs> <term> <lwt> <bufs> <tail>` — `Read` from a state
  with `detected = true`, the given `peek` and decoder.
* `c15dec <decid> <tbl> <chunks>` — `<decodeAll (flatten chunks)> <feed chunks ++ flush>`.
* `c15find <content> <pre entry decid/name | none> <tbl>` — `FindEncoding`; answer `none` or the
  found decoder applied to `content`.
-/
namespace Req.Driver.L.C15
open Req.Proto Req.Decode

abbrev D := Decoder Bytes

def parsePairs (s : String) : Option (List (Bytes × Bytes)) :=
  if s == "-" then some [] else
  (s.splitOn ";").mapM fun e =>
    match e.splitOn "=" with
    | [a, b] => do
      let x ← decodeHex a
      let y ← decodeHex b
      pure (x, y)
    | _ => none

/-- decoder id → `some none` (no decoder) / `some (some d)`; `none` = malformed. -/
def decOf (tbl : List (Bytes × Bytes)) (s : String) : Option (Option D) :=
  if s == "none" then some none
  else if s == "latin1" then some (some latin1)
  else if s == "w1252" then some (some windows1252)
  else if s == "u16le" then some (some (utf16 false))
  else if s == "u16be" then some (some (utf16 true))
  else if s == "tbl" then some (some (tableDecoder tbl))
  else none

/-- prescan table: `content=decid/namehex;…`; an entry with decid `none` means "nothing found". -/
def parsePrescan (tbl : List (Bytes × Bytes)) (s : String) : Option (List (Bytes × Option (Enc Bytes))) :=
  if s == "-" then some [] else
  (s.splitOn ";").mapM fun e =>
    match e.splitOn "=" with
    | [c, v] =>
      match v.splitOn "/" with
      | [did, nm] => do
        let content ← decodeHex c
        let d ← decOf tbl did
        let name ← decodeHex nm
        pure (content, d.map fun dec => (⟨name, dec⟩ : Enc Bytes))
      | _ => none
    | _ => none

def prescanOf (t : List (Bytes × Option (Enc Bytes))) (content : Bytes) : Option (Enc Bytes) :=
  match t.lookup content with
  | some r => r
  | none => none

/-- `htmlcharset.Lookup` on the three labels of the BOM table. -/
def bomLookup (label : Bytes) : Option (Enc Bytes) :=
  if label == ofStr "utf-16be" then some ⟨label, utf16 true⟩
  else if label == ofStr "utf-16le" then some ⟨label, utf16 false⟩
  else if label == ofStr "utf-8" then some ⟨label, latin1⟩   -- decoder never used (dropUtf8)
  else none

/-- canonical encoding name → decoder (Lean decoder where there is one, else the table decoder). -/
def decOfName (tbl : List (Bytes × Bytes)) (name : Bytes) : D :=
  if name == ofStr "windows-1252" then windows1252
  else if name == ofStr "utf-16le" then utf16 false
  else if name == ofStr "utf-16be" then utf16 true
  else tableDecoder tbl

def realP : Req.Prescan.Params := realParams fun _ => none

/-- a decoder that "decodes" everything to its own name (to print which encoding was selected) -/
def nameDecoder (name : Bytes) : D :=
  { init := [], feed := fun s _ => (s, []), flush := fun _ => name, decodeAll := fun _ => name }

def laneFindC : List String → String
  | [content] =>
    match decodeHex content with
    | some c =>
      match findC realP nameDecoder c with
      | none => "none"
      | some d => encodeHex (d.decodeAll [])
    | none => "bad-op"
  | _ => "bad-op"

def laneSpec : List String → String
  | ["cmt", t] =>
    match decodeHex t with
    | some t =>
      match Req.Prescan.commentEndAt t with
      | some k => s!"closed {k}"
      | none => "open"
    | none => "bad-op"
  | ["raw", tag, t] =>
    match decodeHex tag, decodeHex t with
    | some tag, some t =>
      match Req.Prescan.rawSplit tag t with
      | some (_, rest) => s!"closed {t.length - rest.length - tag.length - 3}"
      | none => "open"
    | _, _ => "bad-op"
  | _ => "bad-op"

def laneLabel : List String → String
  | [label] =>
    match decodeHex label with
    | some l => match realP.lookup l with
      | some n => encodeHex n
      | none => "none"
    | none => "bad-op"
  | _ => "bad-op"

def laneLabels (_ : List String) : String := encodeList (Req.Labels.whatwg.map Prod.fst)

def parseKV (s : String) : Option (List (Bytes × String)) :=
  if s == "-" then some [] else
  (s.splitOn ";").mapM fun e =>
    match e.splitOn "=" with
    | [a, b] => (decodeHex a).map fun x => (x, b)
    | _ => none

def showDec (d : D) (chunks : List Bytes) : String :=
  let f := d.feedAll d.init chunks
  encodeHex (d.decodeAll chunks.flatten) ++ " " ++ encodeHex (f.2 ++ d.flush f.1)

def laneMb : List String → String
  | [singles, pairs, chunks] =>
    let r : Option String := do
      let singles ← parseKV singles
      let singles ← singles.mapM fun (k, v) => (decodeHex v).map fun o => (k, o)
      let pairs ← parseKV pairs
      let pairs ← pairs.mapM fun (k, v) =>
        match v.splitOn "/" with
        | [o, n] => (decodeHex o).map fun o => (k, (o, n == "2"))
        | _ => none
      let chunks ← decodeList chunks
      let single := fun (b : UInt8) => singles.lookup [b]
      let pair := fun (a b : UInt8) => (pairs.lookup [a, b]).getD (unknownInput, true)
      pure (showDec (ofCode (dbcsCode single pair)) chunks)
    r.getD "bad-op"
  | _ => "bad-op"

def laneGbk : List String → String
  | [kind, pairs, fours, chunks] =>
    let r : Option String := do
      let pairs ← parseKV pairs
      let pairs ← pairs.mapM fun (k, v) => v.toNat?.map fun n => (k, n)
      let fours ← parseKV fours
      let fours ← fours.mapM fun (k, v) =>
        match v.splitOn "/" with
        | [o, n] => (decodeHex o).map fun o => (k, (o, n == "4"))
        | _ => none
      let chunks ← decodeList chunks
      let tbl := fun (a b : UInt8) => (pairs.lookup [a, b]).getD 0x21   -- '!' marks a pair the harness did not state
      let four := fun (a b c d : UInt8) => (fours.lookup [a, b, c, d]).getD (unknownInput, true)
      if kind == "gbk" then pure (showDec (ofCode (gbkCode tbl)) chunks)
      else if kind == "gb18030" then pure (showDec (ofCode (gb18030Code tbl four)) chunks)
      else none
    r.getD "bad-op"
  | _ => "bad-op"

def parseFilter (s : String) : Option (Option (Bytes → Bool)) :=
  if s == "default" then some none
  else if s == "all" then some (some fun _ => true)
  else if s == "custom:0" then some (some fun _ => false)
  else if s == "custom:1" then some (some fun _ => true)
  else if s.startsWith "list:" then
    match decodeList (s.drop 5).toString with
    | some l => some (some (contentTypeFunc l))
    | none => none
  else none

def parseMp (s : String) : Option MediaParse :=
  if s == "err" then some .err
  else if s == "nocs" then some .noCharset
  else if s.startsWith "cs:" then (decodeHex (s.drop 3).toString).map .charset
  else none

def parseTerm (s : String) : Option Term :=
  if s == "eof" then some .eof else if s == "err" then some .err else none

def parseBool (s : String) : Option Bool :=
  if s == "1" then some true else if s == "0" then some false else none

def showTerm : Option Term → String
  | none => "none"
  | some .eof => "eof"
  | some .err => "err"
  | some .panic => "panic"

def b01 (b : Bool) : String := if b then "1" else "0"

def showKind : Body Bytes → String
  | .raw _ => "raw"
  | .hdr _ _ => "hdr"
  | .auto a => "auto:" ++ b01 a.detected ++ b01 a.decodeReader.isSome ++ b01 a.peek.isSome

def showRR (r : RR (Body Bytes)) : String :=
  encodeHex r.out ++ " " ++ showTerm r.term ++ " " ++ showKind r.st

/-- Enough `tail`-sized reads to finish any stream (each read hands out a byte, consumes a
byte/segment, or reports the end). -/
def fuelFor (segs : List Bytes) (tbl : List (Bytes × Bytes)) : Nat :=
  5 * segs.flatten.length + 3 * segs.length + (tbl.map fun p => p.2.length).sum + 16

def cyc (pat : Bytes) (n : Nat) : Bytes :=
  if pat.isEmpty then List.replicate n 0
  else (List.range n).map fun i => pat[i % pat.length]!

structure ReadArgs where
  cfg : Config
  ae : Bytes
  ct : Bytes
  mp : MediaParse
  lk : Option D
  find : Bytes → Option D
  src : Src
  bufs : List Nat
  tail : Nat
  fuel : Nat

def parseReadArgs : List String → Option ReadArgs
  | [dis, flt, ae, ct, mp, lk, pre, tbl, segs, term, lwt, bufs, tail] => do
    let dis ← parseBool dis
    let flt ← parseFilter flt
    let ae ← decodeHex ae
    let ct ← decodeHex ct
    let mp ← parseMp mp
    let tbl ← parsePairs tbl
    let lk ← decOf tbl lk
    let concrete := pre == "C"
    let pre ← if concrete then some [] else parsePrescan tbl pre
    let segs ← decodeList segs
    let term ← parseTerm term
    let lwt ← parseBool lwt
    let bufs ← decodeNatList bufs
    let tail ← tail.toNat?
    pure { cfg := ⟨dis, flt⟩, ae := ae, ct := ct, mp := mp, lk := lk,
           find := if concrete then findC realP (decOfName tbl) else findEncoding bomLookup (prescanOf pre),
           src := ⟨segs, term, lwt⟩,
           bufs := bufs, tail := tail, fuel := fuelFor segs tbl }
  | _ => none

/-- `D0`, `F2:1`, `L1:68746d6c,786d6c`, `C0` … -/
def parseFamOp (t : String) : Option FamOp :=
  match t.toList with
  | [] => none
  | k :: rest =>
    let (digits, tailc) := rest.span Char.isDigit
    let arg : Option String := match tailc with
      | [] => some ""
      | ':' :: a => some (String.ofList a)
      | _ => none
    match (String.ofList digits).toNat?, arg with
    | some i, some a =>
      if k == 'D' && a == "" then some (.on i .disable)
      else if k == 'E' && a == "" then some (.on i .enable)
      else if k == 'A' && a == "" then some (.on i .setAll)
      else if k == 'N' && a == "" then some (.on i (.setFunc none))
      else if k == 'C' && a == "" then some (.clone i)
      else if k == 'F' && a == "0" then some (.on i (.setFunc (some fun _ => false)))
      else if k == 'F' && a == "1" then some (.on i (.setFunc (some fun _ => true)))
      else if k == 'G' && a == "0" then some (.on i (.setFunc (some fun ct => (ofStr "+verif").reverse.isPrefixOf ct.reverse)))
      else if k == 'G' && a == "1" then some (.on i (.setFunc (some fun ct => ct.length % 2 == 0)))
      else if k == 'G' && a == "2" then some (.on i (.setFunc (some fun ct => containsSub ct (ofStr "charset"))))
      else if k == 'L' && tailc != [] then (decodeList a).map fun l => .on i (.setList l)
      else none
    | _, _ => none

def parseProg (s : String) : Option (List FamOp) :=
  if s == "-" then some [] else (s.splitOn ";").mapM parseFamOp

def laneReadP : List String → String
  | prog :: use :: rest =>
    match parseProg prog, use.toNat?, parseReadArgs ("0" :: "default" :: rest) with
    | some ops, some j, some a =>
      match (runFam ops)[j]? with
      | some cfg =>
        showRR (respReads cfg a.ae a.ct a.mp (fun _ => a.lk) a.find a.src
          (a.bufs ++ List.replicate a.fuel a.tail))
      | none => "bad-op"
    | _, _, _ => "bad-op"
  | _ => "bad-op"

/-- byte-lexicographic `<` on keys (Go's `sort.Strings`). -/
def bytesLt : Bytes → Bytes → Bool
  | [], [] => false
  | [], _ :: _ => true
  | _ :: _, [] => false
  | a :: as, b :: bs => a < b || (a == b && bytesLt as bs)

def insertKey (e : Bytes × List Bytes) : List (Bytes × List Bytes) → List (Bytes × List Bytes)
  | [] => [e]
  | x :: xs => if bytesLt e.1 x.1 then e :: x :: xs else x :: insertKey e xs

def showHdr (h : Req.RespHeader.Hdr) : String :=
  let sorted := h.foldl (fun acc e => insertKey e acc) []
  if sorted.isEmpty then "-" else
  ";".intercalate (sorted.map fun e => encodeHex e.1 ++ "=" ++ ",".intercalate (e.2.map encodeHex))

def parseFields (s : String) : Option (List Req.RespHeader.Field) :=
  if s == "-" then some [] else
  (s.splitOn ";").mapM fun e =>
    match e.splitOn "=" with
    | [a, b] => do
      let x ← decodeHex a
      let y ← decodeHex b
      pure (x, y)
    | _ => none

def laneHdrsShape (mech fields dis flt cts tbl body view shape : String) : String :=
    let r : Option String := do
      let shape ← match shape.splitOn "," with
        | [a, b] => do
          let a ← a.toNat?
          let b ← b.toNat?
          pure (⟨a, b⟩ : StackShape)
        | _ => none
      let fields ← parseFields fields
      let hdr ←
        if mech == "add" then some (Req.RespHeader.assemble fields)
        else if mech.startsWith "slots:" then
          (mech.drop 6).toString.toNat?.map fun n => Req.RespHeader.Slots.readOut (Req.RespHeader.Slots.run true n fields)
        else none
      let dis ← parseBool dis
      let flt ← parseFilter flt
      let tbl ← parsePairs tbl
      let body ← decodeHex body
      let ct := Req.RespHeader.get hdr Req.RespHeader.contentTypeKey
      let ae := Req.RespHeader.get hdr Req.RespHeader.acceptEncodingKey
      let cts ← (cts.splitOn ";").mapM fun e =>
        match e.splitOn "=" with
        | [c, v] =>
          match v.splitOn "/" with
          | [mp, lk] => do
            let c ← decodeHex c
            let mp ← parseMp mp
            let lk ← decOf tbl lk
            pure (c, (mp, lk))
          | _ => none
        | _ => none
      let (mp, lk) ← cts.lookup ct
      let readAll := fun (b : Bytes) =>
        respReads ⟨dis, flt⟩ ae ct mp (fun _ => lk) (fun _ => none) ⟨if b.isEmpty then [] else [b], .eof, false⟩
          (List.replicate (fuelFor [b] tbl) 4096)
      let rr := readAll body
      if view == "full" then pure (showHdr hdr ++ " " ++ showRR rr)
      else if view == "wire" ∧ rr.term = some .eof then
        -- the body after the whole path through the stack (`runPath`, one body stage)
        pure (showHdr hdr ++ " " ++ encodeHex (runPath (fun b => (readAll b).out) (pathOf shape) body))
      else none
    r.getD "bad-op"

def laneHdrs : List String → String
  | [mech, fields, dis, flt, cts, tbl, body, view] => laneHdrsShape mech fields dis flt cts tbl body view "0,0"
  | [mech, fields, dis, flt, cts, tbl, body, view, shape] => laneHdrsShape mech fields dis flt cts tbl body view shape
  | _ => "bad-op"

def showSel : Sel Bytes → String
  | .untouched => "raw"
  | .header _ => "hdr"
  | .peek => "auto"

def laneCfg : List String → String
  | [prog, use, grid] =>
    let r : Option String := do
      let ops ← parseProg prog
      let j ← use.toNat?
      let cfg ← (runFam ops)[j]?
      let cells ← (grid.splitOn ",").mapM fun e =>
        match e.splitOn "/" with
        | [ct, ae, mp, lk] => do
          let ct ← decodeHex ct
          let ae ← decodeHex ae
          let mp ← parseMp mp
          -- `W:<ok|nil|err>`: the model looks the charset up in ITS label table first; the suffix is what
          -- ianaindex.MIME answers (implemented / registered without implementation / error)
          let lookup : Option (Bytes → Option D) :=
            if lk.startsWith "W:" then
              let iana : Option (Iana Bytes) :=
                if lk == "W:ok" then some (.ok (tableDecoder [])) else if lk == "W:nil" then some .unimplemented
                else if lk == "W:err" then some .unknown else none
              iana.map fun i => headerLookup realP.lookup (decOfName []) (fun _ => i)
            else (decOf [] lk).map fun d => fun _ => d
          let lookup ← lookup
          pure (showSel (select cfg ae ct mp lookup))
        | _ => none
      pure (",".intercalate cells)
    r.getD "bad-op"
  | _ => "bad-op"

def laneRead (args : List String) : String :=
  match parseReadArgs args with
  | some a =>
    showRR (respReads a.cfg a.ae a.ct a.mp (fun _ => a.lk) a.find a.src
      (a.bufs ++ List.replicate a.fuel a.tail))
  | none => "bad-op"

/-- Legacy buffers carry content: the explicit buffers and the next four `tail` buffers are
pre-filled with the dirty pattern (only the first data-carrying read looks at the content;
the harness keeps that read within this range), the rest are zero-filled. -/
def laneLegacy (args : List String) : String :=
  match args.reverse with
  | dirty :: rest =>
    match parseReadArgs rest.reverse, decodeHex dirty with
    | some a, some pat =>
      let body := wrapBody (select a.cfg a.ae a.ct a.mp (fun _ => a.lk)) a.src
      let bufs := (a.bufs ++ List.replicate 4 a.tail).map (cyc pat)
        ++ List.replicate a.fuel (List.replicate a.tail 0)
      showRR (reads (Body.readLegacy a.find) body bufs)
    | _, _ => "bad-op"
  | [] => "bad-op"

def laneDrain : List String → String
  | [peek, did, tbl, segs, term, lwt, bufs, tail] =>
    let r : Option String := do
      let pk ← if peek == "nil" then some none else (decodeHex peek).map some
      let tbl ← parsePairs tbl
      let d ← decOf tbl did
      let segs ← decodeList segs
      let term ← parseTerm term
      let lwt ← parseBool lwt
      let bufs ← decodeNatList bufs
      let tail ← tail.toNat?
      let a : State Bytes := ⟨⟨segs, term, lwt⟩, true, d.map fun d => ⟨d, d.init, [], [], none⟩, pk⟩
      let all := bufs ++ List.replicate (fuelFor segs tbl + (pk.map List.length).getD 0) tail
      pure (showRR (reads (Body.read fun _ => none) (.auto a) all))
    r.getD "bad-op"
  | _ => "bad-op"

def laneDec : List String → String
  | [did, tbl, chunks] =>
    let r : Option String := do
      let tbl ← parsePairs tbl
      let d ← decOf tbl did
      let d ← d
      let chunks ← decodeList chunks
      let f := d.feedAll d.init chunks
      pure (encodeHex (d.decodeAll chunks.flatten) ++ " " ++ encodeHex (f.2 ++ d.flush f.1))
    r.getD "bad-op"
  | _ => "bad-op"

def laneFind : List String → String
  | [content, pre, tbl] =>
    let r : Option String := do
      let content ← decodeHex content
      let tbl ← parsePairs tbl
      let pre ← if pre == "none" then some [] else parsePrescan tbl (encodeHex content ++ "=" ++ pre)
      match findEncoding bomLookup (prescanOf pre) content with
      | none => pure "none"
      | some d => pure (encodeHex (d.decodeAll content))
    r.getD "bad-op"
  | _ => "bad-op"

/-- the first two words of an answer -/
def firstTwo (s : String) : String :=
  match s.splitOn " " with
  | a :: b :: _ => a ++ " " ++ b
  | _ => s

def lanes : List (String × (List String → String)) := [
  ("c15out", fun a => firstTwo (laneRead a)),
  ("c15outp", fun a => firstTwo (laneReadP a)),
  ("c15read", laneRead),
  ("c15readp", laneReadP),
  ("c15cfg", laneCfg),
  ("c15hdrs", laneHdrs),
  ("c15findc", laneFindC),
  ("c15spec", laneSpec),
  ("c15mb", laneMb),
  ("c15gbk", laneGbk),
  ("c15label", laneLabel),
  ("c15labels", laneLabels),
  ("c15legacy", laneLegacy),
  ("c15drain", laneDrain),
  ("c15dec", laneDec),
  ("c15find", laneFind)
]

end Req.Driver.L.C15
