import Req.Pool.H1Pool
/-!
# Dial contexts on top of the HTTP/1.1 pool model (C09, round 5)

`getConn` dials under a context of its own (`dialCtx`, detached from the request: "a future request
may be able to make use of the connection"); `wantConn.cancelCtx` cancels it.  The only caller of
`cancelCtx` is `Transport.CloseIdleConnections`:

    t.dialsInProgress.all(func(w *wantConn) {
        if w.cancelCtx != nil && !w.waiting() { w.cancelCtx() }
    })

i.e. it stops the dials NOBODY IS WAITING FOR any more (their connection would be closed as soon
as it became idle) and must leave alone the dial of a caller that is in the middle of getting a
connection.  `H1Pool.St` has everything the guard reads (`dip`, `cancelNil`, `wst`); this file adds
the one bit it writes, `ctxCancelled`, as an extension of the state so that the 17-op model and
its proofs stay as they are.  A cancelled dial then fails: that is the existing op `dialFail`.
-/
namespace Req.Pool.H1PoolDial
open Req.Pool.H1Pool

structure DSt where
  s : St := {}
  /-- `w.cancelCtx()` has been called: the dial of `w` runs under a cancelled context -/
  ctxCancelled : Want → Bool := fun _ => false

/-- The dials `CloseIdleConnections` cancels: listed in `dialsInProgress`, goroutine not finished
(`cancelCtx != nil`), want no longer waiting. -/
def cancelTargets (s : St) : List Want :=
  s.dip.filter fun w => !s.cancelNil w && decide (s.wst w ≠ .waiting)

def dstep (cfg : Cfg) (d : DSt) (op : Op) : DSt × Out :=
  let r := step cfg d.s op
  match op with
  | .closeIdleConnections =>
    ({ s := r.1, ctxCancelled := fun w => d.ctxCancelled w || (cancelTargets d.s).contains w }, r.2)
  | _ => ({ d with s := r.1 }, r.2)

def drun (cfg : Cfg) : DSt → List Op → DSt
  | d, [] => d
  | d, op :: ops => drun cfg (dstep cfg d op).1 ops

end Req.Pool.H1PoolDial
