import Req.Pool.Cancel
/-!
# The shared dial of the HTTP/2 connection pool under cancellation (C08, round 6)

`internal/http2/client_conn_pool.go`: a forced-HTTP/2 request that finds no usable connection calls
`getStartDialLocked` — ONE `dialCall` per address, started by the first request (the dial runs under
THAT request's context: TCP connect, TLS handshake, `newClientConn`), joined by every later request —
and then waits for `call.done`.  The property wants the wait to be a
`select { case <-call.done: … case <-req.Context().Done(): return ctx.Err() }`: a request whose own
context ends leaves at once, whatever the dial is doing, and the dial goes on for the others (unless it
was the starter's context that ended: then the dial itself fails and `shouldRetryDial` sends the joiners
round the loop to dial under their own context).

Two waiters are enough to state that: `me` — the request whose context may end, starter of the dial or
joiner — and `other`, a request whose context never ends.  `guardBare` / `applyDetached` are the two
halves of seed C08-r6-2 (bare `<-call.done`; the dial detached from the starter's context).
Tied to the real code by the lane `dial` (package req, driver lane `c08dial`).
-/
namespace Req.CancelDial
open Req.Cancel (CtxErr)

/-- progress of `dialCall.dial` -/
inductive Dial
  | connecting            -- TCP connect in flight
  | handshaking           -- TLS handshake in flight
  | ok                    -- `close(call.done)`, `call.res` set
  | failed (byCtx : Bool) -- `close(call.done)`, `call.err` set; `byCtx`: the context the dial ran under ended
  deriving DecidableEq, Repr, Inhabited

def Dial.finished : Dial → Bool
  | .connecting | .handshaking => false
  | _ => true

/-- what `GetClientConn` does next for one waiter -/
inductive Ret
  | conn                -- got the connection
  | ctxErr (e : CtxErr) -- returns the request context's error
  | dialErr             -- returns the dial's own error
  | retry               -- `shouldRetryDial`: round the loop, dial under its own context
  deriving DecidableEq, Repr, Inhabited

inductive WPc | waiting | returned (r : Ret)
  deriving DecidableEq, Repr, Inhabited

structure St where
  dial : Dial := .connecting
  meStarter : Bool := true      -- the dial runs under `me`'s context (else under `other`'s)
  ctx : Option CtxErr := none   -- `me`'s context
  me : WPc := .waiting
  other : WPc := .waiting       -- a waiter whose context never ends
  deriving DecidableEq, Repr, Inhabited

inductive Act
  | meLeave     -- `case <-req.Context().Done()`
  | meTake      -- `case <-call.done`
  | otherTake
  | dialAbort   -- the dial notices that the context it runs under has ended
  deriving DecidableEq, Repr

def allActs : List Act := [.meLeave, .meTake, .otherTake, .dialAbort]

def guard (s : St) : Act → Bool
  | .meLeave => s.me == .waiting && s.ctx.isSome
  | .meTake => s.me == .waiting && s.dial.finished
  | .otherTake => s.other == .waiting && s.dial.finished
  | .dialAbort => !s.dial.finished && s.meStarter && s.ctx.isSome

/-- what a waiter makes of a finished dial (`shouldRetryDial` + the lines after it) -/
def take (d : Dial) (isStarter : Bool) (ctx : Option CtxErr) : Ret :=
  match d with
  | .ok => .conn
  | .failed true =>
    if isStarter then (match ctx with | some e => .ctxErr e | none => .dialErr)
    else .retry
  | _ => .dialErr

def apply (s : St) : Act → St
  | .meLeave => match s.ctx with
    | some e => { s with me := .returned (.ctxErr e) }
    | none => s
  | .meTake => { s with me := .returned (take s.dial s.meStarter s.ctx) }
  | .otherTake => { s with other := .returned (take s.dial (!s.meStarter) none) }
  | .dialAbort => { s with dial := .failed true }

inductive Ev
  | cancel (e : CtxErr)
  | connected   -- TCP connect done
  | hsDone      -- TLS handshake done, ClientConn set up
  | dialFails   -- the peer hangs up / refuses
  deriving DecidableEq, Repr

def evGuard (s : St) : Ev → Bool
  | .cancel _ => s.ctx.isNone
  | .connected => s.dial == .connecting
  | .hsDone => s.dial == .handshaking
  | .dialFails => !s.dial.finished

def evApply (s : St) : Ev → St
  | .cancel e => { s with ctx := some e }
  | .connected => { s with dial := .handshaking }
  | .hsDone => { s with dial := .ok }
  | .dialFails => { s with dial := .failed false }

def stuck (s : St) : Bool := allActs.all fun a => !guard s a

inductive Run : St → List Act → St → Prop
  | nil (s) : Run s [] s
  | cons {s a as s'} : guard s a = true → Run (apply s a) as s' → Run s (a :: as) s'

def finals : Nat → St → List St
  | 0, s => [s]
  | fuel + 1, s =>
    match (allActs.filter (guard s)).map (apply s) with
    | [] => [s]
    | l => l.flatMap (finals fuel)

/-! ### the two halves of seed C08-r6-2 -/

/-- the waiter watches `call.done` only -/
def guardBare (s : St) : Act → Bool
  | .meLeave => false
  | a => guard s a

/-- the dial runs on `context.WithoutCancel(ctx)`: it never notices the starter's context -/
def guardDetached (s : St) : Act → Bool
  | .dialAbort => false
  | a => guardBare s a

def stuckBy (g : St → Act → Bool) (s : St) : Bool := allActs.all fun a => !g s a

end Req.CancelDial
