import Req.Pool.Dispatch
/-!
# C12 — protocol dispatch with a proxy configured (`cm.proxyURL ≠ nil`)

`Req.Pool.Dispatch.route` is `Transport.roundTrip` with `t.Proxy(req) = nil`. With a proxy
(`SetProxyURL` / `SetProxy`; schemes `http` and `socks5`/`socks5h`) only the part of
`roundTrip` that goes through `getConn`/`dialConn` changes (transport.go l.2088-2303):

* plain `http` through an HTTP proxy: the request is written in absolute-form on an HTTP/1.1
  connection to the proxy (`pconn.isProxy`), whatever the origin speaks;
* `https` through an HTTP proxy (`CONNECT`) or anything through SOCKS5: once the tunnel is
  up the TLS handshake with the ORIGIN is made inside it — `customTlsHandshake(cm.tlsHost())`
  when a handshake function is set, else `addTLS(cm.tlsHost())` with the CLIENT's
  `tls.Config`; `DialTLSContext` is not consulted (it would only be for the first hop to an
  `https://` proxy) — followed by the same ALPN hand-off to t2;
* the Alt-Svc shortcut, a forced HTTP/3, a forced HTTP/2 and the cached-connection probing of
  t2/t3 never look at `t.Proxy`: `http2.Transport` and `http3.RoundTripper` dial the origin
  themselves. A forced HTTP/2 or HTTP/3 request therefore goes out DIRECTLY although a proxy
  is configured (`forced_h2_h3_ignore_proxy` in `Props/C12Proxy.lean` states exactly that;
  recorded in notes/C12.md — the version promise of the property holds, the proxy promise of
  `SetProxy` does not).

`https://` proxies (a TLS first hop to the proxy itself) are not modelled.
-/
namespace Req.Pool.Dispatch

/-- Scheme of the proxy URL (`socks5h` = `socks5`). -/
inductive ProxyKind | http | socks5
  deriving DecidableEq, Repr

/-- What the proxy does for this request. -/
structure ProxyNet where
  kind : ProxyKind
  up : Bool        -- the proxy accepts the TCP connection (and the SOCKS5 greeting)
  tunnel : Bool    -- CONNECT answered 200 / SOCKS5 CONNECT succeeded: the origin is reachable through it
  deriving DecidableEq, Repr

/-- The TLS part of `dialConn` inside a tunnel: as `dialTlsState`, with no TLS dialer. -/
def dialTlsStateTunnel (cfg : Cfg) (onlyH1 : Bool) (net : Net) : Except Err (Option TlsState) :=
  dialTlsState { cfg with dialTLS := false } onlyH1 net

/-- `getConn`/`dialConn` with `cm.proxyURL ≠ nil`. -/
def h1PathVia (px : ProxyNet) (cfg : Cfg) (req : Req) (net : Net) : Route :=
  match req.scheme with
  | .other => .error .unsupportedScheme
  | .http =>
    if !px.up then .error .proxyFailed
    else match px.kind with
      | .http => .ok .h1                        -- absolute-form to the proxy, always HTTP/1.1
      | .socks5 => if !px.tunnel then .error .proxyFailed else speak .h1 (plainPeer net)
  | .https =>
    if !px.up || !px.tunnel then .error .proxyFailed
    else match dialTlsStateTunnel cfg (cfg.force = some .h1 || req.requiresH1) net with
      | .error e => .error e
      | .ok st => carry cfg st

def h1PathP (px : Option ProxyNet) (cfg : Cfg) (req : Req) (net : Net) : Route :=
  match px with
  | none => h1Path cfg req net
  | some p => h1PathVia p cfg req net

/-- `dispatch` with the proxy passed to the only part that consults it. -/
def dispatchP (px : Option ProxyNet) (cfg : Cfg) (req : Req) (net : Net) : Route :=
  match cfg.force with
  | some .h3 => t3RoundTrip cfg req net
  | some .h2 => t2RoundTrip cfg req net
  | f =>
    if req.scheme = .https && f ≠ some .h1 then
      if net.cachedH2 then .ok .h2
      else if cfg.h3 && net.cachedH3 then .ok .h3
      else h1PathP px cfg req net
    else h1PathP px cfg req net

/-- `Transport.roundTrip` with `t.Proxy(req) = px`. -/
def routeP (px : Option ProxyNet) (cfg : Cfg) (req : Req) (net : Net) : Route :=
  if cfg.force = none && req.scheme = .https && cfg.h3 && net.alt then t3RoundTrip cfg req net
  else dispatchP px cfg req net

/-- Does the request reach the network through the proxy (`true`) or directly (`false`)?
Only meaningful for a request that is carried over a NEW connection. -/
def viaProxy (px : Option ProxyNet) (cfg : Cfg) (req : Req) (net : Net) : Bool :=
  px.isSome &&
  !(cfg.force = none && req.scheme = .https && cfg.h3 && net.alt) &&
  (match cfg.force with
   | some .h3 => false
   | some .h2 => false
   | f => !(req.scheme = .https && f ≠ some .h1 && (net.cachedH2 || (cfg.h3 && net.cachedH3))))

end Req.Pool.Dispatch
