import Req.Pool.Tls
/-!
# C12 — a family of clients (original, clones, clones of clones) and the client certificate
a connection presents

`Req.Pool.TLS.run` follows ONE client through its setters (`Clone` = "continue with the
copy"). `Client.Clone` however leaves TWO live clients behind, and both keep receiving
setters: `SetCerts`/`SetCertFromFile` append to `TLSClientConfig.Certificates`,
`SetRootCertFromString`/`SetRootCertsFromFile` add to `RootCAs` IN PLACE. The property
("the client's TLS settings govern every connection") is about each of them separately:
what a member of the family reads for a new connection is the value it was created with
plus the setters applied to IT — never a setter applied to a relative
(`internal/transport/option.go` `Options.Clone`: own `Certificates` slice, own `RootCAs`
pool).

* `Fam`, `FOp`, `famStep`, `famRun`: the family as a list of configurations with a cursor
  (`fork` = `Clone()` appended at the end, `switch k` = continue with member `k`).
* `presented`: crypto/tls `getClientCertificate` (Go 1.23 `handshake_client.go`): the FIRST
  certificate of `Config.Certificates` the server's `CertificateRequest` supports — with a
  list of acceptable CAs the first one issued by one of them, without such a list the very
  first; none otherwise (the client then sends an empty certificate message).
  In the lanes every client certificate `j` has its own issuing CA `j`, so "issued by an
  acceptable CA" is `acceptable.contains j`.
-/
namespace Req.Pool.TLS

/-- The original client and every clone made so far (`members[k]` = the `TLSClientConfig`
pointer of member `k`, `none` = nil), and the member the next setter is applied to. -/
structure Fam where
  members : List (Option TlsCfg)
  cur : Nat
  deriving DecidableEq, Repr

inductive FOp
  | set (o : Op)        -- a TLS setter (or `use`) on the current member
  | fork                -- `Clone()` of the current member; the copy is appended, the cursor stays
  | switch (k : Nat)    -- continue with member `k` (ignored when there is no such member)
  deriving DecidableEq, Repr

/-- One step. `Options.Clone` copies the VALUES (`step c .clone = c`). -/
def famStep (f : Fam) : FOp → Fam
  | .set o =>
    match f.members[f.cur]? with
    | some c => { f with members := f.members.set f.cur (step c o) }
    | none => f
  | .fork =>
    match f.members[f.cur]? with
    | some c => { f with members := f.members ++ [step c .clone] }
    | none => f
  | .switch k => if k < f.members.length then { f with cur := k } else f

def famRun (f : Fam) (ops : List FOp) : Fam := ops.foldl famStep f

/-- `C()`: one member holding `T()`'s initial configuration. -/
def famInit : Fam := ⟨[some initialCfg], 0⟩

/-- The setters applied to member `i` by `ops` when the cursor starts at `cur` and the family
has `n` members (forks append: the cursor never moves by itself). -/
def ownOps (n cur i : Nat) : List FOp → List Op
  | [] => []
  | .set o :: rest => if cur = i ∧ cur < n then o :: ownOps n cur i rest else ownOps n cur i rest
  | .fork :: rest => ownOps (if cur < n then n + 1 else n) cur i rest
  | .switch k :: rest => ownOps n (if k < n then k else cur) i rest

/-- crypto/tls `getClientCertificate` over certificates that each have their own issuer. -/
def presented (certs : List Nat) (acceptable : List Nat) : Option Nat :=
  if acceptable.isEmpty then certs.head? else certs.find? (acceptable.contains ·)

end Req.Pool.TLS
