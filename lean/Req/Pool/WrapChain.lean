import Req.Pool.ProxyDispatch
/-!
# C12 — middleware chains and `Clone`: whose `roundTrip` is at the bottom of the chain

`Transport.WrapRoundTrip` (and what is built on it: `SetCommonHeaderOrder`,
`SetCommonPseudoHeaderOder`, `ImpersonateChrome/Firefox/Safari`) installs a chain
`wrappedRoundTrip = wN(… w1(innermost))` whose INNERMOST function is a closure over a
transport: `func(req) { return t.roundTrip(req) }` (transport.go `WrapRoundTrip`, `Clone`).
`Client.WrapRoundTrip` does the same one level up with `roundTripImpl{c}` (client.go
`WrapRoundTrip`, `Clone`). `Transport.RoundTrip` / `Request.do` go through the chain when one
exists. The forced-version switch, the TLS settings and the proxy a request is dispatched
under are those of the object the innermost closure REFERS TO — not of the object whose
`RoundTrip` was called. `Clone` rebuilds both chains for the copy; the property needs the
rebuilt chain's innermost reference to be the COPY.

This model is at that level: a family of clients (original, clones, clones of clones) as a
list with a cursor; per member its settings and, per layer, the chain as (wrapper ids in
installation order, index of the member the innermost closure refers to).

* `Rebuild.onCopy` — the code: `tt.roundTrip` / `roundTripImpl{&cc}`;
  `Rebuild.onOriginal` — the variant in which `Clone` builds the chain over the receiver
  (`t.wrapRoundTrip(tt.httpRoundTripWrappers)`), shown to break the property.
* `servedBy` — the member whose `Transport.roundTrip` finally dispatches a request issued on
  member `i`; `trace` — the wrappers the request passes, outermost first.
-/
namespace Req.Pool.Wrap
open Req.Pool.Dispatch

/-- What a request is dispatched under, per member (each is copied by `Clone`, and can be
changed on either side afterwards). -/
structure Sett where
  force : Option Ver     -- EnableForceHTTP1/2/3, DisableForceHttpVersion
  h3 : Bool              -- EnableHTTP3
  trust : Nat            -- the CA the member's RootCAs hold (SetTLSClientConfig / SetRootCert…)
  proxy : Bool           -- SetProxyURL(http proxy) / SetProxy(nil)
  deriving DecidableEq, Repr

inductive SOp
  | force (f : Option Ver)
  | enableH3
  | trust (k : Nat)
  | proxy (on : Bool)
  deriving DecidableEq, Repr

def applyS (s : Sett) : SOp → Sett
  | .force f => { s with force := f, h3 := s.h3 || f == some .h3 }   -- EnableForceHTTP3 enables HTTP/3
  | .enableH3 => { s with h3 := true }
  | .trust k => { s with trust := k }
  | .proxy on => { s with proxy := on }

/-- `wrappedRoundTrip` + the wrapper list kept for `Clone`. -/
structure Chain where
  wrappers : List Nat    -- installation order (innermost first)
  target : Nat           -- the family member the innermost closure refers to
  deriving DecidableEq, Repr

structure Member where
  sett : Sett
  tchain : Option Chain  -- Transport.wrappedRoundTrip (`none` = nil: `t.roundTrip` directly)
  cchain : Option Chain  -- Client.wrappedRoundTrip   (`none` = nil: `c.roundTrip` directly)
  deriving DecidableEq, Repr

structure Fam where
  members : List Member
  cur : Nat
  deriving DecidableEq, Repr

inductive WOp
  | set (o : SOp)        -- a per-client setting on the current member
  | twrap (w : Nat)      -- Transport.WrapRoundTrip(w) / SetCommonHeaderOrder / Impersonate…
  | cwrap (w : Nat)      -- Client.WrapRoundTrip(w)
  | fork                 -- Clone() of the current member, appended; the cursor stays
  | switch (k : Nat)
  | request              -- a request on the current member (no effect on the family)
  deriving DecidableEq, Repr

inductive Rebuild | onCopy | onOriginal
  deriving DecidableEq, Repr

/-- `WrapRoundTrip` on the object at index `self`: first wrapper creates the innermost closure
over the receiver, later ones are wrapped around what is there. -/
def addWrapper (self : Nat) (w : Nat) : Option Chain → Option Chain
  | none => some ⟨[w], self⟩
  | some c => some { c with wrappers := c.wrappers ++ [w] }

/-- `Clone`'s "clone … middleware" block: nothing without wrappers; otherwise the list is
copied and the chain rebuilt over `copy` (the code) or over `orig` (the defect). -/
def rebuild (r : Rebuild) (orig copy : Nat) : Option Chain → Option Chain
  | none => none
  | some c =>
    if c.wrappers.isEmpty then none
    else some ⟨c.wrappers, match r with | .onCopy => copy | .onOriginal => orig⟩

def setCur (f : Fam) (g : Member → Member) : Fam :=
  match f.members[f.cur]? with
  | some m => { f with members := f.members.set f.cur (g m) }
  | none => f

def wstep (r : Rebuild) (f : Fam) : WOp → Fam
  | .set o => setCur f fun m => { m with sett := applyS m.sett o }
  | .twrap w => setCur f fun m => { m with tchain := addWrapper f.cur w m.tchain }
  | .cwrap w => setCur f fun m => { m with cchain := addWrapper f.cur w m.cchain }
  | .fork =>
    match f.members[f.cur]? with
    | some m =>
      let n := f.members.length
      { f with members := f.members ++
          [⟨m.sett, rebuild r f.cur n m.tchain, rebuild r f.cur n m.cchain⟩] }
    | none => f
  | .switch k => if k < f.members.length then { f with cur := k } else f
  | .request => f

def wrun (r : Rebuild) (f : Fam) (ops : List WOp) : Fam := ops.foldl (wstep r) f

/-- `C()`: HTTP/3 off, nothing forced, the lane's CA 0 trusted, no proxy, no middleware. -/
def Fam.init : Fam := ⟨[⟨⟨none, false, 0, false⟩, none, none⟩], 0⟩

def chainTarget (self : Nat) : Option Chain → Nat
  | none => self
  | some c => c.target

def chainTrace : Option Chain → List Nat
  | none => []
  | some c => c.wrappers.reverse

/-- The member whose `Transport.roundTrip` dispatches a request issued on member `i`:
`Request.do` → client chain → `roundTripImpl{j}.roundTrip` → `j.httpClient.Do` →
`j.Transport.RoundTrip` → transport chain → `k.roundTrip`. -/
def servedBy (f : Fam) (i : Nat) : Option Nat :=
  match f.members[i]? with
  | none => none
  | some m =>
    let j := chainTarget i m.cchain
    match f.members[j]? with
    | none => none
    | some mj => some (chainTarget j mj.tchain)

/-- The settings that govern a request issued on member `i`. -/
def governing (f : Fam) (i : Nat) : Option Sett :=
  match servedBy f i with
  | none => none
  | some k => (f.members[k]?).map (·.sett)

/-- Wrappers a request issued on `i` passes, outermost first (client layer, then the
transport layer of the client the client chain ends in). -/
def trace (f : Fam) (i : Nat) : List Nat :=
  match f.members[i]? with
  | none => []
  | some m =>
    chainTrace m.cchain ++
      (match f.members[chainTarget i m.cchain]? with
       | none => []
       | some mj => chainTrace mj.tchain)

/-- Every chain of every member refers to the member that holds it. -/
def WF (f : Fam) : Prop :=
  ∀ (i : Nat) (m : Member), f.members[i]? = some m →
    (∀ c : Chain, m.tchain = some c → c.target = i) ∧ (∀ c : Chain, m.cchain = some c → c.target = i)

/-- The dispatch-level configuration of settings `s` (`T()`'s NextProtos). -/
def cfgOf (s : Sett) : Cfg := ⟨s.force, s.h3 || s.force == some .h3, false, false, false, [.http11, .h2]⟩

def proxyOf (s : Sett) : Option ProxyNet := if s.proxy then some ⟨.http, true, true⟩ else none

/-- The network as settings `s` see an https origin (ALPN `alpn`, HTTP/3 up or not) whose
certificate was issued by CA `ca`: nothing cached, no Alt-Svc. -/
def netOf (s : Sett) (alpn : List Alpn) (h3Up : Bool) (ca : Nat) : Net :=
  ⟨alpn, s.trust == ca, h3Up, s.trust == ca, false, .fail, false, false, false⟩

/-- Outcome of a request issued on member `i` that needs a new connection. -/
def outcome (f : Fam) (i : Nat) (alpn : List Alpn) (h3Up : Bool) (ca : Nat) : Option (Route × Bool) :=
  (governing f i).map fun s =>
    (routeP (proxyOf s) (cfgOf s) ⟨.https, false⟩ (netOf s alpn h3Up ca),
     viaProxy (proxyOf s) (cfgOf s) ⟨.https, false⟩ (netOf s alpn h3Up ca))

/-- The sequence without its middleware installations. -/
def noWraps (ops : List WOp) : List WOp :=
  ops.filter fun | .twrap _ => false | .cwrap _ => false | _ => true

end Req.Pool.Wrap
