import Req.Pool.H1Pool
import Req.Pool.H1PoolDial
/-!
Lane-level composite operations over the `H1Pool` micro-ops: what ONE goroutine driving the
real `Transport` methods does per call (e.g. `wantConn.cancel` = the `cancel` section followed by
`putOrCloseIdleConn` = `putT` and, on error, `closeT`), and the canonical state dump compared
with the real pool state by `TestVerif_C09_pool`.
-/
namespace Req.Pool.H1PoolLane
open Req.Pool.H1Pool

inductive MOp where
  | newWant (w k : Nat)
  | queueIdle (w : Nat)
  | queueDial (w : Nat)
  | dialOk (w c : Nat)
  | dialFail (w : Nat)
  | recv (w : Nat)
  | cancel (w : Nat)
  | finishPut (w : Nat)
  | finishClose (w : Nat)
  | serverClose (c : Nat)
  | removeIdle (c : Nat)
  | idleTimeout (c : Nat)
  | closeIdle
deriving Repr

structure LSt where
  s : St := {}
  hooked : List Want := []   -- dial goroutines blocked in the (test's) dial hook
  /-- `persistConn.reused`: `tryPutIdleConn` calls `markReused` right after its two early exits
  (keep-alives off, connection broken) and BEFORE it looks at the wait queue, so a connection
  handed straight to a queued caller is marked exactly like one that is parked. The flag is what
  `shouldRetryRequest` consults; it is not part of the invariants, hence kept beside `St`. -/
  reused : List Conn := []

def markIfPut (l : List Conn) (c : Conn) : Out → List Conn
  | .put .keepAlivesDisabled => l
  | .put .broken => l
  | .put _ => if l.contains c then l else c :: l
  | _ => l

def st1 (cfg : Cfg) (s : St) (op : Op) : St := (step cfg s op).1

/-- putOrCloseIdleConn(c) for a connection in transit; also what `tryPutIdleConn` returned -/
def putOrClose' (cfg : Cfg) (s : St) (c : Conn) : St × Out :=
  let r := step cfg s (.putT c)
  match r.2 with
  | .put .ok => (r.1, r.2)
  | .put _ => (st1 cfg r.1 (.closeT c), r.2)
  | _ => (r.1, r.2)

def putOrClose (cfg : Cfg) (s : St) (c : Conn) : St := (putOrClose' cfg s c).1

/-- A dial goroutine that finds its want already done gives the slot back at once; one that
finds it waiting blocks in the dial hook. -/
def settle (cfg : Cfg) : Nat → LSt → LSt
  | 0, l => l
  | fuel + 1, l =>
    match l.s.dialing.find? (fun w => !l.hooked.contains w) with
    | none => l
    | some w =>
      if l.s.wst w = .waiting then settle cfg fuel { l with hooked := w :: l.hooked }
      else
        let s1 := st1 cfg l.s (.dialBegin w)
        let s2 := st1 cfg s1 (.dialEnd w)
        settle cfg fuel { l with s := s2 }

def connOf (s : St) (w : Want) : Option Conn :=
  match s.wst w with
  | .gotConn c => some c
  | .inUse c => some c
  | _ => none

def showPut : PutErr → String
  | .ok => "ok" | .keepAlivesDisabled => "ka-off" | .broken => "broken"
  | .closeIdle => "close-idle" | .tooManyIdleHost => "host-full"

def showBool (b : Bool) : String := if b then "1" else "0"

def sortNat' (l : List Nat) : List Nat := l.mergeSort (· ≤ ·)

/-- One composite op: new lane state and the canonical return value. -/
def mstep (cfg : Cfg) (l : LSt) : MOp → LSt × String
  | .newWant w k =>
    let r := step cfg l.s (.newWant w k)
    ({ l with s := r.1 }, "-")
  | .queueIdle w =>
    let r := step cfg l.s (.queueIdle w)
    ({ l with s := r.1 }, match r.2 with | .bool b => showBool b | _ => "ign")
  | .queueDial w =>
    let r := step cfg l.s (.queueDial w)
    ({ l with s := r.1 }, "-")
  | .dialOk w c =>
    if !l.hooked.contains w then (l, "ign")
    else
      let r := step cfg l.s (.dialOk w c)
      match r.2 with
      | .bool delivered =>
        let pr := if delivered then (r.1, Out.none) else putOrClose' cfg r.1 c
        let s2 := st1 cfg pr.1 (.dialEnd w)
        ({ s := s2, hooked := l.hooked.erase w, reused := markIfPut l.reused c pr.2 }, showBool delivered)
      | _ => (l, "ign")
  | .dialFail w =>
    if !l.hooked.contains w then (l, "ign")
    else
      let r := step cfg l.s (.dialFail w)
      match r.2 with
      | .bool delivered =>
        ({ l with s := st1 cfg r.1 (.dialEnd w), hooked := l.hooked.erase w }, showBool delivered)
      | _ => (l, "ign")
  | .recv w =>
    let out := match l.s.wst w with
      | .gotConn c => "c" ++ toString c
      | .gotErr => "e"
      | _ => "-"
    ({ l with s := st1 cfg l.s (.recv w) }, out)
  | .cancel w =>
    let r := step cfg l.s (.cancel w)
    if r.2 = .ignored then (l, "-")
    else
      match l.s.wst w with
      | .gotConn c =>
        let pr := putOrClose' cfg r.1 c
        ({ l with s := pr.1, reused := markIfPut l.reused c pr.2 }, "-")
      | _ => ({ l with s := r.1 }, "-")
  | .finishPut w =>
    match l.s.wst w with
    | .inUse c =>
      let r := step cfg l.s (.finishPut w)
      match r.2 with
      | .put e =>
        -- readLoop: on error it exits: pc.close(closeErr); t.removeIdleConn(pc)
        let s1 := if e = .ok then r.1 else st1 cfg (st1 cfg r.1 (.closeT c)) (.removeIdle c)
        ({ l with s := s1, reused := markIfPut l.reused c r.2 }, showPut e)
      | _ => (l, "ign")
    | _ => (l, "ign")
  | .finishClose w =>
    match l.s.wst w with
    | .inUse c =>
      let s1 := st1 cfg l.s (.finishClose w)
      ({ l with s := st1 cfg s1 (.removeIdle c) }, "-")
    | _ => (l, "ign")
  | .serverClose c =>
    let r := step cfg l.s (.serverCloseIdle c)
    ({ l with s := r.1 }, "-")
  | .removeIdle c =>
    let r := step cfg l.s (.removeIdle c)
    ({ l with s := r.1 }, match r.2 with | .bool b => showBool b | _ => "ign")
  | .idleTimeout c =>
    match l.s.ckey c with
    | none => (l, "ign")
    | some _ =>
      let r := step cfg l.s (.idleTimeout c)
      ({ l with s := r.1 }, "-")
  | .closeIdle =>
    let victims := listedIdle l.s
    -- r5: the dials whose context the call cancels (`H1PoolDial.cancelTargets`: in
    -- dialsInProgress, goroutine alive, want no longer waiting); those parked in the dial hook
    -- fail at once — the lane lets them go one at a time in ascending want order:
    -- `dialFail` (tryDeliver finds the want done, slot given back / handed on) and `dialEnd`
    let cancelled := sortNat' ((Req.Pool.H1PoolDial.cancelTargets l.s).filter fun w => l.hooked.contains w)
    let s1 := st1 cfg l.s .closeIdleConnections
    let l1 : LSt := { l with s := victims.foldl (fun s c => st1 cfg s (.closeT c)) s1 }
    (cancelled.foldl (fun (l : LSt) w =>
        settle cfg 64 { l with s := st1 cfg (st1 cfg l.s (.dialFail w)) (.dialEnd w),
                               hooked := l.hooked.erase w }) l1, "-")

def joinNat (l : List Nat) : String := ",".intercalate (l.map toString)

def sortNat (l : List Nat) : List Nat := l.mergeSort (· ≤ ·)

/-- Canonical dump of the observable pool state for keys `0 … nKeys-1`, wants `0 … nWants-1`
and connections `0 … nConns-1`. -/
def dump (s : St) (nKeys nWants nConns : Nat) (reused : List Conn := []) : String :=
  let perKey := (List.range nKeys).map fun k =>
    "I" ++ toString k ++ "=" ++ joinNat (s.idle k) ++
    " W" ++ toString k ++ "=" ++ joinNat (s.idleWait k) ++
    " P" ++ toString k ++ "=" ++ toString (s.cph k) ++
    " D" ++ toString k ++ "=" ++ joinNat (s.dialWait k)
  " ".intercalate perKey ++
  " L=" ++ joinNat s.lru ++
  " X=" ++ showBool s.closeIdle ++
  " G=" ++ joinNat (sortNat s.dip) ++
  " C=" ++ joinNat ((List.range nConns).filter (fun c => s.closed c)) ++
  -- `reused` is reported for connections the driving goroutine can see: idle-listed ones and
  -- those a request has received
  " U=" ++ joinNat ((List.range nConns).filter (fun c => reused.contains c &&
      ((match s.ckey c with | some k => (s.idle k).contains c | none => false) ||
       (List.range nWants).any (fun w => s.wst w == .inUse c)))) ++
  " S=" ++ String.ofList ((List.range nWants).map fun w =>
      if (s.wkey w).isNone then '.' else if s.wst w = .waiting then 'w' else 'd') ++
  (if s.dupPanic || s.underflow then " PANIC" else "")

/-- Run composite ops; per op: `<return>/<dump>`. -/
def runLane (cfg : Cfg) (nKeys nWants nConns : Nat) : LSt → List MOp → List String
  | _, [] => []
  | l, op :: ops =>
    let r := mstep cfg l op
    let l' := settle cfg 64 r.1
    (r.2 ++ "/" ++ dump l'.s nKeys nWants nConns l'.reused) :: runLane cfg nKeys nWants nConns l' ops

end Req.Pool.H1PoolLane
