import Req.Driver.Proto
/-!
# The HPACK state of one HTTP/2 connection: the client's encoder table and the peer's decoder table (C09, round 5)

`ClientConn.henc` is SHARED connection state: every request on the connection is encoded against
the dynamic table all earlier requests left behind, and the peer decodes against the table IT built
from the blocks it has seen.  "Every caller's request reaches the server as that caller's request"
therefore needs, besides stream routing (`H2Mux`), that the two tables are the same whenever a
block is decoded.  This file models, at the level of header-field REPRESENTATIONS (RFC 7541 §6; the
octet coding of integers and strings is `Req/H2/Hpack.lean`, property C05):

* the dynamic table (`fit`: newest first, eviction from the old end, `size = |name|+|value|+32`),
  the index space static ++ dynamic (`lookup`);
* the encoder as golang.org/x/net/http2/hpack implements it (`searchTable`: static full match, else
  dynamic full match, else a name match — the LAST static entry of that name, the NEWEST dynamic
  one, static preferred; `shouldIndex`: not sensitive and size ≤ table size) — `encodeField`;
* the decoder — `decodeRep` (an index that is not in the table is the COMPRESSION_ERROR);
* the connection — `Conn`/`Op`: what `clientStream.encodeAndWriteHeaders` can do with the encoder
  under `wmu`: encode and write (`send`), leave before the encoder is touched because the request
  was cancelled / the header list is refused (`quitBefore`), and — NOT in the code; seed C09-r5-2 —
  encode and then leave without writing (`abandon`).

The static table is a parameter (the theorems hold for any); the lane passes RFC 7541 Appendix A.
`Cfg.maxSize` = min(the peer's SETTINGS_HEADER_TABLE_SIZE, 4096): the model follows the REPAIRED
behaviour (fixes/C09-5: `processSettingsNoWrite` passes the peer's value to the encoder; /repo
10fb764 ignores it and keeps 4096 — finding C09-5, lane class `h2-peer-header-table-size-ignored`).
Not modelled: a table size that changes after the first block, the size-update octets themselves,
Huffman coding, CONTINUATION splitting (the block is one unit under `wmu`).
-/
namespace Req.Pool.H2Hpack
open Req.Proto

abbrev Ent := Bytes × Bytes

def esize (e : Ent) : Nat := e.1.length + e.2.length + 32

/-- `dynamicTable.add` + `evict`: entries newest first; the longest newest-first prefix that fits. -/
def fit : Nat → List Ent → List Ent
  | _, [] => []
  | budget, e :: r => if esize e ≤ budget then e :: fit (budget - esize e) r else []

structure HF where
  name : Bytes
  value : Bytes
  sensitive : Bool
deriving DecidableEq, Repr

structure Cfg where
  static : List Ent
  maxSize : Nat

/-- 1-based position of the first entry satisfying `p`, 0 if none. -/
def findFirst (p : Ent → Bool) : List Ent → Nat
  | [] => 0
  | e :: r => if p e then 1 else
    match findFirst p r with
    | 0 => 0
    | n + 1 => n + 2

/-- 1-based position of the last entry satisfying `p`, 0 if none. -/
def findLast (p : Ent → Bool) : List Ent → Nat
  | [] => 0
  | e :: r =>
    match findLast p r with
    | 0 => if p e then 1 else 0
    | n + 1 => n + 2

/-- the index space: 1 … |static| static, then the dynamic table, newest first -/
def lookup (cfg : Cfg) (dyn : List Ent) (i : Nat) : Option Ent :=
  if i = 0 then none
  else if i ≤ cfg.static.length then cfg.static[i - 1]?
  else dyn[i - cfg.static.length - 1]?

/-- `headerFieldTable.search`: (index, nameValueMatch) -/
def searchIn (nameIdx : (Ent → Bool) → List Ent → Nat) (l : List Ent) (f : HF) : Nat × Bool :=
  let full := if f.sensitive then 0 else findFirst (fun e => e.1 == f.name && e.2 == f.value) l
  if full ≠ 0 then (full, true) else (nameIdx (fun e => e.1 == f.name) l, false)

/-- `Encoder.searchTable` -/
def searchTable (cfg : Cfg) (dyn : List Ent) (f : HF) : Nat × Bool :=
  let s := searchIn findLast cfg.static f
  if s.2 then s
  else
    let d := searchIn findFirst dyn f
    if d.2 || (s.1 == 0 && d.1 != 0) then (d.1 + cfg.static.length, d.2) else (s.1, false)

inductive Rep where
  /-- §6.1 indexed header field -/
  | indexed (i : Nat)
  /-- §6.2 literal: name index (0 = the name is carried), with incremental indexing / never indexed -/
  | lit (idx : Nat) (name value : Bytes) (indexing never : Bool)
deriving DecidableEq, Repr

/-- `Encoder.WriteField`: the representation and the encoder's table afterwards -/
def encodeField (cfg : Cfg) (dyn : List Ent) (f : HF) : Rep × List Ent :=
  let r := searchTable cfg dyn f
  if r.2 then (.indexed r.1, dyn)
  else
    let indexing := !f.sensitive && decide (esize (f.name, f.value) ≤ cfg.maxSize)
    let dyn' := if indexing then fit cfg.maxSize ((f.name, f.value) :: dyn) else dyn
    (.lit r.1 (if r.1 = 0 then f.name else []) f.value indexing f.sensitive, dyn')

def encodeBlock (cfg : Cfg) : List Ent → List HF → List Rep × List Ent
  | dyn, [] => ([], dyn)
  | dyn, f :: fs =>
    let r := encodeField cfg dyn f
    let rest := encodeBlock cfg r.2 fs
    (r.1 :: rest.1, rest.2)

inductive Err where
  | invalidIndex      -- `DecodingError{InvalidIndexError}`: COMPRESSION_ERROR, the connection dies
deriving DecidableEq, Repr

/-- `Decoder.parseFieldIndexed` / `parseFieldLiteral` -/
def decodeRep (cfg : Cfg) (dyn : List Ent) : Rep → Except Err (HF × List Ent)
  | .indexed i =>
    match lookup cfg dyn i with
    | none => .error .invalidIndex
    | some e => .ok (⟨e.1, e.2, false⟩, dyn)
  | .lit idx name value indexing never =>
    let nm : Except Err Bytes :=
      if idx = 0 then .ok name
      else match lookup cfg dyn idx with
        | none => .error .invalidIndex
        | some e => .ok e.1
    match nm with
    | .error e => .error e
    | .ok n =>
      .ok (⟨n, value, never⟩, if indexing then fit cfg.maxSize ((n, value) :: dyn) else dyn)

def decodeBlock (cfg : Cfg) : List Ent → List Rep → Except Err (List HF × List Ent)
  | dyn, [] => .ok ([], dyn)
  | dyn, r :: rs =>
    match decodeRep cfg dyn r with
    | .error e => .error e
    | .ok (f, dyn1) =>
      match decodeBlock cfg dyn1 rs with
      | .error e => .error e
      | .ok (fs, dyn2) => .ok (f :: fs, dyn2)

/-! ### the connection -/

structure Conn where
  enc : List Ent := []                 -- dynamic table of `cc.henc`
  dec : List Ent := []                 -- dynamic table of the peer's decoder
  sent : List (List HF) := []          -- ghost: header lists of the blocks written, oldest first
  rcvd : List (List HF) := []          -- what the peer decoded, block by block
  dead : Bool := false                 -- the peer hit a decoding error (COMPRESSION_ERROR)

inductive Op where
  | send (hs : List HF)        -- encodeHeaders + writeHeaders, one critical section of `wmu`
  | quitBefore (hs : List HF)  -- cancelled / refused before `cc.henc` is touched
  | abandon (hs : List HF)     -- encoded, then given up without writing  (forbidden)
deriving Repr

def Op.legal : Op → Bool
  | .abandon _ => false
  | _ => true

def step (cfg : Cfg) (c : Conn) : Op → Conn
  | .send hs =>
    if c.dead then c
    else
      let e := encodeBlock cfg c.enc hs
      match decodeBlock cfg c.dec e.1 with
      | .error _ => { c with enc := e.2, sent := c.sent ++ [hs], dead := true }
      | .ok (fs, dec') => { c with enc := e.2, dec := dec', sent := c.sent ++ [hs], rcvd := c.rcvd ++ [fs] }
  | .quitBefore _ => c
  | .abandon hs => if c.dead then c else { c with enc := (encodeBlock cfg c.enc hs).2 }

def run (cfg : Cfg) : Conn → List Op → Conn
  | c, [] => c
  | c, op :: ops => run cfg (step cfg c op) ops

/-! ### lane level -/

def showRep : Rep → String
  | .indexed i => "I" ++ toString i
  | .lit idx _ _ indexing never =>
    "L" ++ toString idx ++ (if indexing then "+" else if never then "!" else "-")

/-- RFC 7541 Appendix A -/
def rfcStatic : List Ent :=
  [(":authority", ""), (":method", "GET"), (":method", "POST"), (":path", "/"), (":path", "/index.html"),
   (":scheme", "http"), (":scheme", "https"), (":status", "200"), (":status", "204"), (":status", "206"),
   (":status", "304"), (":status", "400"), (":status", "404"), (":status", "500"), ("accept-charset", ""),
   ("accept-encoding", "gzip, deflate"), ("accept-language", ""), ("accept-ranges", ""), ("accept", ""),
   ("access-control-allow-origin", ""), ("age", ""), ("allow", ""), ("authorization", ""), ("cache-control", ""),
   ("content-disposition", ""), ("content-encoding", ""), ("content-language", ""), ("content-length", ""),
   ("content-location", ""), ("content-range", ""), ("content-type", ""), ("cookie", ""), ("date", ""),
   ("etag", ""), ("expect", ""), ("expires", ""), ("from", ""), ("host", ""), ("if-match", ""),
   ("if-modified-since", ""), ("if-none-match", ""), ("if-range", ""), ("if-unmodified-since", ""),
   ("last-modified", ""), ("link", ""), ("location", ""), ("max-forwards", ""), ("proxy-authenticate", ""),
   ("proxy-authorization", ""), ("range", ""), ("referer", ""), ("refresh", ""), ("retry-after", ""),
   ("server", ""), ("set-cookie", ""), ("strict-transport-security", ""), ("transfer-encoding", ""),
   ("user-agent", ""), ("vary", ""), ("via", ""), ("www-authenticate", "")].map
    fun (p : String × String) => (ofStr p.1, ofStr p.2)

/-- Per written block: the representations the encoder chooses, and the size of its table after. -/
def runLane (cfg : Cfg) : List Ent → List (List HF) → List String
  | _, [] => []
  | dyn, hs :: rest =>
    let e := encodeBlock cfg dyn hs
    (",".intercalate (e.1.map showRep) ++ "/" ++ toString e.2.length) :: runLane cfg e.2 rest

end Req.Pool.H2Hpack
