import Req.Driver.Proto
/-!
# The asynchronous dump queue of `internal/dump` with the memory it points into (C09, round 5)

`Dumper.DumpTo(p, output)` is called by the transport with slices of buffers the transport goes
on using: the connection's `bufio.Reader` buffer (HTTP/1.1 response heads — the next response on a
kept-alive connection is read into the same bytes), HTTP/2 / HTTP/3 frame buffers, and the
caller's own body buffer (`dumpResponseBodyReadCloser.Read(p)` dumps `p[:n]`).  With
`Options.Async()` the bytes are not written at once but queued on `d.ch` (capacity 20) for the
goroutine running `Dumper.Start`, which writes them whenever it gets to it.  What that goroutine
writes is what it finds BEHIND THE POINTER at that time, so the model carries the memory:

* `user b` — the buffers of the transport / the caller (anybody may overwrite them at any time:
  op `write`), `priv n` — buffers allocated by `DumpTo` itself (nobody else holds the pointer);
* a queued task is a slice `(ref, lo, len)` and an output, not a value;
* the writer goroutine is two steps: `take` (`t := <-d.ch`; a `nil` task ends the loop) and
  `emit` (`t.Output.Write(t.Data)`), so that a slow output is a schedule, not a special case.

`Cfg.copies` is the line `b := make([]byte, len(p)); copy(b, p)`; the code has it (`true`), the
variant without it exists to show that the theorem is about that line (`Props/C09Dump.lean`).
The ghost `want o` = the bytes handed to `DumpTo` for output `o`, as they were at the call, in
call order.
-/
namespace Req.Pool.DumpQueue
open Req.Proto

inductive Ref where
  | user (b : Nat)
  | priv (n : Nat)
deriving DecidableEq, Repr

structure Slice where
  ref : Ref
  lo : Nat
  len : Nat
deriving DecidableEq, Repr

structure Task where
  data : Slice
  out : Nat
deriving DecidableEq, Repr

structure Cfg where
  async : Bool
  copies : Bool := true
  cap : Nat := 20
deriving Repr

def upd {β : Type} (f : Nat → β) (k : Nat) (v : β) : Nat → β := fun x => if x = k then v else f x

structure St where
  user : Nat → Bytes := fun _ => []
  priv : Nat → Bytes := fun _ => []
  nextPriv : Nat := 0
  ch : List (Option Task) := []          -- d.ch, front first; `none` = the nil task of Stop
  cur : Option Task := none              -- task the writer goroutine has received, not yet written
  running : Bool := false                -- a goroutine is inside Start's loop
  written : Nat → Bytes := fun _ => []   -- what output o has received
  want : Nat → Bytes := fun _ => []      -- ghost: bytes given to DumpTo for o, as they were

inductive Op where
  | write (b lo : Nat) (d : Bytes)              -- the owner of buffer b (re)fills it from offset lo
  | dumpTo (b lo len : Nat) (out : Option Nat)  -- DumpTo(buf_b[lo:lo+len], output)
  | start                                       -- go d.Start()
  | stop                                        -- d.Stop(): d.ch <- nil
  | take                                        -- writer: t := <-d.ch
  | emit                                        -- writer: t.Output.Write(t.Data)
deriving Repr

inductive Res where
  | done
  | blocked     -- channel full: the caller sleeps in the send
  | ignored     -- outside the calling protocol
deriving DecidableEq, Repr

def splice (old : Bytes) (lo : Nat) (d : Bytes) : Bytes :=
  old.take lo ++ d ++ old.drop (lo + d.length)

def cut (m : Bytes) (lo len : Nat) : Bytes := (m.drop lo).take len

def readSl (user priv : Nat → Bytes) (sl : Slice) : Bytes :=
  match sl.ref with
  | .user b => cut (user b) sl.lo sl.len
  | .priv n => cut (priv n) sl.lo sl.len

def step (cfg : Cfg) (s : St) : Op → St × Res
  | .write b lo d =>
    if lo ≤ (s.user b).length then
      ({ s with user := upd s.user b (splice (s.user b) lo d) }, .done)
    else (s, .ignored)
  | .dumpTo b lo len out =>
    if lo + len > (s.user b).length then (s, .ignored)
    else
      let p := cut (s.user b) lo len
      match out with
      | none => (s, .done)                       -- `output == nil`
      | some o =>
        if len = 0 then (s, .done)               -- `len(p) == 0`
        else if !cfg.async then
          ({ s with written := upd s.written o (s.written o ++ p),
                    want := upd s.want o (s.want o ++ p) }, .done)
        else if s.ch.length ≥ cfg.cap then (s, .blocked)
        else if cfg.copies then
          ({ s with priv := upd s.priv s.nextPriv p, nextPriv := s.nextPriv + 1,
                    ch := s.ch ++ [some ⟨⟨.priv s.nextPriv, 0, len⟩, o⟩],
                    want := upd s.want o (s.want o ++ p) }, .done)
        else
          ({ s with ch := s.ch ++ [some ⟨⟨.user b, lo, len⟩, o⟩],
                    want := upd s.want o (s.want o ++ p) }, .done)
  | .start =>
    if s.running then (s, .ignored) else ({ s with running := true }, .done)
  | .stop =>
    if s.ch.length ≥ cfg.cap then (s, .blocked) else ({ s with ch := s.ch ++ [none] }, .done)
  | .take =>
    if s.running && s.cur.isNone then
      match s.ch with
      | [] => (s, .ignored)
      | none :: q => ({ s with ch := q, running := false }, .done)
      | some t :: q => ({ s with ch := q, cur := some t }, .done)
    else (s, .ignored)
  | .emit =>
    match s.cur with
    | none => (s, .ignored)
    | some t =>
      ({ s with cur := none,
                written := upd s.written t.out (s.written t.out ++ readSl s.user s.priv t.data) }, .done)

def run (cfg : Cfg) : St → List Op → St
  | s, [] => s
  | s, op :: ops => run cfg (step cfg s op).1 ops

/-- Tasks received or queued, in the order they will be written. -/
def tasksOf (s : St) : List Task :=
  (match s.cur with | some t => [t] | none => []) ++ s.ch.filterMap id

/-- What the tasks `ts` will add to output `o` if memory stays as `rd` sees it. -/
def pend (rd : Slice → Bytes) : List Task → Nat → Bytes
  | [], _ => []
  | t :: r, o => (if t.out = o then rd t.data else []) ++ pend rd r o

def pending (s : St) (o : Nat) : Bytes := pend (readSl s.user s.priv) (tasksOf s) o

/-! ### lane level: what the goroutine running `Start` does on its own -/

/-- The writer goroutine receives the next task as soon as it is free (a `nil` task ends it). -/
def settle (cfg : Cfg) (s : St) : St :=
  match step cfg s .take with
  | (s', .done) => s'
  | _ => s

def showRes : Res → String
  | .done => "ok" | .blocked => "blocked" | .ignored => "ign"

/-- Canonical dump: queue length, writer parked with a task, loop alive, bytes at each output. -/
def dump (s : St) (nOut : Nat) : String :=
  "q=" ++ toString s.ch.length ++ " c=" ++ (if s.cur.isSome then "1" else "0") ++
  " r=" ++ (if s.running then "1" else "0") ++ " " ++
  " ".intercalate ((List.range nOut).map fun o => "o" ++ toString o ++ "=" ++ encodeHex (s.written o))

def runLane (cfg : Cfg) (nOut : Nat) : St → List Op → List String
  | _, [] => []
  | s, op :: ops =>
    let r := step cfg s op
    match r.2 with
    | .done =>
      let s' := settle cfg r.1
      ("ok/" ++ dump s' nOut) :: runLane cfg nOut s' ops
    | x => (showRes x) :: runLane cfg nOut s ops

end Req.Pool.DumpQueue
