import Req.Pool.AltSvcState
/-!
# C12 — the Alt-Svc state machine together with the protocol setters

`Req.Pool.AltSvc.step` is the state machine behind two guards of the transport:
`Transport.roundTrip` consults `checkAltSvc` — and `Transport.RoundTrip` (roundtrip.go)
records an advertisement — only while NO version is forced, for `https`, with HTTP/3 enabled
(`altSvcJar ≠ nil`). `Client` pairs the protocol settings (`Dispatch.Cfg`, changed by
`Dispatch.applySetting`) with the learned state, so that sequences which CHANGE the forcing
after an alternative was learned — pending or already confirmed — are inside the model:
forcing does not erase what was learned, it stops it from being consulted; un-forcing brings
it back; `DisableHTTP3` and `Clone` start from an empty state.
-/
namespace Req.Pool.AltSvc
open Req.Pool.Dispatch (Cfg Setting applySetting Origin)

structure Client where
  cfg : Cfg
  alt : State

inductive CEvent
  | setting (s : Setting)
  | alt (e : Event)

/-- The guard of `roundTrip` l.929 and of the learning step in `RoundTrip`. -/
def consults (c : Cfg) (o : Origin) : Bool :=
  c.force = none && o.scheme = .https && c.h3

/-- What a setter does to the learned state: `DisableHTTP3` drops jar and pending map, a clone
is a new transport; every other setter leaves it alone. -/
def altAfter (s : Setting) (a : State) : State :=
  match s with
  | .disableH3 => State.empty
  | .clone => State.empty
  | _ => a

def cstep (sup : Bool) (c : Client) : CEvent → Client × Option Served
  | .setting s => (⟨applySetting sup c.cfg s, altAfter s c.alt⟩, none)
  | .alt (.header o now mas) =>
    if consults c.cfg o then (⟨c.cfg, (step c.alt (.header o now mas)).1⟩, none) else (c, none)
  | .alt (.dialed o rs) => (⟨c.cfg, (step c.alt (.dialed o rs)).1⟩, none)
  | .alt (.request o now ok) =>
    if consults c.cfg o then (⟨c.cfg, (step c.alt (.request o now ok)).1⟩, (step c.alt (.request o now ok)).2)
    else (c, some .normal)

def crun (sup : Bool) (c : Client) (evs : List CEvent) : Client := evs.foldl (fun c e => (cstep sup c e).1) c

/-- `C()`. -/
def Client.init : Client := ⟨Req.Pool.Dispatch.initialProto, State.empty⟩

end Req.Pool.AltSvc
