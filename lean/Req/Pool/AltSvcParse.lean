import Req.Driver.Proto
/-!
Model of `internal/altsvcutil/altsvcutil.go`: the `bytes.Buffer` cursor parser behind
`ParseHeader`. The Go code is three nested loops (`Parse`, `parseOne`'s "drain useless
fields", `parseKv`) without an explicit progress argument; here every loop runs on fuel and
`Props/C07` proves that `length + 1` fuel always suffices (the parser terminates on every
input) and that it always yields a value (entries or an error).

ASCII whitespace only is modelled for `strings.TrimSpace` (the lane compares answers on
ASCII inputs; non-ASCII inputs are only checked for termination / absence of panics).
-/
namespace Req.AltSvcParse
open Req.Proto

inductive Err | none | eof | other
deriving Repr, BEq, DecidableEq

def isSpace (c : UInt8) : Bool :=
  c == 32 || c == 9 || c == 10 || c == 11 || c == 12 || c == 13

def trimLeft : Bytes → Bytes
  | [] => []
  | c :: cs => if isSpace c then trimLeft cs else c :: cs

def trimSpace (s : Bytes) : Bytes := (trimLeft (trimLeft s).reverse).reverse

/-- `ReadBytes(delim)`: the prefix up to and including the first `delim`, or everything. -/
def readBytes (d : UInt8) : Bytes → Bytes × Bytes × Bool
  | [] => ([], [], false)
  | c :: cs =>
    if c == d then ([c], cs, true)
    else
      let (l, r, f) := readBytes d cs
      (c :: l, r, f)

structure Kv where
  key : Bytes
  value : Bytes
  haveNext : Bool
  err : Err
  rest : Bytes
deriving Repr

/-- index of the first `"` at position ≥ 1, or 0 -/
def quoteIndex (bs : Bytes) : Nat :=
  match bs with
  | [] => 0
  | _ :: t =>
    match t.findIdx? (· == 34) with
    | some i => i + 1
    | none => 0

/-- scan for `,` or `;` : (index, isSemicolon) of the first one, (0,false) when none -/
def delimScan : Bytes → Nat → Nat × Bool
  | [], _ => (0, false)
  | c :: cs, i =>
    if c == 44 then (i, false)
    else if c == 59 then (i, true)
    else delimScan cs (i + 1)

def parseKv (buf : Bytes) : Kv :=
  let (line, bs, found) := readBytes 61 buf
  if line.isEmpty then ⟨[], [], false, .eof, bs⟩
  else
    let rbErr : Err := if found then .none else .eof
    let key := trimSpace line.dropLast
    if bs.isEmpty then ⟨key, [], false, .eof, bs⟩
    else if bs.head? == some 34 then
      let qi := quoteIndex bs
      if qi == 0 then ⟨key, [], false, .other, bs⟩
      else
        let value := (bs.take qi).drop 1
        let rest := bs.drop (qi + 1)
        if bs.length == qi + 1 then ⟨key, value, false, .eof, rest⟩
        else
          match rest with
          | [] => ⟨key, value, false, .eof, rest⟩
          | b :: rest' => ⟨key, value, b == 59, rbErr, rest'⟩
    else
      let (di, semi) := delimScan bs 0
      if di == 0 then ⟨key, trimSpace bs, semi, .eof, bs⟩
      else ⟨key, bs.take di, semi, rbErr, bs.drop (di + 1)⟩

structure Entry where
  proto : Bytes
  host : Bytes
  port : Bytes
  hasMa : Bool
deriving Repr, BEq, DecidableEq

def isDigit (c : UInt8) : Bool := 48 ≤ c && c ≤ 57

def validOptionalPort (p : Bytes) : Bool :=
  match p with
  | [] => true
  | c :: cs => c == 58 && cs.all isDigit

def lastIndexOf (c : UInt8) (s : Bytes) : Option Nat :=
  match (s.reverse.findIdx? (· == c)) with
  | some i => some (s.length - 1 - i)
  | none => none

def splitHostPort (hp : Bytes) : Bytes × Bytes :=
  let (host, port) :=
    match lastIndexOf 58 hp with
    | some colon =>
      if validOptionalPort (hp.drop colon) then (hp.take colon, hp.drop (colon + 1)) else (hp, [])
    | none => (hp, [])
  if host.head? == some 91 && host.getLast? == some 93 then
    -- strings.HasPrefix "[" && HasSuffix "]" (a one-byte host cannot satisfy both)
    ((host.drop 1).dropLast, port)
  else (host, port)

/-- `strconv.ParseInt(s, 10, 64)` succeeds? (sign, digits only, range) -/
def parseIntOk (s : Bytes) : Bool :=
  let (neg, ds) :=
    match s with
    | 43 :: t => (false, t)
    | 45 :: t => (true, t)
    | t => (false, t)
  if ds.isEmpty || !ds.all isDigit then false
  else
    let n := ds.foldl (fun a c => a * 10 + (c.toNat - 48)) 0
    if neg then n ≤ 9223372036854775808 else n ≤ 9223372036854775807

/-- the "drain useless fields" loop -/
def drain : Nat → Bytes → Option (Err × Bytes)
  | 0, _ => none
  | fuel + 1, buf =>
    let kv := parseKv buf
    if kv.haveNext then drain fuel kv.rest else some (kv.err, kv.rest)

/-- `parseOne` → (entry?, err, rest); `none` = out of fuel. -/
def parseOne (fuel : Nat) (buf : Bytes) : Option (Option Entry × Err × Bytes) :=
  let kv := parseKv buf
  if kv.key.isEmpty || kv.value.isEmpty then some (none, kv.err, kv.rest)
  else
    let (host, port) := splitHostPort kv.value
    let e : Entry := ⟨kv.key, host, port, false⟩
    if !kv.haveNext then some (some e, kv.err, kv.rest)
    else
      let kv2 := parseKv kv.rest
      if kv2.key.isEmpty || kv2.value.isEmpty then some (some e, kv2.err, kv2.rest)
      else if kv2.key != [109, 97] then some (some e, .other, kv2.rest)
      else if !parseIntOk kv2.value then some (some e, .other, kv2.rest)
      else
        let e := { e with hasMa := true }
        if !kv2.haveNext then some (some e, kv2.err, kv2.rest)
        else
          match drain fuel kv2.rest with
          | none => none
          | some (err, rest) => some (some e, err, rest)

/-- `Parse`: entries so far (reversed) × final error class (`eof` = success). -/
def parseLoop : Nat → Bytes → List Entry → Option (List Entry × Err)
  | 0, _, _ => none
  | fuel + 1, buf, acc =>
    match parseOne (buf.length + 1) buf with
    | none => none
    | some (e, err, rest) =>
      let acc := match e with | some x => x :: acc | none => acc
      match err with
      | .none => parseLoop fuel rest acc
      | err => some (acc.reverse, err)

def parse (s : Bytes) : Option (List Entry × Err) := parseLoop (s.length + 1) s []

end Req.AltSvcParse
