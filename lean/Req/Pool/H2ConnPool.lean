/-!
# C12 — the HTTP/2 connection pool is keyed by ORIGIN (`clientConnPool`, internal/http2/client_conn_pool.go)

`GetClientConn(req, addr, dialOnMiss)` (l.54) looks for a usable connection in
`p.conns[addr]` (`addr` = `host:port` of the request, `authorityAddr`) and, on a miss, dials
`addr` itself (`getStartDialLocked(ctx, addr)` → `t.dialClientConn` → TLS handshake with
`addr`'s host under the client's `tls.Config`), storing the result under `addr`
(`addConnLocked(addr, cc)`); `addConnIfNeeded(key, …)` (connections handed over by the
HTTP/1.1 dial path after ALPN chose h2) stores under the key of the origin dialled too.
Hence every connection listed under `addr` was dialled to `addr`, its certificate verified for
`addr`'s host under the client's settings (`WF`, `getConn_wf`), and every request is carried
by a connection to ITS origin (`served_by_own_origin`, `run_served_by_own_origin`) — whatever
other names the certificate of another open connection lists. `getCoalesced` is the
"share conns based on cert names" variant (seed C12-r7-3); `coalesced_serves_other_origin`.

Tied to the code by lane `c12seq`, sequence (g): origins 127.0.0.1:P (h2, certificate naming
127.0.0.1 and 127.0.0.2) and 127.0.0.2:P (h1-only / untrusted root) on one port.
-/
namespace Req.Pool.H2ConnPool

variable {A : Type} [DecidableEq A]

/-- An open HTTP/2 connection: the origin it was dialled to (whose certificate was verified
under the client's settings) and the origins its leaf certificate also lists. -/
structure Conn (A : Type) where
  dialled : A
  certNames : List A

/-- `p.conns`: key → connection (one per key is enough here). -/
abbrev Pool (A : Type) := List (A × Conn A)

def lookup (p : Pool A) (addr : A) : Option (Conn A) := (p.find? fun e => e.1 = addr).map (·.2)

/-- `GetClientConn(req, addr, dialOnMiss = true)`; `names` = what `addr`'s certificate lists. -/
def getConn (p : Pool A) (addr : A) (names : List A) : Conn A × Pool A :=
  match lookup p addr with
  | some c => (c, p)
  | none => let c : Conn A := ⟨addr, names⟩; (c, (addr, c) :: p)

/-- Every connection is listed under the origin it was dialled to. -/
def WF (p : Pool A) : Prop := ∀ e ∈ p, e.2.dialled = e.1

theorem lookup_wf {p : Pool A} (h : WF p) {addr : A} {c : Conn A} (hc : lookup p addr = some c) :
    c.dialled = addr := by
  unfold lookup at hc
  cases hf : p.find? (fun e => decide (e.1 = addr)) with
  | none => simp [hf] at hc
  | some e =>
    simp [hf] at hc
    have hm := List.mem_of_find?_eq_some hf
    have hp := List.find?_some hf
    simp at hp
    rw [← hc, h e hm, hp]

/-- ∀ pools, ∀ origins: the connection a request gets was dialled to the request's origin. -/
theorem served_by_own_origin {p : Pool A} (h : WF p) (addr : A) (names : List A) :
    (getConn p addr names).1.dialled = addr := by
  unfold getConn
  cases hl : lookup p addr with
  | none => simp
  | some c => simpa using lookup_wf h hl

theorem getConn_wf {p : Pool A} (h : WF p) (addr : A) (names : List A) :
    WF (getConn p addr names).2 := by
  unfold getConn
  cases hl : lookup p addr with
  | some c => simpa using h
  | none =>
    intro e he
    simp at he
    rcases he with rfl | he
    · rfl
    · exact h e he

/-- A sequence of requests (origin, names its certificate lists) from a pool. -/
def run (p : Pool A) : List (A × List A) → List (A × Conn A)
  | [] => []
  | (a, ns) :: rest => let r := getConn p a ns; (a, r.1) :: run r.2 rest

/-- ∀ request sequences on a fresh client: EVERY request is carried by a connection dialled to
(and verified for) its own origin. -/
theorem run_served_by_own_origin (reqs : List (A × List A)) :
    ∀ x ∈ run ([] : Pool A) reqs, x.2.dialled = x.1 := by
  suffices h : ∀ (p : Pool A), WF p → ∀ x ∈ run p reqs, x.2.dialled = x.1 from
    h [] (by intro e he; cases he)
  induction reqs with
  | nil => intro p _ x hx; cases hx
  | cons r rest ih =>
    intro p hp x hx
    obtain ⟨a, ns⟩ := r
    simp [run] at hx
    rcases hx with rfl | hx
    · exact served_by_own_origin hp a ns
    · exact ih _ (getConn_wf hp a ns) x hx

/-- The coalescing variant: on a miss, any open connection whose certificate lists `addr`. -/
def getCoalesced (p : Pool A) (addr : A) (names : List A) : Conn A × Pool A :=
  match lookup p addr with
  | some c => (c, p)
  | none =>
    match p.find? fun e => e.2.certNames.contains addr with
    | some e => (e.2, (addr, e.2) :: p)
    | none => let c : Conn A := ⟨addr, names⟩; (c, (addr, c) :: p)

/-- Lane c12seq (g): A = 127.0.0.1:P lists both addresses; the request to B = 127.0.0.2:P is then
carried by the connection to A — B's certificate and protocol offer are never looked at. -/
theorem coalesced_serves_other_origin :
    let p := (getConn ([] : Pool String) "127.0.0.1:P" ["127.0.0.1:P", "127.0.0.2:P"]).2
    (getCoalesced p "127.0.0.2:P" ["127.0.0.2:P"]).1.dialled = "127.0.0.1:P" ∧
    (getConn p "127.0.0.2:P" ["127.0.0.2:P"]).1.dialled = "127.0.0.2:P" := by
  decide

end Req.Pool.H2ConnPool
