import Req.Driver.Proto
/-!
# Who owns the decoder state of a response body (C09, round 6)

`Transport.handleResponseBody` → `autoDecodeResponseBody` wraps `res.Body` in a streaming
charset decoder (`enc.NewDecoder().Reader(res.Body)`, or the sniffing `autoDecodeReadCloser`); the
three protocol read paths wrap it in a decompressor (`compress.NewCompressReader`).  All of these
are STATEFUL readers: an ISO-2022-JP / HZ decoder is in ASCII or in two-byte mode, a UTF-16 decoder
has seen a BOM or not, `transform.Reader` holds the bytes of an incomplete character between two
reads, gzip / zstd / br carry a window.  Responses of concurrent callers are alive at the same
time (one per HTTP/1.1 connection, many per HTTP/2 connection), their callers read in any
interleaving, so "each caller receives the response to its own request" needs: the state a
response's bytes go through belongs to that response.

The model is generic in the codec (`Codec σ`: initial state, `feed state chunk atEOF`); a system
state has one cell per KEY.  `Cfg.shared = false` is the code (`key = response`): every wrap
creates a fresh decoder.  `Cfg.shared = true` is a package- or transport-level cache of decoder
objects keyed by the charset label (seed C09-r6-2): `wrap` resets the cached object
(`transform.NewReader` calls `Reset`), after that every response with that label feeds the same
cell.  Ghost `fed r` = the chunks the peer's body bytes of response r arrived in, since the wrap.

The concrete codec `iso` is `golang.org/x/text/encoding/japanese` `iso2022JPDecoder.Transform`
under `transform.Reader` (the held-back source bytes `rest` are the reader's `src[src0:src1]`
after `ErrShortSrc`), with the JIS X 0208 / 0212 tables as a parameter (association list; the lane
passes the entries it uses).
-/
namespace Req.Pool.DecodeOwner
open Req.Proto

structure Codec (σ : Type) where
  init : σ
  feed : σ → Bytes → Bool → σ × Bytes

structure Cfg where
  shared : Bool := false
deriving Repr

inductive Op where
  | wrap (r label : Nat)
  | feed (r : Nat) (chunk : Bytes) (eof : Bool)
deriving Repr

def upd {β : Type} (f : Nat → β) (k : Nat) (v : β) : Nat → β := fun x => if x = k then v else f x

structure St (σ : Type) where
  cell : Nat → σ
  label : Nat → Nat := fun _ => 0
  out : Nat → Bytes := fun _ => []
  fed : Nat → List (Bytes × Bool) := fun _ => []
  last : Bytes := []                       -- what the latest `feed` delivered (lane answer)

def start {σ : Type} (c : Codec σ) : St σ := { cell := fun _ => c.init }

/-- The cell a response with this label decodes through. -/
def key (cfg : Cfg) (r label : Nat) : Nat := if cfg.shared then 2 * label + 1 else 2 * r

def step {σ : Type} (cfg : Cfg) (c : Codec σ) (s : St σ) : Op → St σ
  | .wrap r l =>
    { s with label := upd s.label r l, cell := upd s.cell (key cfg r l) c.init,
             out := upd s.out r [], fed := upd s.fed r [], last := [] }
  | .feed r chunk eof =>
    let k := key cfg r (s.label r)
    let x := c.feed (s.cell k) chunk eof
    { s with cell := upd s.cell k x.1, out := upd s.out r (s.out r ++ x.2),
             fed := upd s.fed r (s.fed r ++ [(chunk, eof)]), last := x.2 }

def run {σ : Type} (cfg : Cfg) (c : Codec σ) (ops : List Op) : St σ :=
  ops.foldl (step cfg c) (start c)

/-- One response alone: its chunks through a decoder of its own. -/
def soloStep {σ : Type} (c : Codec σ) (acc : σ × Bytes) (ch : Bytes × Bool) : σ × Bytes :=
  let x := c.feed acc.1 ch.1 ch.2
  (x.1, acc.2 ++ x.2)

def solo {σ : Type} (c : Codec σ) (chunks : List (Bytes × Bool)) : σ × Bytes :=
  chunks.foldl (soloStep c) (c.init, [])

/-- The chunks of response r in an op list: the `feed r` ops after the last `wrap r`. -/
def ownStep (r : Nat) (acc : List (Bytes × Bool)) : Op → List (Bytes × Bool)
  | .wrap r' _ => if r' = r then [] else acc
  | .feed r' ch e => if r' = r then acc ++ [(ch, e)] else acc

def own (r : Nat) (ops : List Op) : List (Bytes × Bool) := ops.foldl (ownStep r) []

/-! ## ISO-2022-JP (x/text `iso2022JPDecoder`) -/

inductive Mode where
  | ascii | katakana | jis0208 | jis0212
deriving DecidableEq, Repr

structure Dec where
  mode : Mode := .ascii
  rest : Bytes := []
deriving DecidableEq, Repr

def fffd : Bytes := [0xEF, 0xBF, 0xBD]

def utf8 (r : Nat) : Bytes :=
  if r < 0x80 then [UInt8.ofNat r]
  else if r < 0x800 then [UInt8.ofNat (0xC0 + r / 64), UInt8.ofNat (0x80 + r % 64)]
  else if r < 0x10000 then
    [UInt8.ofNat (0xE0 + r / 4096), UInt8.ofNat (0x80 + r / 64 % 64), UInt8.ofNat (0x80 + r % 64)]
  else
    [UInt8.ofNat (0xF0 + r / 262144), UInt8.ofNat (0x80 + r / 4096 % 64),
     UInt8.ofNat (0x80 + r / 64 % 64), UInt8.ofNat (0x80 + r % 64)]

def lookup (tbl : List (Nat × Nat)) (k : Nat) : Nat :=
  match tbl.find? (fun e => e.1 == k) with
  | some e => e.2
  | none => 0

/-- `int(c0-0x21)*94 + int(c1-0x21)` with Go's byte arithmetic (wraps below 0x21). -/
def pairIndex (c0 c1 : UInt8) : Nat := ((c0.toNat + 256 - 0x21) % 256) * 94 + (c1.toNat + 256 - 0x21) % 256

def tblKey (m : Mode) (i : Nat) : Nat := if m = .jis0212 then 100000 + i else i

/-- One call of `Transform(dst, src, atEOF)` with room in `dst`: (mode, output, unconsumed source).
`fuel` ≥ |src| (every round consumes at least one byte or stops). -/
def transform (tbl : List (Nat × Nat)) (atEOF : Bool) : Nat → Mode → Bytes → Mode × Bytes × Bytes
  | 0, m, src => (m, [], src)
  | _ + 1, m, [] => (m, [], [])
  | fuel + 1, m, c0 :: t =>
    let more (m' : Mode) (o : Bytes) (src' : Bytes) : Mode × Bytes × Bytes :=
      let x := transform tbl atEOF fuel m' src'
      (x.1, o ++ x.2.1, x.2.2)
    if c0 ≥ 0x80 then more m fffd t
    else if c0 = 0x1b then
      match t with
      | c1 :: c2 :: t2 =>
        if c1 = 0x24 ∧ (c2 = 0x40 ∨ c2 = 0x42) then more .jis0208 [] t2
        else if c1 = 0x24 ∧ c2 = 0x28 then
          match t2 with
          | c3 :: t3 => if c3 = 0x44 then more .jis0212 [] t3 else more m fffd t
          | [] => if atEOF then more m fffd t else (m, [], c0 :: t)
        else if c1 = 0x28 ∧ (c2 = 0x42 ∨ c2 = 0x4A) then more .ascii [] t2
        else if c1 = 0x28 ∧ c2 = 0x49 then more .katakana [] t2
        else more m fffd t
      | _ => if atEOF then more m fffd t else (m, [], c0 :: t)
    else
      match m with
      | .ascii => more m [c0] t
      | .katakana =>
        if c0 < 0x21 ∨ 0x60 ≤ c0 then more m fffd t else more m (utf8 (c0.toNat + (0xff61 - 0x21))) t
      | _ =>
        if c0 = 0x0a then more .ascii [c0] t
        else
          match t with
          | [] => if atEOF then more m fffd t else (m, [], [c0])
          | c1 :: t2 =>
            let r := lookup tbl (tblKey m (pairIndex c0 c1))
            if r = 0 then more m fffd t2 else more m (utf8 r) t2

/-- The decoder of ONE body: `transform.Reader` over `iso2022JPDecoder`. -/
def iso (tbl : List (Nat × Nat)) : Codec Dec where
  init := {}
  feed := fun d chunk eof =>
    let src := d.rest ++ chunk
    let x := transform tbl eof (src.length + 1) d.mode src
    ({ mode := x.1, rest := x.2.2 }, x.2.1)

/-- Lane answer: what every `feed` op delivered to its caller, in op order. -/
def runLane (cfg : Cfg) (tbl : List (Nat × Nat)) : St Dec → List Op → List Bytes
  | _, [] => []
  | s, op :: rest =>
    let s' := step cfg (iso tbl) s op
    match op with
    | .wrap _ _ => runLane cfg tbl s' rest
    | .feed _ _ _ => s'.last :: runLane cfg tbl s' rest

end Req.Pool.DecodeOwner
