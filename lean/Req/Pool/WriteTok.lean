/-!
# The write-report channel of one HTTP/1.1 connection (`pc.writeErrCh`) — round 7

transport.go: `writeLoop` takes a request from `pc.writech`, runs `writeRequest` (header and the
whole body), then files the outcome with `pc.writeErrCh <- err` (capacity 1) — and only then takes
the next request.  `readLoop` calls `pc.wroteRequest()` before it gives the connection back to the
pool: a report already in the channel is consumed; otherwise it waits (`maxWriteWaitBeforeConnReuse`)
for the writer to file one; no report in time = the request is still being written = the connection
is not reused.  The report is an anonymous token; what makes the check sound is that the token
consumed for request r is the report of the write OF r.  The ghost `used` records which write each
consumed token reported.

`Cfg.fastPath` is the variant of seed C09-r7-1 (a body-less request passes without a token).
-/

namespace Req.Pool.WriteTok

structure Cfg where
  /-- seed C09-r7-1: `if outgoingLength(req) == 0 { return true }` when the channel is empty -/
  fastPath : Bool := false

structure St where
  writing : Option Nat := none   -- writeLoop is inside `writeRequest` for this request
  filed : Option Nat := none     -- write finished; writeLoop at `pc.writeErrCh <- err`, not through yet
  ch : Option Nat := none        -- `pc.writeErrCh`: the report in it is about the write of this request
  used : List (Nat × Nat) := []  -- ghost: (request checked, request whose report was consumed for it)
deriving Repr

inductive Op where
  /-- writeLoop receives request r from `pc.writech` (it is not inside or behind another write) -/
  | write (r : Nat)
  /-- `writeRequest` returned: header and body of r are out -/
  | done (r : Nat)
  /-- the send `pc.writeErrCh <- err` goes through (the channel has room) -/
  | report
deriving DecidableEq, Repr

def step (s : St) : Op → St
  | .write r => if s.writing.isNone && s.filed.isNone then { s with writing := some r } else s
  | .done r => if s.writing == some r then { s with writing := none, filed := some r } else s
  | .report =>
    match s.filed, s.ch with
    | some r, none => { s with filed := none, ch := some r }
    | _, _ => s

/-- `pc.wroteRequest()` called by readLoop for request r. -/
def check (s : St) (r : Nat) (cfg : Cfg := {}) (bodyless : Bool := false) : St × Bool :=
  match s.ch with
  | some t => ({ s with ch := none, used := (r, t) :: s.used }, true)
  | none =>
    if cfg.fastPath && bodyless then (s, true) else
    -- the timed wait: a writer that is done gets its report through; one that is not, does not
    match s.filed with
    | some t => ({ s with filed := none, used := (r, t) :: s.used }, true)
    | none => (s, false)

/-- One request on the connection as `readLoop` meets it. -/
structure Rq where
  id : Nat
  held : Bool       -- its write is not finished when readLoop decides (upload answered early)
  late : Bool       -- the writer reports only while `wroteRequest` waits (late-reporting `net.Conn`)
  bodyless : Bool   -- `outgoingLength(req) == 0`

def serveOne (cfg : Cfg) (s : St) (q : Rq) : St × Bool :=
  let t1 := step s (.write q.id)
  let t2 := if q.held then t1 else step t1 (.done q.id)
  let t3 := if q.late then t2 else step t2 .report
  check t3 q.id cfg q.bodyless

/-- Requests one after the other; a failed check closes the connection (nothing follows). -/
def serve (cfg : Cfg) : St → List Rq → St × List Bool
  | s, [] => (s, [])
  | s, q :: qs =>
    let r := serveOne cfg s q
    if r.2 then ((serve cfg r.1 qs).1, true :: (serve cfg r.1 qs).2) else (r.1, [false])

/-- writeLoop idle, nothing in flight, channel empty: the state between two requests. -/
def Clean (s : St) : Prop := s.writing = none ∧ s.filed = none ∧ s.ch = none

end Req.Pool.WriteTok
