import Req.Pool.Cancel
/-!
# C08 — the transparent re-send loop of the HTTP/1 `Transport.roundTrip` (round 7)

`Transport.roundTrip` (transport.go) runs a `for` loop: look at the context (`case <-ctx.Done():
closeBody(req); return nil, context.Cause(ctx)`), get a connection, `pconn.roundTrip`; when that fails
on a REUSED connection and `shouldRetryRequest` allows it, `rewindBody` closes the current body (if
nobody did), asks `GetBody` for a new one, and the loop goes round with the NEW request value. The
bodies are the resource: the caller's body and every body `GetBody` handed out must be closed when
the call returns, whatever ends it. The environment here: the first `deaths` attempts go to warm
keep-alive connections which the peer closes after reading the whole request (so `writeRequest` has
closed that attempt's body), later attempts go to a fresh connection that answers; the context ends
at `Point`.
-/
namespace Req.CancelResend
open Req.Cancel (CtxErr)

/-- `isReplayable` (http_request.go) for a request that HAS a body -/
def isReplayable (safeMethod idemKey hasGetBody : Bool) : Bool :=
  hasGetBody && (safeMethod || idemKey)

inductive Point
  | none                 -- the context never ends
  | start                -- ended before the call
  | rewound (j : Nat)    -- ends inside the j-th `GetBody` call (1-based)
  | received             -- ends once the peer of the fresh connection has the whole request
  deriving DecidableEq, Repr

inductive Res | ok | ctxErr (e : CtxErr) | netErr
  deriving DecidableEq, Repr

structure Cfg where
  deaths     : Nat
  safeMethod : Bool
  idemKey    : Bool
  hasGetBody : Bool
  point      : Point
  kind       : CtxErr
  deriving Repr

structure St where
  ctx       : Option CtxErr := none
  got       : Nat := 0        -- `GetBody` calls
  curClosed : Bool := false   -- the body on the CURRENT request value has been closed
  leaked    : Nat := 0        -- bodies replaced (or left behind) while still open
  sent      : Nat := 0        -- attempts written to a connection
  late      : Nat := 0        -- … of which after the context had ended
  deriving DecidableEq, Repr

structure Out where
  res   : Res
  got   : Nat
  open_ : Nat
  late  : Nat
  deriving DecidableEq, Repr

def St.openCount (s : St) : Nat := s.leaked + (if s.curClosed then 0 else 1)

def St.out (s : St) (r : Res) : Out := ⟨r, s.got, s.openCount, s.late⟩

/-- the context check at the top of the loop. `closesCur` = `closeBody(req)` (the code); `false` =
`closeBody(origReq)`, which is the caller's body — the current one only before the first rewind. -/
def topClose (closesCur : Bool) (s : St) : St :=
  if closesCur || s.got == 0 then { s with curClosed := true } else s

/-- one attempt written in full: `writeRequest` closes the body after sending it -/
def written (s : St) : St :=
  { s with sent := s.sent + 1, curClosed := true, late := s.late + (if s.ctx.isSome then 1 else 0) }

/-- `rewindBody`: close the old body unless somebody did, `GetBody`, new request value -/
def rewind (s : St) : St := { s with got := s.got + 1, curClosed := false }

/-- the loop; `none` = out of fuel -/
def loop (cfg : Cfg) (closesCur : Bool) : Nat → St → Option Out
  | 0, _ => none
  | fuel + 1, s =>
    match s.ctx with
    | some e => some ((topClose closesCur s).out (.ctxErr e))
    | none =>
      let s := written s
      if s.sent ≤ cfg.deaths then
        -- a warm connection that dies under the request
        if isReplayable cfg.safeMethod cfg.idemKey cfg.hasGetBody then
          let s := rewind s
          let s := if cfg.point = .rewound s.got then { s with ctx := some cfg.kind } else s
          loop cfg closesCur fuel s
        else some (s.out .netErr)
      else if cfg.point = .received then some (s.out (.ctxErr cfg.kind))
      else some (s.out .ok)

def init (cfg : Cfg) : St := { ctx := if cfg.point = .start then some cfg.kind else none }

def run (cfg : Cfg) (closesCur : Bool := true) : Option Out :=
  loop cfg closesCur (cfg.deaths + 2) (init cfg)

def Res.show : Res → String
  | .ok => "ok" | .ctxErr .canceled => "canceled" | .ctxErr .deadline => "deadline" | .netErr => "other"

def Out.show (o : Out) : String :=
  s!"res={o.res.show} got={o.got} open={o.open_} late={o.late}"

end Req.CancelResend
