/-!
# What the caller can ask a cancellation / timeout error (C08)

`persistConn.mapRoundTripError` (`Req/Pool/Cancel.lean`) decides WHICH error is reported; this
file is about what that error answers to the three questions callers (and `Request.do` itself) ask:
`errors.Is(err, context.Canceled)`, `errors.Is(err, context.DeadlineExceeded)`, and
`net.Error.Timeout()` (through `errors.As`) — for every source of a cancellation / timeout error
in the transport, seen through every wrapper the error passes on its way to the caller
(`*url.Error` from `http.Client`, `nothingWrittenError`, `transportReadFromServerError`,
`fmt.Errorf("… transport connection broken: %w")`). Tied to the real error values by the lane
`TestVerif_C08_errclass` (and `TestVerif_C08_h2errclass` for the value that lives in internal/http2).
-/
namespace Req.CancelErr

/-- where an error the caller may see comes from -/
inductive Src
  | ctxCanceled          -- context.Canceled (the cause of the request context)
  | ctxDeadline          -- context.DeadlineExceeded (ctx deadline; http.Client.Timeout is one)
  | respHeaderTimeout    -- transport.go `errTimeout` (ResponseHeaderTimeout)
  | tlsHandshakeTimeout  -- transport.go `tlsHandshakeTimeoutError{}`
  | h2RespHeaderTimeout  -- internal/http2 `errH2Timeout`
  | reqCanceled          -- common.ErrRequestCanceled (the deprecated Request.Cancel channel)
  | reqCanceledConn      -- `errRequestCanceledConn`
  | serverClosedIdle     -- `errServerClosedIdle`
  | io                   -- any other transport error
  deriving DecidableEq, Repr

def allSrc : List Src :=
  [.ctxCanceled, .ctxDeadline, .respHeaderTimeout, .tlsHandshakeTimeout, .h2RespHeaderTimeout,
   .reqCanceled, .reqCanceledConn, .serverClosedIdle, .io]

structure Rel where
  isCanceled : Bool   -- errors.Is(err, context.Canceled)
  isDeadline : Bool   -- errors.Is(err, context.DeadlineExceeded)
  timeout : Bool      -- errors.As(err, &net.Error) && ne.Timeout()
  deriving DecidableEq, Repr

def rel : Src → Rel
  | .ctxCanceled => ⟨true, false, false⟩
  | .ctxDeadline => ⟨false, true, true⟩          -- context.DeadlineExceeded has Timeout() == true
  | .respHeaderTimeout => ⟨false, true, true⟩    -- *timeoutError: Timeout(), Is(DeadlineExceeded)
  | .tlsHandshakeTimeout => ⟨false, false, true⟩
  | .h2RespHeaderTimeout => ⟨false, false, true⟩
  | .reqCanceled => ⟨false, false, false⟩
  | .reqCanceledConn => ⟨false, false, false⟩
  | .serverClosedIdle => ⟨false, false, false⟩
  | .io => ⟨false, false, false⟩

/-- the wrappers on the way to the caller -/
inductive Wrap | urlError | nothingWritten | readFromServer | brokenConn
  deriving DecidableEq, Repr

/-- an error value as the caller can question it: the three answers, and `direct` = the value
ITSELF has a `Timeout()` method answering true (what a type assertion sees, without unwrapping) -/
structure View where
  rel : Rel
  direct : Bool
  deriving DecidableEq, Repr

/-- one wrapper around a value. `errors.Is` sees through all of them (`Unwrap` / `%w`).
`Timeout()` does not: `*url.Error` implements `net.Error` itself, `errors.As` stops at it, and its
`Timeout()` asks the DIRECTLY wrapped error by type assertion; the other wrappers have no
`Timeout()` method of their own (`errors.As` walks on through them). -/
def wrap1 (v : View) : Wrap → View
  | .urlError => ⟨{ v.rel with timeout := v.direct }, v.direct⟩
  | _ => ⟨v.rel, false⟩

/-- what the caller sees of `r` behind the wrappers `ws` (innermost first) -/
def seen (ws : List Wrap) (r : Rel) : Rel := (ws.foldl wrap1 ⟨r, r.timeout⟩).rel

inductive Class | canceled | deadline | other
  deriving DecidableEq, Repr

/-- the classification the lanes use: cancelled / timed out / something else -/
def classify (r : Rel) : Class :=
  if r.isCanceled then .canceled else if r.isDeadline || r.timeout then .deadline else .other

/-- `Request.do`: `contextCanceled := errors.Is(err, context.Canceled)` — no retry after it -/
def stopsRetry (r : Rel) : Bool := r.isCanceled

end Req.CancelErr
