import Req.Pool.Tls
/-!
# C12 — re-established connections and TLS session resumption

"Settings changed after first use" includes the case where the connection of a stack goes
away (idle timeout, server restart, `CloseIdleConnections`) and is DIALLED AGAIN after the
client's trust settings were replaced. A TLS client that keeps a session cache resumes on
that re-dial, and crypto/tls (Go 1.23 `handshake_client.go` `loadSession`) does not check
the chain against `RootCAs` again on resumption — only expiry and the host name of the cached
leaf; a session without verified chains is resumed only under `InsecureSkipVerify`. A stack
that installs a `ClientSessionCache` of its own therefore lets the settings in force at the
FIRST connection govern later ones.

In the code no stack does: `addTLS`, http2 `newTLSConfig`, http3 `dial` pass the client's
configuration on without adding a cache (regenerated fact
`Generated.C12Facts.sessionCacheWrites = 0`, bridge `no_library_session_cache`); a
`ClientSessionCache` inside the user's own `tls.Config` is the user's setting.
-/
namespace Req.Pool.TLS

/-- A session a stack kept from an earlier connection: the `ServerName` it is filed under and
whether its chain had been verified when it was established. -/
structure Session where
  name : Nat
  verified : Bool
  deriving DecidableEq, Repr

/-- crypto/tls offers (and a ticket-issuing server accepts) the cached session. -/
def resumes (sess : Option Session) (v : VerifyCfg) : Bool :=
  match sess with
  | none => false
  | some s => s.name == v.serverName && (s.verified || v.insecure)

/-- The library stores a session cache of its own into the configuration of a dial. -/
def libraryCaches (writes : Nat) : Bool := writes != 0

/-- Verdict of a NEW connection of a stack: resumed without a chain check when the stack
cached a session, else the full verification under the configuration in force. -/
def acceptsRedial (writes : Nat) (sess : Option Session) (v : VerifyCfg) (cert : ServerCert) : Bool :=
  if libraryCaches writes && resumes sess v then true else acceptsStd v cert

end Req.Pool.TLS
