/-!
# C09 history monitor (spec monitor for concurrent runs)

The concurrent stress lane cannot be predicted output-for-output; it records a totally ordered
history of what the in-process origins and the callers observed and this monitor decides
whether the history satisfies the observable part of C09:

* every caller that gets a complete response gets the one for ITS tag, with the body derived
  from that tag, and only after the origin started the final write of that very response;
* an HTTP/1.1 connection carries at most one request at a time: a request is parsed by the
  origin on connection `c` only when the previous response on `c` has been sent completely
  (reuse only after the previous response was fully produced, hence fully consumed);
* per host, the number of HTTP/1.1 requests in flight never exceeds `MaxConnsPerHost`;
* sampled pool state (read under the transport's own locks) respects `MaxIdleConnsPerHost`,
  `MaxIdleConns`, `MaxConnsPerHost`, and "waiters queued ⇒ no idle connection for that key";
* every request sent is answered or failed exactly once.

This is runtime checking against a stated spec; it supports the search for a failing
schedule, it is not a theorem about schedules.
-/
namespace Req.Pool.Monitor

structure Cfg where
  maxConnsPerHost : Nat   -- 0 = unlimited
  idlePerHost : Nat       -- effective MaxIdleConnsPerHost (0 = keep-alives off)
  maxIdle : Nat           -- 0 = unlimited
deriving Repr

inductive Ev where
  | send (tag : Nat)
  | opened (c host : Nat)
  | closed (c : Nat)
  | req (c tag : Nat)        -- HTTP/1.1 origin parsed a complete request on c
  | respLast (c tag : Nat)   -- HTTP/1.1 origin is about to write the final bytes
  | mreq (c tag : Nat)       -- multiplexed (HTTP/2, HTTP/3) origin: request seen
  | mresp (c tag : Nat)      -- multiplexed origin: about to finish the response
  | done (tag echo : Nat) (bodyOk : Bool) (early : Bool)  -- early: caller closed the body early
  | fail (tag : Nat)
  | sample (host idleHost idleTotal connsHost waiters : Nat)
deriving Repr, DecidableEq

structure St where
  sent : List Nat := []
  finished : List Nat := []
  answered : List Nat := []             -- tags whose response the origin completed
  connHost : List (Nat × Nat) := []     -- open HTTP/1.1 connections
  outstanding : List (Nat × Nat) := []  -- (conn, tag) request in progress
  inflight : List (Nat × Nat) := []     -- host ↦ HTTP/1.1 requests in flight
  abandoned : List (Nat × Nat) := []    -- (conn, tag) whose caller closed the body early
deriving Repr

def getD (m : List (Nat × Nat)) (k : Nat) : Nat := (m.lookup k).getD 0
def put (m : List (Nat × Nat)) (k v : Nat) : List (Nat × Nat) := (k, v) :: m.filter (·.1 != k)
def del (m : List (Nat × Nat)) (k : Nat) : List (Nat × Nat) := m.filter (·.1 != k)

/-- One step: `.error kind` names the violated clause. -/
def step (cfg : Cfg) (s : St) : Ev → Except String St
  | .send t =>
    if s.sent.contains t then .error "dup-tag" else .ok { s with sent := t :: s.sent }
  | .opened c h =>
    if (s.connHost.lookup c).isSome then .error "conn-reopened"
    else .ok { s with connHost := put s.connHost c h }
  | .closed c =>
    match s.connHost.lookup c with
    | none => .ok s
    | some h =>
      let infl := if (s.outstanding.lookup c).isSome then put s.inflight h (getD s.inflight h - 1) else s.inflight
      .ok { s with connHost := del s.connHost c, outstanding := del s.outstanding c, inflight := infl }
  | .req c t =>
    match s.connHost.lookup c with
    | none => .error "request-on-unknown-conn"
    | some h =>
      if (s.outstanding.lookup c).isSome then .error "overlap"          -- two requests on one conn
      else if !s.sent.contains t || s.finished.contains t then .error "ghost-request"
      else
        let n := getD s.inflight h + 1
        if cfg.maxConnsPerHost != 0 && n > cfg.maxConnsPerHost then .error "limit-conns-inflight"
        else .ok { s with outstanding := put s.outstanding c t, inflight := put s.inflight h n }
  | .respLast c t =>
    match s.connHost.lookup c, s.outstanding.lookup c with
    | some h, some t' =>
      if t' != t then .error "origin-order"
      else .ok { s with outstanding := del s.outstanding c, inflight := put s.inflight h (getD s.inflight h - 1),
                        answered := t :: s.answered }
    | _, _ =>
      -- the caller closed the body early and the origin has not noticed yet
      if s.abandoned.contains (c, t) then .ok s else .error "origin-order"
  | .mreq _ t =>
    if !s.sent.contains t || s.finished.contains t then .error "ghost-request" else .ok s
  | .mresp _ t => .ok { s with answered := t :: s.answered }
  | .done t echo ok early =>
    if !s.sent.contains t then .error "unknown-tag"
    else if s.finished.contains t then .error "double-finish"
    else if echo != t || !ok then .error "mixed-response"
    else if !early && !s.answered.contains t then .error "phantom-response"
    else if early then
      -- the caller closed the body early: the client closes the connection and frees its slot
      -- now, although the origin may notice only later
      match s.outstanding.find? (fun p => p.2 == t) with
      | some (c, _) =>
        let h := (s.connHost.lookup c).getD 0
        .ok { s with finished := t :: s.finished, outstanding := del s.outstanding c,
                     inflight := put s.inflight h (getD s.inflight h - 1), abandoned := (c, t) :: s.abandoned }
      | none => .ok { s with finished := t :: s.finished }
    else .ok { s with finished := t :: s.finished }
  | .fail t =>
    if !s.sent.contains t then .error "unknown-tag"
    else if s.finished.contains t then .error "double-finish"
    else .ok { s with finished := t :: s.finished }
  | .sample _ ih it ch w =>
    if ih > cfg.idlePerHost then .error "limit-idle-per-host"
    else if cfg.maxIdle != 0 && it > cfg.maxIdle then .error "limit-idle-total"
    else if cfg.maxConnsPerHost != 0 && ch > cfg.maxConnsPerHost then .error "limit-conns-counted"
    else if w > 0 && ih > 0 then .error "idle-while-waiters"
    else .ok s

/-- Run from state `s`; the index of the offending event is reported. -/
def runFrom (cfg : Cfg) : St → Nat → List Ev → Except (String × Nat) St
  | s, _, [] => .ok s
  | s, i, e :: es =>
    match step cfg s e with
    | .error k => .error (k, i)
    | .ok s' => runFrom cfg s' (i + 1) es

/-- Verdict for a complete history: additionally nothing sent may be left unfinished. -/
def check (cfg : Cfg) (h : List Ev) : Except (String × Nat) Unit :=
  match runFrom cfg {} 0 h with
  | .error e => .error e
  | .ok s =>
    if s.sent.all (fun t => s.finished.contains t) then .ok () else .error ("lost-request", h.length)

def verdict (cfg : Cfg) (h : List Ev) : String :=
  match check cfg h with
  | .ok _ => "ok"
  | .error (k, i) => "violation " ++ k ++ " " ++ toString i

end Req.Pool.Monitor
