/-!
# HTTP/1.1 idle pool and per-host accounting of `transport.go` as a state machine (C09)

State = the pool fields of `Transport` (`idleConn`, `idleLRU`, `idleConnWait`, `closeIdle`,
`connsPerHost`, `connsPerHostWait`, `dialsInProgress`) plus what the pool reads of its
collaborators (`persistConn.closed`, `wantConn.done`/result, `wantConn.cancelCtx == nil`) plus
two ghost components used only to STATE the invariants (`transit`: connections a pool routine
holds in a local variable between two critical sections; `dialing`: dial goroutines running).

Ops = the critical sections (one mutex hold each) of
`queueForIdleConn`, `queueForDial`, `dialConnFor` (begin / success / failure / end),
`wantConn.tryDeliver` (inside the former), `wantConn.cancel`, the receive in `getConn`,
`tryPutIdleConn` (from `readLoop` at body EOF, and from `putOrCloseIdleConn`), `persistConn.close`
→ `decConnsPerHost`, `removeIdleConn`, `closeConnIfStillIdle` (idle timeout),
`CloseIdleConnections`.  A list of ops is one interleaving at lock granularity; theorems quantify
over all lists.  Ops applied outside the calling protocol of the real code (e.g. `finishPut w`
when `w` does not own a connection) are ignored, which is how the protocol is encoded.

Only HTTP/1.1 connections (`pconn.alt == nil`) are modelled; `IdleConnTimeout` expiry is the
environment op `idleTimeout`.  Limits: `MaxIdleConns` (0 = none), `MaxIdleConnsPerHost`
(0 = default 2, < 0 = keep-alives off), `MaxConnsPerHost` (≤ 0 = none), `DisableKeepAlives`.
-/
namespace Req.Pool.H1Pool

abbrev Conn := Nat
abbrev Want := Nat
abbrev Key := Nat

structure Cfg where
  maxIdle : Nat
  maxIdlePerHost : Int
  maxConnsPerHost : Int
  disableKeepAlives : Bool
deriving Repr

/-- `Transport.maxIdleConnsPerHost()` -/
def Cfg.idlePerHost (c : Cfg) : Nat :=
  if c.maxIdlePerHost = 0 then 2 else c.maxIdlePerHost.toNat

/-- What a `wantConn` (one `getConn` call = one request) has. -/
inductive WSt where
  | waiting                 -- !done
  | gotConn (c : Conn)      -- delivered, value still in the result channel
  | gotErr                  -- error delivered
  | inUse (c : Conn)        -- getConn received the connection: the request owns it
  | finished                -- request over (connection given back or closed) / error consumed
  | canceled
deriving DecidableEq, Repr

def WSt.holds : WSt → Conn → Bool
  | .gotConn c, d => c == d
  | .inUse c, d => c == d
  | _, _ => false

/-- function update -/
def upd {β : Type} (f : Nat → β) (k : Nat) (v : β) : Nat → β := fun x => if x = k then v else f x

structure St where
  idle : Key → List Conn := fun _ => []      -- idleConn[key], most recently used at the end
  lru : List Conn := []                       -- idleLRU, newest at the head
  idleWait : Key → List Want := fun _ => []  -- idleConnWait[key], front first
  closeIdle : Bool := false
  cph : Key → Nat := fun _ => 0              -- connsPerHost
  dialWait : Key → List Want := fun _ => []  -- connsPerHostWait
  dip : List Want := []                       -- dialsInProgress
  cancelNil : Want → Bool := fun _ => false  -- w.cancelCtx == nil (dial goroutine finished)
  wkey : Want → Option Key := fun _ => none  -- created wants
  wst : Want → WSt := fun _ => .waiting
  ckey : Conn → Option Key := fun _ => none  -- created connections
  closed : Conn → Bool := fun _ => false     -- pc.closed != nil
  conns : List Conn := []                     -- all created connections (newest first)
  transit : List Conn := []                   -- ghost: held by a pool routine between sections
  dialing : List Want := []                   -- ghost: running dial goroutines (hold a slot)
  dupPanic : Bool := false                    -- "persistConn was already in LRU" / "dup idle pconn"
  underflow : Bool := false                   -- "connCount underflow" panic in decConnsPerHost

inductive PutErr where
  | ok | keepAlivesDisabled | broken | closeIdle | tooManyIdleHost
deriving DecidableEq, Repr

inductive Op where
  | newWant (w : Want) (k : Key)
  | queueIdle (w : Want)
  | queueDial (w : Want)
  | dialBegin (w : Want)
  | dialOk (w : Want) (c : Conn)
  | dialFail (w : Want)
  | dialEnd (w : Want)
  | recv (w : Want)
  | cancel (w : Want)
  | putT (c : Conn)
  | closeT (c : Conn)
  | finishPut (w : Want)
  | finishClose (w : Want)
  | serverCloseIdle (c : Conn)
  | removeIdle (c : Conn)
  | idleTimeout (c : Conn)
  | closeIdleConnections
deriving DecidableEq, Repr

/-- What the real call returns (compared by the unit lane). -/
inductive Out where
  | none
  | bool (b : Bool)
  | put (e : PutErr)
  | ignored            -- op outside the calling protocol
deriving DecidableEq, Repr

/-! ### queue helpers (`wantConnQueue`) -/

/-- `for q.len() > 0 { w := q.popFront(); if <w still waiting> { … break } }` -/
def popUntilWaiting (wst : Want → WSt) : List Want → Option Want × List Want
  | [] => (none, [])
  | w :: q => if wst w = .waiting then (some w, q) else popUntilWaiting wst q

/-- `cleanFrontNotWaiting` -/
def cleanFront (wst : Want → WSt) : List Want → List Want
  | [] => []
  | w :: q => if wst w = .waiting then w :: q else cleanFront wst q

/-- `cleanFrontCanceled` (pops wants whose `cancelCtx` is nil) -/
def cleanCanceled (cancelNil : Want → Bool) : List Want → List Want
  | [] => []
  | w :: q => if cancelNil w then cleanCanceled cancelNil q else w :: q

/-- Scan of `queueForIdleConn` from the most recently used end: broken connections are dropped
from the list, the first usable one is the candidate. Input and remainder are MRU-first. -/
def scanIdle (closed : Conn → Bool) : List Conn → Option Conn × List Conn
  | [] => (none, [])
  | c :: rest => if closed c then scanIdle closed rest else (some c, rest)

/-! ### the critical sections -/

/-- `startDialConnForLocked` -/
def startDial (s : St) (w : Want) : St :=
  { s with dip := cleanCanceled s.cancelNil s.dip ++ [w], dialing := w :: s.dialing }

/-- `decConnsPerHost(key)` -/
def decConns (cfg : Cfg) (s : St) (k : Key) : St :=
  if cfg.maxConnsPerHost ≤ 0 then s
  else if s.cph k = 0 then { s with underflow := true }
  else
    match popUntilWaiting s.wst (s.dialWait k) with
    | (some w, q) => startDial { s with dialWait := upd s.dialWait k q } w
    | (none, q) => { s with dialWait := upd s.dialWait k q, cph := upd s.cph k (s.cph k - 1) }

/-- `persistConn.close(err)`: first close marks the connection and gives its slot back. -/
def closeConn (cfg : Cfg) (s : St) (c : Conn) : St :=
  if s.closed c then s
  else
    match s.ckey c with
    | none => s
    | some k => decConns cfg { s with closed := upd s.closed c true } k

/-- `removeIdleConnLocked(pconn)`; the Bool is `removed`. -/
def removeIdleLocked (s : St) (c : Conn) : St × Bool :=
  match s.ckey c with
  | none => (s, false)
  | some k =>
    let s1 := { s with lru := s.lru.erase c }
    if (s.idle k).contains c then ({ s1 with idle := upd s.idle k ((s.idle k).erase c) }, true)
    else (s1, false)

/-- `oldest := t.idleLRU.removeOldest(); oldest.close(errTooManyIdle); t.removeIdleConnLocked(oldest)` -/
def evictOldest (cfg : Cfg) (s : St) : St :=
  match s.lru.getLast? with
  | none => s
  | some oldest => (removeIdleLocked (closeConn cfg { s with lru := s.lru.dropLast } oldest) oldest).1

/-- Tail of `tryPutIdleConn`: append to the idle list and the LRU, evict above `MaxIdleConns`. -/
def addIdle (cfg : Cfg) (s : St) (c : Conn) (k : Key) : St :=
  let s2 := { s with idle := upd s.idle k (s.idle k ++ [c]), lru := c :: s.lru }
  if cfg.maxIdle ≠ 0 ∧ s2.lru.length > cfg.maxIdle then evictOldest cfg s2 else s2

/-- `tryPutIdleConn(pconn)` for an HTTP/1.1 connection with cache key `k`. -/
def tryPut (cfg : Cfg) (s : St) (c : Conn) (k : Key) : St × PutErr :=
  if cfg.disableKeepAlives || cfg.maxIdlePerHost < 0 then (s, .keepAlivesDisabled)
  else if s.closed c then (s, .broken)
  else
    match popUntilWaiting s.wst (s.idleWait k) with
    | (some w, q) =>
      ({ s with idleWait := upd s.idleWait k q, wst := upd s.wst w (.gotConn c) }, .ok)
    | (none, q) =>
      let s1 := { s with idleWait := upd s.idleWait k q }
      if s1.closeIdle then (s1, .closeIdle)
      else if (s1.idle k).length ≥ cfg.idlePerHost then (s1, .tooManyIdleHost)
      else if (s1.idle k).contains c || s1.lru.contains c then ({ s1 with dupPanic := true }, .ok)
      else (addIdle cfg s1 c k, .ok)

/-- `queueForIdleConn(w)`; the Bool is `delivered`. -/
def queueIdle (cfg : Cfg) (s : St) (w : Want) (k : Key) : St × Bool :=
  if cfg.disableKeepAlives then (s, false)
  else
    let s0 := { s with closeIdle := false }
    match scanIdle s0.closed (s0.idle k).reverse with
    | (some c, rest) =>
      if s0.wst w = .waiting then
        ({ s0 with idle := upd s0.idle k rest.reverse, lru := s0.lru.erase c,
                   wst := upd s0.wst w (.gotConn c) }, true)
      else ({ s0 with idle := upd s0.idle k (c :: rest).reverse }, false)
    | (none, _) =>
      ({ s0 with idle := upd s0.idle k [],
                 idleWait := upd s0.idleWait k (cleanFront s0.wst (s0.idleWait k) ++ [w]) }, false)

/-- `queueForDial(w)` -/
def queueDial (cfg : Cfg) (s : St) (w : Want) (k : Key) : St :=
  if cfg.maxConnsPerHost ≤ 0 then startDial s w
  else if (s.cph k : Int) < cfg.maxConnsPerHost then
    startDial { s with cph := upd s.cph k (s.cph k + 1) } w
  else { s with dialWait := upd s.dialWait k (cleanFront s.wst (s.dialWait k) ++ [w]) }

/-- All connections currently listed idle (for `CloseIdleConnections`). -/
def listedIdle (s : St) : List Conn :=
  s.conns.filter (fun c => match s.ckey c with | some k => (s.idle k).contains c | none => false)

def step (cfg : Cfg) (s : St) : Op → St × Out
  | .newWant w k =>
    match s.wkey w with
    | some _ => (s, .ignored)
    | none => ({ s with wkey := upd s.wkey w (some k) }, .none)
  | .queueIdle w =>
    match s.wkey w with
    | none => (s, .ignored)
    | some k => let r := queueIdle cfg s w k; (r.1, .bool r.2)
  | .queueDial w =>
    match s.wkey w with
    | none => (s, .ignored)
    | some k =>
      if s.dialing.contains w || s.cancelNil w || (s.dialWait k).contains w then (s, .ignored)
      else (queueDial cfg s w k, .none)
  | .dialBegin w =>
    -- dialConnFor: `ctx := w.getCtxForDial(); if ctx == nil { decConnsPerHost; return }`
    match s.wkey w with
    | none => (s, .ignored)
    | some k =>
      if !s.dialing.contains w then (s, .ignored)
      else if s.wst w = .waiting then (s, .bool true)
      else (decConns cfg { s with dialing := s.dialing.erase w } k, .bool false)
  | .dialOk w c =>
    match s.wkey w, s.ckey c with
    | some k, none =>
      if !s.dialing.contains w then (s, .ignored)
      else
        let s1 := { s with ckey := upd s.ckey c (some k), closed := upd s.closed c false,
                           conns := c :: s.conns, dialing := s.dialing.erase w }
        if s.wst w = .waiting then ({ s1 with wst := upd s.wst w (.gotConn c) }, .bool true)
        else ({ s1 with transit := c :: s.transit }, .bool false)
    | _, _ => (s, .ignored)
  | .dialFail w =>
    match s.wkey w with
    | none => (s, .ignored)
    | some k =>
      if !s.dialing.contains w then (s, .ignored)
      else
        let s1 := { s with dialing := s.dialing.erase w }
        let s2 := if s.wst w = .waiting then { s1 with wst := upd s.wst w .gotErr } else s1
        (decConns cfg s2 k, .bool (s.wst w = .waiting))
  | .dialEnd w =>
    if s.dialing.contains w || !s.dip.contains w then (s, .ignored)
    else ({ s with cancelNil := upd s.cancelNil w true }, .none)
  | .recv w =>
    match s.wst w with
    | .gotConn c => ({ s with wst := upd s.wst w (.inUse c) }, .none)
    | .gotErr => ({ s with wst := upd s.wst w .finished }, .none)
    | _ => (s, .ignored)
  | .cancel w =>
    match s.wkey w with
    | none => (s, .ignored)
    | some _ =>
      match s.wst w with
      | .waiting => ({ s with wst := upd s.wst w .canceled }, .none)
      | .gotConn c => ({ s with wst := upd s.wst w .canceled, transit := c :: s.transit }, .none)
      | .gotErr => ({ s with wst := upd s.wst w .canceled }, .none)
      | _ => (s, .ignored)
  | .putT c =>
    match s.ckey c with
    | none => (s, .ignored)
    | some k =>
      if !s.transit.contains c then (s, .ignored)
      else
        let r := tryPut cfg { s with transit := s.transit.erase c } c k
        if r.2 = .ok then (r.1, .put r.2) else ({ r.1 with transit := c :: r.1.transit }, .put r.2)
  | .closeT c =>
    if !s.transit.contains c then (s, .ignored)
    else (closeConn cfg { s with transit := s.transit.erase c } c, .none)
  | .finishPut w =>
    match s.wst w with
    | .inUse c =>
      match s.ckey c with
      | none => (s, .ignored)
      | some k =>
        let r := tryPut cfg { s with wst := upd s.wst w .finished } c k
        if r.2 = .ok then (r.1, .put r.2) else ({ r.1 with transit := c :: r.1.transit }, .put r.2)
    | _ => (s, .ignored)
  | .finishClose w =>
    match s.wst w with
    | .inUse c => (closeConn cfg { s with wst := upd s.wst w .finished } c, .none)
    | _ => (s, .ignored)
  | .serverCloseIdle c =>
    match s.ckey c with
    | none => (s, .ignored)
    | some k => if (s.idle k).contains c then (closeConn cfg s c, .none) else (s, .ignored)
  | .removeIdle c =>
    -- `removeIdleConn` is called by `readLoop`'s exit handler, i.e. after `pc.close(...)`
    match s.ckey c with
    | none => (s, .ignored)
    | some _ =>
      if s.closed c then let r := removeIdleLocked s c; (r.1, .bool r.2) else (s, .ignored)
  | .idleTimeout c =>
    -- closeConnIfStillIdle
    if !s.lru.contains c then (s, .bool false)
    else (closeConn cfg (removeIdleLocked s c).1 c, .bool true)
  | .closeIdleConnections =>
    ({ s with transit := listedIdle s ++ s.transit, idle := fun _ => [], lru := [], closeIdle := true }, .none)

def run (cfg : Cfg) : St → List Op → St
  | s, [] => s
  | s, op :: ops => run cfg (step cfg s op).1 ops

/-- Outputs along the way (for the correspondence lane). -/
def runOut (cfg : Cfg) : St → List Op → List Out
  | _, [] => []
  | s, op :: ops => let r := step cfg s op; r.2 :: runOut cfg r.1 ops

end Req.Pool.H1Pool
