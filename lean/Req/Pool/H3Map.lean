/-!
# The HTTP/3 client cache of `internal/http3.RoundTripper` as a state machine (C09)

HTTP/3 needs no demultiplexer in the library: every request opens its OWN QUIC stream
(`conn.OpenRequestStream`) and reads its response from that stream object; QUIC routes the bytes.
What the library decides is WHICH connection a request travels on: `RoundTripper.clients :
hostname ↦ *roundTripperWithCount` under `r.mutex`, with `useCount` = requests currently holding
the client.

State: the map, and per client (a `roundTripperWithCount` object, identified by a number) the
host it was dialled for, whether the dial goroutine has finished (`dialing` closed) and how
(`dialErr`), whether the connection is dead (`conn.Context().Err() != nil`), whether `Close` was
called on it, and `useCount`.  Ghost: per request the host it asked for and the client it was
given.

Ops = critical sections / atomic steps of `getClient` (under `r.mutex`: look up, drop a finished
client whose dial failed or whose connection died, register a new dialling client, `useCount++`),
the dial goroutine finishing, a connection dying, the request giving up while the dial runs
(`useCount--`), a waiter starting over after the dial was cancelled together with the request
that started it (`shouldRetryDial`), `removeClient(hostname)` after a failed dial or a connection-level error of
`RoundTrip` (it deletes whatever is registered for the host NOW), the request finishing
(`useCount--`), `CloseIdleConnections` (closes and drops the clients with `useCount == 0`),
`Close`.
-/
namespace Req.Pool.H3Map

abbrev Host := Nat
abbrev Client := Nat
abbrev Req := Nat

/-- `cancelled`: the dial failed with the context error of the request that started it (that
request gave up) — requests still waiting for it dial again (`shouldRetryDial`, /repo 76fa6b6). -/
inductive Dial where
  | running | ok | failed | cancelled
deriving DecidableEq, Repr

structure Cl where
  host : Option Nat := none     -- created for this host (none = not created yet)
  dial : Dial := .running
  dead : Bool := false           -- conn.Context().Err() != nil
  closedByUs : Bool := false     -- roundTripperWithCount.Close() was called
  useCount : Int := 0
  creator : Nat := 0             -- ghost: the request whose getClient created it (its context is the dial's)
deriving Repr

inductive RSt where
  | fresh                         -- not started
  | holding (c : Nat)          -- getClient returned c; useCount was incremented for it
  | over                          -- returned (response or error); useCount given back
deriving DecidableEq, Repr

def upd {β : Type} (f : Nat → β) (k : Nat) (v : β) : Nat → β := fun x => if x = k then v else f x

structure St where
  clients : List (Nat × Nat) := []     -- r.clients (at most one entry per host)
  cl : Nat → Cl := fun _ => {}
  next : Nat := 0                       -- ghost: number of clients created
  rhost : Nat → Option Nat := fun _ => none
  rst : Nat → RSt := fun _ => .fresh
  reqs : List Nat := []                    -- ghost: requests that called getClient successfully

inductive Op where
  /-- `getClient(ctx, host, onlyCached)` for request `r` -/
  | get (r : Nat) (h : Nat) (onlyCached : Bool)
  /-- the dial goroutine of client `c` finishes (`res` ≠ running) -/
  | dialDone (c : Nat) (res : Dial)
  /-- the dial `r` waited for was cancelled with its creator: `r` starts over (`RoundTripOpt` again) -/
  | retryDial (r : Nat)
  /-- the QUIC connection of `c` dies (peer, idle timeout, error) -/
  | connDies (c : Nat)
  /-- the request's context ends while the dial is still running: `useCount--`, return -/
  | giveUp (r : Nat)
  /-- the dial failed: `removeClient(hostname)`, return the error -/
  | dialFailed (r : Nat)
  /-- `cl.rt.RoundTrip` returned; `connErr`: a non-cancellation error ⇒ `removeClient(hostname)` -/
  | finish (r : Nat) (connErr : Bool)
  | closeIdle
  | close
deriving DecidableEq, Repr

inductive Out where
  | none | got (c : Nat) (created : Bool) | noCached | dialErr | ignored
deriving DecidableEq, Repr

def erase (m : List (Nat × Nat)) (h : Nat) : List (Nat × Nat) := m.filter (fun p => p.1 ≠ h)

def addUse (s : St) (c : Nat) (d : Int) : St :=
  { s with cl := upd s.cl c { s.cl c with useCount := (s.cl c).useCount + d } }

/-- the first part of `getClient`: a cached client whose dial has finished and failed, or whose
connection has died, is forgotten -/
def dropStale (s : St) (h : Nat) : St :=
  match s.clients.lookup h with
  | some c =>
    let x := s.cl c
    if x.dial = .failed ∨ x.dial = .cancelled ∨ (x.dial = .ok ∧ x.dead = true) then
      { s with clients := erase s.clients h } else s
  | none => s

def step (s : St) : Op → St × Out
  | .get r h onlyCached =>
    if s.rst r ≠ .fresh then (s, .ignored)
    else
      let s1 := dropStale s h
      match s1.clients.lookup h with
      | some c =>
        -- (a client whose dial has failed was dropped above, so the second `select` passes)
        let s2 := addUse s1 c 1
        ({ s2 with rhost := upd s2.rhost r (some h), rst := upd s2.rst r (.holding c), reqs := r :: s2.reqs },
         .got c false)
      | none =>
        if onlyCached then (s1, .noCached)
        else
          let c := s1.next
          let s2 := { s1 with clients := (h, c) :: s1.clients, next := c + 1,
                              cl := upd s1.cl c { host := some h, useCount := 1, creator := r } }
          ({ s2 with rhost := upd s2.rhost r (some h), rst := upd s2.rst r (.holding c), reqs := r :: s2.reqs },
           .got c true)
  | .dialDone c res =>
    let x := s.cl c
    if x.host.isNone ∨ x.dial ≠ .running ∨ res = .running then (s, .ignored)
    else ({ s with cl := upd s.cl c { x with dial := res } }, .none)
  | .retryDial r =>
    match s.rst r with
    | .holding c =>
      if (s.cl c).dial ≠ .cancelled ∨ (s.cl c).creator = r then (s, .ignored)
      else
        -- back to the start of `RoundTripOpt`; the old client's `useCount` is not given back
        ({ s with rst := upd s.rst r .fresh, reqs := s.reqs.erase r }, .none)
    | _ => (s, .ignored)
  | .connDies c =>
    let x := s.cl c
    if x.dial ≠ .ok then (s, .ignored)
    else ({ s with cl := upd s.cl c { x with dead := true } }, .none)
  | .giveUp r =>
    match s.rst r with
    | .holding c =>
      if (s.cl c).dial ≠ .running then (s, .ignored)
      else ({ addUse s c (-1) with rst := upd s.rst r .over }, .none)
    | _ => (s, .ignored)
  | .dialFailed r =>
    match s.rst r, s.rhost r with
    | .holding c, some h =>
      if (s.cl c).dial ≠ .failed then (s, .ignored)
      else
        -- NB: `useCount` is not given back on this path (the client is dropped anyway)
        ({ s with clients := erase s.clients h, rst := upd s.rst r .over }, .dialErr)
    | _, _ => (s, .ignored)
  | .finish r connErr =>
    match s.rst r, s.rhost r with
    | .holding c, some h =>
      if (s.cl c).dial ≠ .ok then (s, .ignored)
      else
        let s1 := if connErr then { s with clients := erase s.clients h } else s
        ({ addUse s1 c (-1) with rst := upd s1.rst r .over }, .none)
    | _, _ => (s, .ignored)
  | .closeIdle =>
    let idle := s.clients.filter (fun p => (s.cl p.2).useCount = 0)
    ({ s with clients := s.clients.filter (fun p => (s.cl p.2).useCount ≠ 0),
              cl := fun c => if idle.any (fun p => p.2 = c) then { s.cl c with closedByUs := true } else s.cl c },
     .none)
  | .close =>
    ({ s with clients := [],
              cl := fun c => if s.clients.any (fun p => p.2 = c) then { s.cl c with closedByUs := true } else s.cl c },
     .none)

def run : St → List Op → St
  | s, [] => s
  | s, op :: ops => run (step s op).1 ops

def runOut : St → List Op → List Out
  | _, [] => []
  | s, op :: ops => let r := step s op; r.2 :: runOut r.1 ops

end Req.Pool.H3Map
