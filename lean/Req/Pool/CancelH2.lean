import Req.Pool.Cancel
/-!
# The HTTP/2 request lifecycle under cancellation (C08, refinement of `Req/Pool/Cancel.lean`)

One request = one `clientStream` on a shared `ClientConn` (internal/http2/transport.go), worked on by

* the **caller** goroutine in `ClientConn.roundTrip`: the select on `cs.respHeaderRecv` / `cs.abort` /
  `ctx.Done()`, `handleResponseHeaders`, `cancelRequest` (wait for the request body to be closed),
  `waitDone`;
* the **writer** goroutine `cs.doRequest` = `writeRequest` (wait for `cc.reqHeaderMu`, wait for a
  MAX_CONCURRENT_STREAMS slot in `awaitOpenSlotForStreamLocked`, `encodeAndWriteHeaders`, the
  100-continue wait, `writeRequestBody`: `body.Read` → `awaitFlowControl` → DATA …, END_STREAM, the
  final select on `cs.peerClosed` / `cs.abort` / `ctx.Done()`) followed by `cleanupWriteRequest`
  (claim + close the request body, wait for it to be closed, RST_STREAM rule, `abortStream`,
  `bufPipe.CloseWithError`, `forgetStreamID`, `close(cs.donec)`);
* the **closer** goroutine started by `closeReqBodyLocked` (from `abortStreamLocked`);
* the read loop / the peer / timers / the request body as ENVIRONMENT (`Ev`).

State = the program counters of caller and writer plus the `clientStream` fields they communicate
through. `Act` = one step of one of these goroutines that needs neither the peer nor a timer.
The model abstracts the number of body chunks (the writer loops `bodyRead → flow → data`) and
keeps what the property speaks about: the error the caller gets, how often the request body is
closed, which RST_STREAM frames are written, whether a DATA frame can still be started after the
cancellation, whether the stream slot is given back.

`cleanupRule` is the RST decision of `cleanupWriteRequest` as a table; `flowDecision` is
`awaitFlowControl`'s loop body; both are exercised against the real functions by the in-package
lane `TestVerif_C08_h2unit`, the step relation by the frame-script lane `TestVerif_C08_h2life`.
-/
namespace Req.CancelH2
open Req.Cancel

/-- RST_STREAM codes the model distinguishes -/
inductive Code | cancel | noError | local
  deriving DecidableEq, Repr, Inhabited

/-- what `writeRequest` returned / what `cs.abortErr` holds -/
inductive WErr
  | nil                  -- request written, response read, peer half-closed
  | ctx (e : CtxErr)     -- ctx.Err()
  | fromPeer             -- StreamError{Cause: errFromPeer}: the peer reset the stream
  | streamLocal          -- StreamError raised on our side (read loop found a protocol error)
  | closedBody           -- errClosedResponseBody: the caller closed the response body
  | other                -- write error, body read error, errReqBodyTooLong, h2 timeout, conn lost …
  deriving DecidableEq, Repr, Inhabited

/-! ## 1. The RST_STREAM rule of `cleanupWriteRequest` -/

structure CleanupIn where
  err : WErr
  sentHeaders : Bool
  sentEndStream : Bool
  peerClosed : Bool
  deriving DecidableEq, Repr

/-- `if err != nil && cs.sentEndStream { select { case <-cs.peerClosed: err = nil; default: } }` -/
def CleanupIn.effErr (i : CleanupIn) : WErr :=
  if i.err ≠ .nil ∧ i.sentEndStream ∧ i.peerClosed then .nil else i.err

/-- the RST_STREAM frame `cleanupWriteRequest` writes, if any -/
def cleanupRule (i : CleanupIn) : Option Code :=
  match i.effErr with
  | .nil => if i.sentHeaders ∧ ¬ i.sentEndStream then some .noError else none
  | .fromPeer => none
  | .streamLocal => if i.sentHeaders then some .local else none
  | _ => if i.sentHeaders then some .cancel else none

/-! ## 2. `awaitFlowControl`, one round of its loop -/

structure FlowIn where
  connClosed : Bool
  bodyClaimed : Bool     -- cs.reqBodyClosed != nil
  aborted : Bool         -- cs.abort closed
  ctxDone : Bool
  avail : Nat            -- cs.flow.available()
  maxBytes : Nat
  maxFrame : Nat
  deriving DecidableEq, Repr

inductive FlowOut
  | connClosed | stop | abortErr | ctxErr
  | take (n : Nat)
  | wait
  deriving DecidableEq, Repr

def flowDecision (i : FlowIn) : FlowOut :=
  if i.connClosed then .connClosed
  else if i.bodyClaimed then .stop
  else if i.aborted then .abortErr
  else if i.ctxDone then .ctxErr
  else if 0 < i.avail then .take (min (min i.avail i.maxBytes) i.maxFrame)
  else .wait

/-! ## 3. The lifecycle -/

/-- program counter of the writer goroutine (`doRequest`) -/
inductive WPc
  | hdrMu | slot | headers | cont | bodyRead | flow | data | endStream | peer
  | cleanup (e : WErr)       -- `cleanupWriteRequest(e)`: before the body claim
  | cuClose (e : WErr)       -- claimed the body itself, about to `reqBody.Close()`
  | cuWait (e : WErr)        -- `<-bodyClosed`
  | done
  deriving DecidableEq, Repr, Inhabited

/-- what `roundTrip` returned -/
inductive Ret | resp | err (e : WErr)
  deriving DecidableEq, Repr, Inhabited

/-- program counter of the caller in `ClientConn.roundTrip` -/
inductive RPc
  | select
  | waitBody (e : CtxErr)   -- `cancelRequest`: `<-bodyClosed`
  | waitDone                -- `<-cs.abort` taken: `waitDone()`
  | hdrWaitDone             -- `handleResponseHeaders` with no bodies: `waitDone()`
  | returned (r : Ret)
  deriving DecidableEq, Repr, Inhabited

structure St where
  hasBody : Bool := false
  expect : Bool := false             -- Expect: 100-continue and ExpectContinueTimeout != 0
  respNoBody : Bool := false         -- the response will have no body (END_STREAM on HEADERS)
  ctx : Option CtxErr := none
  abort : Option WErr := none        -- cs.abortErr once cs.abort is closed (abortOnce)
  claimed : Bool := false            -- cs.reqBodyClosed != nil
  closer : Bool := false             -- goroutine of closeReqBodyLocked in flight
  closedCh : Bool := false           -- cs.reqBodyClosed is closed
  closes : Nat := 0                  -- reqBody.Close() calls
  hasID : Bool := false              -- in cc.streams: holds a MAX_CONCURRENT_STREAMS slot
  hdrMuHeld : Bool := false          -- holds cc.reqHeaderMu
  sentHeaders : Bool := false
  sentEnd : Bool := false
  respHdr : Bool := false            -- cs.respHeaderRecv closed
  peerClosed : Bool := false
  pipeErr : Bool := false            -- response bufPipe closed with an error
  donec : Bool := false
  rsts : List Code := []             -- RST_STREAM frames written for this stream
  dataWrites : Nat := 0              -- DATA frames written
  cu : Option CleanupIn := none      -- what cleanupWriteRequest decided on (ghost)
  wpc : WPc := .hdrMu
  rpc : RPc := .select
  deriving DecidableEq, Repr, Inhabited

def errOfCtx (s : St) : WErr :=
  match s.abort, s.ctx with
  | some a, _ => a          -- `case <-cs.abort: return cs.abortErr` and the ctx case are both ready:
  | none, some e => .ctx e  -- either way the error is the cancellation (see `Act.wExit`)
  | none, none => .other

/-- `abortStreamLocked(err)`: `abortOnce`, `closeReqBodyLocked`, `cond.Broadcast` -/
def abortStream (s : St) (e : WErr) : St :=
  let s := { s with abort := s.abort.or (some e) }
  if s.hasBody ∧ ¬ s.claimed then { s with claimed := true, closer := true } else s

inductive Act
  -- writer
  | wHdrMuCancel     -- select on reqHeaderMu: `<-ctx.Done()`
  | wSlotAbort       -- awaitOpenSlotForStreamLocked woken: `<-cs.abort`
  | wHeaders         -- encodeAndWriteHeaders: abort/ctx check, else HEADERS
  | wContCancel      -- 100-continue wait: `<-cs.abort` / `<-ctx.Done()`
  | wReadChunk       -- body.Read returns data (model assumption: reads of the request body return)
  | wReadEOF         -- body.Read returns io.EOF
  | wBodyStop        -- body.Read fails on the closed body → errStopReqBodyWrite
  | wFlowExit        -- awaitFlowControl: claimed → stop; abort / ctx → error
  | wData            -- the DATA frame whose tokens were taken is written
  | wEndStream       -- after EOF: abortErr check, else END_STREAM
  | wPeerDone        -- final select: `<-cs.peerClosed`
  | wPeerAbort       -- final select: `<-cs.abort` / `<-ctx.Done()`
  | wCleanupClaim    -- cleanupWriteRequest: reservation, body claim
  | wCleanupClose    -- cleanupWriteRequest: reqBody.Close(); close(bodyClosed)
  | wCleanupFinish   -- `<-bodyClosed`; RST rule; abortStream; pipe; forgetStreamID; close(donec)
  -- caller
  | rHeaders         -- `<-cs.respHeaderRecv` (also when `<-cs.abort` is ready too)
  | rAbort           -- `<-cs.abort` with no response headers
  | rCtx             -- `<-ctx.Done()`: abortStream(ctx.Err())
  | rWaitBody        -- cancelRequest: body closed → return the ctx error
  | rWaitDone        -- waitDone(): donec / ctx → return cs.abortErr
  | rHdrWaitDone     -- handleResponseHeaders' waitDone()
  -- closer
  | closerRun
  deriving DecidableEq, Repr

def allActs : List Act :=
  [.wHdrMuCancel, .wSlotAbort, .wHeaders, .wContCancel, .wReadChunk, .wReadEOF, .wBodyStop, .wFlowExit, .wData, .wEndStream,
   .wPeerDone, .wPeerAbort, .wCleanupClaim, .wCleanupClose, .wCleanupFinish,
   .rHeaders, .rAbort, .rCtx, .rWaitBody, .rWaitDone, .rHdrWaitDone, .closerRun]

def cancelled (s : St) : Bool := s.abort.isSome || s.ctx.isSome

def guard (s : St) : Act → Bool
  | .wHdrMuCancel => s.wpc == .hdrMu && s.ctx.isSome
  | .wSlotAbort => s.wpc == .slot && s.abort.isSome
  | .wHeaders => s.wpc == .headers
  | .wContCancel => s.wpc == .cont && cancelled s
  | .wReadChunk => s.wpc == .bodyRead && s.closes == 0
  | .wReadEOF => s.wpc == .bodyRead && s.closes == 0
  | .wBodyStop => s.wpc == .bodyRead && s.claimed && s.closedCh
  | .wFlowExit => s.wpc == .flow && (s.claimed || cancelled s)
  | .wData => s.wpc == .data
  | .wEndStream => s.wpc == .endStream
  | .wPeerDone => s.wpc == .peer && s.peerClosed
  | .wPeerAbort => s.wpc == .peer && cancelled s
  | .wCleanupClaim => match s.wpc with | .cleanup _ => true | _ => false
  | .wCleanupClose => match s.wpc with | .cuClose _ => true | _ => false
  | .wCleanupFinish => (match s.wpc with | .cuWait _ => true | _ => false) && (!s.claimed || s.closedCh)
  | .rHeaders => s.rpc == .select && s.respHdr
  | .rAbort => s.rpc == .select && s.abort.isSome && !s.respHdr
  | .rCtx => s.rpc == .select && s.ctx.isSome
  | .rWaitBody => (match s.rpc with | .waitBody _ => true | _ => false) && (!s.claimed || s.closedCh)
  | .rWaitDone => s.rpc == .waitDone && (s.donec || s.ctx.isSome)
  | .rHdrWaitDone => s.rpc == .hdrWaitDone && (s.donec || s.ctx.isSome)
  | .closerRun => s.closer

/-- leave `writeRequest` with `e`; the `reqHeaderMu` token goes back -/
def toCleanup (s : St) (e : WErr) : St := { s with wpc := .cleanup e, hdrMuHeld := false }

def apply (s : St) : Act → St
  | .wHdrMuCancel => toCleanup s (errOfCtx s)
  | .wSlotAbort => toCleanup s (errOfCtx s)
  | .wHeaders =>
    if cancelled s then toCleanup s (errOfCtx s)
    else
      let s := { s with sentHeaders := true, hdrMuHeld := false }
      if !s.hasBody then { s with sentEnd := true, wpc := .peer }
      else if s.expect then { s with wpc := .cont }
      else { s with wpc := .bodyRead }
  | .wContCancel => toCleanup s (errOfCtx s)
  | .wReadChunk => { s with wpc := .flow }
  | .wReadEOF => { s with wpc := .endStream }
  | .wBodyStop => { s with wpc := .peer }
  | .wFlowExit => if s.claimed then { s with wpc := .peer } else toCleanup s (errOfCtx s)
  | .wData => { s with dataWrites := s.dataWrites + 1, wpc := .bodyRead }
  | .wEndStream =>
    match s.abort with
    | some a => toCleanup s a
    | none => { s with sentEnd := true, wpc := .peer }
  | .wPeerDone => toCleanup s .nil
  | .wPeerAbort => toCleanup s (errOfCtx s)
  | .wCleanupClaim =>
    match s.wpc with
    | .cleanup e =>
      if s.hasBody ∧ ¬ s.claimed then { s with claimed := true, wpc := .cuClose e }
      else { s with wpc := .cuWait e }
    | _ => s
  | .wCleanupClose =>
    match s.wpc with
    | .cuClose e => { s with closes := s.closes + 1, closedCh := true, wpc := .cuWait e }
    | _ => s
  | .wCleanupFinish =>
    match s.wpc with
    | .cuWait e =>
      let i : CleanupIn := ⟨e, s.sentHeaders, s.sentEnd, s.peerClosed⟩
      let s := if i.effErr ≠ .nil then abortStream s i.effErr else s
      { s with cu := some i, rsts := s.rsts ++ (cleanupRule i).toList,
               pipeErr := true, hasID := false, donec := true, wpc := .done }
    | _ => s
  | .rHeaders =>
    if s.respNoBody ∧ ¬ s.hasBody then { s with rpc := .hdrWaitDone } else { s with rpc := .returned .resp }
  | .rAbort => { s with rpc := .waitDone }
  | .rCtx =>
    match s.ctx with
    | some e => { abortStream s (.ctx e) with rpc := .waitBody e }
    | none => s
  | .rWaitBody =>
    match s.rpc with
    | .waitBody e => { s with rpc := .returned (.err (.ctx e)) }
    | _ => s
  | .rWaitDone => { s with rpc := .returned (.err (s.abort.getD .other)) }
  | .rHdrWaitDone =>
    if s.donec then { s with rpc := .returned .resp }
    else { s with rpc := .returned (.err (errOfCtx { s with abort := none })) }
  | .closerRun => { s with closer := false, closes := s.closes + 1, closedCh := true }

/-! ### environment -/

inductive Ev
  | cancel (e : CtxErr)
  | hdrMuFree        -- `cc.reqHeaderMu <- struct{}{}` succeeds
  | slotFree         -- a MAX_CONCURRENT_STREAMS slot is free: addStreamLocked
  | continue100      -- "100 Continue" arrives / ExpectContinueTimeout fires
  | flowTake         -- awaitFlowControl finds tokens and takes some
  | peerHeaders      -- response HEADERS processed by the read loop
  | peerEnd          -- END_STREAM processed: `close(cs.peerClosed)`
  | peerRst          -- RST_STREAM processed: abortStream(StreamError{Cause: errFromPeer})
  | callerClose      -- the caller closes the response body: abortStream(errClosedResponseBody)
  deriving DecidableEq, Repr

def evGuard (s : St) : Ev → Bool
  | .cancel _ => s.ctx.isNone
  | .hdrMuFree => s.wpc == .hdrMu
  | .slotFree => s.wpc == .slot && s.abort.isNone
  | .continue100 => s.wpc == .cont
  | .flowTake => s.wpc == .flow && !s.claimed && !cancelled s
  | .peerHeaders => s.sentHeaders && !s.respHdr && !s.donec && s.abort.isNone
  | .peerEnd => s.respHdr && !s.peerClosed && !s.donec && s.abort.isNone
  | .peerRst => s.sentHeaders && !s.donec && !s.peerClosed
  | .callerClose => (s.rpc == .returned .resp) && !s.donec

def evApply (s : St) : Ev → St
  | .cancel e => { s with ctx := some e }
  | .hdrMuFree => { s with wpc := .slot, hdrMuHeld := true }
  | .slotFree => { s with wpc := .headers, hasID := true }
  | .continue100 => { s with wpc := .bodyRead }
  | .flowTake => { s with wpc := .data }
  | .peerHeaders =>
    if s.respNoBody then { s with respHdr := true, peerClosed := true } else { s with respHdr := true }
  | .peerEnd => { s with peerClosed := true }
  | .peerRst => abortStream s .fromPeer
  | .callerClose => abortStream s .closedBody

def init (hasBody expect respNoBody : Bool) : St :=
  { hasBody := hasBody, expect := expect && hasBody, respNoBody := respNoBody }

inductive Reach : St → Prop
  | init (b e n) : Reach (init b e n)
  | ev {s} (e : Ev) : Reach s → evGuard s e = true → Reach (evApply s e)
  | act {s} (a : Act) : Reach s → guard s a = true → Reach (apply s a)

inductive Run : St → List Act → St → Prop
  | nil (s) : Run s [] s
  | cons {s a as s'} : guard s a = true → Run (apply s a) as s' → Run s (a :: as) s'

def stuck (s : St) : Bool := allActs.all fun a => !guard s a

def internalSuccs (s : St) : List St := (allActs.filter (guard s)).map (apply s)

/-- all states in which internal runs from `s` get stuck (exhaustive exploration, driver) -/
def finals : Nat → St → List St
  | 0, s => [s]
  | fuel + 1, s =>
    match internalSuccs s with
    | [] => [s]
    | l => l.flatMap (finals fuel)

/-- everything the request held is given back -/
def released (s : St) : Bool :=
  s.wpc == .done && s.donec && !s.closer && !s.hasID && !s.hdrMuHeld &&
  (match s.rpc with | .returned _ => true | _ => false) &&
  (!s.hasBody || (s.closes == 1 && s.closedCh))

/-- abstraction to the protocol-independent lifecycle's resource record -/
def absRes (s : St) : Res :=
  { bodyOpen := s.hasBody && s.closes == 0
    closes := s.closes
    closing := s.closer
    writer := s.wpc != .done
    stream := if s.hasID then (if s.sentHeaders then .open else .none)
              else if s.rsts ≠ [] then .reset else if s.donec then .closed else .none
    conn := if s.hasID then .owned else if s.donec then .pooled else .none
    connErr := match s.abort with | some (.ctx e) => some e | _ => none
    rtAbort := match s.rpc with | .waitBody _ => true | .returned (.err (.ctx _)) => true | _ => false
    pipeErr := s.pipeErr }

end Req.CancelH2
