import Req.Pool.Tls
/-!
# C12 — the dial paths: who makes the TLS handshake with the origin, with which
configuration, and what the user hooks are handed

The three `Stack`s of `Req.Pool.TLS` are reached through four dial paths:

| `DialPath` | code |
|---|---|
| `h1Direct` | `Transport.dialConn`, `cm.proxyURL = nil`: `customDialTLS(cm.addr())`, else `customTlsHandshake(firstTLSHost)`, else `addTLS(firstTLSHost)` (transport.go l.2106-2155) |
| `h1Tunnel` | `Transport.dialConn` behind an HTTP proxy (CONNECT) or a SOCKS5 proxy: after the tunnel is up `customTlsHandshake(cm.tlsHost())`, else `addTLS(cm.tlsHost())` (l.2272-2283); `DialTLSContext` is NOT consulted for the origin |
| `h2Own` | `http2.Transport.dialClientConn` → `dialTLS` → `DialTLSContext(addr)`, else `dialTLSWithContext`: `TLSHandshakeContext(firstTLSHost)`, else `tls.Dialer{Config: newTLSConfig(host)}` (internal/http2/transport.go l.584-701): forced HTTP/2 and every re-dial made inside t2 |
| `h3Quic` | `http3.RoundTripper.dial` (internal/http3/roundtrip.go l.352): no hook at all |

* `handshakeGiven` / `dialTLSGiven`: the `addr` argument of `TLSHandshakeContext` (the bare
  host on every path) and of `DialTLSContext` (`host:port`).
* `Hooks`, `governs`: which of {the client's `tls.Config`, the library's uTLS fingerprint
  handshake, a user handshake function, a user TLS dialer} makes the handshake on a path.
  The two user functions are the documented escape hatches: the hypothesis boundary of the
  uniformity theorems.
* `effectiveFp`: the `utls.Config` the closure installed by `Client.SetTLSFingerprint`
  (client.go l.1197) builds from the client's `tls.Config`, parametrised by the list of
  fields it copies (regenerated fact `Generated.C12Facts.fpCopied`).
* `pathCfg`: the configuration in force on a path when no user function governs.
-/
namespace Req.Pool.TLS
open Req.Pool.Dispatch (Alpn h2Protos)

inductive DialPath | h1Direct | h1Tunnel | h2Own | h3Quic
  deriving DecidableEq, Repr

def DialPath.stack : DialPath → Stack
  | .h1Direct => .h1
  | .h1Tunnel => .h1
  | .h2Own => .h2
  | .h3Quic => .h3

/-- The authority as a hook receives it: the bare host, or `host:port`. -/
inductive Given
  | bare (host : Nat)
  | withPort (host : Nat)
  deriving DecidableEq, Repr

/-- `addr` of `TLSHandshakeContext(ctx, addr, plainConn)`: `firstTLSHost` (`net.SplitHostPort`
of the dialled address) resp. `cm.tlsHost()`; `none` = the hook is not consulted on the path. -/
def handshakeGiven (host : Nat) : DialPath → Option Given
  | .h3Quic => none
  | _ => some (.bare host)

/-- `addr` of `DialTLSContext(ctx, network, addr)`. -/
def dialTLSGiven (host : Nat) : DialPath → Option Given
  | .h1Direct => some (.withPort host)
  | .h2Own => some (.withPort host)
  | _ => none

/-- What `Options.TLSHandshakeContext` holds. -/
inductive HsKind
  | fingerprint   -- the closure of `Client.SetTLSFingerprint*` (uTLS)
  | user          -- `Client.SetTLSHandshake(fn)`
  deriving DecidableEq, Repr

structure Hooks where
  dialTLS : Bool                -- Options.DialTLSContext ≠ nil (`SetDialTLS`)
  handshake : Option HsKind
  deriving DecidableEq, Repr

inductive Governs
  | clientConfig    -- crypto/tls with the configuration the stack builds (`effective`)
  | fingerprint     -- uTLS with the configuration the closure builds (`effectiveFp`)
  | userHandshake   -- escape hatch
  | userDialTLS     -- escape hatch
  deriving DecidableEq, Repr

def hsGoverns : Option HsKind → Governs
  | none => .clientConfig
  | some .fingerprint => .fingerprint
  | some .user => .userHandshake

/-- Precedence on each path: a TLS dialer before a handshake function before the built-in
handshake; behind a proxy no TLS dialer; on QUIC nothing but the client's configuration. -/
def governs (h : Hooks) : DialPath → Governs
  | .h3Quic => .clientConfig
  | .h1Tunnel => hsGoverns h.handshake
  | _ => if h.dialTLS then .userDialTLS else hsGoverns h.handshake

/-- The fields of the client's `tls.Config` that matter here. -/
inductive FpField | serverName | rootCAs | insecureSkipVerify | certificates | nextProtos
  deriving DecidableEq, Repr

def stripPort : Given → Nat
  | .bare h => h
  | .withPort h => h

/-- The `utls.Config` of the fingerprint closure: `c.GetTLSClientConfig()` (created when nil),
each field copied when the closure copies it (`copied`), else the `utls.Config` zero value;
`ServerName` falls back to the host part of the `addr` it is given (it strips a port itself).
The ALPN list is the PRESET's, not the client's: utls overwrites `Config.NextProtos` with
the ALPN extension of the ClientHello spec (u_tls_extensions.go `ALPNExtension.writeToUConn`) —
`h2, http/1.1` for every browser preset (external, sampled by lane `c12path`). -/
def effectiveFp (copied : List FpField) (g : Given) (read : Option TlsCfg) : TlsCfg :=
  let c := getCfg read
  { serverName := if copied.contains .serverName && c.serverName != 0 then c.serverName else stripPort g
    insecure := copied.contains .insecureSkipVerify && c.insecure
    roots := if copied.contains .rootCAs then c.roots else none
    certs := if copied.contains .certificates then c.certs else []
    protos := [.h2, .http11] }

/-- All the fields verification and client authentication look at. -/
def fpVerifyFields : List FpField := [.serverName, .rootCAs, .insecureSkipVerify, .certificates]

def fpCovers (copied : List FpField) : Bool := fpVerifyFields.all (copied.contains ·)

/-- The closure as it is in the un-repaired tree: server name and client certificates are not
taken from the client's configuration (finding class `fingerprint-ignores-servername-certs`). -/
def fpCopiedUnpatched : List FpField := [.rootCAs, .nextProtos, .insecureSkipVerify]

/-- The configuration in force for a new connection on path `p` — `none` when one of the
user's functions governs (nothing is promised then). -/
def pathCfg (copied : List FpField) (h : Hooks) (p : DialPath) (onlyH1 : Bool) (host : Nat)
    (read : Option TlsCfg) : Option TlsCfg :=
  match governs h p with
  | .clientConfig => some (effective p.stack onlyH1 host read)
  | .fingerprint =>
    match handshakeGiven host p with
    | some g => some (effectiveFp copied g read)
    | none => some (effective p.stack onlyH1 host read)
  | _ => none

/-- A user handshake function that takes `addr` at its documented meaning — the name to verify
the peer against — with its own trust decision `trustOK`. -/
def hookAccepts (trustOK : Bool) (names : List Nat) : Given → Bool
  | .bare h => trustOK && names.contains h
  | .withPort _ => false

end Req.Pool.TLS
