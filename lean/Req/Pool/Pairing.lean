/-!
# Per-connection request/response pairing of an HTTP/1.1 `persistConn` (C09)

One connection: `roundTrip` increments `numExpectedResponses` and hands the request to
`writeLoop` (`writech`) and to `readLoop` (`reqch`); `readLoop` takes the next `requestAndChan`
from `reqch` for every response it reads, delivers the response to THAT request's channel, then
waits for the body (`waitForBodyRead`) and only at body EOF — with the request fully written,
no EOF seen from the peer and keep-alive allowed — calls `tryPutIdleConn`; everything else ends
the loop and closes the connection.

`avail` is the interface with the pool: the pool hands the connection to a request only when
it is fresh or was put back (`H1Pool`: a connection is idle-listed or delivered, never both).
Ops outside that protocol (`start` while not available) are ignored.

The peer's side of the byte stream is the ghost `wire`: complete responses that have arrived and
were not read yet, each labelled with the request the peer meant it for (`some r`: the answer to
the oldest unanswered request `r`; `none`: unsolicited bytes — a duplicated response, a response
nobody asked for, garbage).  `readHead` consumes the head of the wire and records in `got` which
label went to which request.  At the top of `readLoop`, `Peek` returning with
`numExpectedResponses == 0` (`peekIdle`: bytes nobody asked for; `peekFail`: EOF / error) ends in
`readLoopPeekFailLocked`: the connection is closed ("Unsolicited response received on idle HTTP
channel"), the bytes reach no caller.  The ghost `tainted` records the two situations no client
can repair: unsolicited bytes arriving while a response head is awaited, and the pool handing the
connection out after unsolicited bytes arrived but before the read loop saw them (a race that
exists in net/http as well).
-/
namespace Req.Pool.Pairing

inductive Phase where
  | peeking                         -- top of readLoop: `pc.br.Peek(1)`
  | body (r : Nat) (keep : Bool)    -- response delivered to request r, waiting for its body
  | closed                          -- readLoop exited, connection closed
deriving DecidableEq, Repr

inductive Ev where
  | started (r : Nat)
  | head (r idx : Nat) (hasBody : Bool)   -- response number idx delivered to request r
  | eof (r : Nat)                          -- body of r read to EOF
  | put                                    -- tryPutIdleConn succeeded: back in the pool
  | putRefused                             -- tryPutIdleConn returned an error
  | close
deriving DecidableEq, Repr

structure St where
  numExpected : Nat := 0
  reqch : List Nat := []        -- requests handed to readLoop, not yet taken
  started : List Nat := []      -- all requests written on this connection, in order
  reads : Nat := 0              -- responses read so far
  consumed : Nat := 0           -- responses fully consumed (no body, or body read to EOF)
  pairs : List (Nat × Nat) := []  -- (request, response index) as delivered
  phase : Phase := .peeking
  avail : Bool := true          -- the pool may hand the connection to a request
  log : List Ev := []           -- newest first
  wire : List (Option Nat) := []   -- ghost: responses arrived and unread, labelled by the peer's intent
  answered : Nat := 0              -- ghost: how many of `started` the peer has answered
  got : List (Nat × Option Nat) := []  -- ghost: (request, label of the response it was given)
  tainted : Bool := false          -- ghost: unsolicited bytes got in front of an awaited response head
deriving Repr

inductive Op where
  /-- `persistConn.roundTrip(r)` on a connection the pool handed out -/
  | start (r : Nat)
  /-- readLoop reads a response head. `hasBody`; `keep` = neither side asked to close and the
  status is final; `wrote` = `pc.wroteRequest()`; `accept` = the pool takes the connection -/
  | readHead (hasBody keep wrote accept : Bool)
  /-- the caller finished with the body: read to EOF (`eof`) or closed early / cancelled -/
  | bodyDone (eof wrote accept : Bool)
  /-- the peer closed the idle connection (`readLoopPeekFailLocked(err)`) -/
  | peekFail
  /-- the peer answers the oldest request it has not answered yet -/
  | peerAnswer
  /-- unsolicited bytes from the peer (duplicate / unrequested response, garbage) -/
  | peerExtra
  /-- top of readLoop: `Peek` returned bytes while `numExpectedResponses == 0` -/
  | peekIdle
deriving DecidableEq, Repr

def step (s : St) : Op → St
  | .start r =>
    if s.avail && s.phase == .peeking then
      { s with avail := false, numExpected := s.numExpected + 1, reqch := s.reqch ++ [r],
               started := s.started ++ [r], log := .started r :: s.log,
               tainted := s.tainted || !s.wire.isEmpty }
    else s
  | .readHead hasBody keep wrote accept =>
    match s.phase, s.reqch, s.wire with
    | .peeking, r :: rest, l :: wrest =>
      if s.numExpected = 0 then s else
      let s1 := { s with reqch := rest, pairs := (r, s.reads) :: s.pairs, reads := s.reads + 1,
                         numExpected := s.numExpected - 1, wire := wrest, got := (r, l) :: s.got }
      if hasBody then
        { s1 with phase := .body r keep, log := .head r s.reads true :: s.log }
      else
        -- `alive = alive && !pc.sawEOF && pc.wroteRequest() && tryPutIdleConn(...)` BEFORE the
        -- response is sent to the caller
        let s2 := { s1 with consumed := s.consumed + 1 }
        if keep && wrote then
          if accept then
            { s2 with avail := true, log := .head r s.reads false :: .put :: s.log }
          else { s2 with phase := .closed, log := .close :: .head r s.reads false :: .putRefused :: s.log }
        else { s2 with phase := .closed, log := .close :: .head r s.reads false :: s.log }
    | _, _, _ => s
  | .bodyDone eof wrote accept =>
    match s.phase with
    | .body r keep =>
      if eof then
        let s1 := { s with consumed := s.consumed + 1 }
        if keep && wrote then
          if accept then { s1 with phase := .peeking, avail := true, log := .put :: .eof r :: s.log }
          else { s1 with phase := .closed, log := .close :: .putRefused :: .eof r :: s.log }
        else { s1 with phase := .closed, log := .close :: .eof r :: s.log }
      else { s with phase := .closed, log := .close :: s.log }
    | _ => s
  | .peekFail =>
    if s.phase == .peeking && s.numExpected == 0 then
      { s with phase := .closed, avail := false, log := .close :: s.log }
    else s
  | .peerAnswer =>
    match s.started[s.answered]? with
    | some r => { s with wire := s.wire ++ [some r], answered := s.answered + 1 }
    | none => s
  | .peerExtra =>
    if s.phase == .closed then s
    else { s with wire := s.wire ++ [none],
                  tainted := s.tainted || (s.phase == .peeking && s.numExpected != 0) }
  | .peekIdle =>
    -- `if pc.numExpectedResponses == 0 { pc.readLoopPeekFailLocked(err); return }` with err == nil
    if s.phase == .peeking && s.numExpected == 0 && !s.wire.isEmpty then
      { s with phase := .closed, avail := false, log := .close :: s.log }
    else s

def run : St → List Op → St
  | s, [] => s
  | s, op :: ops => run (step s op) ops

end Req.Pool.Pairing
