import Req.Pool.H2Mux
/-!
Lane-level view of the `H2Mux` micro-ops: what the forced-schedule lane `TestVerif_C09_h2mux`
does per step from its driving goroutine (start a caller's `roundTrip`, release a caller parked
in the stream hook, cancel, close a body, `ReserveNewRequest`, `closeIfIdle`, make the frame-script
peer send one frame) followed by everything the library's own goroutines then do by themselves
(`settle`: take `reqHeaderMu`, the `cc.mu` section, wake-ups, HEADERS, `cleanupWriteRequest`,
`roundTrip` returning), and the canonical dump compared with the real `ClientConn` after every step.

A step the model marks `skip` is not executed by the lane (it would make the schedule depend on
the Go scheduler — two callers racing for `reqHeaderMu` — or is outside the calling protocol).
-/
namespace Req.Pool.H2MuxLane
open Req.Pool.H2Mux

/-- How a peer frame names its stream: the stream caller `n` opened (now or in the past), an id
nobody opened yet (`nextStreamID + 2j`), or 0. -/
inductive Tgt where
  | ofCaller (n : Nat) | unopened (j : Nat) | zero
deriving Repr

inductive LOp where
  | reserve (k : Nat)
  | start (k : Nat) (isHead upload stall : Bool)
  | release (k : Nat)
  | cancel (k : Nat)
  | closeBody (k : Nat)
  | idleTimeout
  | pHeaders (t : Tgt) (kind : HKind) (fin : Bool) (tag : Nat)
  | pData (t : Tgt) (len : Nat) (fin : Bool) (tag : Nat)
  | pRst (t : Tgt) (code : Nat)
  | pWindowUpdate (t : Tgt) (overflow : Bool)
  | pPush (t : Tgt)
  | pGoAway (t : Tgt) (code : Nat)
  | pSettings (m : Option Nat)
  | pEOF
deriving Repr

structure LSt where
  s : St := {}
  n : Nat := 0                                   -- callers 0..n-1
  stalled : List Nat := []                       -- callers that will park in the stream hook
  term : Nat → Option (Option Err) := fun _ => none  -- what the body reader ended with

def st1 (cfg : Cfg) (s : St) (op : Op) : St × Bool :=
  let r := step cfg s op
  (r.1, r.2 != .ignored)

/-- How `settle` schedules the library's own goroutines: callers in ascending or descending
order; each caller runs as far as it can before the next one gets a turn (`greedy`) or makes one
step per round; a caller's `roundTrip` goroutine before or after its writer goroutine. One caller
may be `slow` (it runs only when nobody else can). The lane reports one schedule and leaves a
step out when the others do not all agree with it. -/
structure Sched where
  rev : Bool
  greedy : Bool
  rtFirst : Bool
  slow : Option Nat := none   -- this caller's goroutines only run when nobody else can
  acqFirst : Bool := false    -- `select { case cc.reqHeaderMu <- …: case <-ctx.Done(): }` takes the lock

/-- Everything caller `k`'s goroutines can do on their own right now. -/
def autoOps (sc : Sched) (l : LSt) (k : Nat) : List Op :=
  let writer : List Op :=
    (if sc.acqFirst then [.acquire k, .finishWrite k] else [.finishWrite k, .acquire k]) ++
    [.openSlot k, .wake k] ++
    (if l.stalled.contains k then [] else [.writeHeaders k]) ++ [.wakeUpload k, .retire k, .forget k]
  let rt : List Op := [.rtSee k, .rtReturn k]
  if sc.rtFirst then rt ++ writer else writer ++ rt

/-- First enabled op of the list, applied. -/
def firstEnabled (cfg : Cfg) (s : St) : List Op → Option St
  | [] => none
  | op :: rest =>
    let r := step cfg s op
    if r.2 != .ignored then some r.1 else firstEnabled cfg s rest

/-- Run caller `k` (one step, or until nothing is enabled). -/
def runCaller (cfg : Cfg) (sc : Sched) (k : Nat) : Nat → LSt → LSt × Bool
  | 0, l => (l, false)
  | fuel + 1, l =>
    match firstEnabled cfg l.s (autoOps sc l k) with
    | none => (l, false)
    | some s1 =>
      let l1 := { l with s := s1 }
      if sc.greedy then ((runCaller cfg sc k fuel l1).1, true) else (l1, true)

def pass (cfg : Cfg) (sc : Sched) (l : LSt) : LSt × Bool :=
  let order := if sc.rev then (List.range l.n).reverse else List.range l.n
  let r := (order.filter (fun k => some k != sc.slow)).foldl (fun (acc : LSt × Bool) k =>
    let r := runCaller cfg sc k 16 acc.1
    (r.1, acc.2 || r.2)) (l, false)
  match sc.slow with
  | none => r
  | some p => if r.2 then r else runCaller cfg { sc with greedy := false } p 1 r.1

/-- `cc.closed = true` is always followed by `cc.closeConn()`: the read loop's next `ReadFrame`
fails and `cleanup` runs. -/
def readerSeesClose (cfg : Cfg) (l : LSt) : LSt × Bool :=
  if l.s.closed && !l.s.readerDead && l.s.rl.isNone then
    ({ l with s := (step cfg (step cfg l.s (.rlRead .eof)).1 .rlProcess).1 }, true)
  else (l, false)

def settle (cfg : Cfg) (sc : Sched) : Nat → LSt → LSt
  | 0, l => l
  | fuel + 1, l =>
    let r := pass cfg sc l
    let r2 := readerSeesClose cfg r.1
    if r.2 || r2.2 then settle cfg sc fuel r2.1 else r2.1

def allScheds (n : Nat) : List Sched :=
  let base : List Sched := [true, false].flatMap fun rtFirst => [true, false].flatMap fun greedy =>
    [true, false].map fun rev => { rev := rev, greedy := greedy, rtFirst := rtFirst }
  base ++
  (List.range n).map (fun p => { rev := false, greedy := true, rtFirst := true, slow := some p }) ++
  (List.range n).map (fun p => { rev := false, greedy := true, rtFirst := true, slow := some p, acqFirst := true }) ++
  [{ rev := false, greedy := true, rtFirst := true, acqFirst := true },
   { rev := true, greedy := false, rtFirst := true, acqFirst := true }]

/-- The body reader of a caller that has its response runs all the time: it ends as soon as the
pipe is broken or closed (after the buffered data). -/
def noteTerm (l : LSt) : LSt :=
  { l with term := fun k =>
      match l.term k with
      | some t => some t
      | none =>
        let c := l.s.cs k
        if c.rt ≠ .returned none then none
        else if !c.hasPipe then some none
        else if c.pipeBroken then some (some .bodyClosed)
        else c.pipeEnd }

def resolve (l : LSt) : Tgt → Option Nat
  | .ofCaller n => let i := (l.s.cs n).id; if i = 0 then none else some i
  | .unopened j => some (l.s.nextId + 2 * j)
  | .zero => some 0

def anyWantMu (l : LSt) (except : Nat) : Bool :=
  (List.range l.n).any fun j => j != except && (l.s.cs j).phase == .wantMu

/-- Apply one lane op. `none` = skip; otherwise the new state, the resolved stream id (if the op
names one) and the value the real call returns. -/
def apply (cfg : Cfg) (l : LSt) : LOp → Option (LSt × Option Nat × Out)
  | .reserve k =>
    let r := step cfg l.s (.reserve k)
    if r.2 = .ignored then none else some ({ l with s := r.1 }, none, r.2)
  | .start k isHead upload stall =>
    if (l.s.cs k).phase ≠ .idle then none
    -- a second caller queueing for reqHeaderMu would race with the first
    else if l.s.hdrMu.isSome && anyWantMu l k then none
    else
      let r := step cfg l.s (.begin k isHead upload)
      some ({ l with s := r.1, stalled := if stall then k :: l.stalled else l.stalled }, none, .none)
  | .release k =>
    if l.stalled.contains k then some ({ l with stalled := l.stalled.erase k }, none, .none) else none
  | .cancel k =>
    let c := l.s.cs k
    -- `roundTrip` sits in `waitDone()` with the response in hand (body-less response, no request
    -- body): cancelling makes it race with `cleanupWriteRequest` closing `donec`
    if c.rt = .waiting && c.gotHead && !c.hasPipe && !c.upload && c.phase != .done then none else
    -- still queueing for `reqHeaderMu`: from outside nothing tells whether its goroutine has
    -- reached the `select` yet, so whether it sees the cancellation or a later release first is
    -- up to the Go scheduler (the micro-model has both orders; the lane cannot force one)
    if c.phase == .wantMu then none else
    let r := step cfg l.s (.cancel k)
    if r.2 = .ignored then none else some ({ l with s := r.1 }, none, .none)
  | .closeBody k =>
    let r := step cfg l.s (.closeBody k)
    if r.2 = .ignored then none else some ({ l with s := r.1 }, none, .none)
  | .idleTimeout =>
    -- `closeIfIdle` returns nothing; what it decided shows in the dump
    let r := step cfg l.s .idleTimeout
    some ({ l with s := r.1 }, none, .none)
  | .pHeaders t kind fin tag =>
    -- r5: HEADERS for a caller whose stream was aborted (GOAWAY, RST_STREAM, connection error) while
    -- its request goroutine is still parked: `roundTrip`'s select prefers `respHeaderRecv` when it
    -- finds both signals, so what the caller gets depends on whether its goroutine had already
    -- reached `waitDone()` — nothing observable tells, the lane cannot force it (seen under load)
    if abortedUnreturned l t then none else
    if fin && uploadTarget l t then none else frame l t false (fun id => .headers id kind fin tag)
  | .pData t len fin tag =>
    if fin && uploadTarget l t then none else frame l t false (fun id => .data id len fin tag)
  | .pRst t code => frame l t false (fun id => .rst id code)
  | .pWindowUpdate t ov =>
    -- an upload drains its window: one WINDOW_UPDATE cannot overflow it
    if ov && uploadTarget l t then none else frame l t true (fun id => .windowUpdate id ov)
  | .pPush t => frame l t false (fun id => .pushPromise id)
  | .pGoAway t code => frame l t true (fun id => .goAway id code)
  | .pSettings m => frame l .zero true (fun _ => .settings m)
  | .pEOF => frame l .zero true (fun _ => .eof)
where
  uploadTarget (l : LSt) : Tgt → Bool
    | .ofCaller n => (l.s.cs n).upload
    | _ => false
  abortedUnreturned (l : LSt) : Tgt → Bool
    | .ofCaller n =>
      let c := l.s.cs n
      -- the model's settle lets `rtSee` happen at once (`sawAbort`); the real goroutine may lag
      c.abort.isSome && (c.rt = .waiting || c.rt = .sawAbort) && !c.gotHead && c.phase != .done
    | _ => false
  /-- `zeroOk`: the frame type is legal on stream 0 (else the framer itself rejects it) -/
  frame (l : LSt) (t : Tgt) (zeroOk : Bool) (mk : Nat → Frame) : Option (LSt × Option Nat × Out) :=
    if l.s.readerDead then none
    else match resolve l t with
      | none => none
      | some id =>
        if id = 0 && !zeroOk then none else
        let s1 := (step cfg l.s (.rlRead (mk id))).1
        let s2 := (step cfg s1 .rlProcess).1
        some ({ l with s := s2 }, some id, .none)

/-! ### canonical dump -/

def errName : Err → String
  | .canceled => "canceled" | .bodyClosed => "closed" | .unusable => "unusable"
  | .goAwayRetry => "goaway" | .goAwayFatal => "goawayfatal" | .rst c => "rst" ++ toString c
  | .proto => "proto" | .flow => "flow" | .pipe => "pipe" | .conn => "conn"

def insertSorted (x : Nat × Nat) : List (Nat × Nat) → List (Nat × Nat)
  | [] => [x]
  | y :: ys => if x.1 ≤ y.1 then x :: y :: ys else y :: insertSorted x ys

def sortPairs (l : List (Nat × Nat)) : List (Nat × Nat) := l.foldr insertSorted []

def joinOr (sep : String) (l : List String) : String := if l.isEmpty then "-" else sep.intercalate l

def dumpCaller (l : LSt) (k : Nat) : String :=
  let c := l.s.cs k
  let items := c.got.reverse
  let infos := items.filterMap fun it => if it.what = .info then some (toString it.tag) else none
  let rt := match c.rt with
    | .returned none =>
      "h" ++ joinOr "" (items.filterMap fun it => if it.what = .head then some (toString it.tag) else none)
    | .returned (some e) => "x" ++ errName e
    | _ => "w"
  let visible := c.rt = .returned none
  let body := if visible then items.filterMap fun it =>
      match it.what with
      | .data len => some (toString it.tag ++ "x" ++ toString len)
      | _ => none
    else []
  let fin := if !visible then "-" else match l.term k with
    | none => "-"
    | some none =>
      -- trailers are copied into the response when the body pipe is read to EOF
      "E" ++ (if c.hasPipe then
        String.join (items.filterMap fun it => if it.what = .trailers then some ("t" ++ toString it.tag) else none)
        else "")
    | some (some e) => "x" ++ errName e
  toString k ++ "[" ++ rt ++ "|" ++ joinOr "." infos ++ "|" ++ joinOr "." body ++ "|" ++ fin ++ "]"

def dump (l : LSt) : String :=
  let s := l.s
  let b (x : Bool) := if x then "1" else "0"
  "S=" ++ joinOr "," ((sortPairs s.streams).map fun p => toString p.1 ++ ":" ++ toString p.2) ++
  " n=" ++ toString s.nextId ++ " r=" ++ toString s.reserved ++ " p=" ++ toString s.pendingReq ++
  " c=" ++ b s.closed ++
  " g=" ++ (match s.goAway with | some (la, co) => toString la ++ "." ++ toString co | none => "-") ++
  " d=" ++ b s.doNotReuse ++ " m=" ++ b s.hdrMu.isSome ++ " x=" ++ toString s.maxConc ++
  " w=" ++ toString s.condWait.length ++
  " H=" ++ joinOr "," (s.hdrWire.map toString) ++
  -- RST_STREAM frames written while the connection is being torn down may or may not get out
  " R=" ++ (if s.closed then "~" else
    joinOr "," ((sortPairs s.rstWire).map fun p => toString p.1 ++ "." ++ toString p.2)) ++
  " D=" ++ b s.readerDead ++
  " " ++ " ".intercalate ((List.range l.n).map (dumpCaller l))

def outName : Out → String
  | .none => "-" | .bool true => "true" | .bool false => "false" | .ignored => "ignored"

/-- A caller parked in the stream hook whose context is done AND whose stream was aborted for
another reason: `encodeAndWriteHeaders` selects between the two at random. The lane does not
go there. -/
def ambiguous (l : LSt) : Bool :=
  (List.range l.n).any fun k =>
    let c := l.s.cs k
    c.phase == .opened && c.ctxDone && (match c.abort with | some e => e != .canceled | none => false)

/-- Run a lane case: one answer per op. -/
def runLane (cfg : Cfg) (maxConc n : Nat) (ops : List LOp) : List String :=
  let init : LSt := { s := { maxConc := maxConc, seenSettings := true }, n := n }
  (ops.foldl (fun (acc : LSt × List String) op =>
    match apply cfg acc.1 op with
    | none => (acc.1, "skip" :: acc.2)
    | some (l1, id, out) =>
      let l2 := noteTerm (settle cfg { rev := false, greedy := true, rtFirst := true } 96 l1)
      let d2 := dump l2
      -- a step whose outcome depends on which of the woken goroutines runs first is not forced
      -- by the lane's schedule: leave it out
      if ambiguous l2 || (allScheds l1.n).any (fun sc => dump (noteTerm (settle cfg sc 96 l1)) != d2) then
        (acc.1, "skip" :: acc.2) else
      (l2, ((match id with | some i => toString i | none => "-") ++ "|" ++ outName out ++ "|" ++ dump l2) :: acc.2))
    (init, [])).2.reverse

end Req.Pool.H2MuxLane
