import Req.Pool.CancelPool
/-!
Lane-level view of the pool model for the C08 forced-schedule lane (`c08pool`): what ONE goroutine
driving the real `Transport` methods does per call, composed from the `H1Pool` critical sections
(`wantConn.cancel` = the `cancel` section followed by `putOrCloseIdleConn` for a connection that
had been delivered already; a dial that completes = `dialOk`/`dialFail`, `putOrCloseIdleConn` for
a connection nobody took, `dialEnd`; …), and the state dump compared after EVERY call:
per key the per-host count, `connsPerHostWait` and `idleConnWait` with the live/dead flag of every
entry, the idle list; the dial goroutines parked in the dial hook; closed connections; the `done`
flag of every want; and the judgement of `CancelPool.Sample.verdict` on every key.
(The format is C08's own: independent of C09's lane.)
-/
namespace Req.Pool.CancelPoolLane
open Req.Pool.H1Pool Req.Pool.CancelPool

inductive MOp where
  | newWant (w k : Nat)
  | queueIdle (w : Nat)
  | queueDial (w : Nat)
  | dialOk (w c : Nat)
  | dialFail (w : Nat)
  | recv (w : Nat)
  | cancel (w : Nat)
  | finishPut (w : Nat)
  | finishClose (w : Nat)
  | serverClose (c : Nat)
  | idleTimeout (c : Nat)
  | closeIdle
deriving Repr

structure LSt where
  s : St := {}
  hooked : List Want := []   -- dial goroutines blocked in the (test's) dial hook

def st1 (cfg : Cfg) (s : St) (op : Op) : St := (step cfg s op).1

/-- `putOrCloseIdleConn(c)` for a connection in transit -/
def putOrClose (cfg : Cfg) (s : St) (c : Conn) : St :=
  let r := step cfg s (.putT c)
  match r.2 with
  | .put .ok => r.1
  | .put _ => st1 cfg r.1 (.closeT c)
  | _ => r.1

/-- A dial goroutine that finds its want already done gives the slot back at once
(`getCtxForDial() == nil`); one that finds it waiting blocks in the dial hook. -/
def settle (cfg : Cfg) : Nat → LSt → LSt
  | 0, l => l
  | fuel + 1, l =>
    match l.s.dialing.find? (fun w => !l.hooked.contains w) with
    | none => l
    | some w =>
      if l.s.wst w = .waiting then settle cfg fuel { l with hooked := w :: l.hooked }
      else
        let s1 := st1 cfg l.s (.dialBegin w)
        let s2 := st1 cfg s1 (.dialEnd w)
        settle cfg fuel { l with s := s2 }

def showPut : PutErr → String
  | .ok => "ok" | .keepAlivesDisabled => "ka-off" | .broken => "broken"
  | .closeIdle => "close-idle" | .tooManyIdleHost => "host-full"

def showBool (b : Bool) : String := if b then "1" else "0"

/-- One composite op: new lane state and the canonical return value. -/
def mstep (cfg : Cfg) (l : LSt) : MOp → LSt × String
  | .newWant w k => ({ l with s := st1 cfg l.s (.newWant w k) }, "-")
  | .queueIdle w =>
    let r := step cfg l.s (.queueIdle w)
    ({ l with s := r.1 }, match r.2 with | .bool b => showBool b | _ => "ign")
  | .queueDial w => ({ l with s := st1 cfg l.s (.queueDial w) }, "-")
  | .dialOk w c =>
    if !l.hooked.contains w then (l, "ign")
    else
      let r := step cfg l.s (.dialOk w c)
      match r.2 with
      | .bool delivered =>
        let s1 := if delivered then r.1 else putOrClose cfg r.1 c
        ({ s := st1 cfg s1 (.dialEnd w), hooked := l.hooked.erase w }, showBool delivered)
      | _ => (l, "ign")
  | .dialFail w =>
    if !l.hooked.contains w then (l, "ign")
    else
      let r := step cfg l.s (.dialFail w)
      match r.2 with
      | .bool delivered => ({ s := st1 cfg r.1 (.dialEnd w), hooked := l.hooked.erase w }, showBool delivered)
      | _ => (l, "ign")
  | .recv w =>
    let out := match l.s.wst w with
      | .gotConn c => "c" ++ toString c
      | .gotErr => "e"
      | _ => "-"
    ({ l with s := st1 cfg l.s (.recv w) }, out)
  | .cancel w =>
    let r := step cfg l.s (.cancel w)
    if r.2 = .ignored then (l, "-")
    else
      match l.s.wst w with
      | .gotConn c => ({ l with s := putOrClose cfg r.1 c }, "-")
      | _ => ({ l with s := r.1 }, "-")
  | .finishPut w =>
    match l.s.wst w with
    | .inUse c =>
      let r := step cfg l.s (.finishPut w)
      match r.2 with
      | .put e =>
        -- readLoop: on error it exits: pc.close(closeErr); t.removeIdleConn(pc)
        let s1 := if e = .ok then r.1 else st1 cfg (st1 cfg r.1 (.closeT c)) (.removeIdle c)
        ({ l with s := s1 }, showPut e)
      | _ => (l, "ign")
    | _ => (l, "ign")
  | .finishClose w =>
    match l.s.wst w with
    | .inUse c => ({ l with s := st1 cfg (st1 cfg l.s (.finishClose w)) (.removeIdle c) }, "-")
    | _ => (l, "ign")
  | .serverClose c =>
    -- the peer closes an idle connection: readLoop exits: pc.close(errServerClosedIdle); removeIdleConn
    ({ l with s := st1 cfg (st1 cfg l.s (.serverCloseIdle c)) (.removeIdle c) }, "-")
  | .idleTimeout c =>
    match l.s.ckey c with
    | none => (l, "ign")
    | some _ => ({ l with s := st1 cfg l.s (.idleTimeout c) }, "-")
  | .closeIdle =>
    let victims := listedIdle l.s
    let s1 := st1 cfg l.s .closeIdleConnections
    ({ l with s := victims.foldl (fun s c => st1 cfg s (.closeT c)) s1 }, "-")

def joinNat (l : List Nat) : String := ",".intercalate (l.map toString)
def sortNat (l : List Nat) : List Nat := l.mergeSort (· ≤ ·)

def flagged (s : St) (q : List Want) : String :=
  ",".intercalate (q.map fun w => toString w ++ (if s.wst w = .waiting then "w" else "d"))

/-- Canonical dump for keys `0 … nKeys-1`, wants `0 … nWants-1`, connections `0 … nConns-1`. -/
def dump (cfg : Cfg) (l : LSt) (nKeys nWants nConns : Nat) : String :=
  let s := l.s
  let perKey := (List.range nKeys).map fun k =>
    "k" ++ toString k ++ ":P=" ++ toString (s.cph k) ++
    "|D=" ++ flagged s (s.dialWait k) ++
    "|W=" ++ flagged s (s.idleWait k) ++
    "|I=" ++ joinNat (s.idle k)
  let verdicts := (List.range nKeys).map fun k => (sampleOf cfg s k).verdict.show
  " ".intercalate perKey ++
  " H=" ++ joinNat (sortNat l.hooked) ++
  " C=" ++ joinNat ((List.range nConns).filter (fun c => s.closed c)) ++
  " S=" ++ String.ofList ((List.range nWants).map fun w =>
      if (s.wkey w).isNone then '.' else if s.wst w = .waiting then 'w' else 'd') ++
  " V=" ++ ",".intercalate verdicts ++
  (if s.dupPanic || s.underflow then " PANIC" else "")

/-- Run composite ops; per op: `<return>/<dump>`. -/
def runLane (cfg : Cfg) (nKeys nWants nConns : Nat) : LSt → List MOp → List String
  | _, [] => []
  | l, op :: ops =>
    let r := mstep cfg l op
    let l' := settle cfg 64 r.1
    (r.2 ++ "/" ++ dump cfg l' nKeys nWants nConns) :: runLane cfg nKeys nWants nConns l' ops

def parseOp (s : String) : Option MOp :=
  match s.splitOn "." with
  | ["N", w, k] => do pure (.newWant (← w.toNat?) (← k.toNat?))
  | ["QI", w] => do pure (.queueIdle (← w.toNat?))
  | ["QD", w] => do pure (.queueDial (← w.toNat?))
  | ["DO", w, c] => do pure (.dialOk (← w.toNat?) (← c.toNat?))
  | ["DX", w] => do pure (.dialFail (← w.toNat?))
  | ["RV", w] => do pure (.recv (← w.toNat?))
  | ["CA", w] => do pure (.cancel (← w.toNat?))
  | ["FP", w] => do pure (.finishPut (← w.toNat?))
  | ["FC", w] => do pure (.finishClose (← w.toNat?))
  | ["SC", c] => do pure (.serverClose (← c.toNat?))
  | ["IT", c] => do pure (.idleTimeout (← c.toNat?))
  | ["CI"] => some .closeIdle
  | _ => none

end Req.Pool.CancelPoolLane
