/-!
# C12 — the TLS handshakes of ONE connection (`persistConn.addTLS`, transport.go l.1992)

`dialConn` calls `addTLS` once per TLS hop of a connection: once for a direct https
connection and for an https target behind an `http://` / `socks5://` proxy (inside the
tunnel), TWICE behind an `https://` proxy — `addTLS(cm.proxyURL.Hostname(), forProxy)` for
the hop to the proxy (l.2135), then, after `CONNECT`, `addTLS(cm.tlsHost())` for the session
with the origin inside the tunnel (l.2291).

Every call starts from a FRESH clone of the client's configuration
(`cfg := cloneTLSConfig(pc.t.TLSClientConfig)`) and fills `ServerName` with the name of THAT
hop only if the client set none (`if cfg.ServerName == "" { cfg.ServerName = name }`). The
name a hop is verified against (and sent as SNI) is therefore a function of the client's
settings and of that hop's name alone — never of an earlier hop (`hop_name`, `names_fresh`).
`namesKept` is the variant that keeps one derived configuration per connection (seed
C12-r7-2): the first hop's name sticks (`kept_uses_first_name`), equal to the code exactly
when a `ServerName` override is set or all hops carry one name (`kept_eq_fresh_of_override`,
`kept_ne_fresh_example`).

Tied to the code by lane `c12proxy`, proxy kind `https` (in-process CONNECT proxy behind TLS,
addressed as `localhost`, certificate listing `localhost` + the override target only; origins
at `127.0.0.1`, certificate listing `127.0.0.1` + the override target only): `acceptConn`
for the two hops is what the lane's cells {private root, wrong root, wrong name, override,
insecure, client certificate} predict through `Dispatch.routeP`.
-/
namespace Req.Pool.TLSHops

set_option linter.unusedSectionVars false

variable {N : Type} [DecidableEq N]

/-- A server certificate: the names it lists and the CA that signed it. -/
structure Cert (N : Type) where
  names : List N
  ca : Nat

/-- `Transport.TLSClientConfig` as far as `addTLS` + `crypto/tls` verification read it. -/
structure ClientTLS (N : Type) where
  serverName : Option N   -- `ServerName` ("" = `none`)
  roots : List Nat        -- `RootCAs`
  insecure : Bool         -- `InsecureSkipVerify`

/-- The `ServerName` of the configuration one `addTLS` call handshakes with. -/
def hopName (c : ClientTLS N) (name : N) : N := c.serverName.getD name

/-- Verification of one hop. -/
def acceptHop (c : ClientTLS N) (name : N) (cert : Cert N) : Bool :=
  c.insecure || (c.roots.contains cert.ca && cert.names.contains (hopName c name))

/-- The names the hops of one connection are verified against, in order (the code). -/
def namesFresh (c : ClientTLS N) (hops : List N) : List N := hops.map (hopName c)

/-- The connection is usable iff every hop's certificate is accepted. -/
def acceptConn (c : ClientTLS N) (hops : List (N × Cert N)) : Bool :=
  hops.all fun h => acceptHop c h.1 h.2

/-- The variant with ONE configuration kept per connection: `cur` is its `ServerName`. -/
def namesKeptFrom (cur : Option N) : List N → List N
  | [] => []
  | n :: rest => let used := cur.getD n; used :: namesKeptFrom (some used) rest

def namesKept (c : ClientTLS N) (hops : List N) : List N := namesKeptFrom c.serverName hops

/-- ∀ settings, ∀ hop lists, ∀ positions: hop `k` is verified against the override if one is
set, else against ITS OWN name — whatever the other hops are called. -/
theorem hop_name (c : ClientTLS N) (hops : List N) (k : Nat) (h : k < hops.length) :
    (namesFresh c hops)[k]'(by simpa [namesFresh] using h) = c.serverName.getD hops[k] := by
  simp [namesFresh, hopName]

/-- Through an https proxy: accepted iff the proxy's certificate is acceptable for the
proxy's name AND the origin's for the origin's name (each under the override, if any). -/
theorem https_proxy_accept (c : ClientTLS N) (p o : N) (pc oc : Cert N) :
    acceptConn c [(p, pc), (o, oc)] = (acceptHop c p pc && acceptHop c o oc) := by
  simp [acceptConn]

/-- The origin's hop does not depend on the proxy: the same certificate is judged through an
https proxy exactly as on a direct connection / inside an http or socks5 tunnel. -/
theorem origin_hop_uniform (c : ClientTLS N) (p o : N) (pc oc : Cert N)
    (hp : acceptHop c p pc = true) :
    acceptConn c [(p, pc), (o, oc)] = acceptConn c [(o, oc)] := by
  simp [acceptConn, hp]

theorem namesKeptFrom_some (x : N) (hops : List N) :
    namesKeptFrom (some x) hops = hops.map fun _ => x := by
  induction hops with
  | nil => rfl
  | cons n rest ih => simp [namesKeptFrom, ih]

/-- The kept configuration verifies EVERY hop against the first name it was given. -/
theorem kept_uses_first_name (c : ClientTLS N) (n : N) (rest : List N) :
    namesKept c (n :: rest) = (n :: rest).map fun _ => c.serverName.getD n := by
  simp [namesKept, namesKeptFrom, namesKeptFrom_some]

/-- With a `ServerName` override both variants coincide (every hop uses the override). -/
theorem kept_eq_fresh_of_override (c : ClientTLS N) (x : N) (h : c.serverName = some x)
    (hops : List N) : namesKept c hops = namesFresh c hops := by
  simp [namesKept, namesFresh, hopName, h, namesKeptFrom_some]

/-- Without one they differ as soon as two hops carry different names: the lane's topology
(proxy `localhost`, origin `127.0.0.1`). -/
theorem kept_ne_fresh_example :
    namesFresh (⟨none, [0], false⟩ : ClientTLS String) ["localhost", "127.0.0.1"] = ["localhost", "127.0.0.1"] ∧
    namesKept (⟨none, [0], false⟩ : ClientTLS String) ["localhost", "127.0.0.1"] = ["localhost", "localhost"] := by
  decide

/-- … and then an acceptable origin certificate is rejected and one valid for the proxy's name
only is accepted: the two directions of the property. -/
example :
    let c : ClientTLS String := ⟨none, [0], false⟩
    let proxyCert : Cert String := ⟨["localhost", "c12.example"], 0⟩
    let originCert : Cert String := ⟨["127.0.0.1", "c12.example"], 0⟩
    acceptConn c [("localhost", proxyCert), ("127.0.0.1", originCert)] = true ∧
    acceptConn c [("localhost", proxyCert), ("127.0.0.1", proxyCert)] = false := by
  decide

end Req.Pool.TLSHops
