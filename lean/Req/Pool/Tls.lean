import Req.Pool.Dispatch
/-!
# C12 — which TLS configuration each protocol stack reads

* `Site` / `source`: the regenerated selector table (tools/gofacts `C12Facts`): for every
  selector `X.TLSClientConfig`, `X.DialTLSContext`, `X.TLSHandshakeContext` in transport.go,
  client.go, internal/http2/transport.go, internal/http3/roundtrip.go the struct that
  DECLARES the selected field (go/types `Selection`): the shared `transport.Options`, or a
  field local to the stack's own struct (which shadows the embedded options).
* `TlsCfg`, `Op`, `run`: the client's TLS settings as values and the setters of client.go
  (`SetTLSClientConfig`, `GetTLSClientConfig` + mutation, `EnableInsecureSkipVerify`,
  `SetRootCertFromString`/`SetRootCertsFromFile`, `SetCerts`, `Clone`).
* `effective`: the `tls.Config` a stack builds for a NEW connection from the configuration it
  reads: `addTLS` (transport.go l.1975), `http2.Transport.newTLSConfig` (l.587),
  `http3.RoundTripper.dial` (l.285).
* `Wiring`, `cloneWiring`: which `Options` object the stacks of a transport point at
  (`T()`, `Transport.Clone`, `EnableHTTP3`), from the regenerated wiring facts.

Certificate verification itself (`accepts`) is an abstract parameter: X.509 and the TLS
handshake are external.
-/
namespace Req.Pool.TLS
open Req.Pool.Dispatch (Alpn h2Protos)

inductive Stack | h1 | h2 | h3
  deriving DecidableEq, Repr

/-! ## regenerated selector facts -/

/-- The option fields the property is about. -/
inductive Field | tlsClientConfig | dialTLSContext | tlsHandshakeContext
  deriving DecidableEq, Repr

/-- The struct declaring the field a selector resolves to. -/
inductive Decl
  | sharedOptions   -- internal/transport.Options (shared by pointer between the stacks)
  | stackLocal      -- a field of the stack's own struct
  deriving DecidableEq, Repr

/-- The file a selector occurs in. -/
inductive File | client | root | http2 | http3
  deriving DecidableEq, Repr

structure Site where
  file : File
  field : Field
  decl : Decl
  write : Bool      -- the selector is assigned to (a setter), not read
  deriving DecidableEq, Repr

def fileOf : Stack → File
  | .h1 => .root
  | .h2 => .http2
  | .h3 => .http3

inductive ConfigSource | clientOptions | stackLocal
  deriving DecidableEq, Repr

/-- The read sites of `TLSClientConfig` in the file of stack `s`. -/
def readSites (sites : List Site) (s : Stack) : List Site :=
  sites.filter fun x => x.file = fileOf s && x.field = .tlsClientConfig && !x.write

/-- Stack `s` reads the client's options iff it has at least one read site and all of them
resolve to the shared options struct. -/
def source (sites : List Site) (s : Stack) : ConfigSource :=
  let rs := readSites sites s
  if !rs.isEmpty && rs.all (fun x => x.decl = .sharedOptions) then .clientOptions else .stackLocal

/-- All three stacks read the client's options (decidable form of `∀ s, source sites s = …`). -/
def uniformSource (sites : List Site) : Bool :=
  [Stack.h1, Stack.h2, Stack.h3].all fun s => source sites s = .clientOptions

/-- Every setter (client.go, transport.go) writes the shared struct. -/
def settersShared (sites : List Site) : Bool :=
  (sites.filter fun x => x.write).all fun x => x.decl = .sharedOptions

/-- The custom dial / handshake hooks are consulted by the two TCP stacks only, and both read
the shared struct (`SetDialTLS`/`SetTLSHandshake`: "only valid for HTTP1 and HTTP2"). -/
def customHooksUniform (sites : List Site) : Bool :=
  let hs := sites.filter fun x => x.field ≠ .tlsClientConfig
  hs.all (fun x => x.decl = .sharedOptions && x.file ≠ .http3)
  && hs.any (fun x => x.file = .root && x.field = .dialTLSContext && !x.write)
  && hs.any (fun x => x.file = .http2 && x.field = .dialTLSContext && !x.write)
  && hs.any (fun x => x.file = .root && x.field = .tlsHandshakeContext && !x.write)
  && hs.any (fun x => x.file = .http2 && x.field = .tlsHandshakeContext && !x.write)

/-! ## settings as values -/

/-- What certificate verification looks at. Names, CAs and certificates are identifiers;
`serverName = 0` is the empty string, `roots = none` the nil pool (system roots). -/
structure VerifyCfg where
  serverName : Nat
  insecure : Bool
  roots : Option (List Nat)
  certs : List Nat
  deriving DecidableEq, Repr

structure TlsCfg extends VerifyCfg where
  protos : List Alpn
  deriving DecidableEq, Repr

/-- `&tls.Config{}`. -/
def emptyCfg : TlsCfg := { serverName := 0, insecure := false, roots := none, certs := [], protos := [] }

/-- `T()`: `&tls.Config{NextProtos: {"http/1.1", "h2"}}`. -/
def initialCfg : TlsCfg := { emptyCfg with protos := [.http11, .h2] }

/-- `GetTLSClientConfig` on a nil pointer: `&tls.Config{NextProtos: {"h2", "http/1.1"}}`. -/
def lazyCfg : TlsCfg := { emptyCfg with protos := [.h2, .http11] }

inductive Op
  | setConfig (c : Option TlsCfg)        -- SetTLSClientConfig (nil allowed)
  | insecure (b : Bool)                  -- Enable/DisableInsecureSkipVerify
  | addRoot (ca : Nat)                   -- SetRootCertFromString / SetRootCertsFromFile
  | addCert (id : Nat)                   -- SetCerts
  | setServerName (n : Nat)              -- GetTLSClientConfig().ServerName = …
  | setRoots (r : Option (List Nat))     -- GetTLSClientConfig().RootCAs = …
  | clone                                -- continue with c.Clone()
  | use                                  -- a request is made (connections get cached)
  deriving DecidableEq, Repr

/-- `GetTLSClientConfig()`. -/
def getCfg : Option TlsCfg → TlsCfg
  | some c => c
  | none => lazyCfg

/-- One setter applied to the `TLSClientConfig` pointer (`none` = nil). -/
def step (c : Option TlsCfg) : Op → Option TlsCfg
  | .setConfig n => n
  | .insecure b => some { getCfg c with insecure := b }
  | .addRoot ca =>
    let g := getCfg c
    some { g with roots := some ((match g.roots with | none => [] | some l => l) ++ [ca]) }
  | .addCert id => let g := getCfg c; some { g with certs := g.certs ++ [id] }
  | .setServerName n => some { getCfg c with serverName := n }
  | .setRoots r => some { getCfg c with roots := r }
  | .clone => c          -- Options.Clone: TLSClientConfig.Clone(), same values
  | .use => c

def run (c : Option TlsCfg) (ops : List Op) : Option TlsCfg := ops.foldl step c

/-! ## the configuration a stack builds for a new connection -/

/-- nil ⇒ an empty config in all three stacks (`cloneTLSConfig(nil)`, `new(tls.Config)`,
`&tls.Config{}`); `ServerName` defaults to the dialled host; `NextProtos` per stack. -/
def effective (s : Stack) (onlyH1 : Bool) (host : Nat) (read : Option TlsCfg) : TlsCfg :=
  let c := match read with | none => emptyCfg | some c => c
  { c with
    serverName := if c.serverName = 0 then host else c.serverName
    protos := match s with
      | .h1 => if onlyH1 then [] else c.protos
      | .h2 => h2Protos c.protos
      | .h3 => [.h3] }

/-- The configuration stack `s` reads: the client's, or its own never-set field. -/
def cfgRead (sites : List Site) (client : Option TlsCfg) (own : Stack → Option TlsCfg) (s : Stack) :
    Option TlsCfg :=
  match source sites s with
  | .clientOptions => client
  | .stackLocal => own s

/-! ## a concrete verifier (non-vacuity, and the driver's `accepts`) -/

structure ServerCert where
  issuer : Nat
  names : List Nat
  deriving DecidableEq, Repr

def acceptsStd (v : VerifyCfg) (cert : ServerCert) : Bool :=
  v.insecure ||
    ((match v.roots with | none => false | some l => l.contains cert.issuer) && cert.names.contains v.serverName)

/-! ## pointer wiring of the stacks -/

inductive WireFunc | newT | clone | enableHTTP3
  deriving DecidableEq, Repr

/-- One construction site of a stack: `<owner>.t2 = &h2internal.Transport{Options: &<x>.Options}`
or `t3 := &http3.RoundTripper{Options: &<x>.Options}; <owner>.t3 = t3` (`sameOwner`: `<x>` is
`<owner>`); for `⟨.clone, .h3, _⟩`: the call `<y>.EnableHTTP3()` in `Transport.Clone`
(`sameOwner`: `<y>` is the clone). -/
structure WireSite where
  func : WireFunc
  stack : Stack
  sameOwner : Bool     -- <x> is <owner>
  deriving DecidableEq, Repr

def wireOK (facts : List WireSite) (f : WireFunc) (s : Stack) : Bool :=
  let l := facts.filter fun x => x.func = f && x.stack = s
  !l.isEmpty && l.all (·.sameOwner)

/-- Addresses of `Options` objects. -/
structure Wiring where
  own : Nat
  t2 : Nat
  t3 : Option Nat
  deriving DecidableEq, Repr

def Wiring.wired (w : Wiring) : Prop := w.t2 = w.own ∧ (w.t3 = none ∨ w.t3 = some w.own)

/-- `Transport.Clone`: the clone's options live at `fresh`; t2 is rebuilt in `Clone`, t3 by
`tt.EnableHTTP3()` when the original had one. A construction site that takes the address of
somebody else's options leaves the stack pointing at the ORIGINAL's. -/
def cloneWiring (facts : List WireSite) (w : Wiring) (fresh : Nat) : Wiring :=
  { own := fresh
    t2 := if wireOK facts .clone .h2 then fresh else w.own
    t3 := w.t3.map fun _ =>
      if wireOK facts .clone .h3 && wireOK facts .enableHTTP3 .h3 then fresh else w.own }

/-- The options object stack `s` of a transport reads. -/
def Wiring.optsOf (w : Wiring) : Stack → Option Nat
  | .h1 => some w.own
  | .h2 => some w.t2
  | .h3 => w.t3

end Req.Pool.TLS
