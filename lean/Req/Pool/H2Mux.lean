/-!
# The HTTP/2 demultiplexer of one `ClientConn` (internal/http2/transport.go) as a state machine (C09)

One connection, any number of callers (`ClientConn.roundTrip` calls).  Every `roundTrip` owns one
`clientStream` object; the model identifies the object with the caller's index, so the stream
table `cc.streams : id ↦ *clientStream` is `streams : List (Nat × Caller)`.

State = the `cc.mu`-guarded fields that decide routing and admission (`streams`, `nextStreamID`,
`streamsReserved`, `pendingRequests`, `maxConcurrentStreams`, `goAway`, `closed`, `doNotReuse`),
the one-element semaphore `reqHeaderMu` (`hdrMu`), who sleeps in / was woken from `cc.cond`, the
read loop's current frame with the `*clientStream` it looked up (`rl` — the pointer survives a
concurrent `forgetStreamID`), and per `clientStream` what the read loop and the writer own
(`readAborted`, `readClosed`, `pastHeaders`, `pastTrailers`, `num1xx`, `abortErr`, the response
pipe's end).  Ghosts, used only to STATE the theorems: `rx` (every frame the read loop has read,
in order), `got` (per caller: what the read loop delivered to its stream object, each item
stamped with the frame's stream id and position in `rx`), `hdrWire` / `rstWire` (HEADERS and
RST_STREAM frames in the order they reached the wire), `resv` (who holds a reservation).

Ops = critical sections.  Caller side: `ReserveNewRequest`, the start of `writeRequest`, taking
`reqHeaderMu`, the `cc.mu` section of `writeRequest` (`decrStreamReservationsLocked`,
`awaitOpenSlotForStreamLocked`, `addStreamLocked`), waking up in `awaitOpenSlotForStreamLocked`,
`encodeAndWriteHeaders` (under `wmu`, then `reqHeaderMu` is released), waking up in
`awaitFlowControl`, `writeRequest` returning, `cleanupWriteRequest` (abort + RST_STREAM + pipe
close, then `forgetStreamID`), context cancellation, `roundTrip` noticing abort / returning,
`transportResponseBody.Close`, `closeIfIdle`.  Peer side: the read loop reading a frame
(`streamByID` under `cc.mu`) and processing it (`processHeaders` / `processTrailers` /
`processData` / `processResetStream` / `processWindowUpdate` / `processPushPromise` /
`processGoAway`→`setGoAway` / `processSettings` / read error → `cleanup`).
A list of ops is one interleaving at lock granularity; ops outside the calling protocol are
ignored (that is how the protocol is encoded).

Not modelled: flow-control accounting (windows are abstract: an `upload` request blocks in
`awaitFlowControl` after its HEADERS), request bodies, `Shutdown`/`closing`, write errors
(`werr`), `ResponseHeaderTimeout`, `tooIdleLocked`, PING, `Connection: close` requests.
-/
namespace Req.Pool.H2Mux

abbrev Caller := Nat
abbrev Sid := Nat

/-- Error classes a caller can observe. -/
inductive Err where
  | canceled          -- the caller's context
  | bodyClosed        -- errClosedResponseBody (the caller closed the body)
  | unusable          -- errClientConnUnusable
  | goAwayRetry       -- errClientConnGotGoAway
  | goAwayFatal       -- "Transport received GOAWAY from server ErrCode:…" (stream 1, error code)
  | rst (code : Nat)  -- RST_STREAM from the peer (StreamError, Cause errFromPeer)
  | proto             -- StreamError PROTOCOL_ERROR raised by the read loop
  | flow              -- StreamError FLOW_CONTROL_ERROR raised by the read loop
  | pipe              -- write on a closed response pipe
  | conn              -- the connection died (read error, connection error, closed)
deriving DecidableEq, Repr

/-- What a HEADERS frame's field block looks like to `handleResponse` / `processTrailers`. -/
inductive HKind where
  | status2xx | status1xx | noStatus
deriving DecidableEq, Repr

/-- Frames from the peer (`tag` = ghost identity of the payload). `eof` = read error. -/
inductive Frame where
  | headers (id : Nat) (kind : HKind) (fin : Bool) (tag : Nat)
  | data (id : Nat) (len : Nat) (fin : Bool) (tag : Nat)
  | rst (id : Nat) (code : Nat)
  | windowUpdate (id : Nat) (overflow : Bool)
  | pushPromise (id : Nat)
  | goAway (last : Nat) (code : Nat)
  | settings (maxConc : Option Nat)
  | eof
deriving DecidableEq, Repr

/-- The stream a frame is addressed to (what the read loop passes to `streamByID`). -/
def Frame.sid? : Frame → Option Nat
  | .headers id _ _ _ => some id
  | .data id _ _ _ => some id
  | .rst id _ => some id
  | .windowUpdate id _ => if id = 0 then none else some id
  | _ => none

def Frame.tag : Frame → Nat
  | .headers _ _ _ t => t
  | .data _ _ _ t => t
  | .rst _ c => c
  | _ => 0

inductive What where
  | info | head | data (len : Nat) | trailers | eof | reset
deriving DecidableEq, Repr

/-- One delivery by the read loop to a stream object. -/
structure Item where
  sid : Nat      -- stream id of the frame it came from
  seq : Nat      -- position of that frame in `rx`
  tag : Nat
  what : What
deriving DecidableEq, Repr

inductive Phase where
  | idle        -- no roundTrip yet
  | wantMu      -- writeRequest waits for reqHeaderMu
  | holdMu      -- has reqHeaderMu, before the cc.mu section
  | pending     -- sleeps in awaitOpenSlotForStreamLocked (has reqHeaderMu)
  | opened      -- addStreamLocked done, HEADERS not written yet (has reqHeaderMu)
  | sent        -- encodeAndWriteHeaders done, reqHeaderMu released
  | exiting     -- writeRequest returned `exitErr`, cleanupWriteRequest not started
  | finishing   -- cleanupWriteRequest before forgetStreamID
  | done        -- donec closed
deriving DecidableEq, Repr

/-- How far `roundTrip`'s own select loop is. -/
inductive Rt where
  | waiting                    -- in the select loop
  | sawAbort                   -- took the `cs.abort` case without a response: in `waitDone()`
  | returned (e : Option Err)  -- `none` = returned the response
deriving DecidableEq, Repr

structure CS where
  phase : Phase := .idle
  resv : Bool := false          -- ghost: holds a reservation made by ReserveNewRequest
  id : Nat := 0
  isHead : Bool := false
  upload : Bool := false        -- has a request body that stalls on flow control
  blocked : Bool := false       -- sleeps in awaitFlowControl
  sentHeaders : Bool := false
  exitErr : Option Err := none
  ctxDone : Bool := false
  abort : Option Err := none    -- abortErr once cs.abort is closed
  readAborted : Bool := false
  readClosed : Bool := false    -- peerClosed
  pastHeaders : Bool := false
  pastTrailers : Bool := false
  num1xx : Nat := 0
  gotHead : Bool := false       -- respHeaderRecv closed
  hasPipe : Bool := false       -- res.Body is a transportResponseBody (not noBody)
  pipeEnd : Option (Option Err) := none   -- bufPipe.err: `some none` = io.EOF
  pipeBroken : Bool := false    -- bufPipe.breakErr
  rt : Rt := .waiting
  got : List Item := []         -- ghost, newest first
deriving Repr

structure Cfg where
  strict : Bool        -- Transport.StrictMaxConcurrentStreams
  singleUse : Bool     -- cc.singleUse (DisableKeepAlives)
deriving Repr

def upd {β : Type} (f : Nat → β) (k : Nat) (v : β) : Nat → β := fun x => if x = k then v else f x

structure St where
  cs : Caller → CS := fun _ => {}
  streams : List (Nat × Caller) := []     -- cc.streams
  nextId : Nat := 1                        -- cc.nextStreamID
  reserved : Nat := 0                      -- cc.streamsReserved
  pendingReq : Nat := 0                    -- cc.pendingRequests
  maxConc : Nat := 100                     -- cc.maxConcurrentStreams
  seenSettings : Bool := false
  goAway : Option (Nat × Nat) := none     -- (LastStreamID, ErrCode)
  closed : Bool := false
  doNotReuse : Bool := false
  hdrMu : Option Caller := none            -- who holds reqHeaderMu
  condWait : List Caller := []             -- sleeping in cc.cond.Wait()
  woken : List Caller := []                -- signalled, not yet running
  waits : Nat := 0                         -- ghost: number of `cc.cond.Wait()` calls so far
  rl : Option (Frame × Option Caller) := none  -- frame being processed, looked-up stream
  readerDead : Bool := false
  rx : List Frame := []                    -- ghost: frames read, oldest first
  hdrWire : List Nat := []                 -- ghost: HEADERS written, oldest first
  rstWire : List (Nat × Nat) := []         -- ghost: RST_STREAM written (id, code), oldest first
  goAwaySent : Option Nat := none          -- connection error code sent to the peer
  forgetPanic : Bool := false              -- "forgetting unknown stream id"

inductive Op where
  | reserve (k : Caller)
  | begin (k : Caller) (isHead upload : Bool)
  | acquire (k : Caller)
  | openSlot (k : Caller)
  | wake (k : Caller)
  | writeHeaders (k : Caller)
  | wakeUpload (k : Caller)
  | finishWrite (k : Caller)
  | retire (k : Caller)
  | forget (k : Caller)
  | cancel (k : Caller)
  | rtSee (k : Caller)
  | rtReturn (k : Caller)
  | closeBody (k : Caller)
  | idleTimeout
  | rlRead (f : Frame)
  | rlProcess
deriving DecidableEq, Repr

inductive Out where
  | none | bool (b : Bool) | ignored
deriving DecidableEq, Repr

/-! ### helpers -/

def setCS (s : St) (k : Caller) (c : CS) : St := { s with cs := upd s.cs k c }

/-- `cc.cond.Broadcast()` -/
def broadcast (s : St) : St := { s with woken := s.woken ++ s.condWait, condWait := [] }

/-- `cs.abortStreamLocked(e)`: `abortOnce`, then Broadcast. -/
def abortLocked (s : St) (k : Caller) (e : Err) : St :=
  let c := s.cs k
  broadcast (setCS s k { c with abort := match c.abort with | some a => some a | none => some e })

/-- `cc.idleStateLocked().canTakeNewRequest` (without `closing` and `tooIdleLocked`). -/
def canTake (cfg : Cfg) (s : St) : Bool :=
  !(cfg.singleUse && decide (s.nextId > 1)) && s.goAway.isNone && !s.closed &&
  (cfg.strict || decide (s.streams.length + s.reserved + 1 ≤ s.maxConc)) &&
  !s.doNotReuse && decide (s.nextId + 2 * s.pendingReq < 2147483647)

/-- `decrStreamReservationsLocked` -/
def decrReserved (s : St) : St := { s with reserved := s.reserved - 1 }

/-- `writeRequest` returns `e`; `held` = it holds `reqHeaderMu` (released on the way out). -/
def exitWith (s : St) (k : Caller) (e : Option Err) (held : Bool) : St :=
  let s1 := setCS s k { s.cs k with phase := .exiting, exitErr := e }
  if held then { s1 with hdrMu := none } else s1

/-- `addStreamLocked` -/
def addStream (s : St) (k : Caller) : St :=
  let s1 := setCS s k { s.cs k with phase := .opened, id := s.nextId }
  { s1 with streams := (s.nextId, k) :: s.streams, nextId := s.nextId + 2 }

/-- One turn of the loop of `awaitOpenSlotForStreamLocked` for caller `k` (holds `reqHeaderMu`). -/
def slotLoop (cfg : Cfg) (s : St) (k : Caller) : St :=
  if s.closed = true ∨ canTake cfg s = false then exitWith s k (some .unusable) true
  else if s.streams.length < s.maxConc then addStream s k
  else
    let s1 := setCS s k { s.cs k with phase := .pending }
    { s1 with pendingReq := s.pendingReq + 1, condWait := s.condWait ++ [k], waits := s.waits + 1 }

/-- What the writer's cancellation checks see: the abort error, else the context. -/
def stopErr (c : CS) : Option Err :=
  match c.abort with
  | some e => some e
  | none => if c.ctxDone then some .canceled else none

/-- RST_STREAM code `cleanupWriteRequest` sends for `e` (`none`: error came from the peer). -/
def rstCodeOf : Err → Option Nat
  | .rst _ => none
  | .proto => some 1
  | .flow => some 3
  | _ => some 8

def closePipe (c : CS) (e : Option Err) : CS :=
  { c with pipeEnd := match c.pipeEnd with | some x => some x | none => some e }

def logItem (c : CS) (it : Item) : CS := { c with got := it :: c.got }

/-- `rl.endStreamError(cs, err)` -/
def endStreamError (s : St) (k : Caller) (e : Err) : St :=
  abortLocked (setCS s k { s.cs k with readAborted := true }) k e

/-- `rl.endStream(cs)` -/
def endStream (s : St) (k : Caller) (sid seq tag : Nat) : St :=
  let c := s.cs k
  if c.readClosed then s
  else setCS s k (logItem (closePipe { c with readClosed := true } none) ⟨sid, seq, tag, .eof⟩)

/-- The read loop ends (`run` returned an error): `cleanup`. `code` = GOAWAY we send, if any. -/
def readerCleanup (s : St) (code : Option Nat) : St :=
  let s1 := { s with readerDead := true, closed := true, goAwaySent := code }
  let s2 := s.streams.foldl (fun acc p =>
      if (acc.cs p.2).readClosed then acc else abortLocked acc p.2 .conn) s1
  broadcast s2

/-- `setGoAway` -/
def setGoAway (s : St) (last code : Nat) : St :=
  let merged := match s.goAway with
    | some (_, oc) => if oc ≠ 0 then oc else code
    | none => code
  let s1 := { s with goAway := some (last, merged) }
  s.streams.foldl (fun acc p =>
      if p.1 ≤ last then acc
      else abortLocked acc p.2 (if p.1 = 1 ∧ merged ≠ 0 then .goAwayFatal else .goAwayRetry)) s1

/-- `rl.streamByID(id)` -/
def streamByID (s : St) (id : Nat) : Option Caller :=
  match s.streams.lookup id with
  | some k => if (s.cs k).readAborted then none else some k
  | none => none

def processHeaders (s : St) (k : Caller) (sid : Nat) (kind : HKind) (fin : Bool) (tag seq : Nat) : St :=
  let c := s.cs k
  if c.readClosed then endStreamError s k .proto
  else if !c.pastHeaders then
    match kind with
    | .noStatus => endStreamError (setCS s k { c with pastHeaders := true }) k .proto
    | .status1xx =>
      if fin then endStreamError (setCS s k { c with pastHeaders := true }) k .proto
      else if c.num1xx + 1 > 5 then
        endStreamError (setCS s k { c with pastHeaders := true, num1xx := c.num1xx + 1 }) k .proto
      else setCS s k (logItem { c with num1xx := c.num1xx + 1 } ⟨sid, seq, tag, .info⟩)
    | .status2xx =>
      let s1 := setCS s k (logItem { c with pastHeaders := true, gotHead := true,
                                            hasPipe := !fin && !c.isHead } ⟨sid, seq, tag, .head⟩)
      if fin then endStream s1 k sid seq tag else s1
  else
    -- processTrailers
    if c.pastTrailers then readerCleanup s (some 1)
    else
      let s1 := setCS s k { c with pastTrailers := true }
      if !fin then readerCleanup s1 (some 1)
      else if kind != .noStatus then readerCleanup s1 (some 1)
      else endStream (setCS s1 k (logItem (s1.cs k) ⟨sid, seq, tag, .trailers⟩)) k sid seq tag

def processData (s : St) (k : Caller) (sid : Nat) (len : Nat) (fin : Bool) (tag seq : Nat) : St :=
  let c := s.cs k
  if c.readClosed then endStreamError s k .proto
  else if !c.pastHeaders then endStreamError s k .proto
  else if len > 0 ∧ c.isHead = true then endStreamError s k .proto
  else if len > 0 ∧ (c.pipeEnd.isSome = true ∨ c.pipeBroken = true) then endStreamError s k .pipe
  else
    let s1 := if len > 0 then setCS s k (logItem c ⟨sid, seq, tag, .data len⟩) else s
    if fin then endStream s1 k sid seq tag else s1

def processReset (s : St) (k : Caller) (sid code seq : Nat) : St :=
  let s1 := if code = 1 then { s with doNotReuse := true } else s
  let s2 := abortLocked s1 k (.rst code)
  setCS s2 k (logItem (closePipe (s2.cs k) (some (.rst code))) ⟨sid, seq, code, .reset⟩)

/-- The read loop processes the frame it holds. -/
def process (s : St) (f : Frame) (tgt : Option Caller) : St :=
  let seq := s.rx.length - 1
  match f, tgt with
  | .headers _ _ _ _, none => s
  | .headers id kind fin tag, some k => processHeaders s k id kind fin tag seq
  | .data id _ _ _, none => if id ≥ s.nextId then readerCleanup s (some 1) else s
  | .data id len fin tag, some k => processData s k id len fin tag seq
  | .rst _ _, none => s
  | .rst id code, some k => processReset s k id code seq
  | .windowUpdate id overflow, none =>
    if id ≠ 0 then s
    else if overflow then readerCleanup s (some 3) else broadcast s
  | .windowUpdate _ overflow, some k =>
    if overflow then abortLocked (setCS s k { s.cs k with readAborted := true }) k .flow
    else broadcast s
  | .pushPromise _, _ => readerCleanup s (some 1)
  | .goAway last code, _ => setGoAway s last code
  | .settings m, _ =>
    let s1 : St := match m with
      | some v => { s with maxConc := v, seenSettings := true }
      | none => if s.seenSettings then s else { s with maxConc := 1000, seenSettings := true }
    -- a raised limit wakes whoever sleeps in awaitOpenSlotForStreamLocked (/repo a90e62e)
    if s1.maxConc > s.maxConc then broadcast s1 else s1
  | .eof, _ => readerCleanup s none

/-! ### the step function -/

def step (cfg : Cfg) (s : St) : Op → St × Out
  | .reserve k =>
    let c := s.cs k
    if c.phase ≠ .idle ∨ c.resv = true then (s, .ignored)
    else if canTake cfg s then
      ({ setCS s k { c with resv := true } with reserved := s.reserved + 1 }, .bool true)
    else (s, .bool false)
  | .begin k isHead upload =>
    let c := s.cs k
    if c.phase ≠ .idle then (s, .ignored)
    else (setCS s k { c with phase := .wantMu, isHead := isHead, upload := upload }, .none)
  | .acquire k =>
    let c := s.cs k
    if c.phase ≠ .wantMu ∨ s.hdrMu.isSome = true then (s, .ignored)
    else ({ setCS s k { c with phase := .holdMu } with hdrMu := some k }, .none)
  | .openSlot k =>
    let c := s.cs k
    if c.phase ≠ .holdMu then (s, .ignored)
    else (slotLoop cfg (decrReserved (setCS s k { c with resv := false })) k, .none)
  | .wake k =>
    let c := s.cs k
    if c.phase ≠ .pending ∨ s.woken.contains k = false then (s, .ignored)
    else
      let s1 := { s with woken := s.woken.erase k, pendingReq := s.pendingReq - 1 }
      match c.abort with
      | some e => (exitWith s1 k (some e) true, .none)
      | none => (slotLoop cfg s1 k, .none)
  | .writeHeaders k =>
    let c := s.cs k
    if c.phase ≠ .opened then (s, .ignored)
    else
      match stopErr c with
      | some e => (exitWith s k (some e) true, .none)
      | none =>
        -- the read loop is gone and has closed the socket (`cleanup` → `closeConn`): the write
        -- fails (`cc.werr`), nothing reaches the wire
        if s.readerDead then
          (exitWith (setCS s k { c with sentHeaders := true }) k (some .conn) true, .none)
        else
        let s1 := setCS s k { c with phase := .sent, sentHeaders := true, blocked := c.upload }
        ({ s1 with hdrMu := none, hdrWire := s.hdrWire ++ [c.id],
                   condWait := if c.upload then s.condWait ++ [k] else s.condWait,
                   waits := if c.upload then s.waits + 1 else s.waits }, .none)
  | .wakeUpload k =>
    let c := s.cs k
    if c.phase ≠ .sent ∨ c.blocked = false ∨ s.woken.contains k = false then (s, .ignored)
    else
      let s1 := { s with woken := s.woken.erase k }
      if (stopErr c).isSome = true ∨ s.closed = true then (setCS s1 k { c with blocked := false }, .none)
      else ({ s1 with condWait := s1.condWait ++ [k], waits := s1.waits + 1 }, .none)
  | .finishWrite k =>
    let c := s.cs k
    match c.phase with
    | .wantMu =>
      match stopErr c with
      | some e => (exitWith s k (some e) false, .none)
      | none => (s, .ignored)
    | .sent =>
      if c.blocked then (s, .ignored)
      else if c.readClosed = true ∧ c.upload = false then (exitWith s k none false, .none)
      else
        match stopErr c with
        | some e => (exitWith s k (some e) false, .none)
        | none => if c.upload = true ∧ s.closed = true then (exitWith s k (some .conn) false, .none) else (s, .ignored)
    | _ => (s, .ignored)
  | .retire k =>
    let c := s.cs k
    if c.phase ≠ .exiting then (s, .ignored)
    else
      -- `if cs.ID == 0 { cc.decrStreamReservations() }`
      let s0 := if c.id = 0 then decrReserved (setCS s k { c with resv := false }) else s
      -- `if err != nil && cs.sentEndStream { select { case <-cs.peerClosed: err = nil … } }`
      let err := if c.sentHeaders = true ∧ c.upload = false ∧ c.readClosed = true then none else c.exitErr
      match err with
      | some e =>
        let s1 := abortLocked s0 k e
        let s2 := match rstCodeOf e with
          | some code => if c.sentHeaders = true then { s1 with rstWire := s1.rstWire ++ [(c.id, code)] } else s1
          | none => s1
        (setCS s2 k { closePipe (s2.cs k) (some e) with phase := .finishing }, .none)
      | none =>
        let s2 := if c.sentHeaders = true ∧ c.upload = true then { s0 with rstWire := s0.rstWire ++ [(c.id, 0)] } else s0
        (setCS s2 k { closePipe (s2.cs k) (some .canceled) with phase := .finishing }, .none)
  | .forget k =>
    let c := s.cs k
    if c.phase ≠ .finishing then (s, .ignored)
    else
      let s0 := setCS s k { c with phase := .done }
      if c.id = 0 then (s0, .none)
      else
        -- forgetStreamID
        let s1 := if (s0.streams.lookup c.id).isSome
          then { s0 with streams := s0.streams.filter (fun p => p.1 ≠ c.id) }
          else { s0 with forgetPanic := true }
        let s2 := broadcast s1
        let closeOnIdle := cfg.singleUse || s2.doNotReuse || s2.goAway.isSome
        if closeOnIdle = true ∧ s2.reserved = 0 ∧ s2.streams.isEmpty = true then ({ s2 with closed := true }, .none)
        else (s2, .none)
  | .cancel k =>
    let c := s.cs k
    if c.phase = .idle ∨ c.phase = .done ∨ c.ctxDone = true then (s, .ignored)
    else
      -- the context is done; `context.AfterFunc(ctx, …)` of an upload broadcasts
      let s1 := setCS s k { c with ctxDone := true }
      (if c.blocked then broadcast s1 else s1, .none)
  | .rtSee k =>
    let c := s.cs k
    if c.phase = .idle ∨ c.rt ≠ .waiting ∨ c.gotHead = true ∨ c.abort.isNone = true then (s, .ignored)
    else (setCS s k { c with rt := .sawAbort }, .none)
  | .rtReturn k =>
    let c := s.cs k
    if c.phase = .idle then (s, .ignored)
    else
      match c.rt with
      | .returned _ => (s, .ignored)
      | .sawAbort =>
        -- `waitDone(); return nil, cs.abortErr`
        if c.phase = .done ∨ c.ctxDone = true then (setCS s k { c with rt := .returned c.abort }, .none)
        else (s, .ignored)
      | .waiting =>
        if c.gotHead then
          -- handleResponseHeaders: `if res.Body == noBody && actualContentLength(req) == 0 { waitDone() }`
          if c.hasPipe = true ∨ c.upload = true ∨ c.phase = .done then
            (setCS s k { c with rt := .returned none }, .none)
          else if c.ctxDone then (setCS s k { c with rt := .returned (some .canceled) }, .none)
          else (s, .ignored)
        else if c.abort.isSome then (s, .ignored)   -- `rtSee` first
        else if c.ctxDone then
          -- `cs.abortStream(ctx.Err()); return nil, cancelRequest(cs, err)`
          let s1 := abortLocked s k .canceled
          (setCS s1 k { s1.cs k with rt := .returned (some .canceled) }, .none)
        else (s, .ignored)
  | .closeBody k =>
    let c := s.cs k
    if c.rt ≠ .returned none ∨ c.pipeBroken = true ∨ c.hasPipe = false then (s, .ignored)
    else (abortLocked (setCS s k { c with pipeBroken := true }) k .bodyClosed, .none)
  | .idleTimeout =>
    -- closeIfIdle
    if s.streams.isEmpty = true ∧ s.reserved = 0 then ({ s with closed := true }, .bool true)
    else (s, .bool false)
  | .rlRead f =>
    if s.readerDead = true ∨ s.rl.isSome = true then (s, .ignored)
    else
      let tgt := match f.sid? with
        | some id => streamByID s id
        | none => none
      ({ s with rx := s.rx ++ [f], rl := some (f, tgt) }, .none)
  | .rlProcess =>
    match s.rl with
    | none => (s, .ignored)
    | some (f, tgt) => (process { s with rl := none } f tgt, .none)

def run (cfg : Cfg) : St → List Op → St
  | s, [] => s
  | s, op :: ops => run cfg (step cfg s op).1 ops

end Req.Pool.H2Mux
