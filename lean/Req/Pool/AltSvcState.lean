import Req.Pool.Dispatch
/-!
# C12 — the Alt-Svc learning state machine of the transport

Model of `Transport.handleAltSvc` (transport.go l.630), `handlePendingAltSvc` (l.665),
`checkAltSvc` (l.864), `roundTripAltSvc` (l.849) and `pkg/altsvc.AltSvcJar`
(`GetAltSvc`: an expired entry is deleted and not returned; `SetAltSvc`).

State, per origin (`netutil.AuthorityKey`: scheme, host, effective port):
* a PENDING advertisement: the `h3` entries of the first `Alt-Svc` header seen for the origin,
  each with the expiry computed when the header was parsed (`now + ma`, none = never), the
  index of the entry being tried and whether the background QUIC dial for it has succeeded
  (`pas.Transport ≠ nil`);
* a CONFIRMED entry in the jar, put there by the first SUCCESSFUL exchange over the pending
  entry.

Events: an un-forced https response carrying `Alt-Svc` (`header`; `mas` = the `ma` values of
its `h3` entries — empty for `clear`, an unparsable value or other protocols only: the parser
of internal/altsvcutil yields nothing for those and NOTHING is cleared), the outcome of the
background dial(s) (`dialed`), an un-forced https request (`request`; `h3ok` = the HTTP/3
exchange succeeds). `Net.alt` of `Req.Pool.Dispatch.route` is `usable` of this state.

Quirks carried as they are: while an origin has a pending or confirmed entry every further
header for it is ignored (no refresh of `ma`); a pending advertisement whose dials all failed
stays (and keeps blocking) forever; a confirmed entry whose endpoint stops answering makes
requests fail until it expires.
-/
namespace Req.Pool.AltSvc
open Req.Pool.Dispatch (Origin)

structure Pending where
  expires : List (Option Nat)   -- absolute expiry of each h3 entry of the header
  idx : Nat                     -- CurrentIndex
  ready : Bool                  -- Transport ≠ nil
  deriving DecidableEq, Repr

structure State where
  pending : Origin → Option Pending
  jar : Origin → Option (Option Nat)     -- confirmed entry: its expiry

def State.empty : State := ⟨fun _ => none, fun _ => none⟩

def upd {α : Type} (f : Origin → Option α) (o : Origin) (v : Option α) : Origin → Option α :=
  fun x => if x = o then v else f x

/-- `as.Expire.Before(time.Now())`. -/
def expired (e : Option Nat) (now : Nat) : Bool :=
  match e with
  | none => false
  | some x => x < now

/-- The jar holds an expired entry for `o`. -/
def jarExpired (s : State) (o : Origin) (now : Nat) : Bool :=
  match s.jar o with
  | none => false
  | some e => expired e now

/-- `AltSvcJar.GetAltSvc` returns an entry: there is one and it has not expired. -/
def jarLive (s : State) (o : Origin) (now : Nat) : Bool :=
  match s.jar o with
  | none => false
  | some e => !expired e now

/-- `AltSvcJar.GetAltSvc`, the side effect: an expired entry is deleted. -/
def jarPurge (s : State) (o : Origin) (now : Nat) : State :=
  if jarExpired s o now then { s with jar := upd s.jar o none } else s

inductive Event
  | header (o : Origin) (now : Nat) (mas : List (Option Nat))
  | dialed (o : Origin) (results : List Bool)   -- AddConn outcomes for the entries idx, idx+1, …
  | request (o : Origin) (now : Nat) (h3ok : Bool)
  deriving DecidableEq, Repr

/-- How `checkAltSvc` disposes of a request. -/
inductive Served
  | alt (ok : Bool)    -- sent to the HTTP/3 round tripper through the Alt-Svc shortcut (response / error)
  | normal             -- no usable entry: the normal dispatch follows
  deriving DecidableEq, Repr

def firstTrue : List Bool → Option Nat
  | [] => none
  | true :: _ => some 0
  | false :: r => (firstTrue r).map (· + 1)

/-- The jar part of `checkAltSvc`. -/
def viaJar (s : State) (o : Origin) (now : Nat) (h3ok : Bool) : State × Option Served :=
  (jarPurge s o now, some (if jarLive s o now then .alt h3ok else .normal))

def step (s : State) : Event → State × Option Served
  | .header o now mas =>
    if jarLive s o now then (jarPurge s o now, none)
    else match s.pending o with
      | some _ => (jarPurge s o now, none)
      | none =>
        if mas.isEmpty then (jarPurge s o now, none)
        else ({ jarPurge s o now with pending := upd s.pending o (some ⟨mas.map (·.map (· + now)), 0, false⟩) }, none)
  | .dialed o results =>
    match s.pending o with
    | none => (s, none)
    | some p =>
      if p.ready then (s, none)
      else match firstTrue results with
        | none => (s, none)
        | some k =>
          if p.idx + k < p.expires.length then
            ({ s with pending := upd s.pending o (some { p with idx := p.idx + k, ready := true }) }, none)
          else (s, none)
  | .request o now h3ok =>
    match s.pending o with
    | some p =>
      if p.ready then
        if h3ok then
          match p.expires[p.idx]? with
          | some e => (⟨upd s.pending o none, upd s.jar o (some e)⟩, some (.alt true))
          | none => (s, some (.alt true))
        else
          let p' : Pending := { p with ready := false, idx := if p.idx + 1 < p.expires.length then p.idx + 1 else p.idx }
          ({ s with pending := upd s.pending o (some p') }, some (.alt false))
      else viaJar s o now h3ok
    | none => viaJar s o now h3ok

def run (s : State) (evs : List Event) : State := evs.foldl (fun s e => (step s e).1) s

/-- `Net.alt`: `checkAltSvc` finds a ready pending entry or an unexpired jar entry. -/
def usable (s : State) (o : Origin) (now : Nat) : Bool :=
  (match s.pending o with | some p => p.ready | none => false) || jarLive s o now

end Req.Pool.AltSvc
