import Req.Pool.TlsPaths
/-!
# C12 — the ORDER of setters: TLS-configuration setters and handshake-hook setters on one client

`Req.Pool.TLS.run` follows the VALUE of the client's `tls.Config`; `Hooks` says which
functions are installed. Both are reached through setters that may come in any order:

    c.SetTLSFingerprintChrome().SetTLSClientConfig(cfg)      -- hook first, configuration later
    c.SetTLSClientConfig(cfg).SetTLSFingerprintChrome()      -- the other way round

`SetTLSClientConfig` REPLACES the pointer `Options.TLSClientConfig`; the helpers
(`SetRootCertFromString`, `SetCerts`, `EnableInsecureSkipVerify`, accessor mutation) change
the object IN PLACE (creating it when the pointer is nil). Whether the order matters is a
question of WHEN a reader dereferences the pointer — so this model is at pointer level:

* `PClient`: a heap of `tls.Config` objects, the pointer `cur` (`Options.TLSClientConfig`),
  the handshake slot (`Options.TLSHandshakeContext`: nothing, the closure of
  `Client.SetTLSFingerprint` together with the object `GetTLSClientConfig()` returned WHEN
  THE SETTER RAN, or a user function) and `DialTLSContext ≠ nil`.
* `FpRead`: when the fingerprint closure evaluates `c.GetTLSClientConfig()`:
  `atHandshake` (client.go l.1232: inside the closure, per handshake — the code) or
  `atSetter` (once, outside the closure — the variant whose stale reads are shown to break
  the property: `Props/C12Order.lean` `captured_config_goes_stale`).
* `pstep` / `prun`: setter sequences (`POp`: a TLS setter of `Req.Pool.TLS.Op`, or a hook
  setter `SetTLSFingerprint*` / `SetTLSHandshake(fn)` / `SetTLSHandshake(nil)` /
  `SetDialTLS(fn|nil)`). `Clone` continues with the copy: `Options.Clone` allocates a new
  object with the same values, `Client.Clone` re-creates the fingerprint closure for the copy
  (client.go l.1530).
* `view`: the value the pointer designates (`pstep_view`: the pointer model refines `step`).
* `presentedCfg`: the configuration the governing handshake of a dial path presents.
-/
namespace Req.Pool.TLS

inductive FpRead | atHandshake | atSetter
  deriving DecidableEq, Repr

/-- `Options.TLSHandshakeContext`. -/
inductive HsSlot
  | builtin                      -- nil
  | fingerprint (captured : Option Nat)
      -- closure of `SetTLSFingerprint`; `captured` = address of the object the setter itself
      -- obtained from `GetTLSClientConfig()` (`none` when the setter does not call it)
  | user
  deriving DecidableEq, Repr

structure PClient where
  heap : List TlsCfg
  cur : Option Nat
  hs : HsSlot
  dialTLS : Bool
  deriving DecidableEq, Repr

/-- `C()`: `T()`'s initial configuration at address 0, no hooks. -/
def PClient.init : PClient := ⟨[initialCfg], some 0, .builtin, false⟩

/-- Every pointer designates an allocated object. -/
def PClient.WF (s : PClient) : Prop :=
  (∀ a, s.cur = some a → a < s.heap.length) ∧
  (∀ a, s.hs = .fingerprint (some a) → a < s.heap.length)

/-- The value `Options.TLSClientConfig` designates (`none` = nil pointer). -/
def view (s : PClient) : Option TlsCfg :=
  match s.cur with
  | none => none
  | some a => s.heap[a]?

/-- `GetTLSClientConfig()`: allocates `&tls.Config{NextProtos: {"h2","http/1.1"}}` when nil. -/
def ensure (s : PClient) : PClient × Nat :=
  match s.cur with
  | some a => (s, a)
  | none => ({ s with heap := s.heap ++ [lazyCfg], cur := some s.heap.length }, s.heap.length)

/-- An in-place setter applied to an existing object. -/
def mutate (o : Op) (c : TlsCfg) : TlsCfg :=
  match step (some c) o with
  | some c' => c'
  | none => c

inductive HookOp
  | fingerprint            -- SetTLSFingerprint* / Impersonate*
  | userHandshake          -- SetTLSHandshake(fn)
  | noHandshake            -- SetTLSHandshake(nil)
  | dialTLS (on : Bool)    -- SetDialTLS(fn) / SetDialTLS(nil)
  deriving DecidableEq, Repr

inductive POp
  | tls (o : Op)
  | hook (h : HookOp)
  deriving DecidableEq, Repr

/-- Installing the fingerprint closure. Reading at handshake time the setter does not touch
the configuration; reading at setter time it calls `GetTLSClientConfig()` (allocating when
nil) and keeps the object. -/
def installFp (m : FpRead) (s : PClient) : PClient :=
  match m with
  | .atHandshake => { s with hs := .fingerprint none }
  | .atSetter => let (s', a) := ensure s; { s' with hs := .fingerprint (some a) }

def isFp : HsSlot → Bool
  | .fingerprint _ => true
  | _ => false

def pstep (m : FpRead) (s : PClient) : POp → PClient
  | .hook .fingerprint => installFp m s
  | .hook .userHandshake => { s with hs := .user }
  | .hook .noHandshake => { s with hs := .builtin }
  | .hook (.dialTLS b) => { s with dialTLS := b }
  | .tls (.setConfig none) => { s with cur := none }
  | .tls (.setConfig (some c)) => { s with heap := s.heap ++ [c], cur := some s.heap.length }
  | .tls .use => s
  | .tls .clone =>
    -- Options.Clone: a new object with the same values (nil stays nil); the hooks are copied;
    -- a remembered fingerprint is installed again for the copy
    let s' : PClient :=
      match view s with
      | none => s
      | some c => { s with heap := s.heap ++ [c], cur := some s.heap.length }
    if isFp s.hs then installFp m s' else s'
  | .tls o =>
    let (s', a) := ensure s
    match s'.heap[a]? with
    | some c => { s' with heap := s'.heap.set a (mutate o c) }
    | none => s'

def prun (m : FpRead) (s : PClient) (ops : List POp) : PClient := ops.foldl (pstep m) s

/-- The TLS setters of a sequence, in order. -/
def tlsOps : List POp → List Op
  | [] => []
  | .tls o :: r => o :: tlsOps r
  | .hook _ :: r => tlsOps r

/-- The hook setters of a sequence, in order. -/
def hookOps : List POp → List HookOp
  | [] => []
  | .tls _ :: r => hookOps r
  | .hook h :: r => h :: hookOps r

def hookStep (h : Hooks) : HookOp → Hooks
  | .fingerprint => { h with handshake := some .fingerprint }
  | .userHandshake => { h with handshake := some .user }
  | .noHandshake => { h with handshake := none }
  | .dialTLS b => { h with dialTLS := b }

def hookRun (h : Hooks) (l : List HookOp) : Hooks := l.foldl hookStep h

def hooksOf (s : PClient) : Hooks :=
  ⟨s.dialTLS, match s.hs with | .builtin => none | .fingerprint _ => some .fingerprint | .user => some .user⟩

/-- The `tls.Config` value the governing handshake of path `p` starts from: the one the
pointer designates when the connection is made — except that a fingerprint closure that
fetched the configuration when it was installed keeps reading THAT object. -/
def readFor (m : FpRead) (s : PClient) (p : DialPath) : Option TlsCfg :=
  match m, governs (hooksOf s) p, s.hs with
  | .atSetter, .fingerprint, .fingerprint (some a) => s.heap[a]?
  | _, _, _ => view s

/-- The configuration presented on a new connection of path `p` (`none`: a user function
governs). -/
def presentedCfg (m : FpRead) (copied : List FpField) (s : PClient) (p : DialPath) (onlyH1 : Bool)
    (host : Nat) : Option TlsCfg :=
  pathCfg copied (hooksOf s) p onlyH1 host (readFor m s p)

end Req.Pool.TLS
