import Req.Pool.Dispatch
/-!
# C12 — what a client OFFERS over a whole life of mode switches, and that offering never
changes what is configured

`Dispatch.offered` gives the ALPN list of ONE new connection. A client lives longer: it is
forced to HTTP/1.1 and un-forced again, cloned, given another `NextProtos` list, and makes
requests in between. Every connection works on a SHALLOW clone of the client's `tls.Config`
(`cloneTLSConfig` in `addTLS`, `Config.Clone` in http2 `newTLSConfig` and http3 `dial`): the
slice header of `NextProtos` is copied, the backing array is shared — with the client's own
configuration and, through `Options.Clone`, with every clone of the client. This model is at
that level:

* `World`: the backing arrays, and per member of the family (original, clones) the slice
  header of its `NextProtos`, the forced version, HTTP/3 enabled.
* `connect`: the list a new connection offers and what it does to the arrays:
  forced HTTP/3 — a fresh `{"h3"}`; forced HTTP/2 — `h2` prepended on a NEW slice when
  missing; HTTP/1.1 only (forced, or a websocket upgrade) — `Restrict.assignNil`: the FIELD of
  the private clone is set to nil (transport.go `addTLS`: `cfg.NextProtos = nil`), nothing is
  written through the shared array; `Restrict.filterInPlace` is the variant that removes
  `h2` through `protos[:0]` (shown to corrupt the configuration: `Props/C12AlpnSeq.lean`).
* `astep` / `arun`: sequences of setters, mode switches, `Clone`, requests.
-/
namespace Req.Pool.Alpn
open Req.Pool.Dispatch

/-- A Go slice header (capacity plays no role: nobody appends in place). -/
structure Slice where
  arr : Nat
  len : Nat
  deriving DecidableEq, Repr

structure Member where
  protos : Option Slice      -- TLSClientConfig.NextProtos (`none` = nil slice / nil config)
  force : Option Ver
  h3 : Bool                  -- EnableHTTP3
  deriving DecidableEq, Repr

structure World where
  arrays : List (List Alpn)
  members : List Member
  cur : Nat
  deriving DecidableEq, Repr

/-- `C()`: `T()`'s `{"http/1.1","h2"}` at address 0. -/
def World.init : World := ⟨[[.http11, .h2]], [⟨some ⟨0, 2⟩, none, false⟩], 0⟩

def readSlice (arrays : List (List Alpn)) : Option Slice → List Alpn
  | none => []
  | some s =>
    match arrays[s.arr]? with
    | some a => a.take s.len
    | none => []

inductive Restrict | assignNil | filterInPlace
  deriving DecidableEq, Repr

/-- `addTLS` under the `onlyH1` key, on the connection's private shallow clone: the arrays
afterwards and the list offered. -/
def restrictH1 (r : Restrict) (arrays : List (List Alpn)) (sl : Option Slice) : List (List Alpn) × List Alpn :=
  match r with
  | .assignNil => (arrays, [])
  | .filterInPlace =>
    match sl with
    | none => (arrays, [])
    | some s =>
      match arrays[s.arr]? with
      | none => (arrays, [])
      | some a =>
        let kept := (a.take s.len).filter (· != .h2)
        (arrays.set s.arr (kept ++ a.drop kept.length), kept)

/-- The new connection a request makes: arrays afterwards, ALPN list of the ClientHello. -/
def connect (r : Restrict) (arrays : List (List Alpn)) (m : Member) (requiresH1 : Bool) :
    List (List Alpn) × List Alpn :=
  match m.force with
  | some .h3 => (arrays, [.h3])
  | some .h2 => (arrays, h2Protos (readSlice arrays m.protos))
  | f =>
    if f = some .h1 || requiresH1 then restrictH1 r arrays m.protos
    else (arrays, readSlice arrays m.protos)

inductive AOp
  | setProtos (l : Option (List Alpn))  -- SetTLSClientConfig(&tls.Config{NextProtos: l}): a fresh array
  | force (f : Option Ver)              -- EnableForceHTTP1/2/3, DisableForceHttpVersion
  | enableH3
  | fork                                -- Clone(): the copy's slice header designates the SAME array
  | switch (k : Nat)
  | request (requiresH1 : Bool)
  deriving DecidableEq, Repr

def isRequest : AOp → Bool
  | .request _ => true
  | _ => false

def setCur (w : World) (f : Member → Member) : World :=
  match w.members[w.cur]? with
  | some m => { w with members := w.members.set w.cur (f m) }
  | none => w

/-- The dispatch-level configuration of a member (what `Dispatch.offered` / `route` take). -/
def cfgOf (arrays : List (List Alpn)) (m : Member) : Cfg :=
  ⟨m.force, m.h3 || m.force == some .h3, false, false, false, readSlice arrays m.protos⟩

/-- One step; a request also yields the list it offered. -/
def astep (r : Restrict) (w : World) : AOp → World × Option (List Alpn)
  | .setProtos none => (setCur w fun m => { m with protos := none }, none)
  | .setProtos (some l) =>
    (setCur { w with arrays := w.arrays ++ [l] } fun m => { m with protos := some ⟨w.arrays.length, l.length⟩ }, none)
  | .force f => (setCur w fun m => { m with force := f, h3 := m.h3 || f == some .h3 }, none)   -- EnableForceHTTP3 enables HTTP/3
  | .enableH3 => (setCur w fun m => { m with h3 := true }, none)
  | .fork =>
    match w.members[w.cur]? with
    | some m => ({ w with members := w.members ++ [m] }, none)
    | none => (w, none)
  | .switch k => (if k < w.members.length then { w with cur := k } else w, none)
  | .request h1 =>
    match w.members[w.cur]? with
    | some m => let (a, o) := connect r w.arrays m h1; ({ w with arrays := a }, some o)
    | none => (w, none)

/-- A whole sequence: the final world and the offers of its requests, in order. -/
def arun (r : Restrict) (w : World) : List AOp → World × List (List Alpn)
  | [] => (w, [])
  | op :: rest =>
    let (w', o) := astep r w op
    let (w'', os) := arun r w' rest
    (w'', (match o with | some l => [l] | none => []) ++ os)

/-- Specification: requests do not touch the world; each offers `Dispatch.offered` of what is
configured at that moment. -/
def specRun (w : World) : List AOp → World × List (List Alpn)
  | [] => (w, [])
  | .request h1 :: rest =>
    let (w', os) := specRun w rest
    (w', (match w.members[w.cur]? with
          | some m => [offered (cfgOf w.arrays m) ⟨.https, h1⟩]
          | none => []) ++ os)
  | op :: rest => specRun (astep .assignNil w op).1 rest

end Req.Pool.Alpn
