import Req.Driver.Proto
/-!
Model of `charsets.fromMetaElement` (internal/charsets/charsets.go): extracts the charset
name from the `content` attribute of a `<meta http-equiv>` element. The Go code is a
`for s != ""` loop that `continue`s when "charset" is not followed by '='; the model runs it
on fuel and `Props/C07.fromMeta_total` proves `length + 1` fuel always suffices.
-/
namespace Req.MetaCharset
open Req.Proto

def charsetLit : Bytes := [99, 104, 97, 114, 115, 101, 116]  -- "charset"

def isPrefixOf : Bytes → Bytes → Bool
  | [], _ => true
  | _ :: _, [] => false
  | a :: as, b :: bs => a == b && isPrefixOf as bs

/-- `strings.Index(s, "charset")`, returning the remainder AFTER the match. -/
def afterCharset : Bytes → Option Bytes
  | [] => none
  | c :: cs =>
    if isPrefixOf charsetLit (c :: cs) then some ((c :: cs).drop 7)
    else afterCharset cs

def isWs (c : UInt8) : Bool := c == 32 || c == 9 || c == 10 || c == 12 || c == 13

def trimLeftWs : Bytes → Bytes
  | [] => []
  | c :: cs => if isWs c then trimLeftWs cs else c :: cs

def takeUntil (p : UInt8 → Bool) : Bytes → Bytes
  | [] => []
  | c :: cs => if p c then [] else c :: takeUntil p cs

/-- `none` = out of fuel; `some r` = the Go function returned `r` ("" = not found). -/
def fromMeta : Nat → Bytes → Option Bytes
  | 0, _ => none
  | fuel + 1, s =>
    if s.isEmpty then some []
    else
      match afterCharset s with
      | none => some []
      | some s1 =>
        let s2 := trimLeftWs s1
        match s2 with
        | 61 :: s3 =>
          let s4 := trimLeftWs s3
          match s4 with
          | [] => some []
          | q :: s5 =>
            if q == 34 || q == 39 then
              if s5.contains q then some (takeUntil (· == q) s5) else some []
            else
              some (takeUntil (fun c => c == 59 || isWs c) s4)
        | _ => fromMeta fuel s2

def fromMetaElement (s : Bytes) : Option Bytes := fromMeta (s.length + 1) s

end Req.MetaCharset
