/-!
# Lock-set discipline: abstract trace semantics and the static table check (C09)

Part 1 — an abstract trace semantics of threads, mutexes and memory accesses:
events `acq t l`, `rel t l`, `acc t x w`; a trace is well formed when every acquire finds the
lock free and every release is done by the holder (mutual exclusion, as `sync.Mutex` gives it).
Happens-before is the least transitive relation containing program order and
release → later acquire of the same lock.  A *race* on `x` is a pair of accesses to `x` by
different threads, at least one a write, not ordered by happens-before.

Part 2 — the executable check over the regenerated table `Generated.Locks.fields`
(`tools/gofacts/c09.go`): per anchored field, the intersection of the lock sets syntactically
held at every access site.

The classical theorem connecting them (`lockset_sound`, `static_lockset_sound`) is proved in
`Req/Props/C09.lean`.
-/
namespace Req.Pool.Lockset

abbrev Tid := Nat
abbrev Lock := Nat
abbrev Loc := Nat

inductive Ev where
  | acq (t : Tid) (l : Lock)
  | rel (t : Tid) (l : Lock)
  | acc (t : Tid) (x : Loc) (w : Bool)
deriving DecidableEq, Repr

def Ev.tid : Ev → Tid
  | .acq t _ => t
  | .rel t _ => t
  | .acc t _ _ => t

/-- Who holds each lock. -/
abbrev Holders := Lock → Option Tid

def stepH (h : Holders) : Ev → Holders
  | .acq t l => fun l' => if l' = l then some t else h l'
  | .rel _ l => fun l' => if l' = l then none else h l'
  | .acc _ _ _ => h

def holders (tr : List Ev) : Holders := tr.foldl stepH (fun _ => none)

/-- An event is enabled in a holder state: a lock is acquired only when free, released only
by its holder. -/
def Enabled (h : Holders) : Ev → Prop
  | .acq _ l => h l = none
  | .rel t l => h l = some t
  | .acc _ _ _ => True

/-- Well-formed trace: every event is enabled in the state reached by the prefix before it. -/
def WF (tr : List Ev) : Prop :=
  ∀ i e, tr[i]? = some e → Enabled (holders (tr.take i)) e

/-- Thread `t` holds `l` when event number `i` executes. -/
def HoldsAt (tr : List Ev) (i : Nat) (t : Tid) (l : Lock) : Prop :=
  holders (tr.take i) l = some t

/-- Happens-before on event positions of a trace. -/
inductive HB (tr : List Ev) : Nat → Nat → Prop
  | po {i j : Nat} {e₁ e₂ : Ev} : i < j → tr[i]? = some e₁ → tr[j]? = some e₂ →
      e₁.tid = e₂.tid → HB tr i j
  | sync {i j : Nat} {t t' : Tid} {l : Lock} : i < j → tr[i]? = some (.rel t l) →
      tr[j]? = some (.acq t' l) → HB tr i j
  | trans {i j k : Nat} : HB tr i j → HB tr j k → HB tr i k

/-- Two conflicting accesses to `x` by different threads that are not ordered. -/
def Race (tr : List Ev) (x : Loc) : Prop :=
  ∃ i j t₁ t₂ w₁ w₂, i < j ∧ tr[i]? = some (.acc t₁ x w₁) ∧ tr[j]? = some (.acc t₂ x w₂) ∧
    t₁ ≠ t₂ ∧ (w₁ = true ∨ w₂ = true) ∧ ¬ HB tr i j

/-- Every access to `x` is made while holding `l`. -/
def Guarded (tr : List Ev) (x : Loc) (l : Lock) : Prop :=
  ∀ i t w, tr[i]? = some (.acc t x w) → HoldsAt tr i t l

/-- Static facts: for each location the lock sets of its access sites.  A trace conforms when
every access event to `x` holds all the locks of SOME site of `x` (the site it executes). -/
abbrev StaticFacts := Loc → List (List Lock)

def Conforms (facts : StaticFacts) (tr : List Ev) : Prop :=
  ∀ i t x w, tr[i]? = some (.acc t x w) → ∃ s ∈ facts x, ∀ l ∈ s, HoldsAt tr i t l

/-! ## The table check -/

/-- One syntactic access site: enclosing function (ASCII codes of `Recv.name`), whether it can
write, whether it sits in a setup-time setter, and the locks syntactically held. -/
structure Access where
  fn : List Nat
  write : Bool
  cfg : Bool
  held : List Nat
deriving DecidableEq, Repr

/-- Sites that take part in the discipline (setup-time setters excluded). -/
def live (as : List Access) : List Access := as.filter (fun a => !a.cfg)

/-- Locks held at every (non-setup) access site. -/
def commonLocks (as : List Access) : List Nat :=
  match live as with
  | [] => []
  | a :: rest => a.held.filter (fun l => rest.all (fun b => b.held.contains l))

/-- A field is guarded when some lock is common to all its (non-setup) access sites. -/
def guarded (as : List Access) : Bool :=
  (live as).isEmpty || !(commonLocks as).isEmpty

/-- The pairwise discipline ("written under `mu` AND `wmu`, read under either"): two sites are
compatible when neither can write or they hold a lock in common. -/
def pairOK (a b : Access) : Bool := (!a.write && !b.write) || a.held.any (fun l => b.held.contains l)

/-- Every two (non-setup) sites, at least one of which can write, share a lock. A field with a
lock common to all its sites satisfies this too; the converse fails for state guarded by two
mutexes of which readers take only one. -/
def pairGuarded (as : List Access) : Bool :=
  (live as).all (fun a => (live as).all (fun b => pairOK a b))

/-- Static facts with the write flag of each site. A trace conforms when every access event
executes SOME site of its location: it holds the site's locks, and a write event needs a site
that can write. -/
abbrev StaticFactsW := Loc → List (Bool × List Lock)

def ConformsW (facts : StaticFactsW) (tr : List Ev) : Prop :=
  ∀ i t x w, tr[i]? = some (.acc t x w) →
    ∃ s ∈ facts x, (w = true → s.1 = true) ∧ ∀ l ∈ s.2, HoldsAt tr i t l

def ofTuple (t : List Nat × Bool × Bool × List Nat) : Access := ⟨t.1, t.2.1, t.2.2.1, t.2.2.2⟩

/-- Drop the sites of field `fid` whose function is listed as a known open finding. -/
def dropOpen (known : List (Nat × List Nat)) (fid : Nat) (as : List Access) : List Access :=
  as.filter (fun a => !(known.contains (fid, a.fn)))

/-- Every field of the table is guarded, except at the listed known-open (field, function)
sites. -/
def allGuardedExcept (known : List (Nat × List Nat))
    (fields : List (Nat × List (List Nat × Bool × Bool × List Nat))) : Bool :=
  fields.all (fun f => guarded (dropOpen known f.1 (f.2.map ofTuple)))

/-- The static facts a table denotes (lock sets of the non-setup sites per field id). -/
def factsOf (fields : List (Nat × List (List Nat × Bool × Bool × List Nat))) : StaticFacts :=
  fun x => match fields.lookup x with
    | some as => (live (as.map ofTuple)).map (·.held)
    | none => []

def factsOfW (fields : List (Nat × List (List Nat × Bool × Bool × List Nat))) : StaticFactsW :=
  fun x => match fields.lookup x with
    | some as => (live (as.map ofTuple)).map (fun a => (a.write, a.held))
    | none => []

/-- Every field of the table satisfies the pairwise discipline. -/
def allPairGuarded (fields : List (Nat × List (List Nat × Bool × Bool × List Nat))) : Bool :=
  fields.all (fun f => pairGuarded (f.2.map ofTuple))

/-! ### verdict with offenders (for the facts lane) -/

def countHolding (as : List Access) (l : Nat) : Nat := (as.filter (fun a => a.held.contains l)).length

/-- The lock held at the most sites (ties: the smallest id); 0 when no site holds any lock. -/
def majorityLock (as : List Access) : Nat :=
  let cands := (as.flatMap (·.held)).eraseDups
  cands.foldl (fun best l =>
    if best = 0 then l
    else if countHolding as l > countHolding as best then l
    else if countHolding as l = countHolding as best ∧ l < best then l
    else best) 0

/-- Functions (first-appearance order, no duplicates) with a site not holding `l`. -/
def offenders (as : List Access) (l : Nat) : List (List Nat) :=
  ((as.filter (fun a => !(a.held.contains l))).map (·.fn)).eraseDups

inductive Verdict where
  | guarded (locks : List Nat)
  /-- no lock common to all sites, but every conflicting pair of sites shares one -/
  | pairwise
  | unguarded (lock : Nat) (fns : List (List Nat))
deriving DecidableEq, Repr

def verdict (as : List Access) : Verdict :=
  let ls := live as
  if guarded as then .guarded (commonLocks as)
  else if pairGuarded as then .pairwise
  else .unguarded (majorityLock ls) (offenders ls (majorityLock ls))

end Req.Pool.Lockset
