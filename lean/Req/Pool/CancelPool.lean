import Req.Pool.H1Pool
/-!
# Cancellation in the multi-request pool (C08)

The request lifecycle of `Req/Pool/Cancel.lean` is ONE request in isolation. A request that is
cancelled while it waits for a connection sits in one (or both) of the transport's wait queues
`connsPerHostWait[key]` / `idleConnWait[key]`, possibly with other requests queued behind it, or
has a dial running whose result will be handed over through its `wantConn`. What the property's
last clause ("the client remains fully usable") needs from the pool is stated over C09's pool
model `Req/Pool/H1Pool.lean` (state = the pool fields of `Transport`, ops = its critical
sections, an op list = one interleaving at lock granularity; `Op.cancel w` is `wantConn.cancel`):

* a cancelled want stays in the queues (`wantConn.cancel` only flips `done`); the loops
  "pop until one is still waiting" of `decConnsPerHost` (`popUntilWaiting` in `decConns`) and of
  `tryPutIdleConn`, and `cleanFrontNotWaiting` when a new want is queued, are what skips it;
* `firstLive` is the specification of those loops: the FIRST want that is still waiting and the
  queue behind it;
* `Sample` is what the crowd lanes read in-package from the real `Transport` at quiescent moments
  (per-host count, both wait queues with live/dead flags, idle connections), `Sample.verdict` the
  judgement by the invariants proved in `Req/Props/C08Pool.lean` for every reachable model state;
* `decConnsFirstOnly` is `decConnsPerHost` with the loop replaced by a single `popFront`: the
  sharpness witness (with it a live waiter behind a cancelled one is stranded).
-/
namespace Req.Pool.CancelPool
open Req.Pool.H1Pool

/-- The first want of a queue that is still waiting, and the queue behind it. -/
def firstLive (wst : Want → WSt) : List Want → Option (Want × List Want)
  | [] => none
  | w :: q => if wst w = .waiting then some (w, q) else firstLive wst q

/-- Does the queue contain a want that is still waiting? -/
def hasLive (wst : Want → WSt) (q : List Want) : Bool := q.any (fun w => decide (wst w = .waiting))

/-- `wantConn.cancel` leaves every queue as it is: removal is lazy. -/
def cancelOnly (s : St) (w : Want) : St := { s with wst := upd s.wst w .canceled }

/-! ### what a lane can see of the real pool, and its judgement -/

structure Sample where
  max : Int              -- Transport.MaxConnsPerHost
  cph : Nat              -- connsPerHost[key]
  dialWait : List Bool   -- connsPerHostWait[key], front first; true = `w.waiting()`
  idleWait : List Bool   -- idleConnWait[key]
  idle : Nat             -- HTTP/1.1 connections listed in idleConn[key]
deriving Repr

inductive Verdict where
  | ok
  | overLimit     -- more connections + dials than MaxConnsPerHost
  | stranded      -- somebody is queued for a slot although a slot is free
  | handoffLost   -- somebody is queued for an idle connection although one is listed
deriving DecidableEq, Repr

def Sample.verdict (x : Sample) : Verdict :=
  if x.max > 0 ∧ (x.cph : Int) > x.max then .overLimit
  else if x.dialWait ≠ [] ∧ (x.max ≤ 0 ∨ (x.cph : Int) < x.max) then .stranded
  else if x.idleWait ≠ [] ∧ x.idle > 0 then .handoffLost
  else .ok

def Verdict.show : Verdict → String
  | .ok => "ok" | .overLimit => "over-limit" | .stranded => "stranded" | .handoffLost => "handoff-lost"

/-- The sample of key `k` in a model state. -/
def sampleOf (cfg : Cfg) (s : St) (k : Key) : Sample :=
  { max := cfg.maxConnsPerHost
    cph := s.cph k
    dialWait := (s.dialWait k).map (fun w => decide (s.wst w = .waiting))
    idleWait := (s.idleWait k).map (fun w => decide (s.wst w = .waiting))
    idle := (s.idle k).length }

/-! ### the loop is necessary -/

/-- `decConnsPerHost` with `for q.len() > 0 { … }` replaced by one `popFront`. -/
def decConnsFirstOnly (cfg : Cfg) (s : St) (k : Key) : St :=
  if cfg.maxConnsPerHost ≤ 0 then s
  else if s.cph k = 0 then { s with underflow := true }
  else
    match s.dialWait k with
    | w :: q =>
      if s.wst w = .waiting then startDial { s with dialWait := upd s.dialWait k q } w
      else { s with dialWait := upd s.dialWait k q, cph := upd s.cph k (s.cph k - 1) }
    | [] => { s with cph := upd s.cph k (s.cph k - 1) }

end Req.Pool.CancelPool
