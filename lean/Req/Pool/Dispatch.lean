/-!
# C12 — protocol dispatch of `Transport.roundTrip`

Model of the decision "which protocol version carries this request" taken by
`transport.go` `Transport.roundTrip` (≈ l.907-1093), `checkAltSvc` (l.857), `dialConn`
(l.2073-2288: `customDialTLS`, `customTlsHandshake`, `addTLS`, the ALPN hand-off to `t2`),
`internal/http2` `RoundTripOpt`/`dialClientConn`/`dialTLS` (l.457, 575, 669) and
`internal/http3` `RoundTripOpt`/`dial` (l.108, 285).

The model follows the code with the patches `fixes/C12-2…` (AddConn initialises the
round tripper) and `fixes/C12-3…` (Alt-Svc is consulted only for un-forced https requests)
applied; `routeUnpatched` keeps the un-patched order (Alt-Svc shortcut before the
`forceHttpVersion` switch, any scheme) and the `decide`d witnesses in `Props/C12.lean` show
where the property fails for it.

External, *modelled not verified*: ALPN negotiation inside `crypto/tls` (`negotiate` is Go
1.23's `negotiateALPN`, server side), certificate verification (`tcpAccept`/`quicAccept`
are inputs here; `Req.Pool.TLS` says which configuration they are computed from), QUIC.
No proxy (`cm.proxyURL = nil`).
-/
namespace Req.Pool.Dispatch

/-- `httpVersion` of transport.go (`h1 = "1.1"`, `h2 = "2"`, `h3 = "3"`). -/
inductive Ver | h1 | h2 | h3
  deriving DecidableEq, Repr

inductive Scheme | http | https | other
  deriving DecidableEq, Repr

/-- ALPN protocol identifiers that matter (`other` = anything else). -/
inductive Alpn | h2 | http11 | h3 | other
  deriving DecidableEq, Repr

/-- Why a round trip fails (a small enum; texts are never compared). -/
inductive Err
  | unsupportedScheme   -- "unsupported protocol scheme" / "http2: unsupported scheme" / "http3: unsupported protocol scheme"
  | alpnNoOverlap       -- the TLS server aborts: no common application protocol
  | h2NotNegotiated     -- http2 dialTLS: "unexpected ALPN protocol"
  | h2NotSupported      -- newHttp2NotSupportedError (addTLS / customDialTLS under force h2)
  | tlsReject           -- certificate / client-auth rejected under the TLS configuration in force
  | h3Unreachable       -- QUIC dial failed (nobody speaks h3 at the authority)
  | protoMismatch       -- the client speaks a version the peer on that connection does not
  | customFailed        -- the user's DialTLSContext / TLSHandshakeContext returned an error
  | proxyFailed         -- the proxy could not be reached / refused the tunnel (CONNECT ≠ 200, SOCKS5 failure)
  deriving DecidableEq, Repr

/-- Outcome of one `roundTrip`: the version that carried the request, an error, or a
crash of the calling goroutine (nil dereference). -/
inductive Route
  | ok (v : Ver)
  | error (e : Err)
  | crash
  deriving DecidableEq, Repr

/-- `tls.ConnectionState` as far as dispatch looks at it. -/
structure TlsState where
  proto : Option Alpn     -- NegotiatedProtocol ("" = none)
  isMutual : Bool           -- NegotiatedProtocolIsMutual (always true from crypto/tls)
  deriving DecidableEq, Repr

/-- What a user-supplied `DialTLSContext` / `TLSHandshakeContext` yields for the authority. -/
inductive Custom
  | fail                      -- returned an error
  | plain                     -- a conn without ConnectionState (not a `reqtls.Conn`) / nil tlsState
  | tls (st : TlsState)       -- a TLS conn with this state
  deriving DecidableEq, Repr

/-- The transport's protocol-relevant settings. -/
structure Cfg where
  force : Option Ver        -- forceHttpVersion ("" = none)
  h3 : Bool                 -- t.t3 ≠ nil ∧ t.altSvcJar ≠ nil (EnableHTTP3 sets, DisableHTTP3 clears both)
  allowHTTP : Bool          -- t2.AllowHTTP (EnableH2C)
  dialTLS : Bool            -- Options.DialTLSContext ≠ nil
  handshake : Bool          -- Options.TLSHandshakeContext ≠ nil
  protos : List Alpn        -- TLSClientConfig.NextProtos
  deriving DecidableEq, Repr

structure Req where
  scheme : Scheme
  requiresH1 : Bool         -- requestRequiresHTTP1 (websocket upgrade)
  deriving DecidableEq, Repr

/-- What the network offers at the request's authority, and what the pools already hold. -/
structure Net where
  alpn : List Alpn          -- ALPN list of the TLS listener, server preference order ([] = none)
  tcpAccept : Bool          -- the TCP/TLS handshake is accepted under the configuration the TCP stacks read
  h3Up : Bool               -- somebody speaks h3 on the authority handed to t3 (direct or Alt-Svc target)
  quicAccept : Bool         -- the QUIC/TLS handshake is accepted under the configuration t3 reads
  plainH2 : Bool            -- the clear-text listener speaks HTTP/2 prior knowledge (h2c) instead of HTTP/1.1
  custom : Custom           -- result of the user's dial / handshake function
  cachedH2 : Bool           -- t2's pool holds a usable connection for the authority
  cachedH3 : Bool           -- t3 holds a client for the authority
  alt : Bool                -- checkAltSvc finds a ready pending entry or a jar entry for the authority key
  deriving DecidableEq, Repr

/-- Go 1.23 `crypto/tls` `negotiateALPN` (server side, not QUIC): `none` = handshake aborted,
`some none` = no protocol negotiated, `some (some p)` = `p`. -/
def negotiate (server client : List Alpn) : Option (Option Alpn) :=
  if server.isEmpty || client.isEmpty then some none
  else match server.find? (fun s => client.contains s) with
    | some s => some (some s)
    | none => if server.contains .h2 && client.contains .http11 then some none else none

/-- The version the peer expects on a TLS connection with this state. -/
def peerOf : Option TlsState → Ver
  | some ⟨some .h2, _⟩ => .h2
  | _ => .h1

/-- The client speaks `v` to a peer that speaks `peer`. -/
def speak (v peer : Ver) : Route :=
  if v = peer then .ok v else .error .protoMismatch

def plainPeer (net : Net) : Ver := if net.plainH2 then .h2 else .h1

/-- `http3.RoundTripper.RoundTripOpt` (+ `dial`). `t.t3 = nil` ⇒ nil dereference. -/
def t3RoundTrip (cfg : Cfg) (req : Req) (net : Net) : Route :=
  if !cfg.h3 then .crash
  else if req.scheme ≠ .https then .error .unsupportedScheme
  else if net.cachedH3 then .ok .h3
  else if !net.h3Up then .error .h3Unreachable
  else if !net.quicAccept then .error .tlsReject
  else .ok .h3

/-- `http2.Transport.newTLSConfig`: h2 is put in front when absent. -/
def h2Protos (protos : List Alpn) : List Alpn :=
  if protos.contains .h2 then protos else .h2 :: protos

/-- `http2.Transport.dialClientConn` → `dialTLS`. -/
def t2Dial (cfg : Cfg) (req : Req) (net : Net) : Route :=
  if cfg.dialTLS then
    -- the user's DialTLSContext verbatim, no ALPN check (EnableH2C installs a plain dialer here)
    match net.custom with
    | .fail => .error .customFailed
    | .plain => speak .h2 (if req.scheme = .http then plainPeer net else .h1)
    | .tls st => speak .h2 (peerOf (some st))
  else if req.scheme ≠ .https then
    .error .protoMismatch       -- a TLS handshake against a clear-text listener
  else if cfg.handshake then
    match net.custom with
    | .fail => .error .customFailed
    | .plain => .crash          -- `conn.(reqtls.Conn)` type assertion on the user's conn
    | .tls st =>
      if st.proto ≠ some .h2 then .error .h2NotNegotiated
      else if !st.isMutual then .error .h2NotNegotiated
      else .ok .h2
  else
    match negotiate net.alpn (h2Protos cfg.protos) with
    | none => .error .alpnNoOverlap
    | some p =>
      if !net.tcpAccept then .error .tlsReject
      else if p = some .h2 then .ok .h2 else .error .h2NotNegotiated

/-- `http2.Transport.RoundTripOpt` with `OnlyCachedConn = false`. -/
def t2RoundTrip (cfg : Cfg) (req : Req) (net : Net) : Route :=
  if !(req.scheme = .https || (req.scheme = .http && cfg.allowHTTP)) then .error .unsupportedScheme
  else if net.cachedH2 then .ok .h2
  else t2Dial cfg req net

/-- The TLS part of `dialConn` for an https target: error or the resulting `tlsState`. -/
def dialTlsState (cfg : Cfg) (onlyH1 : Bool) (net : Net) : Except Err (Option TlsState) :=
  if cfg.dialTLS then
    match net.custom with
    | .fail => .error .customFailed
    | .plain => .ok none
    | .tls st =>
      if cfg.force = some .h2 ∧ st.proto ≠ some .h2 then .error .h2NotSupported else .ok (some st)
  else if cfg.handshake then
    match net.custom with
    | .fail => .error .customFailed
    | .plain => .ok none
    | .tls st => .ok (some st)
  else
    -- addTLS: `cfg.NextProtos = nil` under the onlyH1 key
    match negotiate net.alpn (if onlyH1 then [] else cfg.protos) with
    | none => .error .alpnNoOverlap
    | some p =>
      if !net.tcpAccept then .error .tlsReject
      else if cfg.force = some .h2 ∧ p ≠ some .h2 then .error .h2NotSupported
      else .ok (some ⟨p, true⟩)

/-- l.2270 + l.1043: hand the connection to t2 when h2 was negotiated (never under force h1),
else speak HTTP/1.1 on it. -/
def carry (cfg : Cfg) (st : Option TlsState) : Route :=
  let handOff := cfg.force ≠ some .h1 &&
    (match st with | some s => s.isMutual && s.proto = some .h2 | none => false)
  if handOff then speak .h2 (peerOf st) else speak .h1 (peerOf st)

/-- The hand-off condition of `dialConn` (l.2285) on its own. -/
def handsOff (cfg : Cfg) (st : Option TlsState) : Bool :=
  cfg.force ≠ some .h1 &&
    (match st with | some s => s.isMutual && s.proto = some .h2 | none => false)

theorem carry_eq (cfg : Cfg) (st : Option TlsState) :
    carry cfg st = if handsOff cfg st then speak .h2 (peerOf st) else speak .h1 (peerOf st) := rfl

/-- The ALPN protocol list the client OFFERS in the ClientHello of a new connection made for
this request, per mode: forced HTTP/3 — `h3` only (`http3.RoundTripper.dial`); forced
HTTP/2 — the client's list with `h2` put in front when absent (`newTLSConfig`); forced
HTTP/1.1 or a request that requires HTTP/1.1 — NO list at all (`addTLS`:
`cfg.NextProtos = nil` under the `onlyH1` key, so no server can select `h2`); otherwise the
client's `NextProtos` verbatim. `EnableHTTP3` does not change what is offered over TCP. -/
def offered (cfg : Cfg) (req : Req) : List Alpn :=
  match cfg.force with
  | some .h3 => [.h3]
  | some .h2 => h2Protos cfg.protos
  | f => if f = some .h1 || req.requiresH1 then [] else cfg.protos

/-- `getConn`/`dialConn` + the choice between `pconn.alt.RoundTrip` and `pconn.roundTrip`. -/
def h1Path (cfg : Cfg) (req : Req) (net : Net) : Route :=
  match req.scheme with
  | .other => .error .unsupportedScheme
  | .http => speak .h1 (plainPeer net)
  | .https =>
    match dialTlsState cfg (cfg.force = some .h1 || req.requiresH1) net with
    | .error e => .error e
    | .ok st => carry cfg st

/-- The part of `roundTrip` after the Alt-Svc shortcut. -/
def dispatch (cfg : Cfg) (req : Req) (net : Net) : Route :=
  match cfg.force with
  | some .h3 => t3RoundTrip cfg req net
  | some .h2 => t2RoundTrip cfg req net
  | f =>
    if req.scheme = .https && f ≠ some .h1 then
      -- cached-connection probing: t2 first, then t3
      if net.cachedH2 then .ok .h2
      else if cfg.h3 && net.cachedH3 then .ok .h3
      else h1Path cfg req net
    else h1Path cfg req net

/-- `Transport.roundTrip` (patched): the Alt-Svc shortcut applies to un-forced https only. -/
def route (cfg : Cfg) (req : Req) (net : Net) : Route :=
  if cfg.force = none && req.scheme = .https && cfg.h3 && net.alt then t3RoundTrip cfg req net
  else dispatch cfg req net

/-- `Transport.roundTrip` as it is in the un-patched tree: `checkAltSvc` first, whatever the
forced version or the scheme. -/
def routeUnpatched (cfg : Cfg) (req : Req) (net : Net) : Route :=
  if cfg.h3 && net.alt then t3RoundTrip cfg req net
  else dispatch cfg req net

/-- `Transport.RoundTrip` (roundtrip.go, patched): does the response make the client learn an
Alt-Svc entry for the authority? -/
def learnsAlt (cfg : Cfg) (req : Req) (carriedBy : Ver) (advertised : Bool) : Bool :=
  carriedBy ≠ .h3 && cfg.h3 && cfg.force = none && req.scheme = .https && advertised

/-! ## Alt-Svc state is filed per origin (`netutil.AuthorityKey`: scheme, host, effective port) -/

structure Origin where
  scheme : Scheme
  host : Nat
  port : Nat
  deriving DecidableEq, Repr

/-- The origins for which the client holds a usable Alt-Svc entry (pending-ready or jar). -/
abbrev AltState := List Origin

/-- `handleAltSvc` / `SetAltSvc` for the origin of the request that carried the header. -/
def altLearn (j : AltState) (o : Origin) : AltState := o :: j

/-- `checkAltSvc`'s lookup for the origin of the request at hand: this is `Net.alt`. -/
def altHas (j : AltState) (o : Origin) : Bool := j.contains o

/-! ## the protocol setters of transport.go (l.514-606) -/

inductive Setting
  | forceH1 | forceH2 | forceH3 | unforce     -- EnableForceHTTP1/2/3, DisableForceHttpVersion
  | enableH3 | disableH3                      -- EnableHTTP3, DisableHTTP3
  | enableH2C | disableH2C                    -- EnableH2C, DisableH2C
  | clone                                     -- Transport.Clone (t3 rebuilt by EnableHTTP3 on the clone)
  deriving DecidableEq, Repr

/-- `EnableHTTP3`: a no-op when the Go version is outside 1.22–1.23 (`supported = false`). -/
def enableH3 (supported : Bool) (c : Cfg) : Cfg := if supported then { c with h3 := true } else c

/-- One setter (patched `DisableHTTP3`: a forced HTTP/3 is dropped with the round tripper,
fixes/C12-4). `Clone` keeps force and HTTP/3; `t2.AllowHTTP` is not carried over. -/
def applySetting (supported : Bool) (c : Cfg) : Setting → Cfg
  | .forceH1 => { c with force := some .h1 }
  | .forceH2 => { c with force := some .h2 }
  | .forceH3 => let c' := enableH3 supported c; if c'.h3 then { c' with force := some .h3 } else c'
  | .unforce => { c with force := none }
  | .enableH3 => enableH3 supported c
  | .disableH3 => { c with h3 := false, force := if c.force = some .h3 then none else c.force }
  | .enableH2C => { c with allowHTTP := true, dialTLS := true }
  | .disableH2C => { c with allowHTTP := false, dialTLS := false }
  | .clone => { c with allowHTTP := false }

/-- `DisableHTTP3` as it is in the un-patched tree. -/
def applySettingUnpatched (supported : Bool) (c : Cfg) : Setting → Cfg
  | .disableH3 => { c with h3 := false }
  | s => applySetting supported c s

/-- `T()`. -/
def initialProto : Cfg := ⟨none, false, false, false, false, [.http11, .h2]⟩

/-- A forced HTTP/3 has its round tripper. -/
def Cfg.WF (c : Cfg) : Prop := c.force = some .h3 → c.h3 = true

/-- What "the server negotiated `v`" means for an https request: a cached connection of that
version exists (negotiated earlier), or the handshake that is made now yields it. For a
user-supplied dial/handshake function the state it reports is taken at its word. -/
def Negotiated (net : Net) : Ver → Prop
  | .h3 => net.cachedH3 = true ∨ (net.h3Up = true ∧ net.quicAccept = true)
  | .h2 => net.cachedH2 = true
           ∨ (∃ st, net.custom = .tls st ∧ st.proto = some .h2)
           ∨ (∃ cl, negotiate net.alpn cl = some (some .h2))
  | .h1 => (∃ st, net.custom = .tls st ∧ st.proto ≠ some .h2)
           ∨ net.custom = .plain
           ∨ (∃ cl p, negotiate net.alpn cl = some p ∧ p ≠ some .h2)

end Req.Pool.Dispatch
