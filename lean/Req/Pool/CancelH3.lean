import Req.Pool.Cancel
/-!
# The HTTP/3 request lifecycle under cancellation (C08, round 5)

One request = one bidirectional QUIC stream (internal/http3/client.go), worked on by

* the **caller** goroutine in `SingleDestinationRoundTripper.RoundTrip` → `roundTrip` → `doRequest`:
  the handshake wait (`select` on `HandshakeComplete()` / `ctx.Done()`), `openRequestStream`
  (`OpenStreamSync` under the request's context: the wait for stream credit), `SendRequestHeader`,
  `str.ReadResponse()`, the error path `close(reqDone); <-done`, and — after the response was
  handed out — the pending `Body.Read` (`hijackableBody.Read`: an error closes `reqDone`);
* the **watcher** goroutine started right after the stream exists:
  `select { case <-ctx.Done(): str.CancelWrite(..); str.CancelRead(..)  case <-reqDone: }`
  (two steps: `waiting → mid → done`);
* the **upload** goroutine (`sendRequestBody`, only with a request body): `body.Read` → `str.Write`
  (blocks on QUIC flow control until the peer grants credit or the send side is cancelled) → …,
  `defer body.Close()`, `str.Close()`;
* the peer, the QUIC layer, timers and the application reading the response as ENVIRONMENT (`Ev`).

State = the three program counters plus what they communicate through: the two directions of the
stream (`send`, `recv`), `reqDone`, the context, and the counters the property speaks about (how often
the request body is closed).  `Act` = one step of one goroutine that needs neither the peer nor a
timer.  A blocked `str.Write` is the state `upl = .write` with `send = .open`: NO action of the upload
goroutine is enabled there — only the environment (`Ev.credit`) or somebody cancelling the send side
lets it go on.  That is the waiting point the watcher's `CancelWrite` exists for.

Model assumptions: reads of the request body return (data or EOF; the read-error path with `bodyErr`
is not modelled); 1xx responses are the event `peerInterim` (round 6); `RoundTripOpt`'s client cache (`removeClient`) is in the
abstract lifecycle (`Req/Pool/Cancel.lean`, `Conn.afterH3Fail`).

Tied to the real code by the lanes `blocked_h3` / `script_h3` (package req, driver lane `c08h3life`)
and `h3upload` (package http3: the REAL `sendRequestBody` on a scripted stream).
-/
namespace Req.CancelH3
open Req.Cancel (CtxErr)

/-- the error `roundTrip` came back with, before `RoundTrip` relabels it -/
inductive Err
  | ctx (e : CtxErr)   -- req.Context().Err()
  | h3cancel           -- *http3.Error{H3_REQUEST_CANCELLED, local}: the stream was cancelled on our side
  | peer               -- reset by the peer / connection lost
  deriving DecidableEq, Repr, Inhabited

inductive Ret | resp | err (e : Err)
  deriving DecidableEq, Repr, Inhabited

/-- program counter of the caller -/
inductive CPc
  | hs                 -- select { HandshakeComplete / ctx.Done }
  | openStr            -- openRequestStream(ctx): waiting for stream credit
  | sendHdr            -- SendRequestHeader
  | readResp           -- str.ReadResponse()
  | failSig (e : Err)  -- roundTrip's error path: about to `close(reqDone)`
  | failJoin (e : Err) -- `<-done`: waiting for the watcher
  | returned (r : Ret)
  deriving DecidableEq, Repr, Inhabited

/-- the watcher goroutine -/
inductive WPc | none | waiting | mid | done
  deriving DecidableEq, Repr, Inhabited

/-- the upload goroutine (`sendRequestBody` + `str.Close()`) -/
inductive UPc | none | read | write | close | fin | done
  deriving DecidableEq, Repr, Inhabited

/-- one direction of the stream -/
inductive Side
  | idle        -- no stream yet
  | open
  | fin         -- send: FIN written (`str.Close()`); recv: the peer's FIN was received
  | cancelled   -- CancelWrite / CancelRead on our side
  | reset       -- STOP_SENDING / RESET_STREAM from the peer
  deriving DecidableEq, Repr, Inhabited

structure St where
  hasBody : Bool := false
  ctx : Option CtxErr := none
  cpc : CPc := .hs
  wat : WPc := .none
  upl : UPc := .none
  send : Side := .idle
  recv : Side := .idle
  respHdr : Bool := false        -- the response HEADERS are on the stream
  reqDone : Bool := false        -- `reqDone` is closed
  closes : Nat := 0              -- req.Body.Close() calls
  callerClosed : Bool := false   -- ghost: one of them was `closeRequestBody(req)` by the caller
  readRes : Option Err := none   -- what the pending Body.Read returned
  writes : Nat := 0              -- stream writes of the upload accepted by QUIC
  deriving DecidableEq, Repr, Inhabited

def Side.cancelIfOpen : Side → Side
  | .open => .cancelled
  | x => x

def Side.resetIfOpen : Side → Side
  | .open => .reset
  | x => x

def Side.finIfOpen : Side → Side
  | .open => .fin
  | x => x

/-- `closeRequestBody(req)` -/
def closeBody (s : St) : St :=
  if s.hasBody then { s with closes := s.closes + 1, callerClosed := true } else s

/-- `RoundTrip`: `if err != nil && req.Context().Err() != nil { err = req.Context().Err() }` -/
def finalErr (s : St) (e : Err) : Err :=
  match s.ctx with
  | some c => .ctx c
  | none => e

/-- the error a read on a dead receive side reports -/
def recvErr (s : St) : Err := if s.recv == .reset then .peer else .h3cancel

inductive Act
  -- caller
  | cHsCancel      -- handshake wait: `<-ctx.Done()`: closeRequestBody, return ctx.Err()
  | cOpenCancel    -- openRequestStream(ctx) fails with the context's error: closeRequestBody
  | cSendHdr       -- SendRequestHeader; then start the upload goroutine / `str.Close()`
  | cRespOk        -- ReadResponse returns the response
  | cRespFail      -- ReadResponse fails on the dead receive side (CancelRead + CancelWrite)
  | cFailSig       -- `close(reqDone)`
  | cFailJoin      -- `<-done`; RoundTrip relabels the error when the context is done
  | cBodyReadFail  -- the pending Body.Read fails: `requestDone()`
  -- watcher
  | wFireW         -- `<-ctx.Done()`: str.CancelWrite
  | wFireR         -- str.CancelRead
  | wExit          -- `<-reqDone`
  -- upload goroutine
  | uRead          -- body.Read returns data
  | uEOF           -- body.Read returns io.EOF
  | uWriteFail     -- str.Write fails: the send side is not open any more
  | uClose         -- `defer body.Close()`
  | uFin           -- `str.Close()`
  deriving DecidableEq, Repr

def allActs : List Act :=
  [.cHsCancel, .cOpenCancel, .cSendHdr, .cRespOk, .cRespFail, .cFailSig, .cFailJoin, .cBodyReadFail,
   .wFireW, .wFireR, .wExit, .uRead, .uEOF, .uWriteFail, .uClose, .uFin]

def recvDead (s : St) : Bool := s.recv == .cancelled || s.recv == .reset

def guard (s : St) : Act → Bool
  | .cHsCancel => s.cpc == .hs && s.ctx.isSome
  | .cOpenCancel => s.cpc == .openStr && s.ctx.isSome
  | .cSendHdr => s.cpc == .sendHdr
  | .cRespOk => s.cpc == .readResp && s.respHdr && !recvDead s
  | .cRespFail => s.cpc == .readResp && recvDead s
  | .cFailSig => (match s.cpc with | .failSig _ => true | _ => false)
  | .cFailJoin => (match s.cpc with | .failJoin _ => true | _ => false) && s.wat == .done
  | .cBodyReadFail => s.cpc == .returned .resp && !s.reqDone && recvDead s
  | .wFireW => s.wat == .waiting && s.ctx.isSome
  | .wFireR => s.wat == .mid
  | .wExit => s.wat == .waiting && s.reqDone
  | .uRead => s.upl == .read
  | .uEOF => s.upl == .read
  | .uWriteFail => s.upl == .write && s.send != .open
  | .uClose => s.upl == .close
  | .uFin => s.upl == .fin

def apply (s : St) : Act → St
  | .cHsCancel => { closeBody s with cpc := .returned (.err (finalErr s .peer)) }
  | .cOpenCancel => { closeBody s with cpc := .returned (.err (finalErr s .peer)) }
  | .cSendHdr =>
    if s.send == .open then
      if s.hasBody then { s with upl := .read, cpc := .readResp }
      else { s with send := .fin, cpc := .readResp }
    else { closeBody s with cpc := .failSig (if s.send == .reset then .peer else .h3cancel) }
  | .cRespOk => { s with cpc := .returned .resp }
  | .cRespFail => { s with send := s.send.cancelIfOpen, cpc := .failSig (recvErr s) }
  | .cFailSig =>
    match s.cpc with
    | .failSig e => { s with reqDone := true, cpc := .failJoin e }
    | _ => s
  | .cFailJoin =>
    match s.cpc with
    | .failJoin e => { s with cpc := .returned (.err (finalErr s e)) }
    | _ => s
  | .cBodyReadFail => { s with reqDone := true, readRes := some (recvErr s) }
  | .wFireW => { s with send := s.send.cancelIfOpen, wat := .mid }
  | .wFireR => { s with recv := s.recv.cancelIfOpen, wat := .done }
  | .wExit => { s with wat := .done }
  | .uRead => { s with upl := .write }
  | .uEOF => { s with upl := .close }
  | .uWriteFail => { s with upl := .close }
  | .uClose => { s with closes := s.closes + 1, upl := .fin }
  | .uFin => { s with send := s.send.finIfOpen, upl := .done }

/-! ### environment -/

inductive Ev
  | cancel (e : CtxErr)
  | hsDone        -- the QUIC handshake completes
  | streamOpen    -- OpenStreamSync returns a stream; the watcher goroutine is started
  | credit        -- QUIC accepts the pending write (flow-control credit from the peer)
  | peerHeaders   -- the response HEADERS arrive
  | peerEnd       -- the peer's FIN arrives
  | peerReset     -- the peer resets the stream (STOP_SENDING + RESET_STREAM) / the connection dies
  | callerClose   -- the application closes the response body
  | callerEOF     -- the application reads the response body to its end
  | peerInterim   -- round 6: an informational 1xx response (100 Continue, 103 Early Hints) arrives and the
                  -- caller's `ReadResponse` loop in `doRequest` consumes it and goes back to `ReadResponse`
  deriving DecidableEq, Repr

def evGuard (s : St) : Ev → Bool
  | .cancel _ => s.ctx.isNone
  | .hsDone => s.cpc == .hs
  | .streamOpen => s.cpc == .openStr
  | .credit => s.upl == .write && s.send == .open
  | .peerHeaders => s.recv == .open && !s.respHdr
  | .peerEnd => s.recv == .open && s.respHdr
  | .peerReset => s.send != .idle
  | .callerClose => s.cpc == .returned .resp
  | .callerEOF => s.cpc == .returned .resp && s.recv == .fin
  | .peerInterim => s.cpc == .readResp && s.recv == .open && !s.respHdr

def evApply (s : St) : Ev → St
  | .cancel e => { s with ctx := some e }
  | .hsDone => { s with cpc := .openStr }
  | .streamOpen => { s with cpc := .sendHdr, wat := .waiting, send := .open, recv := .open }
  | .credit => { s with upl := .read, writes := s.writes + 1 }
  | .peerHeaders => { s with respHdr := true }
  | .peerEnd => { s with recv := .fin }
  | .peerReset => { s with send := s.send.resetIfOpen, recv := s.recv.resetIfOpen }
  | .callerClose => { s with reqDone := true, recv := s.recv.cancelIfOpen }
  | .callerEOF => { s with reqDone := true }
  | .peerInterim => s   -- nothing the request's goroutines talk through changes: in particular NOT `reqDone`

def init (hasBody : Bool) : St := { hasBody := hasBody }

inductive Reach : St → Prop
  | init (b) : Reach (init b)
  | ev {s} (e : Ev) : Reach s → evGuard s e = true → Reach (evApply s e)
  | act {s} (a : Act) : Reach s → guard s a = true → Reach (apply s a)

inductive Run : St → List Act → St → Prop
  | nil (s) : Run s [] s
  | cons {s a as s'} : guard s a = true → Run (apply s a) as s' → Run s (a :: as) s'

def stuck (s : St) : Bool := allActs.all fun a => !guard s a

def internalSuccs (s : St) : List St := (allActs.filter (guard s)).map (apply s)

/-- all states in which internal runs from `s` get stuck (exhaustive exploration, driver) -/
def finals : Nat → St → List St
  | 0, s => [s]
  | fuel + 1, s =>
    match internalSuccs s with
    | [] => [s]
    | l => l.flatMap (finals fuel)

def isReturned (s : St) : Bool := match s.cpc with | .returned _ => true | _ => false

/-- nothing works for the request any more: the caller is back, the watcher and the upload goroutine
are gone, neither direction of the stream is left open, the request body was closed exactly once -/
def released (s : St) : Bool :=
  isReturned s && (s.wat == .none || s.wat == .done) && (s.upl == .none || s.upl == .done) &&
  s.send != .open && s.recv != .open && s.closes == (if s.hasBody then 1 else 0)

/-! ### the variant of seed C08-r5-3: the watcher leaves the send side alone -/

/-- `apply` with the watcher's `CancelWrite` dropped -/
def applyNoCancelWrite (s : St) : Act → St
  | .wFireW => { s with wat := .mid }
  | a => apply s a

def finalsNoCW : Nat → St → List St
  | 0, s => [s]
  | fuel + 1, s =>
    match (allActs.filter (guard s)).map (applyNoCancelWrite s) with
    | [] => [s]
    | l => l.flatMap (finalsNoCW fuel)

/-! ### the variant of seed C08-r6-3: a response "that cannot have a body" signals `reqDone` — 1xx included -/

/-- `evApply` with the interim response closing `reqDone` -/
def evApplyInterimSignals (s : St) : Ev → St
  | .peerInterim => { s with reqDone := true }
  | e => evApply s e

end Req.CancelH3
