import Req.C03.H2Cut
/-!
C03 — HTTP/2: the connection pool side (`clientConnPool.GetClientConn`, `MarkDead`,
`ClientConn.ReserveNewRequest` = `idleStateLocked().canTakeNewRequest`).

`conns` = `p.conns[addr]` in order; a connection is represented by what `ReserveNewRequest`
answers for it.  `GetClientConn` hands out the first connection that can take a new request and
dials when there is none; `MarkDead` (GOAWAY, read loop ended) takes a connection out of the list.
-/
namespace Req.C03

structure H2PoolConn where
  id : Nat
  canTake : Bool
deriving Repr, BEq, DecidableEq

structure H2Pool where
  conns : List H2PoolConn
  dials : Nat
deriving Repr, BEq, DecidableEq

def H2Pool.empty : H2Pool := { conns := [], dials := 0 }

/-- `GetClientConn(req, addr, dialOnMiss = true)`. -/
def H2Pool.getClientConn (p : H2Pool) : H2Pool × H2PoolConn :=
  match p.conns.find? (·.canTake) with
  | some c => (p, c)
  | none =>
    let c : H2PoolConn := { id := p.dials, canTake := true }
    ({ conns := p.conns ++ [c], dials := p.dials + 1 }, c)

/-- `MarkDead(cc)`. -/
def H2Pool.markDead (p : H2Pool) (id : Nat) : H2Pool := { p with conns := p.conns.filter (·.id != id) }

/-- The connection's answer to `ReserveNewRequest` changed (GOAWAY, closed, doNotReuse). -/
def H2Pool.setCanTake (p : H2Pool) (id : Nat) (v : Bool) : H2Pool :=
  { p with conns := p.conns.map fun c => if c.id == id then { c with canTake := v } else c }

/-- The pool after the first request of a fresh client went through the events of `x`
(connection 0), then one more `GetClientConn` (a replay or the next request): the dials so far. -/
def h2DialsAfterNext (x : H2X) : Nat :=
  let p := H2Pool.empty.getClientConn.1
  let p := p.setCanTake 0 x.canTakeNewRequest
  let p := if x.inPool then p else p.markDead 0
  p.getClientConn.1.dials

end Req.C03
