import Req.Client.CompressFormats
import Req.C03.H2Cut
import Req.C03.H3Cut
import Req.H1.Response
/-!
C03 — an ENCODED body (Content-Encoding: gzip / deflate, decoded transparently or under
`EnableAutoDecompress`) behind the framing layer of every protocol.

The decoder is no longer a parameter: it is the concrete container model of C14
(`Req.Client.CompressFormats`: RFC 1952 members around RFC 1951 stored blocks read the way
`compress/gzip` / `compress/flate` read them, multistream, CRC-32/ISIZE checked), run on what the
framing layer of the protocol hands to it: the bytes it delivered and HOW ITS BODY ENDED — a clean
`io.EOF` or the framing error (`io.ErrUnexpectedEOF` short of the declared length, the over-long
error, the stream reset, the lost connection).  Where the decoder sits relative to the length
accounting is the whole point: `internal/http2/transport.go handleResponse`,
`internal/http3/http_stream.go ReadResponse` and `transport.go readLoop` wrap the
LENGTH-ENFORCING body, so the source of the decoder ends with an error whenever the message is
incomplete or over-long — also exactly between two gzip members, also before the first byte.
-/
namespace Req.C03
open Req.Proto Req.Compress Req.Compress.Fmt Req.H1 Req.C02

inductive Enc
  | gzip
  | deflate
deriving Repr, BEq, DecidableEq

/-- The framing error as the decoder sees it (any error that is not `io.EOF`). -/
def framingErr : Term := .err 10

/-- `compress.GzipReader` / `transport.go gzipReader` / `compress.DeflateReader` drained by the
caller: everything the decoder delivers from a source `src`, and how the decoded body ends
(C14: `Auto.codec_total` — the lazily constructed incremental reader has this whole-stream meaning
for every schedule of reads). -/
def Enc.decode : Enc → Src → Bytes × Term
  | .gzip, src => (Fmt.gzip ieee).mean src.fin src.data gInit
  | .deflate, src => Fmt.deflate.mean src.fin src.data .hdr

/-- What the caller of a response with a decoded body observes. -/
inductive EncOutcome
  | pending
  | callFailed (retry : Bool)
  | ok (status : Nat) (body : Bytes)
  | bodyFailed (status : Nat) (delivered : Bytes)
deriving Repr, BEq, DecidableEq

/-- The decoder on top of a framing-level body that delivered `d` and ended with `fin`. -/
def Enc.over (enc : Enc) (status : Nat) (d : Bytes) (fin : Term) : EncOutcome :=
  match enc.decode ⟨d, fin⟩ with
  | (out, .eof) => .ok status out
  | (out, .err _) => .bodyFailed status out

/-- HTTP/2 (`handleResponse`): a response that ended on its HEADERS frame has `noBody` /
`missingBody` — returned before the decoder is installed; a piped body is wrapped. -/
def h2Enc (enc : Enc) (x : H2X) (k : Nat) : EncOutcome :=
  match x.outcome k with
  | .pending => .pending
  | .callFailed r => .callFailed r
  | .bodyBlocked _ _ => .pending
  | .ok st body =>
    match x.st.res with
    | some res => if res.body == .piped then enc.over st body .eof else .ok st body
    | none => .ok st body
  | .bodyFailed st d _ =>
    match x.st.res with
    | some res => if res.body == .piped then enc.over st d framingErr else .bodyFailed st d
    | none => .bodyFailed st d

/-- HTTP/3 (`ReadResponse`): the length-enforcing `body` is built first, the decoder around it. -/
def h3Enc (enc : Enc) (isHead : Bool) (segs : List Bytes) (fin : NetEnd) (fls : List Fields)
    (maxH k : Nat) : EncOutcome × H3Outcome :=
  let o := h3Outcome isHead segs fin fls maxH k
  (match o with
   | .callFailed => .callFailed false
   | .ok st body => enc.over st body .eof
   | .bodyFailed st d _ => enc.over st d framingErr
   | .bodyOpen _ _ => .pending, o)

/-- HTTP/1.1 under `EnableAutoDecompress` (`readLoop`: `compress.NewCompressReader(resp.Body, …)`
around the `body` of transfer.go): `none` = the call fails. -/
def h1Enc (enc : Enc) (B : Nat) (s : Bytes) : Option EncOutcome :=
  match parseFinal false B s with
  | .reject => none
  | .resp m b => some (enc.over m.sl.code b.data (if b.ok then .eof else framingErr))

end Req.C03
