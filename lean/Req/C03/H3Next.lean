import Req.C03.H3Cut
/-!
C03 — the request AFTER a failed HTTP/3 response, for every kind of request.

`RoundTripper.RoundTripOpt` (internal/http3/roundtrip.go): `getClient` hands out the cached
connection of the host (or dials), `cl.rt.RoundTrip` sends the request on it; when that fails
the entry is removed, and ONLY a request that `isReplayableWithoutBody` (no body; GET / HEAD /
OPTIONS / TRACE or an Idempotency-Key header) is sent again on a fresh connection, and only if
the connection was a reused one.  So whether the next request survives a dead cached
connection depends on its method and body — unless `getClient` never hands a dead connection
out (`H3Cache.getClient` evicts an entry whose context is done, fixes/C03-2).  `roundTripNext`
models the whole of `RoundTripOpt` with the eviction as a parameter, so that the theorem "every
kind of request is served" is about the code that exists and the variant without eviction is
there to show what it would cost.
-/
namespace Req.C03

/-- The next request as `RoundTripOpt` sees it. -/
structure NextReq where
  safe : Bool        -- method is GET / HEAD / OPTIONS / TRACE
  hasBody : Bool     -- `req.Body != nil && req.Body != http.NoBody`
  idemKey : Bool     -- carries `Idempotency-Key` / `X-Idempotency-Key`
deriving Repr, BEq, DecidableEq

/-- `isReplayableWithoutBody`. -/
def NextReq.replayable (q : NextReq) : Bool := !q.hasBody && (q.safe || q.idemKey)

/-- `getClient` with (`evict = true`, the code) or without the check of the cached connection's
context. -/
def H3Cache.getClientV (evict : Bool) (c : H3Cache) : H3Cache :=
  if evict then c.getClient
  else if c.cached then c else { cached := true, closed := false, dials := c.dials + 1 }

/-- `RoundTripOpt` for one request (no cancellation, dials succeed, the peer answers on an open
connection): was it served, and the cache afterwards. -/
def H3Cache.roundTripNextV (evict : Bool) (c : H3Cache) (q : NextReq) : Bool × H3Cache :=
  let reused := c.cached                       -- `isReused`: there was an entry
  let c1 := c.getClientV evict
  if !c1.closed then (true, c1)                -- sent on an open connection, answered
  else
    -- the connection handed out is dead: `RoundTrip` fails with a connection error,
    -- `removeClient`; retried once on a fresh connection iff replayable (and reused)
    let c2 : H3Cache := { c1 with cached := false }
    if reused && q.replayable then (true, c2.getClientV evict) else (false, c2)

def H3Cache.roundTripNext (c : H3Cache) (q : NextReq) : Bool × H3Cache := c.roundTripNextV true q

/-- The cache after the first request (ending `e`, outcome `o`). -/
def h3CacheAfterFirst (e : H3End) (o : H3Outcome) : H3Cache :=
  let c := H3Cache.empty.getClient
  let c := c.afterRoundTrip o.isCallFailed false
  match e with | .connClose _ => c.connClosed | _ => c

/-- The lane's function: is the next request `q` served, and the dials after it. -/
def h3Next (e : H3End) (o : H3Outcome) (q : NextReq) : Bool × Nat :=
  let r := (h3CacheAfterFirst e o).roundTripNext q
  (r.1, r.2.dials)

end Req.C03
