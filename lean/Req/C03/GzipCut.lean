import Req.Client.CompressToy
import Req.H1.Response
/-!
C03 — a compressed (Content-Encoding: gzip) HTTP/1.1 response that is cut short.

The decompressor is a parameter of the reader model of C14 (`Req.Compress.Codec`); the instance
here is the toy run-length codec of C14 (`Req.Compress.Toy`, streaming law proved there) behind a
two-byte magic header that the constructor reads with `io.ReadFull` — exactly the way
`gzip.NewReader` reads its ten-byte member header, which is where the known finding
`gzip-close-empty` comes from: `io.ReadFull` on an EMPTY body returns the body's own `io.EOF`
(not `io.ErrUnexpectedEOF`), and `transport.go gzipReader.Read` / `compress.GzipReader.Read` pass
that on as a clean end.
-/
namespace Req.C03
open Req.Proto Req.Compress Req.H1

/-- `gzip.NewReader(body)`: `io.ReadFull(body, hdr[:2])`, then the magic check. -/
def gzOpen (src : Src) : Except Term Toy.State :=
  match src.data with
  | [] => .error src.fin                       -- io.ReadFull read nothing: the body's own end, also io.EOF
  | [_] => .error (Toy.trunc src.fin)          -- a short read: io.ErrUnexpectedEOF / the body's error
  | a :: b :: rest =>
    if a = 31 ∧ b = 139 then Toy.openR ⟨rest, src.fin⟩ else .error Toy.errCorrupt   -- gzip.ErrHeader

/-- The toy decompressor behind a gzip-like header. -/
def gzCodec : Codec := { Toy.codec.toReader with openR := gzOpen }

def gzEncode (p : Bytes) : Bytes := 31 :: 139 :: Toy.encode p

/-- How the framing layer's body ends for the decompressor: `io.EOF` or its error. -/
def framingFin (ok : Bool) : Term := if ok then .eof else .err 10

/-- What the caller of a gzip-encoded HTTP/1.1 response gets when the peer sends `s` and the
connection ends: `none` = the call fails, else the decoded bytes and how the decoded body ends. -/
def gzOutcome (B : Nat) (s : Bytes) : Option (Bytes × Term) :=
  match parseFinal false B s with
  | .reject => none
  | .resp _ b => some (gzCodec.total ⟨b.data, framingFin b.ok⟩)

/-! ### the lane's instance: the reference decompressor's verdict supplied by the harness -/

/-- A codec that knows ONE complete compressed stream (its length `zlen`, what it decodes to) and
answers for its prefixes the way `compress/gzip` does (computed by the harness with the reference
library; C14's `bufferedCodec`): the empty body ends with the body's own end, the whole stream
decodes, every other prefix is an unexpected EOF; an error of the body surfaces. -/
def refOpen (zlen : Nat) (plain : Bytes) (src : Src) : Except Term (Bytes × Term) :=
  match src.fin with
  | .err e => if src.data = [] then .error (.err e) else .ok ([], .err e)
  | .eof =>
    if src.data = [] then .error .eof
    else if src.data.length = zlen then .ok (plain, .eof)
    else .ok ([], Toy.errUnexpectedEOF)

def gzOutcomeRef (B : Nat) (s : Bytes) (zlen : Nat) (plain : Bytes) : Option (Bytes × Term) :=
  match parseFinal false B s with
  | .reject => none
  | .resp _ b => some ((bufferedCodec (refOpen zlen plain)).total ⟨b.data, framingFin b.ok⟩)

end Req.C03
