import Req.H1.Response
/-!
C03 — how the HTTP/1 connection ENDS behind the bytes received: FIN or RST.

The whole-stream model of `Req.H1.Response` reads "exactly these bytes, then the connection
ends" and does not say how.  For Content-Length, chunked and body-less responses it need not:
their framing decides alone whether the body is complete (`body.Read` returns io.EOF at the
declared length / after the last chunk + trailer without another `conn.Read`; short of that
every ending — io.EOF or any other error of `persistConn.Read` — is io.ErrUnexpectedEOF or that
error).  A CLOSE-DELIMITED body (`RespFraming.untilClose`) is different: its only end mark is the
end of the connection, `body.Read` hands the error of `persistConn.Read` to the caller as it is
(`bodyEOFSignal` / `body.readLocked`, `transport.go persistConn.Read`).  A FIN (`conn.Read` =
io.EOF) is its clean end; a RST (`conn.Read` = ECONNRESET, a peer closing with SO_LINGER 0 or
with unread input) is a read error, at EVERY body offset — also offset 0, also behind the last
byte the peer meant to send.

`readBodyEnd` / `parseFinalEnd` = `readBody` / `parseFinal` with the ending made explicit.
-/
namespace Req.C03
open Req.Proto Req.H1

/-- What `conn.Read` returns behind the last byte received: io.EOF (`fin`) or a connection
reset (`reset`: ECONNRESET — any error other than io.EOF behaves the same). -/
inductive ConnEnd | fin | reset
deriving Repr, BEq, DecidableEq

/-- `readBody` with the connection's ending: only a close-delimited body looks at it. -/
def readBodyEnd (e : ConnEnd) (B : Nat) (m : Msg) (s : Bytes) : BodyRes :=
  match e, m.framing with
  | .reset, .untilClose => ⟨s, false, declMap m.trailerDecl, []⟩   -- the caller gets ECONNRESET
  | _, _ => readBody B m s

/-- The response a round trip returns for the bytes `s` followed by the ending `e`. -/
def parseFinalEnd (e : ConnEnd) (isHead : Bool) (B : Nat) (s : Bytes) : Outcome :=
  match parseFinalHead 6 isHead s with
  | none => .reject
  | some (m, r) => .resp m (readBodyEnd e B m r)

end Req.C03
