import Req.C03.H2Cut
import Req.C03.H2Pool
/-!
C03 — HTTP/2: SEVERAL concurrent streams on one connection.

`H2X` (H2Cut.lean) is one stream together with its view of the connection.  A connection carrying
several requests is a family of such views, one per stream ID, driven by ONE frame sequence:

* a frame addressed to stream `id` (HEADERS / DATA / RST_STREAM) is processed by that stream
  (`H2X.step`).  What it means for the OTHER streams is its connection-level residue
  (`H2X.sibling`): if processing it raised a connection error (`ConnectionError` from
  `processHeaders` / `processData`: the read loop ends, `cleanup` aborts every stream) the sibling
  sees `connLost`; otherwise at most `cc.doNotReuse` is set (RST_STREAM(PROTOCOL_ERROR) from the
  peer), which no stream outcome depends on;
* GOAWAY and the loss of the connection reach every stream.

`runM` folds a frame sequence; `h2_cut_isolated` (Props/C03H2M.lean) is the isolation theorem.
-/
namespace Req.C03
open Req.Proto Req.C02

inductive H2MEv
  | frame (id : Nat) (e : H2XEv)      -- HEADERS / DATA / RST_STREAM of stream `id`
  | conn (e : H2XEv)                  -- GOAWAY / the connection is lost
deriving Repr, BEq, DecidableEq

/-- The connection-level residue, for stream view `y`, of a frame that took ANOTHER stream from
`x` to `x'`. -/
def H2X.sibling (y x x' : H2X) : H2X :=
  if x'.st.connDead && !x.st.connDead then y.step .connLost
  else { y with doNotReuse := y.doNotReuse || x'.doNotReuse }

/-- The streams of one connection, by stream ID. -/
abbrev H2M := Nat → H2X

def H2M.init : H2M := fun id => H2X.init id false

def H2M.step (m : H2M) : H2MEv → H2M
  | .conn e => fun k => (m k).step e
  | .frame id e => fun k => if k = id then (m id).step e else (m k).sibling (m id) ((m id).step e)

def H2M.run (m : H2M) : List H2MEv → H2M
  | [] => m
  | e :: evs => (m.step e).run evs

/-- The frame is addressed to stream `i`. -/
def H2MEv.on (i : Nat) : H2MEv → Bool
  | .frame id _ => id == i
  | .conn _ => false

/-- After the frames: can the connection take the next request, is it still pooled (any stream's
view answers: the connection flags are shared). -/
def h2mDialsAfterNext (m : H2M) (ids : List Nat) : Nat :=
  let canTake := ids.all fun i => (m i).canTakeNewRequest
  let inPool := ids.all fun i => (m i).inPool
  let p := H2Pool.empty.getClientConn.1
  let p := p.setCanTake 0 canTake
  let p := if inPool then p else p.markDead 0
  p.getClientConn.1.dials

end Req.C03
