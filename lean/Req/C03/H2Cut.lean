import Req.C02.H2Recv
/-!
C03 — HTTP/2: one client stream together with the connection-level events that can end it
early, and what the connection pool may do with the connection afterwards.

The stream itself is the receive-path model of C02 (`Req.C02.H2Stream`: `processHeaders`,
`processData`, `processResetStream`, `endStream`, `readLoop.cleanup`'s abort,
`transportResponseBody.Read` with `bytesRemain`, the pipe).  Added here, in new definitions only:

* `H2XEv.rst code` — RST_STREAM carries an error code: the stream ends the same way for every
  code (`processResetStream`), but `ErrCodeProtocol` marks the connection `doNotReuse`, and
  the code decides whether a call that has not seen response headers yet is replayed
  (`canRetryError`: REFUSED_STREAM, or PROTOCOL_ERROR from the peer).
* `H2XEv.goAway last code` — `processGoAway` / `ClientConn.setGoAway`: the connection leaves
  the pool and takes no new request; a stream above `last` is aborted (replayable unless it
  is stream 1 and the merged code is not NO_ERROR), a stream at or below `last` is left alone.
* `H2XEv.connLost` — `ReadFrame` failed (transport EOF at a frame boundary, EOF inside a frame,
  a network error, or a connection error raised by the read loop): `readLoop.cleanup` marks
  the connection dead and closed and aborts every stream the peer has not closed.  A frame cut
  short by the transport never reaches the stream: `H2Wire.lean` proves that on the frame reader
  model of C05.
* `H2XOp.closeBody` — `transportResponseBody.Close`.
-/
namespace Req.C03
open Req.Proto Req.C02

/-- Why `ClientConn.RoundTrip` failed (`cs.abortErr`, kept from the FIRST abort: `abortOnce`). -/
inductive H2Cause
  | rst (code : Nat)          -- StreamError{code, Cause: errFromPeer}
  | goAwayRetry               -- errClientConnGotGoAway
  | goAwayErr (code : Nat)    -- "Transport received GOAWAY from server ErrCode:…" (stream 1, code ≠ NO_ERROR)
  | connLost                  -- io.ErrUnexpectedEOF / GoAwayError / the read loop's error
  | local                     -- a stream error raised by the read loop itself, or the caller
deriving Repr, BEq, DecidableEq

inductive H2XEv
  | headers (fields : Fields) (endStream : Bool)
  | data (payload : Bytes) (padded : Bool) (endStream : Bool)
  | rst (code : Nat)
  | goAway (last : Nat) (code : Nat)
  | connLost
deriving Repr, BEq, DecidableEq

/-- The event carries no END_STREAM flag. -/
def H2XEv.noES : H2XEv → Bool
  | .headers _ es => !es
  | .data _ _ es => !es
  | _ => true

/-- One stream and what `idleStateLocked` looks at on its connection. -/
structure H2X where
  sid : Nat                    -- stream ID (1 for the first request of a connection)
  st : H2Stream
  goAway : Option Nat          -- cc.goAway: the merged error code
  doNotReuse : Bool            -- cc.doNotReuse
  inPool : Bool                -- not yet `MarkDead`
  cause : Option H2Cause       -- cs.abortErr of a call that failed before the response head
deriving Repr, BEq, DecidableEq

def H2X.init (sid : Nat) (isHead : Bool) : H2X :=
  { sid := sid, st := H2Stream.init isHead, goAway := none, doNotReuse := false, inPool := true,
    cause := none }

/-- The call has neither a response head nor an error yet. -/
def H2X.pending (x : H2X) : Bool := x.st.res.isNone && x.st.headErr.isNone

/-- Record the cause if the step made the pending call fail. -/
def H2X.noteCause (x : H2X) (st' : H2Stream) (c : H2Cause) : Option H2Cause :=
  if x.pending ∧ st'.headErr.isSome then some c else x.cause

def ErrCodeProtocol : Nat := 1
def ErrCodeRefusedStream : Nat := 7

/-- `clientConnReadLoop.run` dispatch for the frames that concern this stream, and its end. -/
def H2X.step (x : H2X) : H2XEv → H2X
  | .headers fs es =>
    let st' := x.st.processHeaders fs es
    { x with st := st', cause := x.noteCause st' .local, inPool := x.inPool && !st'.connDead }
  | .data p pad es =>
    let st' := x.st.processData p pad es
    { x with st := st', cause := x.noteCause st' .local, inPool := x.inPool && !st'.connDead }
  | .rst code =>
    let st' := x.st.processRst
    -- `streamByID` finds the stream unless the read loop reset it (or the loop is gone)
    let found := !(x.st.readAborted || x.st.connDead)
    { x with st := st', cause := x.noteCause st' (.rst code),
             doNotReuse := x.doNotReuse || (found && code == ErrCodeProtocol) }
  | .goAway last code =>
    if x.st.connDead then x else
    let merged := match x.goAway with
      | some old => if old ≠ 0 then old else code
      | none => code
    let x := { x with goAway := some merged, inPool := false }
    if x.sid ≤ last then x
    else
      let st' := x.st.abort .connProto
      { x with st := st',
               cause := x.noteCause st' (if x.sid = 1 ∧ merged ≠ 0 then .goAwayErr merged else .goAwayRetry) }
  | .connLost =>
    let st' := x.st.connError
    { x with st := st', cause := x.noteCause st' .connLost, inPool := false }

/-- `transportResponseBody.Close`: break the pipe, abort the stream (RST_STREAM(CANCEL) goes
out from `cleanupWriteRequest`; the connection is not affected). -/
def H2X.closeBody (x : H2X) : H2X :=
  { x with st := ({ x.st with pipe := x.st.pipe.breakWithError .closedBody } : H2Stream).abort .closedBody }

/-- `canRetryError(cs.abortErr)`. -/
def H2Cause.retryable : H2Cause → Bool
  | .rst code => code == ErrCodeProtocol || code == ErrCodeRefusedStream
  | .goAwayRetry => true
  | _ => false

/-- `idleStateLocked().canTakeNewRequest` (stream-count and idle-timeout limits aside). -/
def H2X.canTakeNewRequest (x : H2X) : Bool :=
  x.goAway.isNone && !x.st.connDead && !x.doNotReuse

inductive H2XOp
  | ev (e : H2XEv)
  | read (k : Nat)
  | closeBody
deriving Repr, BEq, DecidableEq

/-- One observation per `read` op (`none` = the read would block at that point). -/
def H2X.run (x : H2X) : List H2XOp → List (Option (Bytes × Option H2Err)) × H2X
  | [] => ([], x)
  | .ev e :: ops => (x.step e).run ops
  | .closeBody :: ops => x.closeBody.run ops
  | .read k :: ops =>
    match x.st.read k with
    | none => let (os, x') := x.run ops; (none :: os, x')
    | some (o, st') => let (os, x') := ({ x with st := st' } : H2X).run ops; (some o :: os, x')

def evsOf : List H2XOp → List H2XEv
  | [] => []
  | .ev e :: ops => e :: evsOf ops
  | _ :: ops => evsOf ops

/-- The concatenated DATA payloads of an event list. -/
def dataOf : List H2XEv → Bytes
  | [] => []
  | .data p _ _ :: evs => p ++ dataOf evs
  | _ :: evs => dataOf evs

/-- The bytes the reads handed to the caller. -/
def outOf : List (Option (Bytes × Option H2Err)) → Bytes
  | [] => []
  | none :: os => outOf os
  | some (d, _) :: os => d ++ outOf os

/-! ### what the caller of the client observes -/

inductive H2Outcome
  | pending                               -- RoundTrip still waits (the peer is silent)
  | callFailed (retry : Bool)             -- RoundTrip returned an error; `retry`: replayed if the request allows
  | ok (status : Nat) (body : Bytes)      -- response head and a body ending in io.EOF
  | bodyFailed (status : Nat) (delivered : Bytes) (e : H2Err)
  | bodyBlocked (status : Nat) (delivered : Bytes)
deriving Repr, BEq, DecidableEq

/-- Drain the body with reads of `k` bytes (`fuel` reads at most). -/
def drainAll (k : Nat) : Nat → H2Stream → Bytes → (Bytes × Option (Option H2Err)) × H2Stream
  | 0, s, acc => ((acc, none), s)
  | fuel + 1, s, acc =>
    match s.read k with
    | none => ((acc, none), s)
    | some ((d, none), s') => drainAll k fuel s' (acc ++ d)
    | some ((d, some e), s') => ((acc ++ d, some (some e)), s')

/-- After all events were delivered: what the call and a draining caller (reads of `k` bytes)
observe. -/
def H2X.outcome (x : H2X) (k : Nat) : H2Outcome :=
  match x.st.res with
  | none =>
    match x.st.headErr with
    | none => .pending
    | some _ => .callFailed (match x.cause with | some c => c.retryable | none => false)
  | some res =>
    match res.body with
    | .noBody => .ok res.status []
    | .missingBody => .bodyFailed res.status [] .unexpectedEOF
    | .piped =>
      match drainAll k (x.st.pipe.buf.length + 2) x.st [] with
      | ((d, some (some .eof)), _) => .ok res.status d
      | ((d, some (some e)), _) => .bodyFailed res.status d e
      | ((d, _), _) => .bodyBlocked res.status d

end Req.C03
