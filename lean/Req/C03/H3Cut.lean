import Req.C02.H3Recv
/-!
C03 — HTTP/3: the body reader of one request stream with the truncated-frame rule of
fixes/C03-3 (`frameParser.ParseNext` counts the bytes of the frame it is reading; an `io.EOF`
after the first byte of a frame is `io.ErrUnexpectedEOF`; `decodeTrailers` does the same for an
empty read of a non-empty field section), how a stream ends (FIN, stream reset with any code,
connection close with any code), what the caller observes, and what `RoundTripper.getClient`
does with the cached connection afterwards.

The response head is read by the functions of C02 (`H3Stream.readFinalResponse`: a failure there
fails the call whatever the error is); the body functions below are those of C02
(`Req.C02.parseNext`, `H3Stream.read`, `H3Body.read`) with the repaired end-of-stream mapping —
`H3Lemmas` proves that they agree with C02's wherever C02's do not report `io.EOF`.
-/
namespace Req.C03
open Req.Proto Req.Ascii Req.C02

/-- `truncatedFrame(err, consumed)`: the stream ended after `consumed > 0` bytes of a frame. -/
def truncatedFrame (e : H3Err) (consumed : Bool) : H3Err :=
  if e == .eof ∧ consumed then .unexpectedEOF else e

/-- `frameParser.ParseNext` on a request stream (no unknownFrameHandler), repaired. -/
def parseNextR : Nat → Net → Except H3Err H3Frame × Net
  | 0, n => (.error .stuck, n)
  | fuel + 1, n =>
    match n.readVarint with
    | (.error e, n1) => (.error (truncatedFrame e (n1.size < n.size)), n1)
    | (.ok t, n1) =>
      match n1.readVarint with
      | (.error e, n2) => (.error (truncatedFrame e true), n2)
      | (.ok l, n2) =>
        if t = 0 then (.ok (.data l), n2)
        else if t = 1 then (.ok (.headers l), n2)
        else if t = 4 then
          -- parseSettingsFrame reads the payload before the frame is refused
          match Net.readN (l + 1) l [] n2 with
          | ((_, none), n3) => (.ok .settings, n3)
          | ((_, some .reset), n3) => (.error .reset, n3)
          | ((_, some _), n3) => (.error .unexpectedEOF, n3)
        else if t = 2 ∨ t = 6 ∨ t = 8 ∨ t = 9 then (.error .frameUnexpected, n2)
        else
          -- skip: io.CopyN(io.Discard, qr, l); a short copy is a truncated frame
          match Net.readN (l + 1) l [] n2 with
          | ((_, none), n3) => parseNextR fuel n3
          | ((_, some .reset), n3) => (.error .reset, n3)
          | ((_, some _), n3) => (.error .unexpectedEOF, n3)

/-- `io.ReadFull` of a non-empty block: every `io.EOF` is a truncation (fixes/C03-3). -/
def readFullErrR (e : H3Err) : H3Err := if e == .eof then .unexpectedEOF else e

/-- `connection.decodeTrailers` through `stream.parseTrailer`, repaired. -/
def parseTrailerR (s : H3Stream) (l : Nat) : Option H3Err × H3Stream :=
  if l > s.maxHeaderBytes then (some .headersTooLarge, s) else
  match Net.readN (l + 1) l [] s.net with
  | ((_, some e), n') => (some (readFullErrR e), { s with net := n' })
  | ((_, none), n') =>
    match s.fieldLists with
    | [] => (some .noFieldList, { s with net := n' })
    | fs :: rest =>
      match h3ParseTrailers fs with
      | none => (some .invalidFields, { s with net := n', fieldLists := rest })
      | some t => (none, { s with net := n', fieldLists := rest, trailer := some t })

/-- Reading inside a DATA frame: `stream.Read` below the frame parsing. -/
def readInFrame (s : H3Stream) (k : Nat) : (Bytes × Option H3Err) × H3Stream :=
  match s.net.read (min k s.remInFrame) with
  | (some d, n') => ((d, none), { s with net := n', remInFrame := s.remInFrame - d.length })
  | (none, n') =>
    (([], some (if s.net.fin == .eof ∧ s.remInFrame > 0 then H3Err.unexpectedEOF else s.net.fin.toH3)),
     { s with net := n' })

/-- `stream.Read(b)`, `len(b) = k`, repaired. -/
def readR (s : H3Stream) (k : Nat) : (Bytes × Option H3Err) × H3Stream :=
  if s.remInFrame ≠ 0 then readInFrame s k else
  match parseNextR (s.net.size + 1) s.net with
  | (.error e, n') => (([], some e), { s with net := n' })
  | (.ok (.data l), n') =>
    if s.parsedTrailer then (([], some .dataAfterTrailers), { s with net := n' })
    else readInFrame { s with net := n', remInFrame := l } k
  | (.ok (.headers l), n') =>
    if s.parsedTrailer then (([], some .headersAfterTrailers), { s with net := n' })
    else
      let (e, s') := parseTrailerR ({ s with net := n', parsedTrailer := true } : H3Stream) l
      (([], e), s')
  | (.ok .settings, n') => (([], some .frameUnexpected), { s with net := n' })

/-- `body.Read` / `hijackableBody.Read`, on the repaired stream reader. -/
def bodyReadR (b : H3Body) (k : Nat) : (Bytes × Option H3Err) × H3Body :=
  if b.violation then (([], some .tooMuchData), b) else
  let k' := if b.hasCL then min k b.remaining else k
  let ((d, e), str') := readR b.str k'
  let b' := { b with str := str', remaining := b.remaining - d.length }
  if b'.violation then ((d, some .tooMuchData), b')
  else if e == some .eof ∧ b'.hasCL ∧ b'.remaining > 0 then ((d, some .unexpectedEOF), b')
  else ((d, e), b')

/-- Reads until the first error (incl. EOF). -/
def bodyRunR (b : H3Body) (ks : List Nat) : List (Bytes × Option H3Err) × H3Body :=
  runReads bodyReadR b ks

/-! ### how the stream ends, what the caller observes -/

inductive H3End
  | fin                       -- the peer finished the stream
  | reset (code : Nat)        -- RESET_STREAM with any application error code
  | connClose (code : Nat)    -- CONNECTION_CLOSE with any code: every stream read fails
deriving Repr, BEq, DecidableEq

def H3End.net : H3End → NetEnd
  | .fin => .eof
  | _ => .reset

inductive H3Outcome
  | callFailed
  | ok (status : Nat) (body : Bytes)
  | bodyFailed (status : Nat) (delivered : Bytes) (e : H3Err)
  | bodyOpen (status : Nat) (delivered : Bytes)     -- the drain ran out of reads (not reached)
deriving Repr, BEq, DecidableEq

/-- The call (`doRequest`: up to five informational responses skipped) and a caller draining
the body with reads of `k` bytes. `segs` = the stream's bytes in the segmentation in which they
arrive, `fls` = the decoded field list of every HEADERS frame, in order. -/
def h3Outcome (isHead : Bool) (segs : List Bytes) (fin : NetEnd) (fls : List Fields) (maxH k : Nat) :
    H3Outcome :=
  let s0 : H3Stream := { net := { segs := segs, fin := fin }, remInFrame := 0, parsedTrailer := false,
                         trailer := none, fieldLists := fls, maxHeaderBytes := maxH }
  match s0.readFinalResponse 7 0 with
  | (.error _, _) => .callFailed
  | (.ok h, s1) =>
    let (rs, _) := bodyRunR (H3Body.new isHead h s1) (List.replicate (s1.net.size + 3) k)
    match lastErr rs with
    | some .eof => .ok h.status (outBytes rs)
    | some e => .bodyFailed h.status (outBytes rs) e
    | none => .bodyOpen h.status (outBytes rs)

/-! ### the cached connection (`RoundTripper.clients[hostname]`) -/

/-- What `getClient` / `RoundTripOpt` look at. -/
structure H3Cache where
  cached : Bool       -- there is an entry for the host
  closed : Bool       -- its `conn.Context()` is done (closed by the peer, by an error, idle timeout)
  dials : Nat
deriving Repr, BEq, DecidableEq

def H3Cache.empty : H3Cache := { cached := false, closed := false, dials := 0 }

/-- `getClient`: a cached connection whose context is done is forgotten and a new one dialled.
Returns the cache and whether the connection handed out is closed. -/
def H3Cache.getClient (c : H3Cache) : H3Cache :=
  if c.cached ∧ !c.closed then c else { cached := true, closed := false, dials := c.dials + 1 }

/-- After `cl.rt.RoundTrip`: a call error (other than `context.Canceled`) removes the entry. -/
def H3Cache.afterRoundTrip (c : H3Cache) (callFailed canceled : Bool) : H3Cache :=
  if callFailed ∧ !canceled then { c with cached := false } else c

/-- The connection was closed (CONNECTION_CLOSE from the peer, a connection error). -/
def H3Cache.connClosed (c : H3Cache) : H3Cache := { c with closed := true }

def H3Outcome.isCallFailed : H3Outcome → Bool
  | .callFailed => true
  | _ => false

/-- Dials after the first request (ending `e`, outcome `o`) and one more request. -/
def h3DialsAfterSecond (e : H3End) (o : H3Outcome) : Nat :=
  let c := H3Cache.empty.getClient
  let c := c.afterRoundTrip o.isCallFailed false
  let c := match e with | .connClose _ => c.connClosed | _ => c
  c.getClient.dials

end Req.C03
