"""Per-property configuration of bin/check: one JSON file per claimed property under props/."""
import json, os, glob
VERIF = os.path.dirname(os.path.dirname(os.path.abspath(__file__)))

COMMON_ASSUME = [
    "the theorems are about the Lean model; the model is tied to /repo by the correspondence lanes and regenerated facts listed in the evidence",
]

PROPS = {}
for f in sorted(glob.glob(os.path.join(VERIF, "props", "C*.json"))):
    c = json.load(open(f))
    c.setdefault("assumptions", [])
    c["assumptions"] = COMMON_ASSUME + c["assumptions"]
    PROPS[os.path.basename(f)[:-5]] = c

_na = os.path.join(VERIF, "props", "not_applicable.json")
NOT_APPLICABLE = json.load(open(_na)) if os.path.exists(_na) else {}
for i in range(1, 21):
    NOT_APPLICABLE.setdefault("C%02d" % i, "check not built yet (planned per DESIGN.md section 8)")
