"""Per-property configuration of bin/check."""

COMMON_ASSUME = [
    "the theorems are about the Lean model; the model is tied to /repo by the correspondence lanes and regenerated facts listed here",
]

PROPS = {
    "C16": {
        "lean_props": ["Req.Props.C16"],
        "bridge": [],
        "lanes": [
            {"pkg": ".", "run": "^TestVerif_C16_"},
        ],
        "trusted_base": [
            "modelled, not verified: Go map iteration order (explicit permutation), HPACK/QPACK encoders (decoded by the reference decoders in the wire lane)",
        ],
        "assumptions": COMMON_ASSUME,
        "level_text": "Theorems sort_perm and sort_listed_ordered hold for header lists of every length (induction over the insertion sort with the positional comparator); the model is tied to internal/header/sort.go by a differential lane.",
        "level_note": "Trusted: Lean kernel, the correspondence harness and its generators. Modelled not verified: map iteration order, HPACK/QPACK.",
    },
}

# properties not (yet) claimed, each with the reason
NOT_APPLICABLE = {p: "check not built yet in this round (planned per DESIGN.md section 8)" for p in
                  ["C%02d" % i for i in range(1, 21)]}

