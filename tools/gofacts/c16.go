package main

// C16Facts: the tables that decide which header keys never reach the wire.
//   - root package `reqWriteExcludeHeader` (http_request.go), used by the HTTP/1.1 writer
//   - internal/header `reqWriteExcludeHeader` + the shape of `IsExcluded` (lower-cased lookup),
//     used by the HTTP/2 and HTTP/3 writers
//   - the bookkeeping key constants (internal/header and request.go) and the default user agent
// The extractor refuses when a table entry is not `<string literal or known constant>: true`.

import (
	"fmt"
	"go/ast"
	"go/token"
	"io/fs"
	"path/filepath"
	"regexp"
	"sort"
	"strconv"
	"strings"
)

func init() { register("C16Facts", c16Facts) }

// constString resolves a package-level string constant.
func constString(c *ctx, dir, name string) (string, error) {
	vs, i, err := c.valueSpec(dir, name)
	if err != nil {
		return "", err
	}
	if i >= len(vs.Values) {
		return "", fmt.Errorf("%s.%s has no initialiser", dir, name)
	}
	bl, ok := vs.Values[i].(*ast.BasicLit)
	if !ok || bl.Kind != token.STRING {
		return "", fmt.Errorf("%s.%s is not a string literal", dir, name)
	}
	return strconv.Unquote(bl.Value)
}

// excludeTable reads `var <name> = map[string]bool{ k: true, … }`; keys are string literals,
// local constants, or `header.X` selectors (resolved in internal/header).
func excludeTable(c *ctx, dir, name string) ([]string, error) {
	vs, i, err := c.valueSpec(dir, name)
	if err != nil {
		return nil, err
	}
	if i >= len(vs.Values) {
		return nil, fmt.Errorf("%s has no initialiser", name)
	}
	cl, ok := vs.Values[i].(*ast.CompositeLit)
	if !ok {
		return nil, fmt.Errorf("%s is not a composite literal", name)
	}
	mt, ok := cl.Type.(*ast.MapType)
	if !ok || fmt.Sprint(mt.Key) != "string" || fmt.Sprint(mt.Value) != "bool" {
		return nil, fmt.Errorf("%s is not a map[string]bool literal", name)
	}
	var keys []string
	for _, e := range cl.Elts {
		kv, ok := e.(*ast.KeyValueExpr)
		if !ok {
			return nil, fmt.Errorf("%s: element is not key: value", name)
		}
		if id, ok := kv.Value.(*ast.Ident); !ok || id.Name != "true" {
			return nil, fmt.Errorf("%s: a value is not the literal true", name)
		}
		var k string
		switch x := kv.Key.(type) {
		case *ast.BasicLit:
			if x.Kind != token.STRING {
				return nil, fmt.Errorf("%s: non-string key", name)
			}
			k, err = strconv.Unquote(x.Value)
		case *ast.Ident:
			k, err = constString(c, dir, x.Name)
		case *ast.SelectorExpr:
			if pkg, ok := x.X.(*ast.Ident); ok && pkg.Name == "header" {
				k, err = constString(c, "internal/header", x.Sel.Name)
			} else {
				err = fmt.Errorf("%s: key selector outside package header", name)
			}
		default:
			err = fmt.Errorf("%s: key of unsupported form %T", name, kv.Key)
		}
		if err != nil {
			return nil, err
		}
		keys = append(keys, k)
	}
	sort.Strings(keys)
	for j := 1; j < len(keys); j++ {
		if keys[j] == keys[j-1] {
			return nil, fmt.Errorf("%s: duplicate key %q", name, keys[j])
		}
	}
	return keys, nil
}

// isExcludedLowercases checks the shape `if reqWriteExcludeHeader[strings.ToLower(key)] { return true }; return false`.
func isExcludedLowercases(c *ctx) (bool, error) {
	fd, err := c.funcDecl("internal/header", "", "IsExcluded")
	if err != nil {
		return false, err
	}
	if fd.Type.Params == nil || len(fd.Type.Params.List) != 1 || len(fd.Type.Params.List[0].Names) != 1 {
		return false, fmt.Errorf("IsExcluded: unexpected parameters")
	}
	param := fd.Type.Params.List[0].Names[0].Name
	found := false
	nIndex := 0
	ast.Inspect(fd.Body, func(n ast.Node) bool {
		ix, ok := n.(*ast.IndexExpr)
		if !ok {
			return true
		}
		nIndex++
		id, ok := ix.X.(*ast.Ident)
		if !ok || id.Name != "reqWriteExcludeHeader" {
			return true
		}
		call, ok := ix.Index.(*ast.CallExpr)
		if !ok || len(call.Args) != 1 {
			return true
		}
		sel, ok := call.Fun.(*ast.SelectorExpr)
		if !ok || fmt.Sprint(sel.X) != "strings" || sel.Sel.Name != "ToLower" {
			return true
		}
		if a, ok := call.Args[0].(*ast.Ident); ok && a.Name == param {
			found = true
		}
		return true
	})
	if !found || nIndex != 1 {
		return false, fmt.Errorf("IsExcluded no longer has the shape reqWriteExcludeHeader[strings.ToLower(%s)]", param)
	}
	// the only results are the literals true / false
	ok := true
	ast.Inspect(fd.Body, func(n ast.Node) bool {
		if rs, isRet := n.(*ast.ReturnStmt); isRet {
			if len(rs.Results) != 1 {
				ok = false
			} else if id, isId := rs.Results[0].(*ast.Ident); !isId || (id.Name != "true" && id.Name != "false") {
				ok = false
			}
		}
		return true
	})
	if !ok {
		return false, fmt.Errorf("IsExcluded returns something other than true/false literals")
	}
	return true, nil
}

// internalKeyRe is the convention of the in-band bookkeeping keys: `__name__`.
var internalKeyRe = regexp.MustCompile(`^__[A-Za-z0-9_]+__$`)

// internalKeys collects EVERY string literal of that convention in the non-test Go sources of the
// whole module (any package, any position: constant, map key, index expression, argument). A new
// bookkeeping key — wherever it is declared and however it is used — shows up here, and the bridge
// demands that it is in both exclusion tables. Renames, moved declarations and extracted helpers
// do not change the result (it is a set of literal values).
func internalKeys(c *ctx) ([]string, error) {
	seen := map[string]bool{}
	var dirs []string
	err := filepath.WalkDir(c.repo, func(p string, d fs.DirEntry, err error) error {
		if err != nil {
			return err
		}
		if !d.IsDir() {
			return nil
		}
		n := d.Name()
		if p != c.repo && (strings.HasPrefix(n, ".") || strings.HasPrefix(n, "_") || n == "testdata" || n == "vendor") {
			return filepath.SkipDir
		}
		rel, err := filepath.Rel(c.repo, p)
		if err != nil {
			return err
		}
		if rel == "." {
			rel = ""
		}
		dirs = append(dirs, rel)
		return nil
	})
	if err != nil {
		return nil, err
	}
	for _, dir := range dirs {
		files, err := c.files(dir)
		if err != nil {
			return nil, err
		}
		for _, f := range files {
			ast.Inspect(f, func(n ast.Node) bool {
				if bl, ok := n.(*ast.BasicLit); ok && bl.Kind == token.STRING {
					if v, err := strconv.Unquote(bl.Value); err == nil && internalKeyRe.MatchString(v) {
						seen[v] = true
					}
				}
				return true
			})
		}
	}
	var out []string
	for k := range seen {
		out = append(out, k)
	}
	sort.Strings(out)
	return out, nil
}

func leanBytesList(l []string) string {
	parts := make([]string, len(l))
	for i, s := range l {
		parts[i] = "  " + leanBytes(s)
	}
	return "[\n" + strings.Join(parts, ",\n") + "]"
}

func c16Facts(c *ctx) (string, error) {
	root, err := excludeTable(c, "", "reqWriteExcludeHeader")
	if err != nil {
		return "", err
	}
	inner, err := excludeTable(c, "internal/header", "reqWriteExcludeHeader")
	if err != nil {
		return "", err
	}
	hok, err := constString(c, "internal/header", "HeaderOderKey")
	if err != nil {
		return "", err
	}
	phok, err := constString(c, "internal/header", "PseudoHeaderOderKey")
	if err != nil {
		return "", err
	}
	rhok, err := constString(c, "", "HeaderOderKey")
	if err != nil {
		return "", err
	}
	rphok, err := constString(c, "", "PseudoHeaderOderKey")
	if err != nil {
		return "", err
	}
	ua, err := constString(c, "internal/header", "DefaultUserAgent")
	if err != nil {
		return "", err
	}
	if _, err := isExcludedLowercases(c); err != nil {
		return "", err
	}
	ikeys, err := internalKeys(c)
	if err != nil {
		return "", err
	}
	if len(ikeys) == 0 {
		return "", fmt.Errorf("no `__name__` string literal found in the module: the bookkeeping-key convention changed")
	}
	var b strings.Builder
	b.WriteString("/-! Header exclusion tables and bookkeeping keys of imroc/req, regenerated from the source. -/\n")
	b.WriteString("namespace Generated.C16Facts\n\n")
	b.WriteString("/-- root package `reqWriteExcludeHeader` (http_request.go), keys sorted -/\n")
	b.WriteString("def rootExclude : List (List UInt8) := " + leanBytesList(root) + "\n\n")
	b.WriteString("/-- internal/header `reqWriteExcludeHeader`, keys sorted; `IsExcluded` looks up `strings.ToLower(key)` -/\n")
	b.WriteString("def lowerExclude : List (List UInt8) := " + leanBytesList(inner) + "\n\n")
	b.WriteString("def headerOrderKey : List UInt8 := " + leanBytes(hok) + "\n")
	b.WriteString("def pseudoHeaderOrderKey : List UInt8 := " + leanBytes(phok) + "\n")
	b.WriteString("/-- request.go constants the setters store the lists under -/\n")
	b.WriteString("def apiHeaderOrderKey : List UInt8 := " + leanBytes(rhok) + "\n")
	b.WriteString("def apiPseudoHeaderOrderKey : List UInt8 := " + leanBytes(rphok) + "\n")
	b.WriteString("def defaultUserAgent : List UInt8 := " + leanBytes(ua) + "\n\n")
	b.WriteString("/-- every string literal of the form `__name__` in the non-test sources of the module, sorted -/\n")
	b.WriteString("def internalKeys : List (List UInt8) := " + leanBytesList(ikeys) + "\n\n")
	b.WriteString("end Generated.C16Facts\n")
	return b.String(), nil
}
