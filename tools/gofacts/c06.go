package main

// C06 facts: internal/http2/flow.go translated to Lean (Generated/C06Flow.lean) and the
// constants / seeding assignments of newClientConn, addStreamLocked, awaitFlowControl and
// frameScratchBufferLen (Generated/C06Facts.lean). Bridged in lean/Bridge/C06.lean.

import (
	"fmt"
	"go/ast"
	"go/token"
	"sort"
	"strings"
)

const c06Dir = "internal/http2"

func init() {
	register("C06Flow", c06Flow)
	register("C06Facts", c06Facts)
}

func c06NewTranslator(c *ctx) (*c06Translator, error) {
	t := &c06Translator{c: c, dir: c06Dir, structs: map[string]*c06StructInfo{}, fns: map[string]*c06FnSig{}, consts: map[string]int64{}}
	if err := t.loadStruct("inflow", "Inflow"); err != nil {
		return nil, err
	}
	if err := t.loadStruct("outflow", "Outflow"); err != nil {
		return nil, err
	}
	// the Lean structures in Req/H2/FlowTypes.lean mirror exactly these fields
	in, out := t.structs["inflow"], t.structs["outflow"]
	if len(in.fields) != 2 || in.fields["avail"] != "int32" || in.fields["unsent"] != "int32" {
		return nil, fmt.Errorf("struct inflow is no longer {avail, unsent int32}: %v", in.fields)
	}
	if len(out.fields) != 3 || out.fields["n"] != "int32" || out.fields["conn"] != "*outflow" || out.fields["_"] != "incomparable" {
		return nil, fmt.Errorf("struct outflow is no longer {_ incomparable; n int32; conn *outflow}: %v", out.fields)
	}
	return t, nil
}

func c06Flow(c *ctx) (string, error) {
	t, err := c06NewTranslator(c)
	if err != nil {
		return "", err
	}
	var b strings.Builder
	b.WriteString("import Req.H2.FlowTypes\nset_option linter.unusedVariables false\nnamespace Generated.C06Flow\nopen Req.H2\n\n")
	v, ok := t.constValue(&ast.Ident{Name: "inflowMinRefresh"}, nil)
	if !ok {
		return "", fmt.Errorf("constant inflowMinRefresh not found or not an integer constant")
	}
	fmt.Fprintf(&b, "def inflowMinRefresh : Int := %d\n\n", v)
	for _, f := range []struct{ recv, name, lean string }{
		{"inflow", "init", "inflow_init"},
		{"inflow", "add", "inflow_add"},
		{"inflow", "take", "inflow_take"},
		{"", "takeInflows", "takeInflows"},
		{"outflow", "available", "outflow_available"},
		{"outflow", "take", "outflow_take"},
		{"outflow", "add", "outflow_add"},
	} {
		s, err := t.function(f.recv, f.name, f.lean)
		if err != nil {
			return "", fmt.Errorf("flow.go %s.%s: %v", f.recv, f.name, err)
		}
		b.WriteString(s + "\n")
	}
	b.WriteString("end Generated.C06Flow\n")
	return b.String(), nil
}

func c06LeanStr(s string) string {
	return "\"" + strings.ReplaceAll(strings.ReplaceAll(s, "\\", "\\\\"), "\"", "\\\"") + "\""
}

// c06FindCall finds the first call statement `<fun>(args…)` (fun as rendered) in a list.
func c06FindCall(t *c06Translator, list []ast.Stmt, fun string) (*ast.CallExpr, int) {
	for i, s := range list {
		if es, ok := s.(*ast.ExprStmt); ok {
			if c, ok := es.X.(*ast.CallExpr); ok && c06Render(t.c.fset, c.Fun) == fun {
				return c, i
			}
		}
	}
	return nil, -1
}

func c06Facts(c *ctx) (string, error) {
	t, err := c06NewTranslator(c)
	if err != nil {
		return "", err
	}
	var b strings.Builder
	b.WriteString("import Req.H2.FlowTypes\nset_option linter.unusedVariables false\nnamespace Generated.C06Facts\nopen Req.H2\n\n")

	// ---- package constants
	for _, n := range []string{"transportDefaultConnFlow", "transportDefaultStreamFlow", "initialMaxConcurrentStreams",
		"defaultMaxConcurrentStreams", "initialWindowSize", "initialHeaderTableSize", "inflowMinRefresh"} {
		v, ok := t.constValue(&ast.Ident{Name: n}, nil)
		if !ok {
			return "", fmt.Errorf("constant %s not found or not an integer constant", n)
		}
		fmt.Fprintf(&b, "def %s : Int := %d\n", n, v)
	}
	b.WriteString("\n")

	// ---- newClientConn
	fd, err := c.funcDecl(c06Dir, "Transport", "newClientConn")
	if err != nil {
		return "", err
	}
	body := fd.Body.List
	// (1) the ClientConn literal
	var lit *ast.CompositeLit
	for _, s := range body {
		if as, ok := s.(*ast.AssignStmt); ok && len(as.Rhs) == 1 {
			if u, ok := as.Rhs[0].(*ast.UnaryExpr); ok && u.Op == token.AND {
				if cl, ok := u.X.(*ast.CompositeLit); ok && c06Render(c.fset, cl.Type) == "ClientConn" {
					lit = cl
					break
				}
			}
		}
	}
	if lit == nil {
		return "", fmt.Errorf("newClientConn: `cc := &ClientConn{…}` not found")
	}
	litVals := map[string]ast.Expr{}
	for _, e := range lit.Elts {
		kv, ok := e.(*ast.KeyValueExpr)
		if !ok {
			return "", fmt.Errorf("newClientConn: ClientConn literal is not keyed")
		}
		litVals[c06Render(c.fset, kv.Key)] = kv.Value
	}
	for _, k := range []string{"nextStreamID", "maxFrameSize", "initialWindowSize", "maxConcurrentStreams"} {
		e, ok := litVals[k]
		if !ok {
			return "", fmt.Errorf("newClientConn: ClientConn literal does not set %s", k)
		}
		v, ok := t.constValue(e, nil)
		if !ok {
			return "", fmt.Errorf("newClientConn: initial %s is not an integer constant: %s", k, c06Render(c.fset, e))
		}
		fmt.Fprintf(&b, "def cc_%s_0 : Int := %d\n", k, v)
	}
	if e, ok := litVals["wantSettingsAck"]; !ok || c06Render(c.fset, e) != "true" {
		return "", fmt.Errorf("newClientConn: wantSettingsAck is not initialised to true")
	}
	b.WriteString("def cc_wantSettingsAck_0 : Bool := true\n")
	// optional field introduced by the repair of the receive-window defect
	if e, ok := litVals["streamInflow"]; ok {
		v, ok := t.constValue(e, nil)
		if !ok {
			return "", fmt.Errorf("newClientConn: initial streamInflow is not an integer constant")
		}
		fmt.Fprintf(&b, "def cc_streamInflow_0 : Option Int := some %d\n", v)
	} else {
		b.WriteString("def cc_streamInflow_0 : Option Int := none\n")
	}

	// (2) what the caller's SETTINGS seed
	var seeds []string
	foundSwitch := false
	for _, s := range body {
		rs, ok := s.(*ast.RangeStmt)
		if !ok || c06Render(c.fset, rs.X) != "t.Settings" {
			continue
		}
		if len(rs.Body.List) != 1 {
			return "", fmt.Errorf("newClientConn: loop over t.Settings is no longer a single switch / if chain")
		}
		// a `switch setting.ID` and an if / else-if chain on `setting.ID == K` are the same thing
		var chain ast.Stmt
		switch st := rs.Body.List[0].(type) {
		case *ast.SwitchStmt:
			var err error
			if chain, err = t.switchToIf(st); err != nil {
				return "", fmt.Errorf("newClientConn settings switch: %v", err)
			}
		case *ast.IfStmt:
			chain = st
		default:
			return "", fmt.Errorf("newClientConn: loop over t.Settings is no longer a switch / if chain")
		}
		foundSwitch = true
		idExpr := c06Render(c.fset, rs.Value) + ".ID"
		for chain != nil {
			is, ok := chain.(*ast.IfStmt)
			if !ok {
				if blk, ok := chain.(*ast.BlockStmt); ok && len(blk.List) == 0 {
					break // empty default
				}
				return "", fmt.Errorf("newClientConn: settings chain has a default branch with effects")
			}
			if is.Init != nil {
				return "", fmt.Errorf("newClientConn: settings chain with init")
			}
			// the condition: a disjunction of `setting.ID == K`
			var keys []string
			var walk func(e ast.Expr) bool
			walk = func(e ast.Expr) bool {
				if p, ok := e.(*ast.ParenExpr); ok {
					return walk(p.X)
				}
				b, ok := e.(*ast.BinaryExpr)
				if !ok {
					return false
				}
				if b.Op == token.LOR {
					return walk(b.X) && walk(b.Y)
				}
				if b.Op != token.EQL {
					return false
				}
				l, r := c06Render(c.fset, b.X), c06Render(c.fset, b.Y)
				if l == idExpr {
					keys = append(keys, r)
					return true
				}
				if r == idExpr {
					keys = append(keys, l)
					return true
				}
				return false
			}
			if !walk(is.Cond) {
				return "", fmt.Errorf("newClientConn: settings chain condition is not a comparison of %s: %s", idExpr, c06Render(c.fset, is.Cond))
			}
			if len(is.Body.List) != 1 {
				return "", fmt.Errorf("newClientConn: settings case with several statements: %s", c06Render(c.fset, is.Body))
			}
			as, ok := is.Body.List[0].(*ast.AssignStmt)
			if !ok || as.Tok != token.ASSIGN || len(as.Lhs) != 1 || len(as.Rhs) != 1 {
				return "", fmt.Errorf("newClientConn: settings case is not a plain assignment: %s", c06Render(c.fset, is.Body))
			}
			// names of locals mean nothing: the loop variable is spelled `setting`, a local target `local`
			lv := c06Render(c.fset, rs.Value)
			lhs := c06Render(c.fset, as.Lhs[0])
			if _, isLocal := as.Lhs[0].(*ast.Ident); isLocal {
				lhs = "local"
			}
			rhs := strings.ReplaceAll(c06Render(c.fset, as.Rhs[0]), lv+".", "setting.")
			for _, k := range keys {
				seeds = append(seeds, fmt.Sprintf("(%s, %s, %s)", c06LeanStr(k), c06LeanStr(lhs), c06LeanStr(rhs)))
			}
			chain = is.Else
		}
	}
	sort.Strings(seeds) // the order of the cases means nothing
	if !foundSwitch {
		return "", fmt.Errorf("newClientConn: loop over t.Settings not found")
	}
	fmt.Fprintf(&b, "\n/-- `for _, setting := range t.Settings { switch setting.ID { case K: LHS = RHS } }` -/\ndef callerSeeds : List (String × String × String) := [\n  %s]\n", strings.Join(seeds, ",\n  "))

	// (3) initial connection-level send window
	call, _ := c06FindCall(t, body, "cc.flow.add")
	if call == nil || len(call.Args) != 1 {
		return "", fmt.Errorf("newClientConn: cc.flow.add(…) not found")
	}
	v, ok := t.constValue(call.Args[0], nil)
	if !ok {
		return "", fmt.Errorf("newClientConn: cc.flow.add argument is not a constant")
	}
	fmt.Fprintf(&b, "\ndef cc_flow_0 : Int := %d\n", v)

	// (4) connection receive window: connFlow := cc.t.ConnectionFlow; if connFlow < 1 {…};
	//     WriteWindowUpdate(0, connFlow); …; cc.inflow.init(int32(connFlow) + initialWindowSize)
	idx := -1
	cfName := "" // the local that holds cc.t.ConnectionFlow, whatever it is called
	for i, s := range body {
		if as, ok := s.(*ast.AssignStmt); ok && as.Tok == token.DEFINE && len(as.Lhs) == 1 && len(as.Rhs) == 1 &&
			c06Render(c.fset, as.Rhs[0]) == "cc.t.ConnectionFlow" {
			if id, ok := as.Lhs[0].(*ast.Ident); ok {
				idx, cfName = i, id.Name
			}
		}
	}
	if idx < 0 || idx+2 >= len(body) {
		return "", fmt.Errorf("newClientConn: `connFlow := cc.t.ConnectionFlow` not found")
	}
	ifs, ok := body[idx+1].(*ast.IfStmt)
	if !ok {
		return "", fmt.Errorf("newClientConn: the default for connFlow is no longer an if statement")
	}
	wu, wi := c06FindCall(t, body[idx+2:], "cc.fr.WriteWindowUpdate")
	if wu == nil || wi != 0 || len(wu.Args) != 2 || c06Render(c.fset, wu.Args[0]) != "0" || c06Render(c.fset, wu.Args[1]) != cfName {
		return "", fmt.Errorf("newClientConn: `cc.fr.WriteWindowUpdate(0, connFlow)` does not follow the connFlow default")
	}
	ini, ii := c06FindCall(t, body[idx+2:], "cc.inflow.init")
	if ini == nil || len(ini.Args) != 1 {
		return "", fmt.Errorf("newClientConn: cc.inflow.init(…) not found")
	}
	for _, s := range body[idx+2 : idx+2+ii] {
		bad := false
		ast.Inspect(s, func(n ast.Node) bool {
			if as, ok := n.(*ast.AssignStmt); ok {
				for _, l := range as.Lhs {
					if c06Render(c.fset, l) == cfName {
						bad = true
					}
				}
			}
			return true
		})
		if bad {
			return "", fmt.Errorf("newClientConn: connFlow is reassigned before cc.inflow.init")
		}
	}
	mk := func(name string, ret ast.Expr) (string, error) {
		sc := &c06Scope{vars: map[string]c06GoType{}, consts: map[string]int64{}, skip: map[string]bool{}, hasValue: true,
			alias: map[string]c06AliasVar{"cc.t.ConnectionFlow": {"connectionFlow", "uint32"}}}
		s, err := t.stmts([]ast.Stmt{body[idx], ifs, &ast.ReturnStmt{Results: []ast.Expr{ret}}}, sc, "  ")
		if err != nil {
			return "", err
		}
		return "def " + name + " (connectionFlow : Int) : Int :=\n" + s + "\n", nil
	}
	s1, err := mk("connFlowAdvertised", wu.Args[1])
	if err != nil {
		return "", fmt.Errorf("newClientConn connFlow: %v", err)
	}
	s2, err := mk("connInflowInit", ini.Args[0])
	if err != nil {
		return "", fmt.Errorf("newClientConn cc.inflow.init: %v", err)
	}
	b.WriteString("\n/-- the increment of the initial connection-level WINDOW_UPDATE -/\n" + s1)
	b.WriteString("\n/-- the argument of `cc.inflow.init` -/\n" + s2)

	// (5) PRIORITY frames seeding nextStreamID
	foundPrio := false
	for _, s := range body {
		rs, ok := s.(*ast.RangeStmt)
		if !ok || c06Render(c.fset, rs.X) != "t.PriorityFrames" {
			continue
		}
		foundPrio = true
		pv := c06Render(c.fset, rs.Value)
		sc := &c06Scope{vars: map[string]c06GoType{}, consts: map[string]int64{}, skip: map[string]bool{"cc.fr.WritePriority": true},
			mutVals: []string{"nextStreamID"},
			alias:   map[string]c06AliasVar{"cc.nextStreamID": {"nextStreamID", "uint32"}, pv + ".StreamID": {"streamID", "uint32"}}}
		s, err := t.stmts(rs.Body.List, sc, "  ")
		if err != nil {
			return "", fmt.Errorf("newClientConn PriorityFrames loop: %v", err)
		}
		want := "cc.fr.WritePriority(" + pv + ".StreamID, " + pv + ".PriorityParam)"
		if len(sc.skipped) == 0 || sc.skipped[0] != want {
			return "", fmt.Errorf("newClientConn PriorityFrames loop does not start with %s", want)
		}
		b.WriteString("\n/-- body of `for _, p := range t.PriorityFrames` as a function of cc.nextStreamID and p.StreamID -/\n")
		b.WriteString("def prioSeed (nextStreamID streamID : Int) : Int :=\n" + s + "\n")
	}
	if !foundPrio {
		return "", fmt.Errorf("newClientConn: loop over t.PriorityFrames not found")
	}

	// (7) default SETTINGS when the caller supplies none
	var defaults []string
	foundDefaults := false
	for _, s := range body {
		is, ok := s.(*ast.IfStmt)
		if !ok || c06Render(c.fset, is.Cond) != "len(t.Settings) > 0" || is.Else == nil {
			continue
		}
		if len(is.Body.List) != 1 || c06Render(c.fset, is.Body.List[0]) != "initialSettings = t.Settings" {
			return "", fmt.Errorf("newClientConn: caller settings are no longer sent verbatim")
		}
		eb, ok := is.Else.(*ast.BlockStmt)
		if !ok || len(eb.List) < 1 {
			return "", fmt.Errorf("newClientConn: default settings branch has an unexpected shape")
		}
		as, ok := eb.List[0].(*ast.AssignStmt)
		if !ok || len(as.Rhs) != 1 {
			return "", fmt.Errorf("newClientConn: default settings branch has an unexpected shape")
		}
		cl, ok := as.Rhs[0].(*ast.CompositeLit)
		if !ok {
			return "", fmt.Errorf("newClientConn: default settings are not a literal")
		}
		for _, e := range cl.Elts {
			el, ok := e.(*ast.CompositeLit)
			if !ok || len(el.Elts) != 2 {
				return "", fmt.Errorf("newClientConn: default setting with unexpected shape")
			}
			id := el.Elts[0].(*ast.KeyValueExpr)
			val := el.Elts[1].(*ast.KeyValueExpr)
			v, ok := t.constValue(val.Value, nil)
			if !ok {
				return "", fmt.Errorf("newClientConn: default setting value is not constant")
			}
			defaults = append(defaults, fmt.Sprintf("(%s, %d)", c06LeanStr(c06Render(c.fset, id.Value)), v))
		}
		foundDefaults = true
	}
	if !foundDefaults {
		return "", fmt.Errorf("newClientConn: `if len(t.Settings) > 0 {…} else {…}` not found")
	}
	fmt.Fprintf(&b, "\n/-- SETTINGS sent when the caller supplies none (before the optional MAX_HEADER_LIST_SIZE) -/\ndef defaultSettings : List (String × Int) := [%s]\n", strings.Join(defaults, ", "))

	// ---- addStreamLocked
	ad, err := c.funcDecl(c06Dir, "ClientConn", "addStreamLocked")
	if err != nil {
		return "", err
	}
	fa, _ := c06FindCall(t, ad.Body.List, "cs.flow.add")
	ia, _ := c06FindCall(t, ad.Body.List, "cs.inflow.init")
	if fa == nil || ia == nil || len(fa.Args) != 1 || len(ia.Args) != 1 {
		return "", fmt.Errorf("addStreamLocked: cs.flow.add / cs.inflow.init not found")
	}
	fmt.Fprintf(&b, "\ndef streamOutflowInitArg : String := %s\n", c06LeanStr(c06Render(c.fset, fa.Args[0])))
	fmt.Fprintf(&b, "def streamInflowInitArg : String := %s\n", c06LeanStr(c06Render(c.fset, ia.Args[0])))
	idAt, stepAt, step := -1, -1, int64(0)
	for i, s := range ad.Body.List {
		as, ok := s.(*ast.AssignStmt)
		if !ok || len(as.Lhs) != 1 {
			continue
		}
		l, r := c06Render(c.fset, as.Lhs[0]), c06Render(c.fset, as.Rhs[0])
		if as.Tok == token.ASSIGN && l == "cs.ID" && r == "cc.nextStreamID" {
			idAt = i
		}
		if as.Tok == token.ADD_ASSIGN && l == "cc.nextStreamID" {
			v, ok := t.constValue(as.Rhs[0], nil)
			if !ok {
				return "", fmt.Errorf("addStreamLocked: stream id step is not constant")
			}
			stepAt, step = i, v
		} else if l == "cc.nextStreamID" {
			return "", fmt.Errorf("addStreamLocked: unexpected assignment to cc.nextStreamID: %s", c06Render(c.fset, s))
		}
	}
	if idAt < 0 || stepAt < idAt {
		return "", fmt.Errorf("addStreamLocked: `cs.ID = cc.nextStreamID` followed by `cc.nextStreamID += k` not found")
	}
	fmt.Fprintf(&b, "def streamIDStep : Int := %d\n", step)

	// ---- awaitFlowControl: how much is taken
	af, err := c.funcDecl(c06Dir, "clientStream", "awaitFlowControl")
	if err != nil {
		return "", err
	}
	var takeIf *ast.IfStmt
	availName := ""
	ast.Inspect(af.Body, func(n ast.Node) bool {
		if is, ok := n.(*ast.IfStmt); ok && is.Init != nil {
			if as, ok := is.Init.(*ast.AssignStmt); ok && as.Tok == token.DEFINE && len(as.Lhs) == 1 && len(as.Rhs) == 1 &&
				c06Render(c.fset, as.Rhs[0]) == "cs.flow.available()" {
				if id, ok := as.Lhs[0].(*ast.Ident); ok {
					takeIf, availName = is, id.Name
				}
			}
		}
		return true
	})
	if takeIf == nil || c06Render(c.fset, takeIf.Cond) != availName+" > 0" {
		return "", fmt.Errorf("awaitFlowControl: `if a := cs.flow.available(); a > 0` not found")
	}
	if len(af.Type.Params.List) != 1 || len(af.Type.Params.List[0].Names) != 1 || c06Render(c.fset, af.Type.Params.List[0].Type) != "int" {
		return "", fmt.Errorf("awaitFlowControl: signature is no longer (maxBytes int)")
	}
	maxBytesName := af.Type.Params.List[0].Names[0].Name
	tl := takeIf.Body.List
	takeName := ""
	if len(tl) >= 3 {
		if es, ok := tl[len(tl)-2].(*ast.ExprStmt); ok {
			if call, ok := es.X.(*ast.CallExpr); ok && c06Render(c.fset, call.Fun) == "cs.flow.take" && len(call.Args) == 1 {
				if id, ok := call.Args[0].(*ast.Ident); ok {
					takeName = id.Name
				}
			}
		}
	}
	if takeName == "" || c06Render(c.fset, tl[len(tl)-1]) != "return "+takeName+", nil" {
		return "", fmt.Errorf("awaitFlowControl: the block no longer ends with cs.flow.take(x); return x, nil")
	}
	{
		sc := &c06Scope{vars: map[string]c06GoType{availName: "int32", maxBytesName: "int"}, consts: map[string]int64{}, skip: map[string]bool{}, hasValue: true,
			alias: map[string]c06AliasVar{"cc.maxFrameSize": {"maxFrameSize", "uint32"}}}
		list := append(append([]ast.Stmt{}, tl[:len(tl)-2]...), &ast.ReturnStmt{Results: []ast.Expr{&ast.Ident{Name: takeName}}})
		s, err := t.stmts(list, sc, "  ")
		if err != nil {
			return "", fmt.Errorf("awaitFlowControl: %v", err)
		}
		b.WriteString("\n/-- bytes taken by awaitFlowControl when `a = cs.flow.available() > 0` -/\n")
		b.WriteString("def awaitTake (" + availName + " " + maxBytesName + " maxFrameSize : Int) : Int :=\n" + s + "\n")
	}

	// ---- frameScratchBufferLen
	s, err := t.function("clientStream", "frameScratchBufferLen", "frameScratchBufferLen",
		c06AliasSpec{"cs.reqBodyContentLength", "reqBodyContentLength", "int64"})
	if err != nil {
		return "", fmt.Errorf("frameScratchBufferLen: %v", err)
	}
	b.WriteString("\n" + s)

	b.WriteString("\nend Generated.C06Facts\n")
	return b.String(), nil
}
