// C19 facts, part 2: how a Clone body produces each field of the copy.
//
// The analysis is about the KIND of expression, not its spelling:
//   - the copy may be started by a value copy (`cc := *c`, `oo := o`), by a composite literal
//     bound to a local, by a literal returned directly, or by a same-package helper that
//     returns such a literal (followed up to two levels, parameters bound to the arguments);
//   - a field is `assigned` when the expression is the source's field itself (also through a
//     local alias, a slice expression of it, `append(src.F, …)`, a shallow `maps.Clone` of a
//     map with slice values, a helper that returns its argument or a shallow copy loop over such a
//     map, or a call the extractor cannot look into that is handed the field);
//   - `cloned` when it is a copy in new storage: `x.Clone()`, `append([]T(nil), x...)`,
//     `append(x[:0:0], x...)`, `append(fresh.F, x...)`, `slices.Clone`, `maps.Clone`, or ANY
//     same-package helper whose body allocates (`make`, literal, `var`) and copies from its
//     parameter (range loop, index loop, `copy`), whatever it is called;
//   - `rebuilt` when it is made from other data; `absent` when never set, set to nil, or set only
//     under a condition about a DIFFERENT field of the source (not reliably carried);
//   - control flow is walked structurally: if (with init) / else, for, range, switch, type
//     switch, blocks; anything else (goto, select, defer, labels) is REFUSED.
package main

import (
	"fmt"
	"go/ast"
	"go/token"
	"strings"
)

type c19Env struct {
	dir   string            // package directory of fn
	sub   map[string]string // identifier -> canonical text (parameter bound to argument, local alias)
	fn    *ast.FuncDecl     // function whose locals are looked up
	depth int
	busy  map[string]bool // locals being classified (cycle guard)
}

func (e *c19Env) child() *c19Env {
	s := map[string]string{}
	for k, v := range e.sub {
		s[k] = v
	}
	return &c19Env{dir: e.dir, sub: s, fn: e.fn, depth: e.depth, busy: e.busy}
}

// text renders an expression with identifiers replaced by what they stand for.
func (e *c19Env) text(x ast.Expr) string {
	switch t := x.(type) {
	case *ast.Ident:
		if v, ok := e.sub[t.Name]; ok {
			return v
		}
		return t.Name
	case *ast.SelectorExpr:
		return e.text(t.X) + "." + t.Sel.Name
	case *ast.ParenExpr:
		return e.text(t.X)
	case *ast.StarExpr:
		return "*" + e.text(t.X)
	case *ast.UnaryExpr:
		return t.Op.String() + e.text(t.X)
	case *ast.IndexExpr:
		return e.text(t.X) + "[" + e.text(t.Index) + "]"
	case *ast.CallExpr:
		args := []string{}
		for _, a := range t.Args {
			args = append(args, e.text(a))
		}
		return e.text(t.Fun) + "(" + strings.Join(args, ",") + ")"
	}
	return exprString(x)
}

type c19Target struct {
	src         string // canonical text of the source object ("c", "t", "t.t2", "o.TLSClientConfig")
	field       string
	sliceValued bool
}

func (t c19Target) isSrcField(s string) bool {
	s = strings.TrimPrefix(s, "*")
	return s == t.src+"."+t.field || (strings.HasPrefix(s, t.src+".") && strings.HasSuffix(s, "."+t.field))
}

func isNilIdent(e ast.Expr) bool {
	id, ok := e.(*ast.Ident)
	return ok && id.Name == "nil"
}

// worst combines classifications of alternative results conservatively.
func c19Worst(a, b string) string {
	rank := map[string]int{"": -1, "rebuilt": 0, "empty": 0, "fresh": 0, "cloned": 1, "absent": 2, "assigned": 3}
	if rank[b] > rank[a] {
		return b
	}
	return a
}

// funcByName finds a package-level function, or a method with a unique name, in dir.
func (x *c19) funcByName(dir, name string, method bool) *ast.FuncDecl {
	fs, err := x.c.files(dir)
	if err != nil {
		return nil
	}
	var found []*ast.FuncDecl
	for _, f := range fs {
		for _, d := range f.Decls {
			if fd, ok := d.(*ast.FuncDecl); ok && fd.Name.Name == name && fd.Body != nil && (fd.Recv != nil) == method {
				found = append(found, fd)
			}
		}
	}
	if len(found) == 1 {
		return found[0]
	}
	return nil
}

// callee resolves a call to a same-package function or method and binds its parameters.
func (x *c19) callee(env *c19Env, call *ast.CallExpr) (*ast.FuncDecl, *c19Env) {
	if env.depth >= 2 {
		return nil, nil
	}
	fun := call.Fun
	if ix, ok := fun.(*ast.IndexExpr); ok { // explicit instantiation f[T](…)
		fun = ix.X
	}
	if ix, ok := fun.(*ast.IndexListExpr); ok {
		fun = ix.X
	}
	var fd *ast.FuncDecl
	recvText := ""
	switch f := fun.(type) {
	case *ast.Ident:
		if _, isLocal := env.sub[f.Name]; isLocal {
			return nil, nil
		}
		fd = x.funcByName(env.dir, f.Name, false)
	case *ast.SelectorExpr:
		if f.Sel.Name == "Clone" {
			return nil, nil // judged as a Clone() method call
		}
		fd = x.funcByName(env.dir, f.Sel.Name, true)
		recvText = env.text(f.X)
	}
	if fd == nil || fd.Type.Params == nil {
		return nil, nil
	}
	ce := &c19Env{dir: env.dir, sub: map[string]string{}, fn: fd, depth: env.depth + 1, busy: map[string]bool{}}
	if fd.Recv != nil && len(fd.Recv.List) == 1 && len(fd.Recv.List[0].Names) == 1 {
		ce.sub[fd.Recv.List[0].Names[0].Name] = recvText
	}
	i := 0
	for _, p := range fd.Type.Params.List {
		if _, variadic := p.Type.(*ast.Ellipsis); variadic {
			return nil, nil
		}
		for _, n := range p.Names {
			if i >= len(call.Args) {
				return nil, nil
			}
			ce.sub[n.Name] = env.text(call.Args[i])
			i++
		}
	}
	if i != len(call.Args) {
		return nil, nil
	}
	return fd, ce
}

// returns lists the non-nil first results of fd's return statements (function literals excluded).
func c19Returns(fd *ast.FuncDecl) []ast.Expr {
	var out []ast.Expr
	ast.Inspect(fd.Body, func(n ast.Node) bool {
		switch r := n.(type) {
		case *ast.FuncLit:
			return false
		case *ast.ReturnStmt:
			if len(r.Results) > 0 && !isNilIdent(r.Results[0]) {
				out = append(out, r.Results[0])
			}
		}
		return true
	})
	return out
}

// mentionsSource: does n refer to the target's source field (or an element of it)?
func (x *c19) mentionsSource(env *c19Env, n ast.Node, tg c19Target) bool {
	found := false
	ast.Inspect(n, func(m ast.Node) bool {
		if found {
			return false
		}
		switch e := m.(type) {
		case *ast.FuncLit:
			return false
		case *ast.SelectorExpr:
			if tg.isSrcField(env.text(e)) {
				found = true
			}
			return !found
		case *ast.Ident:
			if tg.isSrcField(env.text(e)) {
				found = true
			}
		}
		return true
	})
	return found
}

// classifyLocal judges a local variable of env.fn from everything assigned to it.
func (x *c19) classifyLocal(env *c19Env, name string, tg c19Target) (string, string) {
	if env.fn == nil || env.busy[name] {
		return "rebuilt", "local " + name
	}
	env.busy[name] = true
	defer delete(env.busy, name)
	how := ""
	via := "local " + name
	declared := false
	shallow := false
	rangeVals := map[string]bool{} // value variables of range loops over the source
	ast.Inspect(env.fn.Body, func(n ast.Node) bool {
		switch s := n.(type) {
		case *ast.FuncLit:
			return false
		case *ast.RangeStmt:
			if tg.isSrcField(env.text(s.X)) {
				if v, ok := s.Value.(*ast.Ident); ok {
					rangeVals[v.Name] = true
				}
			}
		case *ast.ValueSpec:
			for i, id := range s.Names {
				if id.Name != name {
					continue
				}
				declared = true
				if i < len(s.Values) {
					h, v := x.classify(env, s.Values[i], tg)
					how, via = c19Worst(how, h), v
				} else {
					how = c19Worst(how, "fresh")
				}
			}
		case *ast.AssignStmt:
			for i, l := range s.Lhs {
				switch lt := l.(type) {
				case *ast.Ident:
					if lt.Name != name || len(s.Lhs) != len(s.Rhs) {
						continue
					}
					declared = true
					rhs := s.Rhs[i]
					// name = append(name, …): the elements are judged, the base is name itself
					if call, ok := rhs.(*ast.CallExpr); ok {
						if id, ok := call.Fun.(*ast.Ident); ok && id.Name == "append" && len(call.Args) > 0 && exprString(call.Args[0]) == name {
							continue
						}
					}
					h, v := x.classify(env, rhs, tg)
					if c19Worst(how, h) != how {
						via = v
					}
					how = c19Worst(how, h)
				case *ast.IndexExpr:
					// name[k] = v with v the value of a range over the source: a shallow element copy
					if id, ok := lt.X.(*ast.Ident); ok && id.Name == name && len(s.Lhs) == len(s.Rhs) {
						if v, ok := s.Rhs[i].(*ast.Ident); ok && rangeVals[v.Name] {
							shallow = true
						}
					}
				}
			}
		}
		return true
	})
	if !declared {
		return "rebuilt", "local " + name
	}
	switch how {
	case "assigned", "cloned", "absent":
		return how, via
	}
	// new storage: a copy if the body reads the source into it
	if x.mentionsSource(env, env.fn.Body, tg) {
		if shallow && tg.sliceValued {
			return "assigned", "shallow copy loop in " + env.fn.Name.Name + ": the value slices stay shared"
		}
		return "cloned", "copied into new storage by " + env.fn.Name.Name
	}
	return "rebuilt", "built in " + env.fn.Name.Name
}

// classify judges the expression that produces the target field of the copy.
// Besides assigned / cloned / rebuilt / absent it may answer "empty" or "fresh" (an empty base or
// newly allocated storage), which callers treat as `rebuilt` when it is the final answer.
func (x *c19) classify(env *c19Env, e ast.Expr, tg c19Target) (how, via string) {
	switch t := e.(type) {
	case *ast.ParenExpr:
		return x.classify(env, t.X, tg)
	case *ast.Ident:
		if t.Name == "nil" {
			return "absent", "= nil"
		}
		s := env.text(t)
		if tg.isSrcField(s) {
			return "assigned", "= " + s
		}
		if _, bound := env.sub[t.Name]; !bound {
			return x.classifyLocal(env, t.Name, tg)
		}
		return "rebuilt", "= " + s
	case *ast.SelectorExpr:
		s := env.text(t)
		if tg.isSrcField(s) {
			return "assigned", "= " + s
		}
		return "rebuilt", "= " + s
	case *ast.StarExpr:
		if tg.isSrcField(env.text(t.X)) {
			return "rebuilt", "value copy of *" + env.text(t.X)
		}
		return "rebuilt", "= " + env.text(t)
	case *ast.SliceExpr:
		if t.Slice3 && t.High != nil && t.Max != nil && exprString(t.High) == "0" && exprString(t.Max) == "0" {
			return "empty", "x[:0:0]"
		}
		h, v := x.classify(env, t.X, tg)
		if h == "assigned" {
			return "assigned", "slice expression of " + strings.TrimPrefix(v, "= ")
		}
		return h, v
	case *ast.UnaryExpr:
		if t.Op == token.AND {
			if id, ok := t.X.(*ast.Ident); ok {
				if _, bound := env.sub[id.Name]; !bound {
					h, v := x.classifyLocal(env, id.Name, tg)
					if h == "assigned" || h == "absent" {
						return h, v
					}
					return "rebuilt", "&" + id.Name + " (" + v + ")"
				}
			}
			return "rebuilt", "&" + env.text(t.X)
		}
		return "rebuilt", env.text(t)
	case *ast.CompositeLit:
		return "rebuilt", "composite literal"
	case *ast.FuncLit:
		return "rebuilt", "func literal"
	case *ast.BasicLit:
		return "rebuilt", t.Value
	case *ast.TypeAssertExpr:
		return x.classify(env, t.X, tg)
	case *ast.CallExpr:
		return x.classifyCall(env, t, tg)
	}
	return "rebuilt", fmt.Sprintf("%T", e)
}

func (x *c19) classifyCall(env *c19Env, t *ast.CallExpr, tg c19Target) (string, string) {
	fun := exprString(t.Fun)
	// T(nil): an empty value of the type
	if len(t.Args) == 1 && isNilIdent(t.Args[0]) {
		switch t.Fun.(type) {
		case *ast.ArrayType, *ast.MapType, *ast.ParenExpr, *ast.Ident, *ast.SelectorExpr:
			return "empty", fun + "(nil)"
		}
	}
	switch fun {
	case "make", "new":
		return "fresh", fun
	case "append":
		if len(t.Args) == 0 {
			return "rebuilt", "append()"
		}
		bh, bv := x.classify(env, t.Args[0], tg)
		if bh == "assigned" {
			return "assigned", "append onto " + strings.TrimPrefix(bv, "= ")
		}
		for _, a := range t.Args[1:] {
			if tg.isSrcField(env.text(a)) {
				return "cloned", "append(" + env.text(t.Args[0]) + ", …)"
			}
		}
		return "rebuilt", "append(" + env.text(t.Args[0]) + ", …)"
	case "slices.Clone", "maps.Clone", "bytes.Clone":
		if len(t.Args) == 1 && tg.isSrcField(env.text(t.Args[0])) {
			if fun == "maps.Clone" && tg.sliceValued {
				return "assigned", "maps.Clone is shallow: the value slices stay shared"
			}
			return "cloned", fun
		}
	}
	if sel, ok := t.Fun.(*ast.SelectorExpr); ok && sel.Sel.Name == "Clone" && len(t.Args) == 0 && tg.isSrcField(env.text(sel.X)) {
		return "cloned", "Clone()"
	}
	if fd, ce := x.callee(env, t); fd != nil {
		how, via := "", ""
		for _, r := range c19Returns(fd) {
			h, v := x.classify(ce, r, tg)
			if c19Worst(how, h) != how || via == "" {
				via = v
			}
			how = c19Worst(how, h)
		}
		if how == "" {
			return "absent", fd.Name.Name + " returns nothing but nil"
		}
		switch how {
		case "empty", "fresh":
			how = "rebuilt"
		}
		if !strings.Contains(via, fd.Name.Name) {
			via = fd.Name.Name + ": " + via
		}
		return how, via
	}
	// a call the extractor cannot look into: sharing cannot be excluded when it is handed the field
	for _, a := range t.Args {
		if tg.isSrcField(env.text(a)) {
			return "assigned", "unanalysed call " + fun + "(…) is handed the field"
		}
	}
	return "rebuilt", fun + "(…)"
}

func (x *c19) finalHow(how string) string {
	switch how {
	case "empty", "fresh":
		return "rebuilt"
	}
	return how
}

func (x *c19) setField(owner, field, how, via string) error {
	s := x.structs[owner]
	f, ok := s.byName[field]
	if !ok {
		return fmt.Errorf("Clone of %s mentions unknown field %s", owner, field)
	}
	f.how, f.via = x.finalHow(how), via
	return nil
}

func (x *c19) literalFields(env *c19Env, owner string, lit *ast.CompositeLit, src string) error {
	for _, f := range x.structs[owner].fields {
		f.how, f.via = "absent", "not in the "+owner+" literal"
	}
	for _, el := range lit.Elts {
		kv, ok := el.(*ast.KeyValueExpr)
		if !ok {
			return fmt.Errorf("%s literal in Clone is not keyed", owner)
		}
		k, ok := kv.Key.(*ast.Ident)
		if !ok {
			return fmt.Errorf("%s literal key %T", owner, kv.Key)
		}
		f, ok := x.structs[owner].byName[k.Name]
		if !ok {
			return fmt.Errorf("%s literal sets unknown field %s", owner, k.Name)
		}
		how, via := x.classify(env, kv.Value, c19Target{src, k.Name, f.sliceValued})
		if err := x.setField(owner, k.Name, how, via); err != nil {
			return err
		}
	}
	return nil
}

func c19Lit(e ast.Expr) *ast.CompositeLit {
	if p, ok := e.(*ast.ParenExpr); ok {
		e = p.X
	}
	if u, ok := e.(*ast.UnaryExpr); ok && u.Op == token.AND {
		e = u.X
	}
	l, _ := e.(*ast.CompositeLit)
	return l
}

func litTypeIs(l *ast.CompositeLit, goType string) bool {
	// goType with a package qualifier must match exactly; without one the literal must be unqualified too
	return typeName(l.Type) == goType
}

// structLiteral finds the composite literal of goType that e evaluates to: e itself, or the
// literal a same-package helper returns (with the helper's environment).
func (x *c19) structLiteral(env *c19Env, e ast.Expr, goType string) (*ast.CompositeLit, *c19Env) {
	if l := c19Lit(e); l != nil {
		if litTypeIs(l, goType) {
			return l, env
		}
		return nil, nil
	}
	call, ok := e.(*ast.CallExpr)
	if !ok {
		return nil, nil
	}
	fd, ce := x.callee(env, call)
	if fd == nil {
		return nil, nil
	}
	rs := c19Returns(fd)
	if len(rs) != 1 {
		return nil, nil
	}
	return x.structLiteral(ce, rs[0], goType)
}

// ---------------------------------------------------------------- the generic Clone walker

type c19CloneSpec struct {
	dir, recv, key string
	goType         string            // type name of the copy's literal (without package)
	nested         map[string]string // field of key that holds another tracked struct -> (struct key)
	nestedType     map[string]string // … and the Go type name of its literal
	calls          map[string]func(w *c19Walk) error
	allowSetters   bool
}

type c19Walk struct {
	x      *c19
	spec   c19CloneSpec
	env    *c19Env
	src    string
	dst    string
	conds  []ast.Expr
	pos    map[string]token.Pos // where dst.F was assigned / dst.m() called
	callAt map[string]token.Pos
	// > 0: this walk is inside a same-package helper that builds the copy of a nested object (depth of the chain)
	helperDepth int
}

// c19HelperDepth bounds the chain of helpers followed for one nested object.
const c19HelperDepth = 3

// followNestedHelper: `call` is handed the source's nested object (`src.P`, or this walk's own source when p is "")
// and returns the copy's. If it is a same-package function, its body is walked like a Clone body of the nested
// struct `nkey`: the source is the argument, the copy is the local it returns, and `copy.F = …` there is a fix-up of
// row nkey.F. Helpers calling helpers are followed up to c19HelperDepth. Returns false (and changes nothing) when
// the call is not such a helper — the field then keeps what classify said about the call as a whole.
func (w *c19Walk) followNestedHelper(env *c19Env, nkey, p string, call *ast.CallExpr, depth int) (bool, error) {
	if depth >= c19HelperDepth {
		return false, nil
	}
	if sel, ok := call.Fun.(*ast.SelectorExpr); ok && sel.Sel.Name == "Clone" {
		return false, nil
	}
	srcText := w.src
	if p != "" {
		srcText = w.src + "." + p
	}
	handed := false
	for _, a := range call.Args {
		if t := env.text(a); t == srcText || t == "*"+srcText {
			handed = true
		}
	}
	if !handed {
		return false, nil
	}
	save := env.depth
	env.depth = 0 // the bound on this chain is c19HelperDepth, not callee's own
	fd, ce := w.x.callee(env, call)
	env.depth = save
	if fd == nil {
		return false, nil
	}
	rets := c19Returns(fd)
	if len(rets) != 1 {
		return false, nil
	}
	goType := w.spec.goType
	if p != "" {
		goType = w.spec.nestedType[p]
	}
	sw := &c19Walk{x: w.x, spec: c19CloneSpec{dir: w.spec.dir, recv: fd.Name.Name, key: nkey, goType: goType},
		env: ce, src: srcText, pos: map[string]token.Pos{}, callAt: map[string]token.Pos{}, helperDepth: depth + 1}
	sw.conds = append(sw.conds, w.conds...)
	ce.depth = 0
	switch r := rets[0].(type) {
	case *ast.Ident:
		if err := sw.stmt(fd.Body); err != nil {
			return false, err
		}
		if sw.dst != r.Name {
			return false, fmt.Errorf("%s: helper %s returns %s, which is not the copy the extractor found (%q)", w.spec.recv, fd.Name.Name, r.Name, sw.dst)
		}
		return true, nil
	case *ast.CallExpr: // return inner(cfg)
		return sw.followNestedHelper(ce, nkey, "", r, depth+1)
	}
	return false, nil
}

// conditional: is an assignment to field (of the object at holderSrc/holderDst) under a condition
// about a different field?
func (w *c19Walk) conditionOnOtherField(field, holderSrc, holderDst string) string {
	for _, c := range w.conds {
		other := ""
		ast.Inspect(c, func(n ast.Node) bool {
			var s string
			switch e := n.(type) {
			case *ast.SelectorExpr:
				s = w.env.text(e)
			case *ast.Ident:
				s = w.env.text(e)
			default:
				return true
			}
			s = strings.TrimPrefix(s, "*")
			for _, h := range []string{holderSrc, holderDst} {
				if h == "" || !strings.HasPrefix(s, h+".") {
					continue
				}
				rest := strings.TrimPrefix(s, h+".")
				first := rest
				if i := strings.Index(rest, "."); i >= 0 {
					first = rest[:i]
				}
				if first != field && !strings.HasSuffix(s, "."+field) {
					other = exprString(c)
				}
			}
			_, isSel := n.(*ast.SelectorExpr)
			return !isSel
		})
		if other != "" {
			return other
		}
	}
	return ""
}

func (w *c19Walk) assignField(owner, field string, rhs ast.Expr, srcRoot, dstRoot string, at token.Pos) error {
	f, ok := w.x.structs[owner].byName[field]
	if !ok {
		return fmt.Errorf("%s.Clone assigns unknown field %s.%s", w.spec.recv, owner, field)
	}
	how, via := w.x.classify(w.env, rhs, c19Target{srcRoot, field, f.sliceValued})
	how = w.x.finalHow(how)
	if how == "assigned" || how == "cloned" {
		if c := w.conditionOnOtherField(field, srcRoot, dstRoot); c != "" {
			how, via = "absent", "copied only when "+c
		}
	}
	f.how, f.via = how, via
	if owner == w.spec.key {
		w.pos[field] = at
	}
	return nil
}

func (w *c19Walk) startFromLiteral(lit *ast.CompositeLit, env *c19Env) error {
	return w.x.literalFields(env, w.spec.key, lit, w.src)
}

func (w *c19Walk) stmt(st ast.Stmt) error {
	x := w.x
	switch s := st.(type) {
	case nil, *ast.EmptyStmt, *ast.DeclStmt, *ast.GoStmt, *ast.IncDecStmt, *ast.BranchStmt:
		if b, ok := st.(*ast.BranchStmt); ok && b.Tok == token.GOTO {
			return fmt.Errorf("%s.Clone: goto", w.spec.recv)
		}
		return nil
	case *ast.BlockStmt:
		for _, in := range s.List {
			if err := w.stmt(in); err != nil {
				return err
			}
		}
		return nil
	case *ast.IfStmt:
		if err := w.stmt(s.Init); err != nil {
			return err
		}
		w.conds = append(w.conds, s.Cond)
		err := w.stmt(s.Body)
		w.conds = w.conds[:len(w.conds)-1]
		if err != nil {
			return err
		}
		if s.Else != nil {
			w.conds = append(w.conds, s.Cond)
			err = w.stmt(s.Else)
			w.conds = w.conds[:len(w.conds)-1]
		}
		return err
	case *ast.ForStmt:
		if err := w.stmt(s.Init); err != nil {
			return err
		}
		return w.stmt(s.Body)
	case *ast.RangeStmt:
		return w.stmt(s.Body)
	case *ast.SwitchStmt:
		if err := w.stmt(s.Init); err != nil {
			return err
		}
		return w.stmt(s.Body)
	case *ast.TypeSwitchStmt:
		if err := w.stmt(s.Init); err != nil {
			return err
		}
		return w.stmt(s.Body)
	case *ast.CaseClause:
		for _, in := range s.Body {
			if err := w.stmt(in); err != nil {
				return err
			}
		}
		return nil
	case *ast.ReturnStmt:
		if w.dst == "" && len(s.Results) == 1 && !isNilIdent(s.Results[0]) {
			if lit, env := x.structLiteral(w.env, s.Results[0], w.spec.goType); lit != nil {
				w.dst = "<returned literal>"
				return w.startFromLiteral(lit, env)
			}
		}
		return nil
	case *ast.ExprStmt:
		call, ok := s.X.(*ast.CallExpr)
		if !ok {
			return fmt.Errorf("%s.Clone: unsupported expression statement", w.spec.recv)
		}
		fun := w.env.text(call.Fun)
		if w.dst != "" && strings.HasPrefix(fun, w.dst+".") {
			name := strings.TrimPrefix(fun, w.dst+".")
			w.callAt[name] = call.Pos()
			if f, ok := w.spec.calls[name]; ok {
				return f(w)
			}
			if strings.Contains(name, ".") { // a method of a field of the copy (cc.Dump.SetOptions(…))
				return nil
			}
			if w.spec.allowSetters && c19SetterName.MatchString(name) {
				return nil // a setter applied again on the copy
			}
			return fmt.Errorf("%s.Clone: unsupported call %s", w.spec.recv, fun)
		}
		return nil // calls that do not act on the copy (wrapping loops call function values)
	case *ast.AssignStmt:
		if len(s.Lhs) != len(s.Rhs) {
			// v, ok := x.(T) / m[k] / f(): fine as long as only locals are written
			for _, l := range s.Lhs {
				if _, ok := l.(*ast.Ident); !ok {
					return fmt.Errorf("%s.Clone: multi-value assignment to a field", w.spec.recv)
				}
			}
			return nil
		}
		for i, l := range s.Lhs {
			rhs := s.Rhs[i]
			switch lt := l.(type) {
			case *ast.Ident:
				if s.Tok != token.DEFINE && s.Tok != token.ASSIGN {
					continue
				}
				rs := w.env.text(rhs)
				// (inside a helper the source is a parameter: `x := param` of a pointer is an alias, not a copy)
				if w.dst == "" && s.Tok == token.DEFINE && ((rs == w.src && w.helperDepth == 0) || rs == "*"+w.src) {
					w.dst = lt.Name
					for _, f := range x.structs[w.spec.key].fields {
						f.how, f.via = "assigned", lt.Name+" := "+rs
					}
					continue
				}
				if w.dst == "" && s.Tok == token.DEFINE && w.helperDepth > 0 {
					// inside a helper that makes the copy of a NESTED object (followNestedHelper): the copy may start as
					// the nested type's own shallow Clone() (the rows keep the treatment that Clone gives them) …
					if rs == w.src+".Clone()" {
						w.dst = lt.Name
						continue
					}
					// … or as the result of a further helper handed the same source object
					if call, ok := rhs.(*ast.CallExpr); ok {
						if followed, err := w.followNestedHelper(w.env, w.spec.key, "", call, w.helperDepth); err != nil {
							return err
						} else if followed {
							w.dst = lt.Name
							continue
						}
					}
				}
				if w.dst == "" && s.Tok == token.DEFINE {
					if lit, env := x.structLiteral(w.env, rhs, w.spec.goType); lit != nil {
						w.dst = lt.Name
						if err := w.startFromLiteral(lit, env); err != nil {
							return err
						}
						continue
					}
				}
				// a local alias of a path (t2 := t.t2, wrappers := cc.roundTripWrappers)
				switch rhs.(type) {
				case *ast.Ident, *ast.SelectorExpr:
					if s.Tok == token.DEFINE && lt.Name != "_" {
						w.env.sub[lt.Name] = rs
					}
				}
			case *ast.SelectorExpr:
				base := w.env.text(lt.X)
				switch {
				case w.dst == "":
					if strings.HasPrefix(base, w.src) {
						return fmt.Errorf("%s.Clone: writes the receiver before making the copy", w.spec.recv)
					}
				case base == w.dst:
					fname := lt.Sel.Name
					if nkey, ok := w.spec.nested[fname]; ok {
						if lit, env := x.structLiteral(w.env, rhs, w.spec.nestedType[fname]); lit != nil {
							if err := x.setField(w.spec.key, fname, "rebuilt", "&"+w.spec.nestedType[fname]+"{…}"); err != nil {
								return err
							}
							w.pos[fname] = s.Pos()
							if err := x.literalFields(env, nkey, lit, w.src+"."+fname); err != nil {
								return err
							}
							continue
						}
					}
					if err := w.assignField(w.spec.key, fname, rhs, w.src, w.dst, s.Pos()); err != nil {
						return err
					}
					if nkey, ok := w.spec.nested[fname]; ok {
						// dst.P = helper(src.P): what the helper does to the fields of the object it returns are
						// fix-ups of the nested object, exactly as if they were written here (dst.P.F = …)
						if call, isCall := rhs.(*ast.CallExpr); isCall {
							followed, err := w.followNestedHelper(w.env, nkey, fname, call, 0)
							if err != nil {
								return err
							}
							// the chain ends in an object made for the copy (Clone(), value copy, literal): the pointer
							// is to a fresh object even where classify's own call depth gave up
							if f := x.structs[w.spec.key].byName[fname]; followed && f != nil && f.how == "assigned" &&
								w.conditionOnOtherField(fname, w.src, w.dst) == "" {
								f.how, f.via = "cloned", "helper chain "+w.env.text(call.Fun)+"(…) ends in a copy"
							}
						}
					}
				case strings.HasPrefix(base, w.dst+"."):
					// fix-up of a nested object: dst.P.F = …
					p := strings.TrimPrefix(base, w.dst+".")
					nkey, ok := w.spec.nested[p]
					if !ok {
						// a field of an object the copy already owns (cc.httpClient = &client; cc.httpClient.Transport = …):
						// fine when that object was made for the copy, a write into the original's object otherwise
						if f, known := x.structs[w.spec.key].byName[p]; known && (f.how == "rebuilt" || f.how == "cloned") && w.pos[p].IsValid() && s.Pos() > w.pos[p] {
							continue
						}
						return fmt.Errorf("%s.Clone: assignment to %s.%s, which the extractor does not track", w.spec.recv, base, lt.Sel.Name)
					}
					if _, ok := x.structs[nkey].byName[lt.Sel.Name]; !ok {
						return fmt.Errorf("%s.Clone: fix-up of %s.%s, which the extractor does not track", w.spec.recv, nkey, lt.Sel.Name)
					}
					if err := w.assignField(nkey, lt.Sel.Name, rhs, w.src+"."+p, w.dst+"."+p, s.Pos()); err != nil {
						return err
					}
				case base == w.src || strings.HasPrefix(base, w.src+"."):
					return fmt.Errorf("%s.Clone writes its receiver (%s.%s)", w.spec.recv, base, lt.Sel.Name)
				default:
					// a field of a local being prepared (client.Transport = cc.Transport)
				}
			case *ast.IndexExpr, *ast.StarExpr:
				if b := w.env.text(l); strings.HasPrefix(b, w.src+".") || strings.HasPrefix(b, "*"+w.src) {
					return fmt.Errorf("%s.Clone writes its receiver (%s)", w.spec.recv, b)
				}
			}
		}
		return nil
	}
	return fmt.Errorf("%s.Clone: unsupported statement %T", w.spec.recv, st)
}

func (x *c19) walkClone(spec c19CloneSpec) (*c19Walk, *ast.FuncDecl, error) {
	fd, err := x.c.funcDecl(spec.dir, spec.recv, "Clone")
	if err != nil {
		return nil, nil, err
	}
	if fd.Recv == nil || len(fd.Recv.List[0].Names) != 1 {
		return nil, nil, fmt.Errorf("%s.Clone: unnamed receiver", spec.recv)
	}
	src := fd.Recv.List[0].Names[0].Name
	w := &c19Walk{x: x, spec: spec, src: src, pos: map[string]token.Pos{}, callAt: map[string]token.Pos{},
		env: &c19Env{dir: spec.dir, sub: map[string]string{}, fn: fd, busy: map[string]bool{}}}
	w.env.sub[src] = src
	if err := w.stmt(fd.Body); err != nil {
		return nil, nil, err
	}
	if w.dst == "" {
		return nil, nil, fmt.Errorf("%s.Clone: no copy found (neither a value copy, nor a %s literal, nor a helper returning one)", spec.recv, spec.goType)
	}
	return w, fd, nil
}

func (x *c19) cloneBodies() (map[string]bool, error) {
	facts := map[string]bool{}
	// ---- Client.Clone
	cw, cfd, err := x.walkClone(c19CloneSpec{dir: "", recv: "Client", key: "Client", goType: "Client", allowSetters: true,
		calls: map[string]func(w *c19Walk) error{
			"initCookieJar": func(w *c19Walk) error { return nil },
			"initTransport": func(w *c19Walk) error { return nil },
		}})
	if err != nil {
		return nil, err
	}
	facts["jarRebuilt"] = cw.callAt["initCookieJar"].IsValid() && cw.pos["httpClient"].IsValid() && cw.callAt["initCookieJar"] > cw.pos["httpClient"]
	// the copy's dumper is re-linked to the copy's options, AFTER those have been cloned
	relinked := false
	ast.Inspect(cfd.Body, func(n ast.Node) bool {
		if c, ok := n.(*ast.CallExpr); ok {
			if sel, ok := c.Fun.(*ast.SelectorExpr); ok && sel.Sel.Name == "SetOptions" && len(c.Args) == 1 {
				if l := c19Lit(c.Args[0]); l != nil && len(l.Elts) == 1 && cw.env.text(l.Elts[0]) == cw.dst+".dumpOptions" &&
					strings.HasPrefix(cw.env.text(sel.X), cw.dst+".") && cw.pos["dumpOptions"].IsValid() && c.Pos() > cw.pos["dumpOptions"] {
					relinked = true
				}
			}
		}
		return true
	})
	facts["dumpRelinked"] = relinked
	facts["fingerprintReboundInClone"] = cw.callAt["SetTLSFingerprint"].IsValid() && cw.pos["Transport"].IsValid() &&
		cw.callAt["SetTLSFingerprint"] > cw.pos["Transport"]

	// ---- Transport.Clone (and the HTTP/2 transport it rebuilds)
	for _, f := range x.structs["H2Transport"].fields {
		f.how, f.via = "absent", "Transport.Clone does not build an http2.Transport"
	}
	_, _, err = x.walkClone(c19CloneSpec{dir: "", recv: "Transport", key: "Transport", goType: "Transport",
		nested: map[string]string{"t2": "H2Transport"}, nestedType: map[string]string{"t2": "h2internal.Transport"},
		calls: map[string]func(w *c19Walk) error{
			"EnableHTTP3": func(w *c19Walk) error {
				for _, n := range []string{"t3", "altSvcJar", "pendingAltSvcs"} {
					if err := w.x.setField("Transport", n, "rebuilt", w.dst+".EnableHTTP3()"); err != nil {
						return err
					}
				}
				return nil
			},
		}})
	if err != nil {
		return nil, err
	}
	// the copy gets a Debugf of its own (initTransport builds it around the copy), after the copy's Transport exists
	facts["debugfRebound"] = cw.callAt["initTransport"].IsValid() && cw.pos["Transport"].IsValid() && cw.callAt["initTransport"] > cw.pos["Transport"]
	// the copy's http.Client is pointed at the copy's Transport: `X.Transport = <copy>.Transport` with X the
	// local that becomes <copy>.httpClient, or <copy>.httpClient itself
	rebound := false
	ast.Inspect(cfd.Body, func(n ast.Node) bool {
		as, ok := n.(*ast.AssignStmt)
		if !ok || len(as.Lhs) != len(as.Rhs) {
			return true
		}
		for i, l := range as.Lhs {
			sel, ok := l.(*ast.SelectorExpr)
			if !ok || sel.Sel.Name != "Transport" {
				continue
			}
			if _, isLocal := sel.X.(*ast.Ident); !isLocal && cw.env.text(sel.X) != cw.dst+".httpClient" {
				continue
			}
			if id, isLocal := sel.X.(*ast.Ident); isLocal && id.Name == cw.dst {
				continue // <copy>.Transport = … is the Transport field itself
			}
			if cw.env.text(as.Rhs[i]) == cw.dst+".Transport" && cw.pos["Transport"].IsValid() && as.Pos() > cw.pos["Transport"] {
				rebound = true
			}
		}
		return true
	})
	facts["httpClientTransportRebound"] = rebound

	// ---- Options.Clone, retryOption.Clone, DumpOptions.Clone, Dumper.Clone
	ow, ofd, err := x.walkClone(c19CloneSpec{dir: "internal/transport", recv: "Options", key: "Options", goType: "Options",
		nested: map[string]string{"TLSClientConfig": "TLSConfig"}, nestedType: map[string]string{"TLSClientConfig": "tls.Config"}})
	if err != nil {
		return nil, err
	}
	dw, dfd, err := x.walkClone(c19CloneSpec{dir: "internal/dump", recv: "Dumper", key: "Dumper", goType: "Dumper"})
	if err != nil {
		return nil, err
	}
	// the copy's dumper gets a writer goroutine of its own: `go X.Start()` in Options.Clone or Dumper.Clone with X
	// anything but the ORIGINAL's dumper
	started := false
	for _, b := range []struct {
		w  *c19Walk
		fd *ast.FuncDecl
		orig []string
	}{{ow, ofd, []string{ow.src + ".Dump"}}, {dw, dfd, []string{dw.src}}} {
		ast.Inspect(b.fd.Body, func(n ast.Node) bool {
			g, ok := n.(*ast.GoStmt)
			if !ok {
				return true
			}
			sel, ok := g.Call.Fun.(*ast.SelectorExpr)
			if !ok || sel.Sel.Name != "Start" {
				return true
			}
			recv := b.w.env.text(sel.X)
			for _, o := range b.orig {
				if recv == o {
					return true
				}
			}
			started = true
			return true
		})
	}
	facts["dumperStarted"] = started
	if _, _, err = x.walkClone(c19CloneSpec{dir: "", recv: "retryOption", key: "retryOption", goType: "retryOption"}); err != nil {
		return nil, err
	}
	if _, _, err = x.walkClone(c19CloneSpec{dir: "", recv: "DumpOptions", key: "DumpOptions", goType: "DumpOptions"}); err != nil {
		return nil, err
	}
	// ---- Client.R clones the retry option
	rfd, err := x.c.funcDecl("", "Client", "R")
	if err != nil {
		return nil, err
	}
	rsrc := rfd.Recv.List[0].Names[0].Name
	renv := &c19Env{dir: "", sub: map[string]string{rsrc: rsrc}, fn: rfd, busy: map[string]bool{}}
	facts["requestRetryFresh"] = false
	seen := false
	ast.Inspect(rfd.Body, func(n ast.Node) bool {
		switch s := n.(type) {
		case *ast.KeyValueExpr:
			if exprString(s.Key) == "retryOption" {
				how, _ := x.classify(renv, s.Value, c19Target{rsrc, "retryOption", false})
				facts["requestRetryFresh"] = how == "cloned"
				seen = true
			}
		case *ast.AssignStmt:
			for i, l := range s.Lhs {
				if sel, ok := l.(*ast.SelectorExpr); ok && sel.Sel.Name == "retryOption" && len(s.Lhs) == len(s.Rhs) {
					how, _ := x.classify(renv, s.Rhs[i], c19Target{rsrc, "retryOption", false})
					facts["requestRetryFresh"] = how == "cloned"
					seen = true
				}
			}
		}
		return true
	})
	if !seen {
		return nil, fmt.Errorf("Client.R: the request's retryOption is not set where the extractor looks")
	}
	return facts, nil
}
