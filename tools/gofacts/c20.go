package main

// C20: the digest hash table `hashFuncs` of digest.go as (algorithm name, constructor) pairs.
// The constructor is printed as "<import path>.<function>" (the package identifier is
// resolved through the file's import list, so an alias cannot disguise it). The extractor
// refuses anything but a map literal with string-literal keys and pkg.Func selector values.

import (
	"fmt"
	"go/ast"
	"go/token"
	"sort"
	"strconv"
	"strings"
)

func init() {
	register("DigestFacts", digestFacts)
}

func digestFacts(c *ctx) (string, error) {
	fs, err := c.files("")
	if err != nil {
		return "", err
	}
	var file *ast.File
	var val ast.Expr
	for _, f := range fs {
		for _, d := range f.Decls {
			gd, ok := d.(*ast.GenDecl)
			if !ok || gd.Tok != token.VAR {
				continue
			}
			for _, s := range gd.Specs {
				vs := s.(*ast.ValueSpec)
				for i, n := range vs.Names {
					if n.Name != "hashFuncs" {
						continue
					}
					if file != nil {
						return "", fmt.Errorf("hashFuncs declared more than once")
					}
					if i >= len(vs.Values) {
						return "", fmt.Errorf("hashFuncs has no initialiser")
					}
					file, val = f, vs.Values[i]
				}
			}
		}
	}
	if file == nil {
		return "", fmt.Errorf("package-level var hashFuncs not found")
	}
	// any other assignment to hashFuncs or to one of its elements would make the literal a lie
	for name, f := range fs {
		var bad error
		ast.Inspect(f, func(n ast.Node) bool {
			as, ok := n.(*ast.AssignStmt)
			if !ok {
				return true
			}
			for _, l := range as.Lhs {
				e := l
				if ix, ok := e.(*ast.IndexExpr); ok {
					e = ix.X
				}
				if id, ok := e.(*ast.Ident); ok && id.Name == "hashFuncs" {
					bad = fmt.Errorf("%s assigns to hashFuncs outside its declaration", name)
				}
			}
			return true
		})
		if bad != nil {
			return "", bad
		}
	}
	imports := map[string]string{}
	for _, im := range file.Imports {
		p, _ := strconv.Unquote(im.Path.Value)
		local := p[strings.LastIndex(p, "/")+1:]
		if im.Name != nil {
			local = im.Name.Name
		}
		imports[local] = p
	}
	cl, ok := val.(*ast.CompositeLit)
	if !ok {
		return "", fmt.Errorf("hashFuncs is not initialised by a composite literal")
	}
	mt, ok := cl.Type.(*ast.MapType)
	if !ok {
		return "", fmt.Errorf("hashFuncs is not a map literal")
	}
	if id, ok := mt.Key.(*ast.Ident); !ok || id.Name != "string" {
		return "", fmt.Errorf("hashFuncs key type is not string")
	}
	type ent struct{ name, ctor string }
	var ents []ent
	seen := map[string]bool{}
	for _, e := range cl.Elts {
		kv, ok := e.(*ast.KeyValueExpr)
		if !ok {
			return "", fmt.Errorf("hashFuncs element is not key: value")
		}
		kl, ok := kv.Key.(*ast.BasicLit)
		if !ok || kl.Kind != token.STRING {
			return "", fmt.Errorf("hashFuncs key is not a string literal")
		}
		k, err := strconv.Unquote(kl.Value)
		if err != nil {
			return "", err
		}
		sel, ok := kv.Value.(*ast.SelectorExpr)
		if !ok {
			return "", fmt.Errorf("hashFuncs[%q] is not a pkg.Func selector", k)
		}
		pk, ok := sel.X.(*ast.Ident)
		if !ok {
			return "", fmt.Errorf("hashFuncs[%q] is not a pkg.Func selector", k)
		}
		path, ok := imports[pk.Name]
		if !ok {
			return "", fmt.Errorf("hashFuncs[%q]: %s is not an imported package", k, pk.Name)
		}
		if seen[k] {
			return "", fmt.Errorf("hashFuncs key %q twice", k)
		}
		seen[k] = true
		ents = append(ents, ent{k, path + "." + sel.Sel.Name})
	}
	sort.Slice(ents, func(i, j int) bool { return ents[i].name < ents[j].name })
	var b strings.Builder
	b.WriteString("/-! `hashFuncs` of digest.go: (algorithm name, hash constructor), sorted by name. -/\n")
	b.WriteString("namespace Generated.DigestFacts\n\n")
	b.WriteString("def hashFuncs : List (List UInt8 × List UInt8) := [\n")
	for i, e := range ents {
		sep := ","
		if i == len(ents)-1 {
			sep = ""
		}
		fmt.Fprintf(&b, "  -- %q ↦ %s\n  (%s, %s)%s\n", e.name, e.ctor, leanBytes(e.name), leanBytes(e.ctor), sep)
	}
	b.WriteString("]\n\nend Generated.DigestFacts\n")
	return b.String(), nil
}
