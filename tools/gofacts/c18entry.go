package main

// C18Entry: the call graph around the send entry points of package req.
//
// For every function / method of the root package that can reach the core `(*Request).do`, or
// that invokes the client's error hook (`onError`), the fact lists: exported or not, the shape of
// its results ((*Response, error) / *Response / error / other), whether its own body invokes the
// error hook, whether it panics and, if so, whether the panic value is the error result of the
// sender it calls, and the senders / hook callers it calls. Calls are resolved by a small type
// inference over the package's own declarations (receivers, parameters, struct fields, result
// types, `:=` from calls), so `defaultClient.R().Get(url)` is `(*Request).Get` and
// `pd.client.Head(url).Do(ctx...)` is `(*Request).Do`.
//
// The bridge (lean/Bridge/C18Entry.lean) states BY RULE — not by a table of names — that every
// exported sender returning (*Response, error) runs the hook exactly once on its path, that the
// senders returning only *Response run it never (Do style) unless they panic (Must* style: once,
// through the non-Must form, panicking with that form's error), and that only `Request.Do` calls
// the core. A new or changed entry point that bypasses the hook breaks the rule; one that follows
// it stays quiet, as do renamed locals, reordered statements and extracted helpers.

import (
	"fmt"
	"go/ast"
	"sort"
	"strings"
)

func init() { register("C18Entry", c18Entry) }

type c18Fn struct {
	key      string // "Recv.Name" or "Name"
	decl     *ast.FuncDecl
	recv     string
	results  []string // result type names, '*' stripped
	hook     bool
	panics   bool
	panicArg bool // every panic(x) has x = the error result of a resolved call
	calls    []string
	// a pure panic helper (`func must(resp *Response, err error) *Response`): every panic(x) in it has
	// x = its own parameter number panicParam (of type error); -1 otherwise
	panicParam int
}

type c18TypeInfo struct {
	fns     map[string]*c18Fn
	fields  map[string]map[string]string // struct type -> field -> type name
	pkgVars map[string]string            // package-level var -> type name
}

func c18TypeName(e ast.Expr) string {
	switch t := e.(type) {
	case *ast.StarExpr:
		return c18TypeName(t.X)
	case *ast.Ident:
		return t.Name
	case *ast.SelectorExpr:
		if x, ok := t.X.(*ast.Ident); ok {
			return x.Name + "." + t.Sel.Name
		}
	case *ast.IndexExpr:
		return c18TypeName(t.X)
	case *ast.Ellipsis:
		return "[]" + c18TypeName(t.Elt)
	}
	return "?"
}

func (ti *c18TypeInfo) resultTypes(key string) []string {
	if f, ok := ti.fns[key]; ok {
		return f.results
	}
	return nil
}

// resolve returns the key of the function a call expression invokes, or "".
func (ti *c18TypeInfo) resolve(ce *ast.CallExpr, env map[string]string) string {
	switch f := ce.Fun.(type) {
	case *ast.Ident:
		if _, ok := ti.fns[f.Name]; ok {
			return f.Name
		}
	case *ast.SelectorExpr:
		t := ti.typeOf(f.X, env)
		if t != "" {
			if _, ok := ti.fns[t+"."+f.Sel.Name]; ok {
				return t + "." + f.Sel.Name
			}
		}
	}
	return ""
}

// typeOf infers the (package-local) type name of an expression, "" when unknown.
func (ti *c18TypeInfo) typeOf(e ast.Expr, env map[string]string) string {
	switch x := e.(type) {
	case *ast.Ident:
		if t, ok := env[x.Name]; ok {
			return t
		}
		if t, ok := ti.pkgVars[x.Name]; ok {
			return t
		}
	case *ast.ParenExpr:
		return ti.typeOf(x.X, env)
	case *ast.StarExpr:
		return ti.typeOf(x.X, env)
	case *ast.UnaryExpr:
		return ti.typeOf(x.X, env)
	case *ast.CallExpr:
		if k := ti.resolve(x, env); k != "" {
			if rs := ti.resultTypes(k); len(rs) > 0 {
				return rs[0]
			}
		}
	case *ast.SelectorExpr:
		if t := ti.typeOf(x.X, env); t != "" {
			if ft, ok := ti.fields[t][x.Sel.Name]; ok {
				return ft
			}
		}
	case *ast.CompositeLit:
		if x.Type != nil {
			return c18TypeName(x.Type)
		}
	}
	return ""
}

func c18Entry(c *ctx) (string, error) {
	fs, err := c.files("")
	if err != nil {
		return "", err
	}
	ti := &c18TypeInfo{fns: map[string]*c18Fn{}, fields: map[string]map[string]string{}, pkgVars: map[string]string{}}
	var names []string
	for n := range fs {
		names = append(names, n)
	}
	sort.Strings(names)
	// pass 1: declarations
	for _, n := range names {
		if strings.HasSuffix(n, "_js.go") || strings.HasSuffix(n, "_wasm.go") {
			continue // other build targets
		}
		for _, d := range fs[n].Decls {
			switch dd := d.(type) {
			case *ast.FuncDecl:
				if dd.Body == nil {
					continue
				}
				fn := &c18Fn{decl: dd, panicParam: -1}
				if dd.Recv != nil && len(dd.Recv.List) == 1 {
					fn.recv = c18TypeName(dd.Recv.List[0].Type)
					fn.key = fn.recv + "." + dd.Name.Name
				} else {
					fn.key = dd.Name.Name
				}
				if dd.Type.Results != nil {
					for _, r := range dd.Type.Results.List {
						k := len(r.Names)
						if k == 0 {
							k = 1
						}
						for i := 0; i < k; i++ {
							fn.results = append(fn.results, c18TypeName(r.Type))
						}
					}
				}
				ti.fns[fn.key] = fn
			case *ast.GenDecl:
				for _, s := range dd.Specs {
					switch sp := s.(type) {
					case *ast.TypeSpec:
						if st, ok := sp.Type.(*ast.StructType); ok {
							m := map[string]string{}
							for _, f := range st.Fields.List {
								for _, fnm := range f.Names {
									m[fnm.Name] = c18TypeName(f.Type)
								}
								if len(f.Names) == 0 { // embedded
									m[strings.TrimPrefix(c18TypeName(f.Type), "http.")] = c18TypeName(f.Type)
								}
							}
							ti.fields[sp.Name.Name] = m
						}
					}
				}
			}
		}
	}
	// package-level vars (after all functions are known: `var defaultClient = C()`)
	for _, n := range names {
		for _, d := range fs[n].Decls {
			gd, ok := d.(*ast.GenDecl)
			if !ok {
				continue
			}
			for _, s := range gd.Specs {
				vs, ok := s.(*ast.ValueSpec)
				if !ok {
					continue
				}
				for i, nm := range vs.Names {
					if vs.Type != nil {
						ti.pkgVars[nm.Name] = c18TypeName(vs.Type)
					} else if i < len(vs.Values) {
						if t := ti.typeOf(vs.Values[i], nil); t != "" {
							ti.pkgVars[nm.Name] = t
						}
					}
				}
			}
		}
	}
	// pass 1b: pure panic helpers
	for _, fn := range ti.fns {
		var params []string
		var ptypes []string
		for _, p := range fn.decl.Type.Params.List {
			for _, nm := range p.Names {
				params = append(params, nm.Name)
				ptypes = append(ptypes, c18TypeName(p.Type))
			}
		}
		idx, ok, any := -1, true, false
		ast.Inspect(fn.decl.Body, func(n ast.Node) bool {
			if ce, isCall := n.(*ast.CallExpr); isCall {
				if id, isID := ce.Fun.(*ast.Ident); isID && id.Name == "panic" && len(ce.Args) == 1 {
					any = true
					a, isArgID := ce.Args[0].(*ast.Ident)
					found := -1
					if isArgID {
						for i, p := range params {
							if p == a.Name && ptypes[i] == "error" {
								found = i
							}
						}
					}
					if found < 0 || (idx >= 0 && idx != found) {
						ok = false
					}
					idx = found
				}
			}
			return true
		})
		if any && ok {
			fn.panicParam = idx
		}
	}
	// pass 2: bodies
	for _, fn := range ti.fns {
		if fn.panicParam >= 0 {
			continue // a helper: its panic is attributed to its callers
		}
		env := map[string]string{}
		dd := fn.decl
		if dd.Recv != nil {
			for _, nm := range dd.Recv.List[0].Names {
				env[nm.Name] = fn.recv
			}
		}
		for _, p := range dd.Type.Params.List {
			for _, nm := range p.Names {
				env[nm.Name] = c18TypeName(p.Type)
			}
		}
		if dd.Type.Results != nil {
			for _, p := range dd.Type.Results.List {
				for _, nm := range p.Names {
					env[nm.Name] = c18TypeName(p.Type)
				}
			}
		}
		// which call does an identifier get its value from, and as which result
		type origin struct {
			callee string
			index  int
		}
		from := map[string]origin{}
		seen := map[string]bool{}
		var panicArgs []ast.Expr
		var helperPanics []bool
		// "invokes the error hook" by meaning: the body READS a selector `.onError` (to call it, to
		// test it, or to put it in a local that it calls) — writing it (the OnError setter) does not count
		written := map[*ast.SelectorExpr]bool{}
		ast.Inspect(dd.Body, func(n ast.Node) bool {
			if as, ok := n.(*ast.AssignStmt); ok {
				for _, l := range as.Lhs {
					if sel, ok := l.(*ast.SelectorExpr); ok {
						written[sel] = true
					}
				}
			}
			return true
		})
		ast.Inspect(dd.Body, func(n ast.Node) bool {
			if sel, ok := n.(*ast.SelectorExpr); ok && sel.Sel.Name == "onError" && !written[sel] {
				fn.hook = true
			}
			return true
		})
		ast.Inspect(dd.Body, func(n ast.Node) bool {
			switch x := n.(type) {
			case *ast.AssignStmt:
				if len(x.Rhs) == 1 {
					if ce, ok := x.Rhs[0].(*ast.CallExpr); ok {
						if k := ti.resolve(ce, env); k != "" {
							rs := ti.resultTypes(k)
							for i, l := range x.Lhs {
								if id, ok := l.(*ast.Ident); ok && id.Name != "_" && i < len(rs) {
									env[id.Name] = rs[i]
									from[id.Name] = origin{k, i}
								}
							}
							return true
						}
					}
				}
				if len(x.Lhs) == len(x.Rhs) {
					for i, l := range x.Lhs {
						if id, ok := l.(*ast.Ident); ok && id.Name != "_" {
							if t := ti.typeOf(x.Rhs[i], env); t != "" {
								env[id.Name] = t
							}
						}
					}
				}
			case *ast.ValueSpec:
				for _, nm := range x.Names {
					if x.Type != nil {
						env[nm.Name] = c18TypeName(x.Type)
					}
				}
			case *ast.CallExpr:
				if id, ok := x.Fun.(*ast.Ident); ok && id.Name == "panic" && len(x.Args) == 1 {
					fn.panics = true
					panicArgs = append(panicArgs, x.Args[0])
				}
				if k := ti.resolve(x, env); k != "" && !seen[k] {
					seen[k] = true
					fn.calls = append(fn.calls, k)
				}
				// a call of a pure panic helper: this function panics, with the argument it passes
				if k := ti.resolve(x, env); k != "" && ti.fns[k].panicParam >= 0 {
					fn.panics = true
					pi := ti.fns[k].panicParam
					good := false
					if len(x.Args) == 1 { // must(r.Get(url)): the results of a call forwarded as arguments
						if inner, ok := x.Args[0].(*ast.CallExpr); ok {
							if ik := ti.resolve(inner, env); ik != "" {
								if rs := ti.resultTypes(ik); pi < len(rs) && len(rs) > 1 && rs[pi] == "error" {
									good = true
								}
							}
						}
					}
					if !good && pi < len(x.Args) {
						if id, ok := x.Args[pi].(*ast.Ident); ok {
							if o, ok := from[id.Name]; ok {
								if rs := ti.resultTypes(o.callee); o.index < len(rs) && rs[o.index] == "error" {
									good = true
								}
							}
						}
					}
					helperPanics = append(helperPanics, good)
				}
			}
			return true
		})
		fn.panicArg = len(panicArgs) > 0 || len(helperPanics) > 0
		for _, g := range helperPanics {
			if !g {
				fn.panicArg = false
			}
		}
		for _, a := range panicArgs {
			id, ok := a.(*ast.Ident)
			if !ok {
				fn.panicArg = false
				continue
			}
			o, ok := from[id.Name]
			rs := ti.resultTypes(o.callee)
			if !ok || o.index >= len(rs) || rs[o.index] != "error" {
				fn.panicArg = false
			}
		}
		sort.Strings(fn.calls)
	}
	// relevant = reaches the core, or reaches a hook caller
	const core = "Request.do"
	if _, ok := ti.fns[core]; !ok {
		return "", fmt.Errorf("the core (*Request).do was not found")
	}
	memo := map[string]int{} // 0 unknown, 1 in progress, 2 yes, 3 no
	var relevant func(k string) bool
	relevant = func(k string) bool {
		switch memo[k] {
		case 2:
			return true
		case 1, 3:
			return false
		}
		memo[k] = 1
		fn := ti.fns[k]
		r := k == core || fn.hook
		for _, cal := range fn.calls {
			if relevant(cal) {
				r = true
			}
		}
		if r {
			memo[k] = 2
		} else {
			memo[k] = 3
		}
		return r
	}
	var keys []string
	for k := range ti.fns {
		if relevant(k) {
			keys = append(keys, k)
		}
	}
	sort.Strings(keys)
	if len(keys) < 5 {
		return "", fmt.Errorf("only %d functions reach (*Request).do: the call graph was not resolved", len(keys))
	}
	idx := map[string]int{}
	for i, k := range keys {
		idx[k] = i
	}
	shape := func(rs []string) string {
		switch strings.Join(rs, ",") {
		case "Response,error":
			return "respErr"
		case "Response":
			return "resp"
		case "error":
			return "err"
		}
		return "other"
	}
	var b strings.Builder
	b.WriteString("namespace Generated.C18Entry\n\n")
	b.WriteString("inductive Results | respErr | resp | err | other\n  deriving DecidableEq, Repr\n\n")
	b.WriteString("structure Fn where\n  exported : Bool\n  results : Results\n  hook : Bool\n  panics : Bool\n  panicArgIsCalleeErr : Bool\n  calls : List Nat\n  deriving Repr\n\n")
	fmt.Fprintf(&b, "/-- index of the core `(*Request).do` -/\ndef core : Nat := %d\n\n", idx[core])
	b.WriteString("/-- functions of package req that reach the core or invoke the error hook, by index -/\ndef fns : List Fn := [\n")
	for i, k := range keys {
		fn := ti.fns[k]
		var cs []string
		for _, cal := range fn.calls {
			if j, ok := idx[cal]; ok {
				cs = append(cs, fmt.Sprint(j))
			}
		}
		exported := ast.IsExported(fn.decl.Name.Name) && (fn.recv == "" || ast.IsExported(fn.recv))
		sep := ","
		if i == len(keys)-1 {
			sep = ""
		}
		fmt.Fprintf(&b, "  ⟨%v, .%s, %v, %v, %v, [%s]⟩%s  -- %d %s\n", exported, shape(fn.results), fn.hook, fn.panics, fn.panicArg, strings.Join(cs, ", "), sep, i, k)
	}
	b.WriteString("]\n\n")
	b.WriteString("def names : List String := [")
	for i, k := range keys {
		if i > 0 {
			b.WriteString(", ")
		}
		fmt.Fprintf(&b, "%q", k)
	}
	b.WriteString("]\n\nend Generated.C18Entry\n")
	return b.String(), nil
}
