package main

// pure.go: a translator from a small PURE subset of Go into Lean 4 definitions (vocabulary:
// lean/Req/Base/GoSem.lean).  It regenerates, on every run, Lean versions of the byte-level
// helper functions of imroc/req (chunk-size parsing, ASCII folding, token table, status classes,
// stream-id validity …); the bridge modules Bridge/Pure*.lean prove each generated function equal
// to the hand-written model function the property theorems are about.  A semantic edit of one
// of these Go functions changes the generated definition and breaks the bridge theorem.
//
// Subset (anything else is REFUSED with an error naming the construct):
//   types       byte, uint32, uint64, int, bool, []byte, string; last result may be `error`
//   statements  := = op= ++ --, if/else, switch (with or without tag, no fallthrough), return,
//               continue, break, `for i, b := range bytes`, `for i := a; i < bound; i++`,
//               `for cond {}` (needs a registered fuel expression)
//   expressions literals, identifiers, package-level constants, boolean tables ([N]bool{...}),
//               arithmetic / bit operations on fixed-width unsigned types (wrapping, like Go),
//               + - * on int (NOT wrapped: only lengths, counters, small literals), comparisons,
//               && || ! (short-circuit preserved), len, index, slice, conversions, calls of
//               functions translated earlier.
// Index and slice expressions are partial: out of range is Res.panic, as in Go.

import (
	"fmt"
	"go/ast"
	"go/token"
	"math/big"
	"sort"
	"strconv"
	"strings"
)

type pTy string

const (
	tByte    pTy = "byte"
	tU32     pTy = "uint32"
	tU64     pTy = "uint64"
	tInt     pTy = "int"
	tBool    pTy = "bool"
	tBytes   pTy = "bytes"
	tUntyped pTy = "untyped"
	tTblBool pTy = "tbl:bool"
)

func (t pTy) lean() string {
	switch t {
	case tByte:
		return "UInt8"
	case tU32:
		return "UInt32"
	case tU64:
		return "UInt64"
	case tInt:
		return "Int"
	case tBool:
		return "Bool"
	case tBytes:
		return "Bytes"
	case tTblBool:
		return "List Bool"
	}
	return "?"
}

func (t pTy) zero() string {
	switch t {
	case tBool:
		return "false"
	case tBytes:
		return "[]"
	}
	return "0"
}

func (t pTy) isUnsigned() bool { return t == tByte || t == tU32 || t == tU64 }
func (t pTy) isNum() bool      { return t.isUnsigned() || t == tInt || t == tUntyped }
func (t pTy) width() int {
	switch t {
	case tByte:
		return 8
	case tU32:
		return 32
	case tU64:
		return 64
	}
	return 0
}

func pGoType(e ast.Expr) (pTy, error) {
	switch x := e.(type) {
	case *ast.Ident:
		switch x.Name {
		case "byte", "uint8":
			return tByte, nil
		case "uint32":
			return tU32, nil
		case "uint64":
			return tU64, nil
		case "int":
			return tInt, nil
		case "bool":
			return tBool, nil
		case "string":
			return tBytes, nil
		case "error":
			return "error", nil
		}
	case *ast.ArrayType:
		if x.Len == nil {
			if id, ok := x.Elt.(*ast.Ident); ok && (id.Name == "byte" || id.Name == "uint8") {
				return tBytes, nil
			}
		}
	}
	return "", fmt.Errorf("unsupported type %s", pSrc(e))
}

func pSrc(n ast.Node) string {
	var b strings.Builder
	ast.Fprint(&b, token.NewFileSet(), n, nil)
	s := b.String()
	if len(s) > 120 {
		s = s[:120]
	}
	switch x := n.(type) {
	case *ast.Ident:
		return x.Name
	case *ast.BasicLit:
		return x.Value
	}
	return fmt.Sprintf("%T", n)
}

type pureSpec struct {
	dir, recv, name string
	lean            string
	fuel            []string // Lean Nat expressions (over the parameters) for the `for cond {}` loops, in source order
}

type pureTable struct {
	dir, name string
}

type pureFnInfo struct {
	lean     string
	params   []pTy
	result   pTy
	hasErr   bool
	canPanic bool
}

func (f *pureFnInfo) retType() string {
	base := f.result.lean()
	if f.hasErr {
		base = "Option " + base
	}
	if f.canPanic {
		return "Res (" + base + ")"
	}
	return base
}

type pureTr struct {
	c       *ctx
	externs map[string]*pureFnInfo // "pkg.Name" of functions translated in another module
	fns    map[string]*pureFnInfo // dir + "." + name
	tables map[string]bool        // dir + "." + name (bool tables)
	out    []string
}

type pEnv struct {
	vars  map[string]pTy
	order []string
}

func (e *pEnv) clone() *pEnv {
	n := &pEnv{vars: map[string]pTy{}, order: append([]string(nil), e.order...)}
	for k, v := range e.vars {
		n.vars[k] = v
	}
	return n
}

func (e *pEnv) add(name string, t pTy) {
	if _, ok := e.vars[name]; !ok {
		e.order = append(e.order, name)
	}
	e.vars[name] = t
}

type pBind struct{ name, opt string }

type pLoopCtx struct {
	cont func(env *pEnv) (string, error)
	brk  func(env *pEnv) (string, error)
}

type pFnCtx struct {
	tr       *pureTr
	spec     pureSpec
	dir      string
	info     *pureFnInfo
	named    []string // named value results
	namedErr string
	loops    []pLoopCtx
	aux      []string
	nLoop    int
	nWhile   int
	nTmp     int
	consts   map[string]*big.Int // function-local constants
	loopCall map[ast.Node]string // loops already translated (a continuation can be rendered several times)
}

func pIndent(n int) string { return strings.Repeat("  ", n) }

// ---------------------------------------------------------------- constants

func (fc *pFnCtx) constValue(e ast.Expr) (*big.Int, bool) {
	switch x := e.(type) {
	case *ast.BasicLit:
		switch x.Kind {
		case token.INT:
			v, ok := new(big.Int).SetString(strings.ReplaceAll(x.Value, "_", ""), 0)
			return v, ok
		case token.CHAR:
			s, err := strconv.Unquote(x.Value)
			if err != nil || len([]rune(s)) != 1 {
				return nil, false
			}
			return big.NewInt(int64([]rune(s)[0])), true
		}
	case *ast.ParenExpr:
		return fc.constValue(x.X)
	case *ast.Ident:
		if v, ok := fc.consts[x.Name]; ok {
			return v, true
		}
		if vs, i, err := fc.tr.c.valueSpec(fc.dir, x.Name); err == nil && i < len(vs.Values) {
			if gd := fc.tr.isConst(fc.dir, x.Name); gd {
				return fc.constValue(vs.Values[i])
			}
		}
	case *ast.SelectorExpr:
		if id, ok := x.X.(*ast.Ident); ok {
			switch id.Name + "." + x.Sel.Name {
			case "unicode.MaxASCII":
				return big.NewInt(127), true
			case "utf8.RuneSelf":
				return big.NewInt(128), true
			}
		}
	case *ast.UnaryExpr:
		if v, ok := fc.constValue(x.X); ok && x.Op == token.SUB {
			return new(big.Int).Neg(v), true
		}
	case *ast.BinaryExpr:
		a, ok1 := fc.constValue(x.X)
		b, ok2 := fc.constValue(x.Y)
		if ok1 && ok2 {
			r := new(big.Int)
			switch x.Op {
			case token.ADD:
				return r.Add(a, b), true
			case token.SUB:
				return r.Sub(a, b), true
			case token.MUL:
				return r.Mul(a, b), true
			case token.SHL:
				if b.IsUint64() && b.Uint64() < 256 {
					return r.Lsh(a, uint(b.Uint64())), true
				}
			case token.SHR:
				if b.IsUint64() && b.Uint64() < 256 {
					return r.Rsh(a, uint(b.Uint64())), true
				}
			case token.OR:
				return r.Or(a, b), true
			case token.AND:
				return r.And(a, b), true
			}
		}
	}
	return nil, false
}

// isConst reports whether a package-level name is declared with `const`.
func (tr *pureTr) isConst(dir, name string) bool {
	fs, err := tr.c.files(dir)
	if err != nil {
		return false
	}
	for _, f := range fs {
		for _, d := range f.Decls {
			gd, ok := d.(*ast.GenDecl)
			if !ok || gd.Tok != token.CONST {
				continue
			}
			for _, s := range gd.Specs {
				for _, n := range s.(*ast.ValueSpec).Names {
					if n.Name == name {
						return true
					}
				}
			}
		}
	}
	return false
}

// ---------------------------------------------------------------- expressions

func pLit(v *big.Int, t pTy) string {
	if t == tUntyped || t == tInt {
		if v.Sign() < 0 {
			return "(" + v.String() + " : Int)"
		}
		return "(" + v.String() + " : Int)"
	}
	return "(" + v.String() + " : " + t.lean() + ")"
}

// toInt renders an integer-typed expression as a Lean Int (for indices and lengths).
func pToInt(text string, t pTy) (string, error) {
	switch t {
	case tInt, tUntyped:
		return text, nil
	case tByte, tU32, tU64:
		return "((" + text + ").toNat : Int)", nil
	}
	return "", fmt.Errorf("not an integer expression of type %s", t)
}

// expr translates an expression.  want is the type an untyped constant should take ("" = none known).
func (fc *pFnCtx) expr(e ast.Expr, env *pEnv, want pTy) (string, pTy, []pBind, error) {
	if v, ok := fc.constValue(e); ok {
		if _, isIdent := e.(*ast.Ident); !isIdent || true {
			t := want
			if t == "" || t == tBool || t == tBytes {
				t = tUntyped
			}
			if t.isUnsigned() {
				max := new(big.Int).Lsh(big.NewInt(1), uint(t.width()))
				if v.Sign() < 0 || v.Cmp(max) >= 0 {
					return "", "", nil, fmt.Errorf("constant %s overflows %s", v, t)
				}
			}
			return pLit(v, t), t, nil, nil
		}
	}
	switch x := e.(type) {
	case *ast.ParenExpr:
		return fc.expr(x.X, env, want)
	case *ast.BasicLit:
		if x.Kind == token.STRING {
			s, err := strconv.Unquote(x.Value)
			if err != nil {
				return "", "", nil, err
			}
			return leanBytes(s), tBytes, nil, nil
		}
	case *ast.Ident:
		switch x.Name {
		case "true", "false":
			return x.Name, tBool, nil, nil
		}
		if t, ok := env.vars[x.Name]; ok {
			return x.Name, t, nil, nil
		}
		if fc.tr.tables[fc.dir+"."+x.Name] {
			return x.Name, tTblBool, nil, nil
		}
		return "", "", nil, fmt.Errorf("unknown identifier %s", x.Name)
	case *ast.UnaryExpr:
		if x.Op == token.NOT {
			s, t, b, err := fc.expr(x.X, env, tBool)
			if err != nil {
				return "", "", nil, err
			}
			if t != tBool {
				return "", "", nil, fmt.Errorf("! on %s", t)
			}
			return "(!" + s + ")", tBool, b, nil
		}
		return "", "", nil, fmt.Errorf("unary operator %s", x.Op)
	case *ast.BinaryExpr:
		return fc.binary(x, env, want)
	case *ast.CallExpr:
		return fc.call(x, env, want)
	case *ast.IndexExpr:
		xs, xt, b1, err := fc.expr(x.X, env, "")
		if err != nil {
			return "", "", nil, err
		}
		var elem pTy
		switch xt {
		case tBytes:
			elem = tByte
		case tTblBool:
			elem = tBool
		default:
			return "", "", nil, fmt.Errorf("index into %s", xt)
		}
		is, it, b2, err := fc.expr(x.Index, env, tInt)
		if err != nil {
			return "", "", nil, err
		}
		ii, err := pToInt(is, it)
		if err != nil {
			return "", "", nil, err
		}
		fc.nTmp++
		name := fmt.Sprintf("x%d_", fc.nTmp)
		binds := append(append(b1, b2...), pBind{name, "idx? " + xs + " " + ii})
		return name, elem, binds, nil
	case *ast.SliceExpr:
		if x.Slice3 {
			return "", "", nil, fmt.Errorf("3-index slice")
		}
		xs, xt, b1, err := fc.expr(x.X, env, "")
		if err != nil {
			return "", "", nil, err
		}
		if xt != tBytes {
			return "", "", nil, fmt.Errorf("slice of %s", xt)
		}
		lo, hi := "(0 : Int)", "(len "+xs+")"
		binds := b1
		if x.Low != nil {
			s, t, b, err := fc.expr(x.Low, env, tInt)
			if err != nil {
				return "", "", nil, err
			}
			if lo, err = pToInt(s, t); err != nil {
				return "", "", nil, err
			}
			binds = append(binds, b...)
		}
		if x.High != nil {
			s, t, b, err := fc.expr(x.High, env, tInt)
			if err != nil {
				return "", "", nil, err
			}
			if hi, err = pToInt(s, t); err != nil {
				return "", "", nil, err
			}
			binds = append(binds, b...)
		}
		fc.nTmp++
		name := fmt.Sprintf("x%d_", fc.nTmp)
		binds = append(binds, pBind{name, "slice? " + xs + " " + lo + " " + hi})
		return name, tBytes, binds, nil
	}
	return "", "", nil, fmt.Errorf("unsupported expression %s", pSrc(e))
}

func (fc *pFnCtx) binary(x *ast.BinaryExpr, env *pEnv, want pTy) (string, pTy, []pBind, error) {
	switch x.Op {
	case token.LAND, token.LOR:
		a, at, b1, err := fc.expr(x.X, env, tBool)
		if err != nil {
			return "", "", nil, err
		}
		b, bt, b2, err := fc.expr(x.Y, env, tBool)
		if err != nil {
			return "", "", nil, err
		}
		if at != tBool || bt != tBool {
			return "", "", nil, fmt.Errorf("%s on non-bool", x.Op)
		}
		if len(b2) > 0 {
			return "", "", nil, errShortCircuit
		}
		op := "&&"
		if x.Op == token.LOR {
			op = "||"
		}
		return "(" + a + " " + op + " " + b + ")", tBool, b1, nil
	case token.EQL, token.NEQ, token.LSS, token.LEQ, token.GTR, token.GEQ:
		a, at, b1, err := fc.expr(x.X, env, "")
		if err != nil {
			return "", "", nil, err
		}
		b, bt, b2, err := fc.expr(x.Y, env, at)
		if err != nil {
			return "", "", nil, err
		}
		if at == tUntyped && bt != tUntyped {
			a, at, b1, err = fc.expr(x.X, env, bt)
			if err != nil {
				return "", "", nil, err
			}
		}
		if at != bt {
			return "", "", nil, fmt.Errorf("comparison of %s with %s", at, bt)
		}
		binds := append(b1, b2...)
		switch x.Op {
		case token.EQL:
			return "(" + a + " == " + b + ")", tBool, binds, nil
		case token.NEQ:
			return "(" + a + " != " + b + ")", tBool, binds, nil
		}
		if !at.isNum() {
			return "", "", nil, fmt.Errorf("ordering on %s", at)
		}
		op := map[token.Token]string{token.LSS: "<", token.LEQ: "≤", token.GTR: ">", token.GEQ: "≥"}[x.Op]
		return "(decide (" + a + " " + op + " " + b + "))", tBool, binds, nil
	}
	// arithmetic
	a, at, b1, err := fc.expr(x.X, env, want)
	if err != nil {
		return "", "", nil, err
	}
	isShift := x.Op == token.SHL || x.Op == token.SHR
	if isShift {
		k, ok := fc.constValue(x.Y)
		if !ok || !at.isUnsigned() || !k.IsUint64() || int(k.Uint64()) >= at.width() {
			return "", "", nil, fmt.Errorf("shift must be of an unsigned value by a constant below its width")
		}
		op := "<<<"
		if x.Op == token.SHR {
			op = ">>>"
		}
		return "(" + a + " " + op + " " + pLit(k, at) + ")", at, b1, nil
	}
	b, bt, b2, err := fc.expr(x.Y, env, at)
	if err != nil {
		return "", "", nil, err
	}
	if at == tUntyped && bt != tUntyped {
		a, at, b1, err = fc.expr(x.X, env, bt)
		if err != nil {
			return "", "", nil, err
		}
	}
	if at != bt || !at.isNum() {
		return "", "", nil, fmt.Errorf("arithmetic on %s and %s", at, bt)
	}
	binds := append(b1, b2...)
	var op string
	switch x.Op {
	case token.ADD:
		op = "+"
	case token.SUB:
		op = "-"
	case token.MUL:
		op = "*"
	case token.QUO, token.REM:
		if !at.isUnsigned() {
			return "", "", nil, fmt.Errorf("/ and %% only on unsigned fixed-width types")
		}
		op = map[token.Token]string{token.QUO: "/", token.REM: "%"}[x.Op]
	case token.AND, token.OR, token.XOR:
		if !at.isUnsigned() {
			return "", "", nil, fmt.Errorf("bit operation on %s", at)
		}
		op = map[token.Token]string{token.AND: "&&&", token.OR: "|||", token.XOR: "^^^"}[x.Op]
	default:
		return "", "", nil, fmt.Errorf("operator %s", x.Op)
	}
	return "(" + a + " " + op + " " + b + ")", at, binds, nil
}

var errShortCircuit = fmt.Errorf("short-circuit operand with a partial operation")

func (fc *pFnCtx) call(x *ast.CallExpr, env *pEnv, want pTy) (string, pTy, []pBind, error) {
	// conversions and builtins
	if id, ok := x.Fun.(*ast.Ident); ok && len(x.Args) == 1 {
		switch id.Name {
		case "len":
			s, t, b, err := fc.expr(x.Args[0], env, "")
			if err != nil {
				return "", "", nil, err
			}
			if t != tBytes && t != tTblBool {
				return "", "", nil, fmt.Errorf("len of %s", t)
			}
			return "(len " + s + ")", tInt, b, nil
		case "byte", "uint8", "uint32", "uint64", "int":
			to, _ := pGoType(id)
			s, t, b, err := fc.expr(x.Args[0], env, to)
			if err != nil {
				return "", "", nil, err
			}
			if t == to {
				return s, to, b, nil
			}
			switch {
			case t.isUnsigned() && to == tInt:
				return "((" + s + ").toNat : Int)", to, b, nil
			case t.isUnsigned() && to.isUnsigned():
				return "(" + s + ").to" + to.lean(), to, b, nil
			case (t == tInt || t == tUntyped) && to.isUnsigned():
				m := new(big.Int).Lsh(big.NewInt(1), uint(to.width()))
				return "(" + to.lean() + ".ofNat ((" + s + ") % " + m.String() + ").toNat)", to, b, nil
			}
			return "", "", nil, fmt.Errorf("conversion %s(%s)", id.Name, t)
		case "string":
			s, t, b, err := fc.expr(x.Args[0], env, "")
			if err != nil || t != tBytes {
				return "", "", nil, fmt.Errorf("string(x) only of a byte slice")
			}
			return s, tBytes, b, nil
		}
	}
	if at, ok := x.Fun.(*ast.ArrayType); ok && len(x.Args) == 1 {
		if t, err := pGoType(at); err == nil && t == tBytes {
			s, t2, b, err := fc.expr(x.Args[0], env, "")
			if err != nil || t2 != tBytes {
				return "", "", nil, fmt.Errorf("[]byte(x) only of a string")
			}
			return s, tBytes, b, nil
		}
	}
	var info *pureFnInfo
	var id *ast.Ident
	if sel, ok := x.Fun.(*ast.SelectorExpr); ok {
		if pk, ok := sel.X.(*ast.Ident); ok {
			id = sel.Sel
			info = fc.tr.externs[pk.Name+"."+sel.Sel.Name]
			if info == nil {
				return "", "", nil, fmt.Errorf("call of %s.%s, which is not translated", pk.Name, sel.Sel.Name)
			}
		}
	}
	if info == nil {
		var ok bool
		id, ok = x.Fun.(*ast.Ident)
		if !ok {
			return "", "", nil, fmt.Errorf("call of %s", pSrc(x.Fun))
		}
		info = fc.tr.fns[fc.dir+"."+id.Name]
		if info == nil {
			return "", "", nil, fmt.Errorf("call of %s, which is not translated", id.Name)
		}
	}
	if info.hasErr {
		return "", "", nil, fmt.Errorf("call of %s (returns an error) inside an expression", id.Name)
	}
	if len(x.Args) != len(info.params) {
		return "", "", nil, fmt.Errorf("call of %s: arity", id.Name)
	}
	var binds []pBind
	parts := []string{info.lean}
	for i, a := range x.Args {
		s, t, b, err := fc.expr(a, env, info.params[i])
		if err != nil {
			return "", "", nil, err
		}
		if t != info.params[i] && !(t == tUntyped && info.params[i].isNum()) {
			return "", "", nil, fmt.Errorf("call of %s: argument %d has type %s", id.Name, i, t)
		}
		binds = append(binds, b...)
		parts = append(parts, s)
	}
	text := "(" + strings.Join(parts, " ") + ")"
	if info.canPanic {
		fc.nTmp++
		name := fmt.Sprintf("x%d_", fc.nTmp)
		binds = append(binds, pBind{name, "@res " + text})
		return name, info.result, binds, nil
	}
	return text, info.result, binds, nil
}

// wrapBinds surrounds body with the partial operations it depends on.
func (fc *pFnCtx) wrapBinds(binds []pBind, body string, ind int) string {
	for i := len(binds) - 1; i >= 0; i-- {
		b := binds[i]
		p := pIndent(ind)
		if strings.HasPrefix(b.opt, "@res ") {
			body = "(match " + b.opt[5:] + " with\n" + p + "| Res.panic => Res.panic\n" + p + "| Res.diverge => Res.diverge\n" + p + "| Res.ok " + b.name + " =>\n" + p + "  " + body + ")"
		} else {
			body = "(match " + b.opt + " with\n" + p + "| none => Res.panic\n" + p + "| some " + b.name + " =>\n" + p + "  " + body + ")"
		}
	}
	return body
}

// cond translates a condition in continuation style, preserving short-circuit evaluation.
func (fc *pFnCtx) cond(e ast.Expr, env *pEnv, ind int, kT, kF func() (string, error)) (string, error) {
	switch x := e.(type) {
	case *ast.ParenExpr:
		return fc.cond(x.X, env, ind, kT, kF)
	case *ast.UnaryExpr:
		if x.Op == token.NOT {
			return fc.cond(x.X, env, ind, kF, kT)
		}
	case *ast.BinaryExpr:
		if x.Op == token.LAND || x.Op == token.LOR {
			// try the direct form first
			if s, t, b, err := fc.expr(e, env, tBool); err == nil && t == tBool {
				return fc.condLeaf(s, b, ind, kT, kF)
			}
			if x.Op == token.LAND {
				return fc.cond(x.X, env, ind, func() (string, error) { return fc.cond(x.Y, env, ind+1, kT, kF) }, kF)
			}
			return fc.cond(x.X, env, ind, kT, func() (string, error) { return fc.cond(x.Y, env, ind+1, kT, kF) })
		}
	}
	s, t, b, err := fc.expr(e, env, tBool)
	if err != nil {
		return "", err
	}
	if t != tBool {
		return "", fmt.Errorf("condition of type %s", t)
	}
	return fc.condLeaf(s, b, ind, kT, kF)
}

func (fc *pFnCtx) condLeaf(s string, b []pBind, ind int, kT, kF func() (string, error)) (string, error) {
	a, err := kT()
	if err != nil {
		return "", err
	}
	c, err := kF()
	if err != nil {
		return "", err
	}
	p := pIndent(ind)
	body := "(if " + s + " then\n" + p + "  " + a + "\n" + p + "else\n" + p + "  " + c + ")"
	if len(b) > 0 && !fc.info.canPanic {
		return "", fmt.Errorf("internal: partial operation in a function not marked canPanic")
	}
	return fc.wrapBinds(b, body, ind), nil
}

// value translates an expression in value position (handles short-circuit booleans with partial operands).
func (fc *pFnCtx) value(e ast.Expr, env *pEnv, want pTy, ind int, k func(text string, t pTy) (string, error)) (string, error) {
	s, t, b, err := fc.expr(e, env, want)
	if err == errShortCircuit {
		return fc.cond(e, env, ind, func() (string, error) { return k("true", tBool) }, func() (string, error) { return k("false", tBool) })
	}
	if err != nil {
		return "", err
	}
	if len(b) > 0 && !fc.info.canPanic {
		return "", fmt.Errorf("internal: partial operation in a function not marked canPanic")
	}
	body, err := k(s, t)
	if err != nil {
		return "", err
	}
	return fc.wrapBinds(b, body, ind), nil
}

// ---------------------------------------------------------------- statements

func (fc *pFnCtx) ret(vals []string, isErr bool) string {
	var base string
	if fc.info.hasErr {
		if isErr {
			base = "none"
		} else {
			base = "(some " + vals[0] + ")"
		}
	} else {
		base = vals[0]
	}
	if fc.info.canPanic {
		return "(Res.ok " + base + ")"
	}
	return base
}

func pIsNil(e ast.Expr) bool {
	id, ok := e.(*ast.Ident)
	return ok && id.Name == "nil"
}

type pK func(env *pEnv) (string, error)

func (fc *pFnCtx) stmts(list []ast.Stmt, env *pEnv, ind int, k pK) (string, error) {
	if len(list) == 0 {
		return k(env)
	}
	rest := func(env2 *pEnv) (string, error) { return fc.stmts(list[1:], env2, ind, k) }
	return fc.stmt(list[0], env, ind, rest)
}

func (fc *pFnCtx) assignTo(name string, rhs ast.Expr, define bool, env *pEnv, ind int, k pK) (string, error) {
	t, known := env.vars[name]
	if define && known {
		return "", fmt.Errorf("`:=` re-declares %s (shadowing is not supported)", name)
	}
	if !define && !known {
		return "", fmt.Errorf("assignment to unknown variable %s", name)
	}
	if name == fc.namedErr {
		return "", fmt.Errorf("assignment to the named error result")
	}
	want := t
	return fc.value(rhs, env, want, ind, func(s string, st pTy) (string, error) {
		if !known {
			t = st
			if t == tUntyped {
				t = tInt
			}
		} else if st != t && !(st == tUntyped && t.isNum()) {
			return "", fmt.Errorf("assignment of %s to %s %s", st, t, name)
		}
		env2 := env.clone()
		env2.add(name, t)
		r, err := k(env2)
		if err != nil {
			return "", err
		}
		return "let " + name + " : " + t.lean() + " := " + s + ";\n" + pIndent(ind) + r, nil
	})
}

func (fc *pFnCtx) stmt(s ast.Stmt, env *pEnv, ind int, k pK) (string, error) {
	switch x := s.(type) {
	case *ast.EmptyStmt:
		return k(env)
	case *ast.BlockStmt:
		return fc.stmts(x.List, env, ind, k)
	case *ast.DeclStmt:
		gd, ok := x.Decl.(*ast.GenDecl)
		if !ok {
			break
		}
		if gd.Tok == token.CONST {
			for _, sp := range gd.Specs {
				vs := sp.(*ast.ValueSpec)
				for i, n := range vs.Names {
					if i >= len(vs.Values) {
						return "", fmt.Errorf("const %s without value", n.Name)
					}
					v, ok := fc.constValue(vs.Values[i])
					if !ok {
						return "", fmt.Errorf("const %s is not an integer constant", n.Name)
					}
					fc.consts[n.Name] = v
				}
			}
			return k(env)
		}
		if gd.Tok == token.VAR && len(gd.Specs) == 1 {
			vs := gd.Specs[0].(*ast.ValueSpec)
			if len(vs.Names) == 1 && vs.Type != nil && len(vs.Values) == 0 {
				t, err := pGoType(vs.Type)
				if err != nil || t == "error" {
					return "", fmt.Errorf("var %s: unsupported type", vs.Names[0].Name)
				}
				if _, dup := env.vars[vs.Names[0].Name]; dup {
					return "", fmt.Errorf("var re-declares %s", vs.Names[0].Name)
				}
				env2 := env.clone()
				env2.add(vs.Names[0].Name, t)
				r, err := k(env2)
				if err != nil {
					return "", err
				}
				return "let " + vs.Names[0].Name + " : " + t.lean() + " := " + t.zero() + ";\n" + pIndent(ind) + r, nil
			}
		}
	case *ast.AssignStmt:
		if len(x.Lhs) != 1 || len(x.Rhs) != 1 {
			return "", fmt.Errorf("multiple assignment")
		}
		id, ok := x.Lhs[0].(*ast.Ident)
		if !ok {
			return "", fmt.Errorf("assignment to %s (only plain variables; no writes through slices)", pSrc(x.Lhs[0]))
		}
		switch x.Tok {
		case token.DEFINE:
			return fc.assignTo(id.Name, x.Rhs[0], true, env, ind, k)
		case token.ASSIGN:
			return fc.assignTo(id.Name, x.Rhs[0], false, env, ind, k)
		}
		ops := map[token.Token]token.Token{token.ADD_ASSIGN: token.ADD, token.SUB_ASSIGN: token.SUB, token.MUL_ASSIGN: token.MUL,
			token.SHL_ASSIGN: token.SHL, token.SHR_ASSIGN: token.SHR, token.OR_ASSIGN: token.OR, token.AND_ASSIGN: token.AND, token.XOR_ASSIGN: token.XOR}
		if op, ok := ops[x.Tok]; ok {
			return fc.assignTo(id.Name, &ast.BinaryExpr{X: id, Op: op, Y: x.Rhs[0]}, false, env, ind, k)
		}
		return "", fmt.Errorf("assignment operator %s", x.Tok)
	case *ast.IncDecStmt:
		id, ok := x.X.(*ast.Ident)
		if !ok {
			return "", fmt.Errorf("++/-- on %s", pSrc(x.X))
		}
		op := token.ADD
		if x.Tok == token.DEC {
			op = token.SUB
		}
		return fc.assignTo(id.Name, &ast.BinaryExpr{X: id, Op: op, Y: &ast.BasicLit{Kind: token.INT, Value: "1"}}, false, env, ind, k)
	case *ast.ReturnStmt:
		return fc.retStmt(x, env, ind)
	case *ast.IfStmt:
		if x.Init != nil {
			// `if v := e; cond {…}`: v is in scope in the condition and both branches only
			inner := *x
			inner.Init = nil
			return fc.stmt(x.Init, env, ind, func(env2 *pEnv) (string, error) {
				return fc.stmt(&inner, env2, ind, func(env3 *pEnv) (string, error) {
					outer := env.clone()
					for n, t := range env3.vars {
						if _, ok := outer.vars[n]; ok {
							outer.vars[n] = t
						}
					}
					return k(outer)
				})
			})
		}
		thenK := func() (string, error) { return fc.block(x.Body.List, env, ind+1, k) }
		elseK := func() (string, error) {
			if x.Else == nil {
				return k(env)
			}
			switch el := x.Else.(type) {
			case *ast.BlockStmt:
				return fc.block(el.List, env, ind+1, k)
			case *ast.IfStmt:
				return fc.stmt(el, env, ind+1, k)
			}
			return "", fmt.Errorf("else form")
		}
		return fc.cond(x.Cond, env, ind, thenK, elseK)
	case *ast.SwitchStmt:
		return fc.switchStmt(x, env, ind, k)
	case *ast.BranchStmt:
		if x.Label != nil || len(fc.loops) == 0 {
			return "", fmt.Errorf("%s (labelled, or outside a loop)", x.Tok)
		}
		l := fc.loops[len(fc.loops)-1]
		switch x.Tok {
		case token.CONTINUE:
			if l.cont == nil {
				return "", fmt.Errorf("continue inside switch")
			}
			return l.cont(env)
		case token.BREAK:
			return l.brk(env)
		}
		return "", fmt.Errorf("branch statement %s", x.Tok)
	case *ast.RangeStmt:
		return fc.rangeLoop(x, env, ind, k)
	case *ast.ForStmt:
		return fc.forLoop(x, env, ind, k)
	}
	return "", fmt.Errorf("unsupported statement %s", pSrc(s))
}

// after is a placeholder kept for symmetry (blocks restore the outer scope in block()).
func (fc *pFnCtx) after(_ []ast.Stmt, env *pEnv, _ int, k pK) (string, error) { return k(env) }

// block translates a nested block: variables declared inside go out of scope afterwards, assignments to outer
// variables stay visible (Lean `let` shadowing inside the duplicated continuation).
func (fc *pFnCtx) block(list []ast.Stmt, env *pEnv, ind int, k pK) (string, error) {
	return fc.stmts(list, env, ind, func(inner *pEnv) (string, error) {
		outer := env.clone()
		for n, t := range inner.vars {
			if _, ok := outer.vars[n]; ok {
				outer.vars[n] = t
			}
		}
		return k(outer)
	})
}

func (fc *pFnCtx) retStmt(x *ast.ReturnStmt, env *pEnv, ind int) (string, error) {
	nRes := 1
	if fc.info.hasErr {
		nRes = 2
	}
	if len(x.Results) == 0 {
		if len(fc.named) == 0 {
			return "", fmt.Errorf("naked return without named results")
		}
		return fc.ret([]string{fc.named[0]}, false), nil
	}
	if len(x.Results) != nRes {
		return "", fmt.Errorf("return with %d values", len(x.Results))
	}
	if fc.info.hasErr && !pIsNil(x.Results[1]) {
		if id, ok := x.Results[1].(*ast.Ident); ok && id.Name == fc.namedErr {
			return fc.value(x.Results[0], env, fc.info.result, ind, func(s string, t pTy) (string, error) { return fc.ret([]string{s}, false), nil })
		}
		// any other second value is a non-nil error by construction (errors.New / fmt.Errorf / a package error value)
		switch e := x.Results[1].(type) {
		case *ast.CallExpr:
			if sel, ok := e.Fun.(*ast.SelectorExpr); ok {
				if p, ok := sel.X.(*ast.Ident); ok && (p.Name+"."+sel.Sel.Name == "errors.New" || p.Name+"."+sel.Sel.Name == "fmt.Errorf") {
					return fc.ret(nil, true), nil
				}
			}
		case *ast.Ident:
			if strings.HasPrefix(e.Name, "Err") || strings.HasPrefix(e.Name, "err") {
				if _, local := env.vars[e.Name]; !local {
					return fc.ret(nil, true), nil
				}
			}
		}
		return "", fmt.Errorf("error value %s", pSrc(x.Results[1]))
	}
	return fc.value(x.Results[0], env, fc.info.result, ind, func(s string, t pTy) (string, error) {
		if t != fc.info.result && !(t == tUntyped && fc.info.result.isNum()) {
			return "", fmt.Errorf("return of %s where %s is declared", t, fc.info.result)
		}
		return fc.ret([]string{s}, false), nil
	})
}

func (fc *pFnCtx) switchStmt(x *ast.SwitchStmt, env *pEnv, ind int, k pK) (string, error) {
	if x.Init != nil {
		return "", fmt.Errorf("switch with init statement")
	}
	var clauses []*ast.CaseClause
	var def *ast.CaseClause
	for _, s := range x.Body.List {
		cc := s.(*ast.CaseClause)
		for _, b := range cc.Body {
			if br, ok := b.(*ast.BranchStmt); ok && br.Tok == token.FALLTHROUGH {
				return "", fmt.Errorf("fallthrough")
			}
		}
		if cc.List == nil {
			def = cc
		} else {
			clauses = append(clauses, cc)
		}
	}
	// `break` inside a case leaves the switch; `continue` still refers to the enclosing loop
	var outerCont func(env *pEnv) (string, error)
	if len(fc.loops) > 0 {
		outerCont = fc.loops[len(fc.loops)-1].cont
	}
	fc.loops = append(fc.loops, pLoopCtx{cont: outerCont, brk: k})
	defer func() { fc.loops = fc.loops[:len(fc.loops)-1] }()

	var build func(i int, ind int) (string, error)
	build = func(i int, ind int) (string, error) {
		if i == len(clauses) {
			if def == nil {
				return k(env)
			}
			return fc.block(def.Body, env, ind, k)
		}
		cc := clauses[i]
		var condE ast.Expr
		for _, c := range cc.List {
			var one ast.Expr = c
			if x.Tag != nil {
				one = &ast.BinaryExpr{X: x.Tag, Op: token.EQL, Y: c}
			}
			if condE == nil {
				condE = one
			} else {
				condE = &ast.BinaryExpr{X: condE, Op: token.LOR, Y: one}
			}
		}
		return fc.cond(condE, env, ind,
			func() (string, error) { return fc.block(cc.Body, env, ind+1, k) },
			func() (string, error) { return build(i+1, ind+1) })
	}
	if x.Tag != nil {
		// the tag must be cheap and pure: an identifier or a constant
		if _, ok := x.Tag.(*ast.Ident); !ok {
			return "", fmt.Errorf("switch tag must be a variable")
		}
	}
	return build(0, ind)
}

// assigned collects the variables of env assigned somewhere in the statements.
func pAssigned(list []ast.Stmt, env *pEnv) []string {
	set := map[string]bool{}
	for _, s := range list {
		ast.Inspect(s, func(n ast.Node) bool {
			switch x := n.(type) {
			case *ast.AssignStmt:
				if x.Tok != token.DEFINE {
					for _, l := range x.Lhs {
						if id, ok := l.(*ast.Ident); ok {
							if _, in := env.vars[id.Name]; in {
								set[id.Name] = true
							}
						}
					}
				}
			case *ast.IncDecStmt:
				if id, ok := x.X.(*ast.Ident); ok {
					if _, in := env.vars[id.Name]; in {
						set[id.Name] = true
					}
				}
			}
			return true
		})
	}
	var out []string
	for _, n := range env.order {
		if set[n] {
			out = append(out, n)
		}
	}
	return out
}

func pMentions(e ast.Node, names map[string]bool) bool {
	found := false
	ast.Inspect(e, func(n ast.Node) bool {
		if id, ok := n.(*ast.Ident); ok && names[id.Name] {
			found = true
		}
		return true
	})
	return found
}

// loopDef emits the auxiliary recursive definition of a loop and returns the call that enters it.
//   fixed:  variables of env that the body does not assign (passed unchanged)
//   state:  variables the body assigns (threaded through the recursion)
func (fc *pFnCtx) loopSplit(body []ast.Stmt, env *pEnv) (fixed, state []string) {
	state = pAssigned(body, env)
	in := map[string]bool{}
	for _, s := range state {
		in[s] = true
	}
	for _, n := range env.order {
		if !in[n] {
			fixed = append(fixed, n)
		}
	}
	return
}

func (fc *pFnCtx) binders(names []string, env *pEnv) string {
	var b []string
	for _, n := range names {
		b = append(b, "("+n+" : "+env.vars[n].lean()+")")
	}
	return strings.Join(b, " ")
}

func (fc *pFnCtx) rangeLoop(x *ast.RangeStmt, env *pEnv, ind int, k pK) (string, error) {
	if x.Tok != token.DEFINE && !(x.Key == nil && x.Value == nil) {
		return "", fmt.Errorf("range with `=`")
	}
	if c, ok := fc.loopCall[x]; ok {
		return c, nil
	}
	xs, xt, xb, err := fc.expr(x.X, env, "")
	if err != nil {
		return "", err
	}
	if xt != tBytes || len(xb) > 0 {
		return "", fmt.Errorf("range over %s", xt)
	}
	fc.nLoop++
	num := fc.nLoop
	name := fmt.Sprintf("%s_loop%d", fc.info.lean, fc.nLoop)
	keyN, valN := fmt.Sprintf("i%d_", fc.nLoop), fmt.Sprintf("b%d_", fc.nLoop)
	if id, ok := x.Key.(*ast.Ident); ok && id.Name != "_" {
		keyN = id.Name
	}
	if id, ok := x.Value.(*ast.Ident); ok && id.Name != "_" {
		valN = id.Name
	}
	if _, dup := env.vars[keyN]; dup {
		return "", fmt.Errorf("range key shadows %s", keyN)
	}
	if _, dup := env.vars[valN]; dup {
		return "", fmt.Errorf("range value shadows %s", valN)
	}
	fixed, state := fc.loopSplit(x.Body.List, env)
	restN := fmt.Sprintf("rest%d_", fc.nLoop)
	call := func(env2 *pEnv, listArg, idxArg string) string {
		parts := []string{name}
		parts = append(parts, fixed...)
		parts = append(parts, listArg, idxArg)
		parts = append(parts, state...)
		return "(" + strings.Join(parts, " ") + ")"
	}
	// exit (list exhausted, or break): the continuation of the loop, inside the auxiliary definition
	exit := func(env2 *pEnv) (string, error) {
		outer := env.clone()
		for _, n := range state {
			outer.vars[n] = env2.vars[n]
		}
		return k(outer)
	}
	benv := env.clone()
	benv.add(keyN, tInt)
	benv.add(valN, tByte)
	fc.loops = append(fc.loops, pLoopCtx{
		cont: func(env2 *pEnv) (string, error) { return call(env2, restN, "("+keyN+" + 1)"), nil },
		brk:  exit,
	})
	body, err := fc.block(x.Body.List, benv, 3, func(env2 *pEnv) (string, error) { return call(env2, restN, "("+keyN+" + 1)"), nil })
	fc.loops = fc.loops[:len(fc.loops)-1]
	if err != nil {
		return "", err
	}
	after, err := exit(env)
	if err != nil {
		return "", err
	}
	var stTypes []string
	for _, n := range state {
		stTypes = append(stTypes, env.vars[n].lean())
	}
	sig := "Bytes → Int"
	if len(stTypes) > 0 {
		sig += " → " + strings.Join(stTypes, " → ")
	}
	pats := strings.Join(append([]string{keyN}, state...), ", ")
	def := fmt.Sprintf("/-- loop %d of `%s`: `for %s, %s := range %s` (remaining bytes, index, loop-carried variables) -/\ndef %s %s : %s → %s\n  | [], %s =>\n      %s\n  | %s :: %s, %s =>\n      %s\n",
		num, fc.spec.name, keyN, valN, pSrc(x.X), name, fc.binders(fixed, env), sig, fc.info.retType(), pats, after, valN, restN, pats, body)
	fc.aux = append(fc.aux, def)
	fc.loopCall[x] = call(env, xs, "(0 : Int)")
	return fc.loopCall[x], nil
}

func (fc *pFnCtx) forLoop(x *ast.ForStmt, env *pEnv, ind int, k pK) (string, error) {
	if c, ok := fc.loopCall[x]; ok {
		return c, nil
	}
	if x.Init == nil && x.Post == nil && x.Cond != nil {
		return fc.whileLoop(x, env, ind, k)
	}
	// for i := A; i < B; i++
	as, ok := x.Init.(*ast.AssignStmt)
	if !ok || as.Tok != token.DEFINE || len(as.Lhs) != 1 || len(as.Rhs) != 1 {
		return "", fmt.Errorf("for-loop init must be `i := a`")
	}
	iv, ok := as.Lhs[0].(*ast.Ident)
	if !ok {
		return "", fmt.Errorf("for-loop init")
	}
	if _, dup := env.vars[iv.Name]; dup {
		return "", fmt.Errorf("loop variable shadows %s", iv.Name)
	}
	ce, ok := x.Cond.(*ast.BinaryExpr)
	if !ok || (ce.Op != token.LSS && ce.Op != token.LEQ) {
		return "", fmt.Errorf("for-loop condition must be `i < bound` or `i <= bound`")
	}
	if id, ok := ce.X.(*ast.Ident); !ok || id.Name != iv.Name {
		return "", fmt.Errorf("for-loop condition must be `i < bound`")
	}
	if pd, ok := x.Post.(*ast.IncDecStmt); !ok || pd.Tok != token.INC || pSrc(pd.X) != iv.Name {
		return "", fmt.Errorf("for-loop post statement must be `i++`")
	}
	fixed, state := fc.loopSplit(x.Body.List, env)
	bad := map[string]bool{iv.Name: true}
	for _, s := range state {
		bad[s] = true
	}
	if pMentions(ce.Y, bad) {
		return "", fmt.Errorf("for-loop bound depends on a variable the body assigns")
	}
	benvProbe := env.clone()
	benvProbe.add(iv.Name, tInt)
	if a := pAssigned(x.Body.List, benvProbe); len(a) > len(state) {
		return "", fmt.Errorf("for-loop body assigns the loop counter")
	}
	as0, at0, ab0, err := fc.expr(as.Rhs[0], env, tInt)
	if err != nil {
		return "", err
	}
	bs0, bt0, bb0, err := fc.expr(ce.Y, env, tInt)
	if err != nil {
		return "", err
	}
	if (at0 != tInt && at0 != tUntyped) || (bt0 != tInt && bt0 != tUntyped) || len(ab0)+len(bb0) > 0 {
		return "", fmt.Errorf("for-loop counter must be an int with total bounds")
	}
	fc.nLoop++
	num := fc.nLoop
	name := fmt.Sprintf("%s_loop%d", fc.info.lean, fc.nLoop)
	fuelN := fmt.Sprintf("fuel%d_", fc.nLoop)
	call := func(fuelArg, idxArg string) string {
		parts := []string{name}
		parts = append(parts, fixed...)
		parts = append(parts, fuelArg, idxArg)
		parts = append(parts, state...)
		return "(" + strings.Join(parts, " ") + ")"
	}
	exit := func(env2 *pEnv) (string, error) {
		outer := env.clone()
		for _, n := range state {
			outer.vars[n] = env2.vars[n]
		}
		return k(outer)
	}
	benv := env.clone()
	benv.add(iv.Name, tInt)
	next := func(env2 *pEnv) (string, error) { return call(fuelN, "("+iv.Name+" + 1)"), nil }
	fc.loops = append(fc.loops, pLoopCtx{cont: next, brk: exit})
	body, err := fc.block(x.Body.List, benv, 3, next)
	fc.loops = fc.loops[:len(fc.loops)-1]
	if err != nil {
		return "", err
	}
	after, err := exit(env)
	if err != nil {
		return "", err
	}
	var stTypes []string
	for _, n := range state {
		stTypes = append(stTypes, env.vars[n].lean())
	}
	sig := "Nat → Int"
	if len(stTypes) > 0 {
		sig += " → " + strings.Join(stTypes, " → ")
	}
	pats := strings.Join(append([]string{iv.Name}, state...), ", ")
	def := fmt.Sprintf("/-- loop %d of `%s`: `for %s := …; %s < …; %s++` (iterations left = bound - %s, counter, loop-carried variables) -/\ndef %s %s : %s → %s\n  | 0, %s =>\n      %s\n  | %s + 1, %s =>\n      %s\n",
		num, fc.spec.name, iv.Name, iv.Name, iv.Name, iv.Name, name, fc.binders(fixed, env), sig, fc.info.retType(), pats, after, fuelN, pats, body)
	fc.aux = append(fc.aux, def)
	iters := "(" + bs0 + " - " + as0 + ").toNat"
	if ce.Op == token.LEQ {
		iters = "(" + bs0 + " - " + as0 + " + 1).toNat"
	}
	fc.loopCall[x] = call(iters, as0)
	return fc.loopCall[x], nil
}

func (fc *pFnCtx) whileLoop(x *ast.ForStmt, env *pEnv, ind int, k pK) (string, error) {
	if fc.nWhile >= len(fc.spec.fuel) {
		return "", fmt.Errorf("`for cond {}` loop without a registered fuel expression")
	}
	fuelExpr := fc.spec.fuel[fc.nWhile]
	fc.nWhile++
	fixed, state := fc.loopSplit(x.Body.List, env)
	fc.nLoop++
	num := fc.nLoop
	name := fmt.Sprintf("%s_loop%d", fc.info.lean, fc.nLoop)
	fuelN := fmt.Sprintf("fuel%d_", fc.nLoop)
	call := func(fuelArg string) string {
		parts := []string{name}
		parts = append(parts, fixed...)
		parts = append(parts, fuelArg)
		parts = append(parts, state...)
		return "(" + strings.Join(parts, " ") + ")"
	}
	exit := func(env2 *pEnv) (string, error) {
		outer := env.clone()
		for _, n := range state {
			outer.vars[n] = env2.vars[n]
		}
		return k(outer)
	}
	next := func(env2 *pEnv) (string, error) { return call(fuelN), nil }
	fc.loops = append(fc.loops, pLoopCtx{cont: next, brk: exit})
	step, err := fc.cond(x.Cond, env, 3,
		func() (string, error) { return fc.block(x.Body.List, env, 4, next) },
		func() (string, error) { return exit(env) })
	fc.loops = fc.loops[:len(fc.loops)-1]
	if err != nil {
		return "", err
	}
	var stTypes []string
	for _, n := range state {
		stTypes = append(stTypes, env.vars[n].lean())
	}
	sig := "Nat"
	if len(stTypes) > 0 {
		sig += " → " + strings.Join(stTypes, " → ")
	}
	pats := strings.Join(state, ", ")
	p0, p1 := "0", fuelN+" + 1"
	if pats != "" {
		p0, p1 = "0, "+strings.Join(pUnderscore(len(state)), ", "), p1+", "+pats
	}
	def := fmt.Sprintf("/-- loop %d of `%s`: `for cond {…}` on explicit fuel (out of fuel = `Res.diverge`) -/\ndef %s %s : %s → %s\n  | %s => Res.diverge\n  | %s =>\n      %s\n",
		num, fc.spec.name, name, fc.binders(fixed, env), sig, fc.info.retType(), p0, p1, step)
	fc.aux = append(fc.aux, def)
	fc.loopCall[x] = call("(" + fuelExpr + ")")
	return fc.loopCall[x], nil
}

func pUnderscore(n int) []string {
	out := make([]string, n)
	for i := range out {
		out[i] = "_"
	}
	return out
}

// ---------------------------------------------------------------- functions, tables, module

func pCanPanic(tr *pureTr, dir string, fd *ast.FuncDecl) bool {
	can := false
	ast.Inspect(fd.Body, func(n ast.Node) bool {
		switch x := n.(type) {
		case *ast.IndexExpr, *ast.SliceExpr:
			can = true
		case *ast.ForStmt:
			if x.Init == nil && x.Post == nil {
				can = true
			}
		case *ast.CallExpr:
			if id, ok := x.Fun.(*ast.Ident); ok {
				if f := tr.fns[dir+"."+id.Name]; f != nil && f.canPanic {
					can = true
				}
			}
			if sel, ok := x.Fun.(*ast.SelectorExpr); ok {
				if pk, ok := sel.X.(*ast.Ident); ok {
					if f := tr.externs[pk.Name+"."+sel.Sel.Name]; f != nil && f.canPanic {
						can = true
					}
				}
			}
		}
		return true
	})
	return can
}

func (tr *pureTr) function(sp pureSpec) error {
	fd, err := tr.c.funcDecl(sp.dir, sp.recv, sp.name)
	if err != nil {
		return err
	}
	info := &pureFnInfo{lean: sp.lean}
	fc := &pFnCtx{tr: tr, spec: sp, dir: sp.dir, info: info, consts: map[string]*big.Int{}, loopCall: map[ast.Node]string{}}
	env := &pEnv{vars: map[string]pTy{}}
	var binders []string
	for _, f := range fd.Type.Params.List {
		t, err := pGoType(f.Type)
		if err != nil || t == "error" {
			return fmt.Errorf("%s: parameter type: %v", sp.name, err)
		}
		for _, n := range f.Names {
			env.add(n.Name, t)
			info.params = append(info.params, t)
			binders = append(binders, "("+n.Name+" : "+t.lean()+")")
		}
	}
	if fd.Type.Results == nil {
		return fmt.Errorf("%s: no result", sp.name)
	}
	var resTypes []pTy
	var resNames []string
	for _, f := range fd.Type.Results.List {
		t, err := pGoType(f.Type)
		if err != nil {
			return fmt.Errorf("%s: result type: %v", sp.name, err)
		}
		if len(f.Names) == 0 {
			resTypes = append(resTypes, t)
			resNames = append(resNames, "")
		}
		for _, n := range f.Names {
			resTypes = append(resTypes, t)
			resNames = append(resNames, n.Name)
		}
	}
	switch {
	case len(resTypes) == 1 && resTypes[0] != "error":
		info.result = resTypes[0]
	case len(resTypes) == 2 && resTypes[0] != "error" && resTypes[1] == "error":
		info.result, info.hasErr = resTypes[0], true
	default:
		return fmt.Errorf("%s: result list", sp.name)
	}
	info.canPanic = pCanPanic(tr, sp.dir, fd)
	var pre string
	if resNames[0] != "" && resNames[0] != "_" {
		fc.named = []string{resNames[0]}
		env.add(resNames[0], info.result)
		pre = "let " + resNames[0] + " : " + info.result.lean() + " := " + info.result.zero() + ";\n  "
	}
	if info.hasErr && resNames[1] != "" {
		fc.namedErr = resNames[1]
	}
	body, err := fc.stmts(fd.Body.List, env, 1, func(*pEnv) (string, error) {
		return "", fmt.Errorf("control reaches the end of the function without return")
	})
	if err != nil {
		return fmt.Errorf("%s: %v", sp.name, err)
	}
	recv := ""
	if sp.recv != "" {
		recv = "(" + sp.recv + ") "
	}
	for _, a := range fc.aux {
		tr.out = append(tr.out, a)
	}
	tr.out = append(tr.out, fmt.Sprintf("/-- translated from `func %s%s` (%s) -/\ndef %s %s : %s :=\n  %s%s\n",
		recv, sp.name, sp.dir, sp.lean, strings.Join(binders, " "), info.retType(), pre, body))
	tr.fns[sp.dir+"."+sp.name] = info
	return nil
}

// table translates `var name = [N]bool{ k: true, ... }`.
func (tr *pureTr) table(t pureTable) error {
	vs, i, err := tr.c.valueSpec(t.dir, t.name)
	if err != nil {
		return err
	}
	if i >= len(vs.Values) {
		return fmt.Errorf("table %s has no initialiser", t.name)
	}
	cl, ok := vs.Values[i].(*ast.CompositeLit)
	if !ok {
		return fmt.Errorf("table %s is not a composite literal", t.name)
	}
	at, ok := cl.Type.(*ast.ArrayType)
	if !ok || at.Len == nil {
		return fmt.Errorf("table %s is not an array", t.name)
	}
	if id, ok := at.Elt.(*ast.Ident); !ok || id.Name != "bool" {
		return fmt.Errorf("table %s is not a bool table", t.name)
	}
	fc := &pFnCtx{tr: tr, dir: t.dir, consts: map[string]*big.Int{}}
	set := map[int64]bool{}
	var maxKey int64 = -1
	next := int64(0)
	for _, el := range cl.Elts {
		var key int64
		var val ast.Expr
		if kv, ok := el.(*ast.KeyValueExpr); ok {
			k, ok := fc.constValue(kv.Key)
			if !ok || !k.IsInt64() {
				return fmt.Errorf("table %s: key %s", t.name, pSrc(kv.Key))
			}
			key, val = k.Int64(), kv.Value
		} else {
			key, val = next, el
		}
		id, ok := val.(*ast.Ident)
		if !ok || (id.Name != "true" && id.Name != "false") {
			return fmt.Errorf("table %s: value %s", t.name, pSrc(val))
		}
		set[key] = id.Name == "true"
		if key > maxKey {
			maxKey = key
		}
		next = key + 1
	}
	n := maxKey + 1
	if _, isEllipsis := at.Len.(*ast.Ellipsis); !isEllipsis {
		l, ok := fc.constValue(at.Len)
		if !ok || !l.IsInt64() || l.Int64() < n {
			return fmt.Errorf("table %s: length", t.name)
		}
		n = l.Int64()
	}
	var keys []int64
	for k, v := range set {
		if v {
			keys = append(keys, k)
		}
	}
	sort.Slice(keys, func(a, b int) bool { return keys[a] < keys[b] })
	cells := make([]string, n)
	for j := range cells {
		cells[j] = "false"
	}
	for _, k := range keys {
		cells[k] = "true"
	}
	var rows []string
	for j := 0; j < len(cells); j += 16 {
		e := j + 16
		if e > len(cells) {
			e = len(cells)
		}
		rows = append(rows, "  "+strings.Join(cells[j:e], ", "))
	}
	tr.out = append(tr.out, fmt.Sprintf("/-- translated from `var %s = [%d]bool{…}` (%s) -/\ndef %s : List Bool := [\n%s]\n", t.name, n, t.dir, t.name, strings.Join(rows, ",\n")))
	tr.tables[t.dir+"."+t.name] = true
	return nil
}

type pureModule struct {
	imports []string
	externs map[string]*pureFnInfo
	name   string
	tables []pureTable
	fns    []pureSpec
}

func registerPure(m pureModule) {
	register(m.name, func(c *ctx) (string, error) {
		tr := &pureTr{c: c, fns: map[string]*pureFnInfo{}, tables: map[string]bool{}, externs: m.externs}
		for _, t := range m.tables {
			if err := tr.table(t); err != nil {
				return "", err
			}
		}
		for _, f := range m.fns {
			if err := tr.function(f); err != nil {
				return "", err
			}
		}
		imp := ""
		for _, i := range m.imports {
			imp += "import " + i + "\n"
		}
		return "import Req.Base.GoSem\n" + imp + "set_option linter.unusedVariables false\nnamespace Generated." + m.name + "\nopen Req.GoSem\n\n" +
			strings.Join(tr.out, "\n") + "\nend Generated." + m.name + "\n", nil
	})
}

func init() {
	registerPure(pureModule{
		name: "PureChunked",
		fns: []pureSpec{
			{dir: "internal", name: "isASCIISpace", lean: "isASCIISpace"},
			{dir: "internal", name: "trimTrailingWhitespace", lean: "trimTrailingWhitespace", fuel: []string{"b.length + 1"}},
			{dir: "internal", name: "parseHexUint", lean: "parseHexUint"},
		},
	})
	registerPure(pureModule{
		name: "PureAscii",
		fns: []pureSpec{
			{dir: "internal/ascii", name: "lower", lean: "lower"},
			{dir: "internal/ascii", name: "EqualFold", lean: "equalFold"},
			{dir: "internal/ascii", name: "IsPrint", lean: "isPrint"},
			{dir: "internal/ascii", name: "Is", lean: "isASCII"},
		},
	})
	registerPure(pureModule{
		name:   "PureH1",
		tables: []pureTable{{dir: ".", name: "isTokenTable"}},
		fns: []pureSpec{
			{dir: ".", name: "validHeaderFieldByte", lean: "validHeaderFieldByte"},
			{dir: ".", name: "bodyAllowedForStatus", lean: "bodyAllowedForStatus"},
		},
	})
	registerPure(pureModule{
		name: "PureHttp",
		fns: []pureSpec{
			{dir: ".", name: "isTokenBoundary", lean: "isTokenBoundary"},
			{dir: ".", name: "stringContainsCTLByte", lean: "stringContainsCTLByte"},
			{dir: ".", name: "isASCIILetter", lean: "isASCIILetter"},
			{dir: ".", name: "trim", lean: "trim", fuel: []string{"s.length + 1", "s.length + 1"}},
			{dir: ".", name: "hasToken", lean: "hasToken"},
		},
		imports: []string{"Generated.PureAscii"},
		externs: map[string]*pureFnInfo{
			"ascii.EqualFold": {lean: "Generated.PureAscii.equalFold", params: []pTy{tBytes, tBytes}, result: tBool, canPanic: true},
		},
	})
	registerPure(pureModule{
		name: "PureH2",
		fns: []pureSpec{
			{dir: "internal/http2", name: "validStreamIDOrZero", lean: "validStreamIDOrZero"},
			{dir: "internal/http2", name: "validStreamID", lean: "validStreamID"},
		},
	})
}
