module gofacts

go 1.23
