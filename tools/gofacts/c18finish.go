package main

// C18 finishing-site facts, regenerated from the go/ast of /repo.
//
// A response is FINISHED (bound by parseResponseBody, saved by saveResponse / handleDownload) at
// two places of the Go code:
//
//   clientLoop  — the built-in head of the client's afterResponse list (the composite literal
//                 []ResponseMiddleware{parseResponseBody, handleDownload} of the constructor) run by
//                 the `for … range c.afterResponse` loop of (*Client).roundTrip;
//   digestTail  — the statements of the digest middleware (the closure handleDigestAuthFunc returns)
//                 from the re-send (`….RoundTrip(…)`) to its end.
//
// The fact is the MEANING of each site, not its shape: a small interpreter runs the site's
// statements in every world (output set?, binding fails?, saving fails?) — the two built-in
// stages are primitives returning their own error or nil, every other call succeeds, a condition
// the interpreter cannot decide is explored both ways — and reports, per world, the set of
// errors the site can end with (client loop: the value of `<resp>.Err`; digest tail: the value
// returned) and whether the save step was attempted. Control-flow shape does not matter:
// if / else, guard clauses, tagless switch, named or unnamed results, hoisted locals, renamed
// variables, an unexported helper of the same package around the tail (inlined, two levels) all
// give the same table. Bridge.C18Finish proves the table equal to the model's `Site.combine`.
//
// The extractor REFUSES when a site cannot be found or contains statements outside the subset
// (loops / defers / goroutines that touch the tracked values).

import (
	"fmt"
	"go/ast"
	"go/token"
	"sort"
	"strings"
)

func init() { register("C18Finish", c18FinishFacts) }

const (
	c18fNil   = 0
	c18fP     = 1
	c18fS     = 2
	c18fOther = 3
	// control-flow sentinels of the interpreter (never values of a variable)
	c18fContinue = -2
	c18fBreak    = -3
)

type c18fWorld struct{ save, pFail, sFail bool }

type c18fRefuse struct{ msg string }

type c18fInterp struct {
	c       *ctx
	w       c18fWorld
	choices []bool
	used    int
	// trace of this run
	pCalled, sCalled bool
	depth            int
}

func (it *c18fInterp) refuse(format string, a ...interface{}) {
	panic(c18fRefuse{fmt.Sprintf(format, a...)})
}

func (it *c18fInterp) choose() bool {
	if it.used < len(it.choices) {
		b := it.choices[it.used]
		it.used++
		return b
	}
	it.choices = append(it.choices, false)
	it.used++
	if it.used > 16 {
		it.refuse("too many undecided conditions")
	}
	return false
}

type c18fEnv struct {
	vals    map[string]int    // error-valued variables / fields, by rendered expression
	fns     map[string]string // function-valued variables: name of the function they hold
	results []string          // named results of the function being interpreted
}

func c18fKey(e ast.Expr) string {
	switch x := e.(type) {
	case *ast.Ident:
		return x.Name
	case *ast.SelectorExpr:
		k := c18fKey(x.X)
		if k == "" {
			return ""
		}
		return k + "." + x.Sel.Name
	case *ast.ParenExpr:
		return c18fKey(x.X)
	}
	return ""
}

func c18fIsPrimP(name string) bool { return name == "parseResponseBody" }
func c18fIsPrimS(name string) bool { return name == "saveResponse" || name == "handleDownload" }

// mentions: n contains a call of one of the two primitives (by name, also as a function value).
func c18fMentions(n ast.Node) bool {
	found := false
	ast.Inspect(n, func(m ast.Node) bool {
		if id, ok := m.(*ast.Ident); ok && (c18fIsPrimP(id.Name) || c18fIsPrimS(id.Name)) {
			found = true
		}
		return !found
	})
	return found
}

func (it *c18fInterp) helper(name string) *ast.FuncDecl {
	if name == "" || ast.IsExported(name) {
		return nil
	}
	fs, err := it.c.files("")
	if err != nil {
		return nil
	}
	for _, f := range fs {
		for _, d := range f.Decls {
			if fd, ok := d.(*ast.FuncDecl); ok && fd.Name.Name == name && fd.Body != nil {
				return fd
			}
		}
	}
	return nil
}

// call evaluates a call expression to the error value it yields.
func (it *c18fInterp) call(ce *ast.CallExpr, env *c18fEnv) int {
	name := ""
	switch f := ce.Fun.(type) {
	case *ast.Ident:
		name = f.Name
		if held, ok := env.fns[name]; ok {
			name = held
		}
	case *ast.SelectorExpr:
		name = f.Sel.Name
	case *ast.ParenExpr:
		if id, ok := f.X.(*ast.Ident); ok {
			name = id.Name
		}
	}
	switch {
	case c18fIsPrimP(name):
		it.pCalled = true
		if it.w.pFail {
			return c18fP
		}
		return c18fNil
	case c18fIsPrimS(name):
		it.sCalled = true
		if it.w.save && it.w.sFail {
			return c18fS
		}
		return c18fNil
	}
	if h := it.helper(name); h != nil && c18fMentions(h.Body) {
		if it.depth >= 2 {
			it.refuse("helper %s: nesting too deep", name)
		}
		it.depth++
		defer func() { it.depth-- }()
		return it.function(h.Type, h.Body, nil)
	}
	return c18fNil // every other call succeeds in the worlds considered
}

// function interprets a function body; the value is that of its LAST result.
func (it *c18fInterp) function(ft *ast.FuncType, body *ast.BlockStmt, fns map[string]string) int {
	env := &c18fEnv{vals: map[string]int{}, fns: map[string]string{}}
	for k, v := range fns {
		env.fns[k] = v
	}
	if ft.Results != nil {
		for _, f := range ft.Results.List {
			for _, n := range f.Names {
				env.results = append(env.results, n.Name)
				env.vals[n.Name] = c18fNil
			}
		}
	}
	ret, v := it.block(body.List, env)
	if ret && v < 0 {
		it.refuse("break / continue outside the response middleware loop")
	}
	if !ret {
		if len(env.results) > 0 {
			return env.vals[env.results[len(env.results)-1]]
		}
		return c18fNil
	}
	return v
}

func (it *c18fInterp) value(e ast.Expr, env *c18fEnv) int {
	switch x := e.(type) {
	case *ast.ParenExpr:
		return it.value(x.X, env)
	case *ast.CallExpr:
		return it.call(x, env)
	case *ast.Ident:
		if x.Name == "nil" {
			return c18fNil
		}
	}
	if k := c18fKey(e); k != "" {
		if v, ok := env.vals[k]; ok {
			return v
		}
		return c18fNil // never assigned in the interpreted part: nil in the worlds considered
	}
	if c18fMentions(e) {
		it.refuse("expression outside the subset")
	}
	return c18fOther
}

// cond evaluates a condition; undecidable leaves are explored both ways.
func (it *c18fInterp) cond(e ast.Expr, env *c18fEnv) bool {
	switch x := e.(type) {
	case *ast.ParenExpr:
		return it.cond(x.X, env)
	case *ast.UnaryExpr:
		if x.Op == token.NOT {
			return !it.cond(x.X, env)
		}
	case *ast.BinaryExpr:
		switch x.Op {
		case token.LAND:
			return it.cond(x.X, env) && it.cond(x.Y, env)
		case token.LOR:
			return it.cond(x.X, env) || it.cond(x.Y, env)
		case token.NEQ, token.EQL:
			var other ast.Expr
			if id, ok := x.Y.(*ast.Ident); ok && id.Name == "nil" {
				other = x.X
			} else if id, ok := x.X.(*ast.Ident); ok && id.Name == "nil" {
				other = x.Y
			}
			if other != nil {
				k := c18fKey(other)
				_, tracked := env.vals[k]
				if _, isCall := other.(*ast.CallExpr); isCall && c18fMentions(other) {
					tracked = true
				}
				if tracked {
					v := it.value(other, env)
					if v == c18fOther {
						return it.choose()
					}
					isNil := v == c18fNil
					if x.Op == token.EQL {
						return isNil
					}
					return !isNil
				}
			}
		}
	case *ast.SelectorExpr:
		if x.Sel.Name == "isSaveResponse" {
			return it.w.save
		}
	}
	if c18fMentions(e) {
		it.refuse("condition outside the subset")
	}
	return it.choose()
}

func (it *c18fInterp) assign(lhs []ast.Expr, rhs []ast.Expr, env *c18fEnv) {
	set := func(l ast.Expr, v int) {
		k := c18fKey(l)
		if k == "" || k == "_" {
			return
		}
		env.vals[k] = v
	}
	if len(rhs) == 1 && len(lhs) > 1 {
		// multi-value call: the error is the last value
		v := it.value(rhs[0], env)
		for i, l := range lhs {
			if i == len(lhs)-1 {
				set(l, v)
			} else {
				set(l, c18fOther)
			}
		}
		return
	}
	if len(lhs) != len(rhs) {
		it.refuse("assignment outside the subset")
	}
	vals := make([]int, len(rhs))
	for i, r := range rhs {
		// a function value put into a variable
		if id, ok := r.(*ast.Ident); ok && (c18fIsPrimP(id.Name) || c18fIsPrimS(id.Name)) {
			if l, ok := lhs[i].(*ast.Ident); ok {
				env.fns[l.Name] = id.Name
				vals[i] = -1
				continue
			}
		}
		vals[i] = it.value(r, env)
	}
	for i, l := range lhs {
		if vals[i] >= 0 {
			set(l, vals[i])
		}
	}
}

// block executes statements; returned = a return statement was executed, with its value.
func (it *c18fInterp) block(stmts []ast.Stmt, env *c18fEnv) (bool, int) {
	for _, st := range stmts {
		if ret, v := it.stmt(st, env); ret {
			return true, v
		}
	}
	return false, 0
}

func (it *c18fInterp) touches(n ast.Node, env *c18fEnv) bool {
	if c18fMentions(n) {
		return true
	}
	t := false
	ast.Inspect(n, func(m ast.Node) bool {
		switch x := m.(type) {
		case *ast.AssignStmt:
			for _, l := range x.Lhs {
				if _, ok := env.vals[c18fKey(l)]; ok {
					t = true
				}
			}
		case *ast.ReturnStmt:
			t = true
		case *ast.CallExpr:
			if id, ok := x.Fun.(*ast.Ident); ok {
				if _, ok := env.fns[id.Name]; ok {
					t = true
				}
				if h := it.helper(id.Name); h != nil && c18fMentions(h.Body) {
					t = true
				}
			}
		}
		return !t
	})
	return t
}

func (it *c18fInterp) stmt(st ast.Stmt, env *c18fEnv) (bool, int) {
	switch x := st.(type) {
	case nil:
		return false, 0
	case *ast.EmptyStmt:
		return false, 0
	case *ast.ExprStmt:
		if ce, ok := x.X.(*ast.CallExpr); ok {
			it.call(ce, env)
		}
		return false, 0
	case *ast.AssignStmt:
		it.assign(x.Lhs, x.Rhs, env)
		return false, 0
	case *ast.DeclStmt:
		if gd, ok := x.Decl.(*ast.GenDecl); ok && gd.Tok == token.VAR {
			for _, s := range gd.Specs {
				vs := s.(*ast.ValueSpec)
				if len(vs.Values) == 0 {
					for _, n := range vs.Names {
						env.vals[n.Name] = c18fNil
					}
				} else {
					lhs := make([]ast.Expr, len(vs.Names))
					for i, n := range vs.Names {
						lhs[i] = n
					}
					it.assign(lhs, vs.Values, env)
				}
			}
		}
		return false, 0
	case *ast.BlockStmt:
		return it.block(x.List, env)
	case *ast.IfStmt:
		if x.Init != nil {
			if ret, v := it.stmt(x.Init, env); ret {
				return true, v
			}
		}
		if it.cond(x.Cond, env) {
			return it.block(x.Body.List, env)
		}
		if x.Else != nil {
			return it.stmt(x.Else, env)
		}
		return false, 0
	case *ast.SwitchStmt:
		if x.Init != nil {
			it.stmt(x.Init, env)
		}
		var deflt *ast.CaseClause
		for _, cs := range x.Body.List {
			cc := cs.(*ast.CaseClause)
			if cc.List == nil {
				deflt = cc
				continue
			}
			taken := false
			for _, e := range cc.List {
				if x.Tag == nil {
					taken = it.cond(e, env)
				} else {
					if c18fMentions(x.Tag) || c18fMentions(e) {
						it.refuse("tagged switch outside the subset")
					}
					taken = it.choose()
				}
				if taken {
					break
				}
			}
			if taken {
				return it.block(cc.Body, env)
			}
		}
		if deflt != nil {
			return it.block(deflt.Body, env)
		}
		return false, 0
	case *ast.ReturnStmt:
		if len(x.Results) == 0 {
			if len(env.results) == 0 {
				return true, c18fNil
			}
			return true, env.vals[env.results[len(env.results)-1]]
		}
		return true, it.value(x.Results[len(x.Results)-1], env)
	case *ast.BranchStmt:
		// only inside the body of the response middleware loop (anywhere else the sentinel
		// reaches a place that refuses it)
		if x.Label == nil && x.Tok == token.CONTINUE {
			return true, c18fContinue
		}
		if x.Label == nil && x.Tok == token.BREAK {
			return true, c18fBreak
		}
		it.refuse("branch statement outside the subset")
	case *ast.RangeStmt:
		// the loop over the client's response middleware list: run the body once per built-in element
		if sel, ok := x.X.(*ast.SelectorExpr); ok && sel.Sel.Name == "afterResponse" && env.fns["\x00list"] != "" {
			v, ok := x.Value.(*ast.Ident)
			if !ok {
				it.refuse("range over afterResponse without a value variable")
			}
			for _, el := range strings.Split(env.fns["\x00list"], ",") {
				env.fns[v.Name] = el
				if ret, val := it.block(x.Body.List, env); ret {
					if val == c18fContinue {
						continue
					}
					if val == c18fBreak {
						break
					}
					return true, val
				}
			}
			delete(env.fns, v.Name)
			return false, 0
		}
	}
	if it.touches(st, env) {
		it.refuse("statement outside the subset: %T", st)
	}
	return false, 0 // does not concern the tracked values
}

// c18fOutcome: result of one run.
type c18fOutcome struct {
	val     int
	sCalled bool
}

// explore runs f in world w under every resolution of the undecided conditions.
func c18fExplore(c *ctx, w c18fWorld, f func(it *c18fInterp) int) (outs []c18fOutcome, err error) {
	defer func() {
		if r := recover(); r != nil {
			if rf, ok := r.(c18fRefuse); ok {
				err = fmt.Errorf("%s", rf.msg)
				return
			}
			panic(r)
		}
	}()
	choices := []bool{}
	for n := 0; ; n++ {
		if n > 4096 {
			return nil, fmt.Errorf("too many paths")
		}
		it := &c18fInterp{c: c, w: w, choices: append([]bool{}, choices...)}
		v := f(it)
		outs = append(outs, c18fOutcome{v, it.sCalled})
		// next choice vector: flip the last false among the used ones
		ch := it.choices[:it.used]
		i := len(ch) - 1
		for i >= 0 && ch[i] {
			i--
		}
		if i < 0 {
			break
		}
		choices = append(append([]bool{}, ch[:i]...), true)
	}
	return outs, nil
}

func c18fRow(w c18fWorld, outs []c18fOutcome) string {
	set := map[int]bool{}
	called := map[bool]bool{}
	for _, o := range outs {
		set[o.val] = true
		called[o.sCalled] = true
	}
	var vals []int
	for v := range set {
		vals = append(vals, v)
	}
	sort.Ints(vals)
	parts := make([]string, len(vals))
	for i, v := range vals {
		parts[i] = fmt.Sprint(v)
	}
	att := 9 // not reported without an output: the save step is a no-op there
	if w.save {
		switch {
		case called[true] && called[false]:
			att = 2
		case called[true]:
			att = 1
		default:
			att = 0
		}
	}
	return fmt.Sprintf("((%v, %v, %v), ([%s], %d))", w.save, w.pFail, w.sFail, strings.Join(parts, ", "), att)
}

func c18fWorlds() []c18fWorld {
	return []c18fWorld{
		{false, false, false}, {false, true, false},
		{true, false, false}, {true, false, true}, {true, true, false}, {true, true, true},
	}
}

func c18FinishFacts(c *ctx) (string, error) {
	fs, err := c.files("")
	if err != nil {
		return "", err
	}
	// --- client loop: the built-in list …
	var builtins []string
	for _, f := range fs {
		ast.Inspect(f, func(n ast.Node) bool {
			cl, ok := n.(*ast.CompositeLit)
			if !ok {
				return true
			}
			at, ok := cl.Type.(*ast.ArrayType)
			if !ok || at.Len != nil {
				return true
			}
			if id, ok := at.Elt.(*ast.Ident); !ok || id.Name != "ResponseMiddleware" {
				return true
			}
			var names []string
			has := false
			for _, el := range cl.Elts {
				id, ok := el.(*ast.Ident)
				if !ok {
					return true
				}
				names = append(names, id.Name)
				if c18fIsPrimP(id.Name) {
					has = true
				}
			}
			if has {
				if builtins != nil {
					builtins = append(builtins, "<second list>")
				} else {
					builtins = names
				}
			}
			return true
		})
	}
	if builtins == nil {
		return "", fmt.Errorf("no []ResponseMiddleware{… parseResponseBody …} literal found")
	}
	for _, b := range builtins {
		if !c18fIsPrimP(b) && !c18fIsPrimS(b) {
			return "", fmt.Errorf("built-in response middleware list has an element the extractor does not know: %s", b)
		}
	}
	// … and the loop of roundTrip
	rt, err := c.funcDecl("", "Client", "roundTrip")
	if err != nil {
		return "", err
	}
	var loop *ast.RangeStmt
	nloops := 0
	scanFns := []*ast.FuncDecl{rt}
	seenFn := map[*ast.FuncDecl]bool{rt: true}
	ast.Inspect(rt, func(n ast.Node) bool {
		if ce, ok := n.(*ast.CallExpr); ok {
			it := &c18fInterp{c: c}
			if h := it.helper(c18CalleeName(ce)); h != nil && !seenFn[h] {
				seenFn[h] = true
				scanFns = append(scanFns, h)
			}
		}
		return true
	})
	for _, fd := range scanFns {
		ast.Inspect(fd, func(n ast.Node) bool {
			if rs, ok := n.(*ast.RangeStmt); ok {
				if sel, ok := rs.X.(*ast.SelectorExpr); ok && sel.Sel.Name == "afterResponse" {
					loop = rs
					nloops++
				}
			}
			return true
		})
	}
	if nloops != 1 {
		return "", fmt.Errorf("roundTrip (+ helpers): %d loops over afterResponse, expected 1", nloops)
	}
	var clientRows []string
	for _, w := range c18fWorlds() {
		outs, err := c18fExplore(c, w, func(it *c18fInterp) int {
			env := &c18fEnv{vals: map[string]int{}, fns: map[string]string{"\x00list": strings.Join(builtins, ",")}}
			if ret, _ := it.stmt(loop, env); ret {
				it.refuse("the response middleware loop returns")
			}
			if _, ok := loop.Value.(*ast.Ident); !ok {
				it.refuse("the response middleware loop has no value variable")
			}
			// the recorded error: the one `….Err` the loop assigns
			key := ""
			for k := range env.vals {
				if strings.HasSuffix(k, ".Err") {
					if key != "" && key != k {
						it.refuse("the loop assigns several .Err fields")
					}
					key = k
				}
			}
			if key == "" {
				// nothing recorded on this path
				return c18fNil
			}
			return env.vals[key]
		})
		if err != nil {
			return "", fmt.Errorf("roundTrip response middleware loop: %v", err)
		}
		clientRows = append(clientRows, c18fRow(w, outs))
	}
	// --- digest tail
	dg, err := c.funcDecl("", "", "handleDigestAuthFunc")
	if err != nil {
		return "", err
	}
	var lit *ast.FuncLit
	ast.Inspect(dg.Body, func(n ast.Node) bool {
		if lit != nil {
			return false
		}
		if rs, ok := n.(*ast.ReturnStmt); ok && len(rs.Results) == 1 {
			if fl, ok := rs.Results[0].(*ast.FuncLit); ok {
				lit = fl
			}
		}
		return true
	})
	if lit == nil {
		return "", fmt.Errorf("handleDigestAuthFunc: returned closure not found")
	}
	start := -1
	for i, st := range lit.Body.List {
		if c18CallsMethod(st, "RoundTrip") {
			if start >= 0 {
				return "", fmt.Errorf("handleDigestAuthFunc: several re-sends")
			}
			start = i
		}
	}
	if start < 0 {
		return "", fmt.Errorf("handleDigestAuthFunc: the re-send (RoundTrip call) is not a top-level statement of the closure")
	}
	var digestRows []string
	for _, w := range c18fWorlds() {
		outs, err := c18fExplore(c, w, func(it *c18fInterp) int {
			tail := &ast.BlockStmt{List: lit.Body.List[start:]}
			return it.function(lit.Type, tail, nil)
		})
		if err != nil {
			return "", fmt.Errorf("digest middleware tail: %v", err)
		}
		digestRows = append(digestRows, c18fRow(w, outs))
	}

	var b strings.Builder
	b.WriteString("namespace Generated.C18Finish\n\n")
	b.WriteString("/-- the built-in head of the client's response middleware list, in order -/\n")
	q := make([]string, len(builtins))
	for i, n := range builtins {
		q[i] = fmt.Sprintf("%q", n)
	}
	fmt.Fprintf(&b, "def clientBuiltins : List String := [%s]\n\n", strings.Join(q, ", "))
	b.WriteString("/-- per world (output set, binding fails, saving fails): the errors the site can end with\n(0 = none, 1 = the binding failure, 2 = the saving failure, 3 = something else) and whether the save step is\nattempted (0 no, 1 yes, 2 depends on something the interpreter cannot decide, 9 = no output set) -/\n")
	fmt.Fprintf(&b, "def clientLoop : List ((Bool × Bool × Bool) × (List Nat × Nat)) := [\n  %s]\n\n", strings.Join(clientRows, ",\n  "))
	fmt.Fprintf(&b, "def digestTail : List ((Bool × Bool × Bool) × (List Nat × Nat)) := [\n  %s]\n\n", strings.Join(digestRows, ",\n  "))
	b.WriteString("end Generated.C18Finish\n")
	return b.String(), nil
}
