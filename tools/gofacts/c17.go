package main

// C17: the truth table of Client.isPayloadForbid (client.go). The body must be a single
// `return <boolean expression>` over the method parameter, Client.AllowGetMethodPayload,
// http.MethodXxx constants and string literals, combined with == != && || ! and parentheses;
// the extractor EVALUATES it on a fixed method list x {false,true} and prints the table.
// Anything else is refused.

import (
	"fmt"
	"go/ast"
	"go/token"
	"strconv"
	"strings"
)

var c17HTTPMethods = map[string]string{
	"MethodGet": "GET", "MethodHead": "HEAD", "MethodPost": "POST", "MethodPut": "PUT", "MethodPatch": "PATCH",
	"MethodDelete": "DELETE", "MethodConnect": "CONNECT", "MethodOptions": "OPTIONS", "MethodTrace": "TRACE",
}

var c17MethodList = []string{"GET", "HEAD", "POST", "PUT", "PATCH", "DELETE", "CONNECT", "OPTIONS", "TRACE", "get", "head", ""}

type c17Env struct {
	recv, param string
	method      string
	allow       bool
}

type c17Val struct {
	isBool bool
	b      bool
	s      string
}

func c17Eval(e ast.Expr, env *c17Env) (c17Val, error) {
	switch x := e.(type) {
	case *ast.ParenExpr:
		return c17Eval(x.X, env)
	case *ast.BasicLit:
		if x.Kind != token.STRING {
			return c17Val{}, fmt.Errorf("literal %s is not a string", x.Value)
		}
		s, err := strconv.Unquote(x.Value)
		return c17Val{s: s}, err
	case *ast.Ident:
		if x.Name == env.param {
			return c17Val{s: env.method}, nil
		}
		if x.Name == "true" || x.Name == "false" {
			return c17Val{isBool: true, b: x.Name == "true"}, nil
		}
		return c17Val{}, fmt.Errorf("unknown identifier %s", x.Name)
	case *ast.SelectorExpr:
		id, ok := x.X.(*ast.Ident)
		if !ok {
			return c17Val{}, fmt.Errorf("unsupported selector")
		}
		if id.Name == "http" {
			if m, ok := c17HTTPMethods[x.Sel.Name]; ok {
				return c17Val{s: m}, nil
			}
			return c17Val{}, fmt.Errorf("unknown constant http.%s", x.Sel.Name)
		}
		if id.Name == env.recv && x.Sel.Name == "AllowGetMethodPayload" {
			return c17Val{isBool: true, b: env.allow}, nil
		}
		return c17Val{}, fmt.Errorf("unsupported selector %s.%s", id.Name, x.Sel.Name)
	case *ast.UnaryExpr:
		if x.Op != token.NOT {
			return c17Val{}, fmt.Errorf("unsupported unary operator %s", x.Op)
		}
		v, err := c17Eval(x.X, env)
		if err != nil || !v.isBool {
			return c17Val{}, fmt.Errorf("! applied to a non-boolean (%v)", err)
		}
		return c17Val{isBool: true, b: !v.b}, nil
	case *ast.BinaryExpr:
		l, err := c17Eval(x.X, env)
		if err != nil {
			return c17Val{}, err
		}
		r, err := c17Eval(x.Y, env)
		if err != nil {
			return c17Val{}, err
		}
		switch x.Op {
		case token.LAND, token.LOR:
			if !l.isBool || !r.isBool {
				return c17Val{}, fmt.Errorf("%s on non-booleans", x.Op)
			}
			if x.Op == token.LAND {
				return c17Val{isBool: true, b: l.b && r.b}, nil
			}
			return c17Val{isBool: true, b: l.b || r.b}, nil
		case token.EQL, token.NEQ:
			if l.isBool != r.isBool {
				return c17Val{}, fmt.Errorf("comparison of different kinds")
			}
			eq := (l.isBool && l.b == r.b) || (!l.isBool && l.s == r.s)
			return c17Val{isBool: true, b: eq == (x.Op == token.EQL)}, nil
		}
		return c17Val{}, fmt.Errorf("unsupported operator %s", x.Op)
	}
	return c17Val{}, fmt.Errorf("unsupported expression %T", e)
}

func init() {
	register("C17Facts", func(c *ctx) (string, error) {
		fd, err := c.funcDecl("", "Client", "isPayloadForbid")
		if err != nil {
			return "", err
		}
		if fd.Type.Params == nil || len(fd.Type.Params.List) != 1 || len(fd.Type.Params.List[0].Names) != 1 {
			return "", fmt.Errorf("isPayloadForbid: expected exactly one parameter")
		}
		if fd.Recv == nil || len(fd.Recv.List) != 1 || len(fd.Recv.List[0].Names) != 1 {
			return "", fmt.Errorf("isPayloadForbid: expected a named receiver")
		}
		if fd.Body == nil || len(fd.Body.List) != 1 {
			return "", fmt.Errorf("isPayloadForbid: body is not a single statement")
		}
		ret, ok := fd.Body.List[0].(*ast.ReturnStmt)
		if !ok || len(ret.Results) != 1 {
			return "", fmt.Errorf("isPayloadForbid: body is not `return <expr>`")
		}
		env := &c17Env{recv: fd.Recv.List[0].Names[0].Name, param: fd.Type.Params.List[0].Names[0].Name}
		var rows []string
		for _, m := range c17MethodList {
			for _, allow := range []bool{false, true} {
				env.method, env.allow = m, allow
				v, err := c17Eval(ret.Results[0], env)
				if err != nil {
					return "", fmt.Errorf("isPayloadForbid: %v", err)
				}
				if !v.isBool {
					return "", fmt.Errorf("isPayloadForbid: result is not boolean")
				}
				rows = append(rows, fmt.Sprintf("(%s, %v, %v)", strconv.Quote(m), allow, v.b))
			}
		}
		var sb strings.Builder
		sb.WriteString("/-! C17: truth table of `Client.isPayloadForbid` (client.go), evaluated from its source:\n")
		sb.WriteString("(method, AllowGetMethodPayload, result). -/\n")
		sb.WriteString("namespace Generated.C17Facts\n\n")
		sb.WriteString("def payloadForbidTable : List (String × Bool × Bool) := [\n  ")
		sb.WriteString(strings.Join(rows, ",\n  "))
		sb.WriteString("\n]\n\nend Generated.C17Facts\n")
		return sb.String(), nil
	})
}
