package main

// C17: the truth table of Client.isPayloadForbid (client.go).
//
// The extractor does not compare the SHAPE of the function with anything: it INTERPRETS the
// function on a fixed method list x {AllowGetMethodPayload false, true} and prints the table of
// results, so every behaviour-preserving rewriting inside the interpreted subset gives the same
// table: a single boolean expression, if / else-if chains, guard clauses, tagged and tagless
// switches, values hoisted into locals, named results, and a call to a helper function or method
// of the same package (followed, at most two levels deep).
//
// Subset: statements return / if (with init) / switch (tagged or tagless, with init, no
// fallthrough) / := and = of a single identifier / var x = e / blocks; expressions over the
// method parameter, the receiver's AllowGetMethodPayload field, http.MethodXxx constants,
// string and boolean literals with == != && || ! and parentheses, strings.ToUpper / ToLower /
// EqualFold, and calls to same-package functions / methods of the receiver. Anything else is
// not guessed: the generated table is `none` and the table stays pinned by the lanes alone.

import (
	"fmt"
	"go/ast"
	"go/token"
	"strconv"
	"strings"
)

var c17HTTPMethods = map[string]string{
	"MethodGet": "GET", "MethodHead": "HEAD", "MethodPost": "POST", "MethodPut": "PUT", "MethodPatch": "PATCH",
	"MethodDelete": "DELETE", "MethodConnect": "CONNECT", "MethodOptions": "OPTIONS", "MethodTrace": "TRACE",
}

var c17MethodList = []string{"GET", "HEAD", "POST", "PUT", "PATCH", "DELETE", "CONNECT", "OPTIONS", "TRACE", "get", "head", ""}

type c17Val struct {
	isBool bool
	b      bool
	s      string
	isRecv bool // the receiver itself (only usable as `recv.AllowGetMethodPayload` / `recv.helper(...)`)
}

type c17Interp struct {
	c     *ctx
	allow bool
}

type c17Frame struct {
	vars   map[string]c17Val
	result string // name of a named result, "" if none
}

func (in *c17Interp) eval(e ast.Expr, fr *c17Frame, depth int) (c17Val, error) {
	switch x := e.(type) {
	case *ast.ParenExpr:
		return in.eval(x.X, fr, depth)
	case *ast.BasicLit:
		if x.Kind != token.STRING {
			return c17Val{}, fmt.Errorf("literal %s is not a string", x.Value)
		}
		s, err := strconv.Unquote(x.Value)
		return c17Val{s: s}, err
	case *ast.Ident:
		if v, ok := fr.vars[x.Name]; ok {
			return v, nil
		}
		if x.Name == "true" || x.Name == "false" {
			return c17Val{isBool: true, b: x.Name == "true"}, nil
		}
		return c17Val{}, fmt.Errorf("unknown identifier %s", x.Name)
	case *ast.SelectorExpr:
		if id, ok := x.X.(*ast.Ident); ok && id.Name == "http" {
			if m, ok := c17HTTPMethods[x.Sel.Name]; ok {
				return c17Val{s: m}, nil
			}
			return c17Val{}, fmt.Errorf("unknown constant http.%s", x.Sel.Name)
		}
		base, err := in.eval(x.X, fr, depth)
		if err != nil {
			return c17Val{}, err
		}
		if base.isRecv && x.Sel.Name == "AllowGetMethodPayload" {
			return c17Val{isBool: true, b: in.allow}, nil
		}
		return c17Val{}, fmt.Errorf("unsupported selector .%s", x.Sel.Name)
	case *ast.UnaryExpr:
		if x.Op != token.NOT {
			return c17Val{}, fmt.Errorf("unsupported unary operator %s", x.Op)
		}
		v, err := in.eval(x.X, fr, depth)
		if err != nil {
			return c17Val{}, err
		}
		if !v.isBool {
			return c17Val{}, fmt.Errorf("! applied to a non-boolean")
		}
		return c17Val{isBool: true, b: !v.b}, nil
	case *ast.BinaryExpr:
		l, err := in.eval(x.X, fr, depth)
		if err != nil {
			return c17Val{}, err
		}
		// && and || do not evaluate the right side when the left decides (no side effects in
		// the subset, but an unsupported right side must not be an error then either)
		if x.Op == token.LAND || x.Op == token.LOR {
			if !l.isBool {
				return c17Val{}, fmt.Errorf("%s on a non-boolean", x.Op)
			}
			if (x.Op == token.LAND && !l.b) || (x.Op == token.LOR && l.b) {
				return l, nil
			}
			r, err := in.eval(x.Y, fr, depth)
			if err != nil {
				return c17Val{}, err
			}
			if !r.isBool {
				return c17Val{}, fmt.Errorf("%s on a non-boolean", x.Op)
			}
			return r, nil
		}
		r, err := in.eval(x.Y, fr, depth)
		if err != nil {
			return c17Val{}, err
		}
		if x.Op == token.EQL || x.Op == token.NEQ {
			if l.isBool != r.isBool || l.isRecv || r.isRecv {
				return c17Val{}, fmt.Errorf("comparison of different kinds")
			}
			eq := (l.isBool && l.b == r.b) || (!l.isBool && l.s == r.s)
			return c17Val{isBool: true, b: eq == (x.Op == token.EQL)}, nil
		}
		return c17Val{}, fmt.Errorf("unsupported operator %s", x.Op)
	case *ast.CallExpr:
		var args []c17Val
		for _, a := range x.Args {
			v, err := in.eval(a, fr, depth)
			if err != nil {
				return c17Val{}, err
			}
			args = append(args, v)
		}
		switch fn := x.Fun.(type) {
		case *ast.SelectorExpr:
			if id, ok := fn.X.(*ast.Ident); ok && id.Name == "strings" {
				switch {
				case fn.Sel.Name == "ToUpper" && len(args) == 1 && !args[0].isBool:
					return c17Val{s: strings.ToUpper(args[0].s)}, nil
				case fn.Sel.Name == "ToLower" && len(args) == 1 && !args[0].isBool:
					return c17Val{s: strings.ToLower(args[0].s)}, nil
				case fn.Sel.Name == "EqualFold" && len(args) == 2 && !args[0].isBool && !args[1].isBool:
					return c17Val{isBool: true, b: strings.EqualFold(args[0].s, args[1].s)}, nil
				}
				return c17Val{}, fmt.Errorf("unsupported call strings.%s", fn.Sel.Name)
			}
			base, err := in.eval(fn.X, fr, depth)
			if err != nil {
				return c17Val{}, err
			}
			if !base.isRecv {
				return c17Val{}, fmt.Errorf("call of a method on something that is not the receiver")
			}
			fd, err := in.c.funcDecl("", "Client", fn.Sel.Name)
			if err != nil {
				return c17Val{}, err
			}
			return in.call(fd, &base, args, depth+1)
		case *ast.Ident:
			fd, err := in.c.funcDecl("", "", fn.Name)
			if err != nil {
				return c17Val{}, err
			}
			return in.call(fd, nil, args, depth+1)
		}
		return c17Val{}, fmt.Errorf("unsupported call")
	}
	return c17Val{}, fmt.Errorf("unsupported expression %T", e)
}

// call interprets a function of the package with the given receiver and arguments.
func (in *c17Interp) call(fd *ast.FuncDecl, recv *c17Val, args []c17Val, depth int) (c17Val, error) {
	if depth > 2 {
		return c17Val{}, fmt.Errorf("helper calls nested deeper than two levels")
	}
	if fd.Body == nil {
		return c17Val{}, fmt.Errorf("%s has no body", fd.Name.Name)
	}
	fr := &c17Frame{vars: map[string]c17Val{}}
	if recv != nil {
		if fd.Recv == nil || len(fd.Recv.List) != 1 {
			return c17Val{}, fmt.Errorf("%s: not a method", fd.Name.Name)
		}
		if len(fd.Recv.List[0].Names) == 1 {
			fr.vars[fd.Recv.List[0].Names[0].Name] = *recv
		}
	}
	i := 0
	if fd.Type.Params != nil {
		for _, f := range fd.Type.Params.List {
			for _, nm := range f.Names {
				if i >= len(args) {
					return c17Val{}, fmt.Errorf("%s: too few arguments", fd.Name.Name)
				}
				fr.vars[nm.Name] = args[i]
				i++
			}
		}
	}
	if i != len(args) {
		return c17Val{}, fmt.Errorf("%s: argument count mismatch", fd.Name.Name)
	}
	if fd.Type.Results == nil || len(fd.Type.Results.List) != 1 || len(fd.Type.Results.List[0].Names) > 1 {
		return c17Val{}, fmt.Errorf("%s: exactly one result expected", fd.Name.Name)
	}
	if id, ok := fd.Type.Results.List[0].Type.(*ast.Ident); !ok || (id.Name != "bool" && id.Name != "string") {
		return c17Val{}, fmt.Errorf("%s: result type not bool/string", fd.Name.Name)
	} else if len(fd.Type.Results.List[0].Names) == 1 {
		fr.result = fd.Type.Results.List[0].Names[0].Name
		fr.vars[fr.result] = c17Val{isBool: id.Name == "bool"}
	}
	done, v, err := in.exec(fd.Body.List, fr, depth)
	if err != nil {
		return c17Val{}, fmt.Errorf("%s: %v", fd.Name.Name, err)
	}
	if !done {
		return c17Val{}, fmt.Errorf("%s: control reaches the end without return", fd.Name.Name)
	}
	return v, nil
}

func (in *c17Interp) assign(lhs []ast.Expr, rhs []ast.Expr, fr *c17Frame, depth int) error {
	if len(lhs) != 1 || len(rhs) != 1 {
		return fmt.Errorf("only single assignments are supported")
	}
	id, ok := lhs[0].(*ast.Ident)
	if !ok {
		return fmt.Errorf("assignment to something that is not a local variable")
	}
	v, err := in.eval(rhs[0], fr, depth)
	if err != nil {
		return err
	}
	fr.vars[id.Name] = v
	return nil
}

// exec runs statements; done reports that a return was executed.
func (in *c17Interp) exec(stmts []ast.Stmt, fr *c17Frame, depth int) (done bool, v c17Val, err error) {
	for _, st := range stmts {
		switch x := st.(type) {
		case *ast.ReturnStmt:
			if len(x.Results) == 0 && fr.result != "" {
				return true, fr.vars[fr.result], nil
			}
			if len(x.Results) != 1 {
				return false, v, fmt.Errorf("return with %d results", len(x.Results))
			}
			v, err = in.eval(x.Results[0], fr, depth)
			return true, v, err
		case *ast.BlockStmt:
			if done, v, err = in.exec(x.List, fr, depth); done || err != nil {
				return
			}
		case *ast.AssignStmt:
			if x.Tok != token.DEFINE && x.Tok != token.ASSIGN {
				return false, v, fmt.Errorf("unsupported assignment operator %s", x.Tok)
			}
			if err = in.assign(x.Lhs, x.Rhs, fr, depth); err != nil {
				return
			}
		case *ast.DeclStmt:
			gd, ok := x.Decl.(*ast.GenDecl)
			if !ok || gd.Tok != token.VAR {
				return false, v, fmt.Errorf("unsupported declaration")
			}
			for _, sp := range gd.Specs {
				vs := sp.(*ast.ValueSpec)
				if len(vs.Names) != 1 {
					return false, v, fmt.Errorf("unsupported var declaration")
				}
				if len(vs.Values) == 1 {
					val, e := in.eval(vs.Values[0], fr, depth)
					if e != nil {
						return false, v, e
					}
					fr.vars[vs.Names[0].Name] = val
				} else if id, ok := vs.Type.(*ast.Ident); ok && (id.Name == "bool" || id.Name == "string") {
					fr.vars[vs.Names[0].Name] = c17Val{isBool: id.Name == "bool"}
				} else {
					return false, v, fmt.Errorf("unsupported var declaration")
				}
			}
		case *ast.IfStmt:
			if x.Init != nil {
				if done, v, err = in.exec([]ast.Stmt{x.Init}, fr, depth); done || err != nil {
					return
				}
			}
			cond, e := in.eval(x.Cond, fr, depth)
			if e != nil {
				return false, v, e
			}
			if !cond.isBool {
				return false, v, fmt.Errorf("if on a non-boolean")
			}
			if cond.b {
				if done, v, err = in.exec(x.Body.List, fr, depth); done || err != nil {
					return
				}
			} else if x.Else != nil {
				if done, v, err = in.exec([]ast.Stmt{x.Else}, fr, depth); done || err != nil {
					return
				}
			}
		case *ast.SwitchStmt:
			if x.Init != nil {
				if done, v, err = in.exec([]ast.Stmt{x.Init}, fr, depth); done || err != nil {
					return
				}
			}
			var tag *c17Val
			if x.Tag != nil {
				t, e := in.eval(x.Tag, fr, depth)
				if e != nil {
					return false, v, e
				}
				tag = &t
			}
			var chosen, deflt *ast.CaseClause
		clauses:
			for _, cl := range x.Body.List {
				cc := cl.(*ast.CaseClause)
				if cc.List == nil {
					deflt = cc
					continue
				}
				for _, ce := range cc.List {
					cv, e := in.eval(ce, fr, depth)
					if e != nil {
						return false, v, e
					}
					match := false
					if tag == nil {
						if !cv.isBool {
							return false, v, fmt.Errorf("tagless switch case is not boolean")
						}
						match = cv.b
					} else {
						if cv.isBool != tag.isBool {
							return false, v, fmt.Errorf("switch case of another kind than the tag")
						}
						match = (tag.isBool && tag.b == cv.b) || (!tag.isBool && tag.s == cv.s)
					}
					if match {
						chosen = cc
						break clauses
					}
				}
			}
			if chosen == nil {
				chosen = deflt
			}
			if chosen != nil {
				for _, b := range chosen.Body {
					if br, ok := b.(*ast.BranchStmt); ok {
						if br.Tok == token.BREAK && br.Label == nil {
							break
						}
						return false, v, fmt.Errorf("unsupported %s in switch", br.Tok)
					}
					if done, v, err = in.exec([]ast.Stmt{b}, fr, depth); done || err != nil {
						return
					}
				}
			}
		default:
			return false, v, fmt.Errorf("unsupported statement %T", st)
		}
	}
	return false, v, nil
}

func init() {
	register("C17Facts", func(c *ctx) (string, error) {
		var sb strings.Builder
		sb.WriteString("/-! C17: truth table of `Client.isPayloadForbid` (client.go), evaluated from its source:\n")
		sb.WriteString("(method, AllowGetMethodPayload, result); `none` when the function has left the subset the\n")
		sb.WriteString("extractor interprets (the table is then pinned by the behavioural lanes `body` / `e2e` only). -/\n")
		sb.WriteString("namespace Generated.C17Facts\n\n")
		rows, err := c17Table(c)
		if err != nil {
			// The same table is pinned behaviourally by lane `body` (every listed method x both
			// settings through the real parseRequestBody) and by `e2e`: an uninterpretable
			// shape is therefore reported in the generated file, not turned into an alarm.
			sb.WriteString("-- NOT EXTRACTED: " + strings.ReplaceAll(err.Error(), "\n", " ") + "\n")
			sb.WriteString("def payloadForbidTable : Option (List (String × Bool × Bool)) := none\n")
		} else {
			sb.WriteString("def payloadForbidTable : Option (List (String × Bool × Bool)) := some [\n  ")
			sb.WriteString(strings.Join(rows, ",\n  "))
			sb.WriteString("\n]\n")
		}
		sb.WriteString("\nend Generated.C17Facts\n")
		return sb.String(), nil
	})
}

func c17Table(c *ctx) ([]string, error) {
	fd, err := c.funcDecl("", "Client", "isPayloadForbid")
	if err != nil {
		return nil, err
	}
	if fd.Type.Params == nil || len(fd.Type.Params.List) != 1 || len(fd.Type.Params.List[0].Names) != 1 {
		return nil, fmt.Errorf("isPayloadForbid: expected exactly one parameter")
	}
	var rows []string
	for _, m := range c17MethodList {
		for _, allow := range []bool{false, true} {
			in := &c17Interp{c: c, allow: allow}
			v, err := in.call(fd, &c17Val{isRecv: true}, []c17Val{{s: m}}, 0)
			if err != nil {
				return nil, err
			}
			if !v.isBool {
				return nil, fmt.Errorf("isPayloadForbid: result is not boolean")
			}
			rows = append(rows, fmt.Sprintf("(%s, %v, %v)", strconv.Quote(m), allow, v.b))
		}
	}
	return rows, nil
}
