package main

// C05 facts: the constant tables of the HTTP/2 framer, the QUIC varint codec and the HTTP/3
// frame/field layer, regenerated from the source on every run:
//   - internal/quic-go/quicvarint/varint.go: maxVarInt1/2/4/8 and the (threshold, length) ladder of Len
//   - internal/http2/frame.go: frame type and flag constants, frameHeaderLen, min/max frame size
//   - internal/http2/errors.go: the ErrCode constants the framer returns
//   - internal/http3/frames.go: the frame types ParseNext rejects as reserved, the types it returns,
//     the SETTINGS size cap, the two known setting identifiers
//   - internal/http3/headers.go: invalidHeaderFields
// The extractor refuses when the source leaves the shape it understands.

import (
	"fmt"
	"go/ast"
	"go/token"
	"sort"
	"strconv"
	"strings"
)

func init() { register("C05Facts", c05facts) }

// c05eval evaluates an integer constant expression built from literals, named constants of env,
// parentheses and + - * << | operators.
func c05eval(e ast.Expr, env map[string]uint64) (uint64, error) {
	switch x := e.(type) {
	case *ast.BasicLit:
		if x.Kind != token.INT {
			return 0, fmt.Errorf("non-integer literal %s", x.Value)
		}
		return strconv.ParseUint(strings.ReplaceAll(x.Value, "_", ""), 0, 64)
	case *ast.Ident:
		v, ok := env[x.Name]
		if !ok {
			return 0, fmt.Errorf("unknown constant %s", x.Name)
		}
		return v, nil
	case *ast.ParenExpr:
		return c05eval(x.X, env)
	case *ast.CallExpr: // conversions like FrameType(0x1), uint64(x)
		if len(x.Args) == 1 {
			return c05eval(x.Args[0], env)
		}
	case *ast.BinaryExpr:
		a, err := c05eval(x.X, env)
		if err != nil {
			return 0, err
		}
		b, err := c05eval(x.Y, env)
		if err != nil {
			return 0, err
		}
		switch x.Op {
		case token.ADD:
			return a + b, nil
		case token.SUB:
			return a - b, nil
		case token.MUL:
			return a * b, nil
		case token.SHL:
			return a << b, nil
		case token.OR:
			return a | b, nil
		}
	}
	return 0, fmt.Errorf("unsupported constant expression %T", e)
}

// c05consts collects every package-level integer constant of a directory that c05eval can evaluate
// (typed `Name T = value` specs and untyped ones; iota is not used by the anchored files).
func c05consts(c *ctx, dir string) (map[string]uint64, error) {
	fs, err := c.files(dir)
	if err != nil {
		return nil, err
	}
	env := map[string]uint64{}
	names := make([]string, 0, len(fs))
	for n := range fs {
		names = append(names, n)
	}
	sort.Strings(names)
	for pass := 0; pass < 3; pass++ { // constants may refer to later ones
		for _, n := range names {
			for _, d := range fs[n].Decls {
				gd, ok := d.(*ast.GenDecl)
				if !ok || gd.Tok != token.CONST {
					continue
				}
				for _, sp := range gd.Specs {
					vs := sp.(*ast.ValueSpec)
					for i, id := range vs.Names {
						if i >= len(vs.Values) {
							continue
						}
						if v, err := c05eval(vs.Values[i], env); err == nil {
							env[id.Name] = v
						}
					}
				}
			}
		}
	}
	return env, nil
}

func c05need(env map[string]uint64, names ...string) ([]uint64, error) {
	out := make([]uint64, len(names))
	for i, n := range names {
		v, ok := env[n]
		if !ok {
			return nil, fmt.Errorf("constant %s not found or not an integer constant expression", n)
		}
		out[i] = v
	}
	return out, nil
}

func c05facts(c *ctx) (string, error) {
	var b strings.Builder
	b.WriteString("namespace Generated.C05Facts\n\n")

	// ---- quicvarint
	venv, err := c05consts(c, "internal/quic-go/quicvarint")
	if err != nil {
		return "", err
	}
	mv, err := c05need(venv, "maxVarInt1", "maxVarInt2", "maxVarInt4", "maxVarInt8")
	if err != nil {
		return "", err
	}
	fmt.Fprintf(&b, "def maxVarInts : List Nat := [%d, %d, %d, %d]\n", mv[0], mv[1], mv[2], mv[3])
	// Len: if i <= maxVarIntK { return N } … then panic
	lenFn, err := c.funcDecl("internal/quic-go/quicvarint", "", "Len")
	if err != nil {
		return "", err
	}
	var ladder []string
	sawPanic := false
	argName := lenFn.Type.Params.List[0].Names[0].Name
	// one rung: `arg <= const` guarding a single `return n`
	rung := func(cond ast.Expr, body []ast.Stmt) error {
		for {
			if pe, ok := cond.(*ast.ParenExpr); ok {
				cond = pe.X
				continue
			}
			break
		}
		be, ok := cond.(*ast.BinaryExpr)
		if !ok || be.Op != token.LEQ || len(body) != 1 {
			return fmt.Errorf("quicvarint.Len: a rung is not `%s <= const { return n }`", argName)
		}
		if id, ok := be.X.(*ast.Ident); !ok || id.Name != argName {
			return fmt.Errorf("quicvarint.Len: comparison is not on the argument")
		}
		thr, err := c05eval(be.Y, venv)
		if err != nil {
			return fmt.Errorf("quicvarint.Len: %v", err)
		}
		ret, ok := body[0].(*ast.ReturnStmt)
		if !ok || len(ret.Results) != 1 {
			return fmt.Errorf("quicvarint.Len: branch is not a single return")
		}
		n, err := c05eval(ret.Results[0], venv)
		if err != nil {
			return fmt.Errorf("quicvarint.Len: %v", err)
		}
		ladder = append(ladder, fmt.Sprintf("(%d, %d)", thr, n))
		return nil
	}
	isPanic := func(st ast.Stmt) bool {
		es, ok := st.(*ast.ExprStmt)
		if !ok {
			return false
		}
		call, ok := es.X.(*ast.CallExpr)
		if !ok {
			return false
		}
		id, ok := call.Fun.(*ast.Ident)
		return ok && id.Name == "panic"
	}
	for _, st := range lenFn.Body.List {
		switch s := st.(type) {
		case *ast.IfStmt:
			if s.Else != nil || s.Init != nil {
				return "", fmt.Errorf("quicvarint.Len: unexpected if shape")
			}
			if err := rung(s.Cond, s.Body.List); err != nil {
				return "", err
			}
		case *ast.SwitchStmt: // the same ladder written as a tagless switch
			if s.Tag != nil || s.Init != nil {
				return "", fmt.Errorf("quicvarint.Len: unexpected switch shape")
			}
			for _, cl := range s.Body.List {
				cc := cl.(*ast.CaseClause)
				if cc.List == nil { // default
					if len(cc.Body) == 1 && isPanic(cc.Body[0]) {
						sawPanic = true
						continue
					}
					return "", fmt.Errorf("quicvarint.Len: default clause is not a panic")
				}
				if len(cc.List) != 1 {
					return "", fmt.Errorf("quicvarint.Len: multi-condition case")
				}
				if err := rung(cc.List[0], cc.Body); err != nil {
					return "", err
				}
			}
		default:
			if isPanic(st) {
				sawPanic = true
				continue
			}
			return "", fmt.Errorf("quicvarint.Len: unexpected statement %T", st)
		}
	}
	if !sawPanic || len(ladder) == 0 {
		return "", fmt.Errorf("quicvarint.Len: no threshold ladder ending in panic")
	}
	fmt.Fprintf(&b, "/-- quicvarint.Len: `if i <= threshold { return n }` in order, then panic -/\ndef lenLadder : List (Nat × Nat) := [%s]\n\n", strings.Join(ladder, ", "))

	// ---- http2 framer
	henv, err := c05consts(c, "internal/http2")
	if err != nil {
		return "", err
	}
	ft, err := c05need(henv, "FrameData", "FrameHeaders", "FramePriority", "FrameRSTStream", "FrameSettings", "FramePushPromise", "FramePing", "FrameGoAway", "FrameWindowUpdate", "FrameContinuation")
	if err != nil {
		return "", err
	}
	fmt.Fprintf(&b, "/-- FrameData … FrameContinuation -/\ndef frameTypes : List Nat := %s\n", c05list(ft))
	fl, err := c05need(henv, "FlagDataEndStream", "FlagDataPadded", "FlagHeadersEndStream", "FlagHeadersEndHeaders", "FlagHeadersPadded", "FlagHeadersPriority",
		"FlagSettingsAck", "FlagPingAck", "FlagContinuationEndHeaders", "FlagPushPromiseEndHeaders", "FlagPushPromisePadded")
	if err != nil {
		return "", err
	}
	fmt.Fprintf(&b, "/-- FlagDataEndStream, FlagDataPadded, FlagHeadersEndStream, FlagHeadersEndHeaders, FlagHeadersPadded,\nFlagHeadersPriority, FlagSettingsAck, FlagPingAck, FlagContinuationEndHeaders, FlagPushPromiseEndHeaders,\nFlagPushPromisePadded -/\ndef flags : List Nat := %s\n", c05list(fl))
	sz, err := c05need(henv, "frameHeaderLen", "minMaxFrameSize", "maxFrameSize")
	if err != nil {
		return "", err
	}
	fmt.Fprintf(&b, "/-- frameHeaderLen, minMaxFrameSize, maxFrameSize -/\ndef sizes : List Nat := %s\n", c05list(sz))
	ec, err := c05need(henv, "ErrCodeProtocol", "ErrCodeFlowControl", "ErrCodeFrameSize", "ErrCodeCompression")
	if err != nil {
		return "", err
	}
	fmt.Fprintf(&b, "/-- ErrCodeProtocol, ErrCodeFlowControl, ErrCodeFrameSize, ErrCodeCompression -/\ndef errCodes : List Nat := %s\n\n", c05list(ec))

	// ---- http3 frames
	h3env, err := c05consts(c, "internal/http3")
	if err != nil {
		return "", err
	}
	sid, err := c05need(h3env, "settingExtendedConnect", "settingDatagram")
	if err != nil {
		return "", err
	}
	fmt.Fprintf(&b, "/-- settingExtendedConnect, settingDatagram -/\ndef settingIds : List Nat := %s\n", c05list(sid))
	pn, err := c.funcDecl("internal/http3", "frameParser", "ParseNext")
	if err != nil {
		return "", err
	}
	var reserved, returned []uint64
	found := false
	ast.Inspect(pn.Body, func(n ast.Node) bool {
		sw, ok := n.(*ast.SwitchStmt)
		if !ok || found {
			return true
		}
		// the switch over the frame type is the one with a case that closes the connection
		hasClose := false
		ast.Inspect(sw, func(m ast.Node) bool {
			if se, ok := m.(*ast.SelectorExpr); ok && se.Sel.Name == "CloseWithError" {
				hasClose = true
			}
			return true
		})
		if !hasClose || sw.Tag == nil {
			return true
		}
		found = true
		for _, cl := range sw.Body.List {
			cc := cl.(*ast.CaseClause)
			closes, returns := false, false
			ast.Inspect(cc, func(m ast.Node) bool {
				if se, ok := m.(*ast.SelectorExpr); ok && se.Sel.Name == "CloseWithError" {
					closes = true
				}
				if _, ok := m.(*ast.ReturnStmt); ok {
					returns = true
				}
				return true
			})
			for _, e := range cc.List {
				v, err := c05eval(e, h3env)
				if err != nil {
					found = false
					return false
				}
				if closes {
					reserved = append(reserved, v)
				} else if returns {
					returned = append(returned, v)
				}
			}
		}
		return false
	})
	if !found || len(reserved) == 0 {
		return "", fmt.Errorf("frameParser.ParseNext: no switch over the frame type with a CloseWithError case")
	}
	sort.Slice(reserved, func(i, j int) bool { return reserved[i] < reserved[j] })
	sort.Slice(returned, func(i, j int) bool { return returned[i] < returned[j] })
	fmt.Fprintf(&b, "/-- the `case` values of ParseNext whose body closes the connection (reserved types) -/\ndef reservedTypes : List Nat := %s\n", c05list(reserved))
	fmt.Fprintf(&b, "/-- the `case` values of ParseNext whose body returns a frame -/\ndef returnedTypes : List Nat := %s\n", c05list(returned))
	// SETTINGS size cap: first statement of parseSettingsFrame: if l > <const> { return … }
	ps, err := c.funcDecl("internal/http3", "", "parseSettingsFrame")
	if err != nil {
		return "", err
	}
	var capv uint64
	capFound := false
	// constants declared inside the function are constants too
	for _, st := range ps.Body.List {
		ds, ok := st.(*ast.DeclStmt)
		if !ok {
			continue
		}
		if gd, ok := ds.Decl.(*ast.GenDecl); ok && gd.Tok == token.CONST {
			for _, sp := range gd.Specs {
				vs := sp.(*ast.ValueSpec)
				for i, id := range vs.Names {
					if i < len(vs.Values) {
						if v, err := c05eval(vs.Values[i], h3env); err == nil {
							h3env[id.Name] = v
						}
					}
				}
			}
		}
	}
	for _, st := range ps.Body.List {
		ifs, ok := st.(*ast.IfStmt)
		if !ok {
			continue
		}
		be, ok := ifs.Cond.(*ast.BinaryExpr)
		if !ok {
			continue
		}
		if _, isParam := be.X.(*ast.Ident); !isParam {
			continue
		}
		v, err := c05eval(be.Y, h3env)
		if err != nil {
			continue
		}
		if be.Op != token.GTR {
			return "", fmt.Errorf("parseSettingsFrame: size check is not `length > const`")
		}
		capv, capFound = v, true
		break
	}
	if !capFound {
		return "", fmt.Errorf("parseSettingsFrame: no size check against a constant")
	}
	fmt.Fprintf(&b, "/-- `if l > settingsCap` in parseSettingsFrame -/\ndef settingsCap : Nat := %d\n\n", capv)

	// ---- invalidHeaderFields
	vs, idx, err := c.valueSpec("internal/http3", "invalidHeaderFields")
	if err != nil {
		return "", err
	}
	if idx >= len(vs.Values) {
		return "", fmt.Errorf("invalidHeaderFields has no initialiser")
	}
	cl, ok := vs.Values[idx].(*ast.CompositeLit)
	if !ok {
		return "", fmt.Errorf("invalidHeaderFields is not a composite literal")
	}
	var names []string
	for _, e := range cl.Elts {
		bl, ok := e.(*ast.BasicLit)
		if !ok || bl.Kind != token.STRING {
			return "", fmt.Errorf("invalidHeaderFields: non-string element")
		}
		sv, err := strconv.Unquote(bl.Value)
		if err != nil {
			return "", err
		}
		names = append(names, leanBytes(sv))
	}
	fmt.Fprintf(&b, "def invalidHeaderFields : List (List UInt8) := [%s]\n\n", strings.Join(names, ",\n  "))
	b.WriteString("end Generated.C05Facts\n")
	return b.String(), nil
}

func c05list(l []uint64) string {
	parts := make([]string, len(l))
	for i, v := range l {
		parts[i] = strconv.FormatUint(v, 10)
	}
	return "[" + strings.Join(parts, ", ") + "]"
}
