package main

// C18 facts: the status thresholds of defaultResultStateChecker (translated as a function),
// the iota values of the ResultState constants, the status guard of every auto-read block
// (`… && resp.StatusCode > 199 { resp.ToBytes() … }`) and the 204 guards of parseResponseBody.
// The extractor refuses when the source leaves the shapes below.

import (
	"fmt"
	"go/ast"
	"go/token"
	"strconv"
	"strings"
)

func init() { register("C18Facts", c18Facts) }

// net/http status constants the anchored code may mention.
var c18HTTPStatus = map[string]int{
	"StatusOK": 200, "StatusNoContent": 204, "StatusUnauthorized": 401, "StatusMultipleChoices": 300,
	"StatusBadRequest": 400, "StatusContinue": 100, "StatusSwitchingProtocols": 101,
}

type c18Tr struct {
	codeVar string // local bound to X.StatusCode ("" = none)
}

// intOperand recognises the status code operand or an integer constant.
func (t *c18Tr) operand(e ast.Expr) (string, error) {
	switch x := e.(type) {
	case *ast.ParenExpr:
		return t.operand(x.X)
	case *ast.Ident:
		if x.Name == t.codeVar && t.codeVar != "" {
			return "code", nil
		}
	case *ast.SelectorExpr:
		if x.Sel.Name == "StatusCode" {
			return "code", nil
		}
		if id, ok := x.X.(*ast.Ident); ok && id.Name == "http" {
			if v, ok := c18HTTPStatus[x.Sel.Name]; ok {
				return strconv.Itoa(v), nil
			}
		}
	case *ast.BasicLit:
		if x.Kind == token.INT {
			v, err := strconv.ParseInt(x.Value, 0, 64)
			if err == nil {
				return strconv.FormatInt(v, 10), nil
			}
		}
	}
	return "", fmt.Errorf("operand outside the subset: %T", e)
}

var c18CmpOps = map[token.Token]string{token.GTR: ">", token.LSS: "<", token.GEQ: "≥", token.LEQ: "≤", token.EQL: "=", token.NEQ: "≠"}
var c18OpNames = map[token.Token]string{token.GTR: ".gt", token.LSS: ".lt", token.GEQ: ".ge", token.LEQ: ".le", token.EQL: ".eq", token.NEQ: ".ne"}

// cond translates a boolean expression over the status code into a Lean Bool term.
func (t *c18Tr) cond(e ast.Expr) (string, error) {
	switch x := e.(type) {
	case *ast.ParenExpr:
		return t.cond(x.X)
	case *ast.UnaryExpr:
		if x.Op == token.NOT {
			s, err := t.cond(x.X)
			return "(!" + s + ")", err
		}
	case *ast.BinaryExpr:
		switch x.Op {
		case token.LAND, token.LOR:
			l, err := t.cond(x.X)
			if err != nil {
				return "", err
			}
			r, err := t.cond(x.Y)
			if err != nil {
				return "", err
			}
			op := " && "
			if x.Op == token.LOR {
				op = " || "
			}
			return "(" + l + op + r + ")", nil
		}
		if op, ok := c18CmpOps[x.Op]; ok {
			l, err := t.operand(x.X)
			if err != nil {
				return "", err
			}
			r, err := t.operand(x.Y)
			if err != nil {
				return "", err
			}
			return "decide (" + l + " " + op + " " + r + ")", nil
		}
	}
	return "", fmt.Errorf("condition outside the subset: %T", e)
}

func c18SingleReturnIdent(b *ast.BlockStmt) (string, error) {
	if b == nil || len(b.List) != 1 {
		return "", fmt.Errorf("branch is not a single return")
	}
	rs, ok := b.List[0].(*ast.ReturnStmt)
	if !ok || len(rs.Results) != 1 {
		return "", fmt.Errorf("branch is not a single return")
	}
	id, ok := rs.Results[0].(*ast.Ident)
	if !ok {
		return "", fmt.Errorf("branch does not return a named constant")
	}
	return id.Name, nil
}

func (t *c18Tr) ifChain(s ast.Stmt, consts map[string]int) (string, error) {
	switch x := s.(type) {
	case *ast.IfStmt:
		if x.Init != nil {
			as, ok := x.Init.(*ast.AssignStmt)
			if !ok || as.Tok != token.DEFINE || len(as.Lhs) != 1 || len(as.Rhs) != 1 {
				return "", fmt.Errorf("if-init outside the subset")
			}
			sel, ok := as.Rhs[0].(*ast.SelectorExpr)
			if !ok || sel.Sel.Name != "StatusCode" {
				return "", fmt.Errorf("if-init does not bind the status code")
			}
			t.codeVar = as.Lhs[0].(*ast.Ident).Name
		}
		c, err := t.cond(x.Cond)
		if err != nil {
			return "", err
		}
		name, err := c18SingleReturnIdent(x.Body)
		if err != nil {
			return "", err
		}
		v, ok := consts[name]
		if !ok {
			return "", fmt.Errorf("unknown state constant %s", name)
		}
		if x.Else == nil {
			return "", fmt.Errorf("if without else")
		}
		rest, err := t.ifChain(x.Else, consts)
		if err != nil {
			return "", err
		}
		return fmt.Sprintf("if %s then %d else %s", c, v, rest), nil
	case *ast.BlockStmt:
		name, err := c18SingleReturnIdent(x)
		if err != nil {
			return "", err
		}
		v, ok := consts[name]
		if !ok {
			return "", fmt.Errorf("unknown state constant %s", name)
		}
		return strconv.Itoa(v), nil
	}
	return "", fmt.Errorf("statement outside the subset: %T", s)
}

// statusConjuncts lists the comparisons on the status code among the &&-conjuncts of e.
func (t *c18Tr) statusConjuncts(e ast.Expr, out *[]string) {
	switch x := e.(type) {
	case *ast.ParenExpr:
		t.statusConjuncts(x.X, out)
	case *ast.BinaryExpr:
		if x.Op == token.LAND {
			t.statusConjuncts(x.X, out)
			t.statusConjuncts(x.Y, out)
			return
		}
		if op, ok := c18OpNames[x.Op]; ok {
			l, err1 := t.operand(x.X)
			r, err2 := t.operand(x.Y)
			if err1 == nil && err2 == nil && l == "code" && r != "code" {
				*out = append(*out, "("+op+", "+r+")")
			}
		}
	}
}

func c18CallsMethod(n ast.Node, method string) bool {
	found := false
	ast.Inspect(n, func(m ast.Node) bool {
		if ce, ok := m.(*ast.CallExpr); ok {
			if sel, ok := ce.Fun.(*ast.SelectorExpr); ok && sel.Sel.Name == method {
				found = true
			}
		}
		return true
	})
	return found
}

func c18Facts(c *ctx) (string, error) {
	// 1. ResultState constants (iota block)
	consts := map[string]int{}
	fs, err := c.files("")
	if err != nil {
		return "", err
	}
	for _, f := range fs {
		for _, d := range f.Decls {
			gd, ok := d.(*ast.GenDecl)
			if !ok || gd.Tok != token.CONST {
				continue
			}
			isBlock := false
			for i, s := range gd.Specs {
				vs := s.(*ast.ValueSpec)
				if i == 0 {
					if id, ok := vs.Type.(*ast.Ident); ok && id.Name == "ResultState" && len(vs.Values) == 1 {
						if v, ok := vs.Values[0].(*ast.Ident); ok && v.Name == "iota" {
							isBlock = true
						}
					}
				}
				if isBlock {
					if i > 0 && (vs.Type != nil || len(vs.Values) != 0) {
						return "", fmt.Errorf("ResultState const block is not a plain iota block")
					}
					for _, n := range vs.Names {
						consts[n.Name] = i
					}
				}
			}
		}
	}
	for _, n := range []string{"SuccessState", "ErrorState", "UnknownState"} {
		if _, ok := consts[n]; !ok {
			return "", fmt.Errorf("constant %s not found in an iota block of ResultState", n)
		}
	}
	if len(consts) != 3 {
		return "", fmt.Errorf("ResultState has %d constants, expected 3", len(consts))
	}
	// 2. defaultResultStateChecker
	fd, err := c.funcDecl("", "", "defaultResultStateChecker")
	if err != nil {
		return "", err
	}
	if fd.Body == nil || len(fd.Body.List) != 1 {
		return "", fmt.Errorf("defaultResultStateChecker: body is not a single if-chain")
	}
	tr := &c18Tr{}
	chain, err := tr.ifChain(fd.Body.List[0], consts)
	if err != nil {
		return "", fmt.Errorf("defaultResultStateChecker: %v", err)
	}
	// 3. auto-read sites: every `if … { …ToBytes() … }` whose condition mentions StatusCode,
	// in Client.roundTrip (must exist) and handleDigestAuthFunc (present once repaired)
	var sites []string
	for _, fn := range []struct{ recv, name string; must bool }{{"Client", "roundTrip", true}, {"", "handleDigestAuthFunc", false}} {
		fd, err := c.funcDecl("", fn.recv, fn.name)
		if err != nil {
			if fn.must {
				return "", err
			}
			continue
		}
		n := 0
		ast.Inspect(fd, func(m ast.Node) bool {
			ifs, ok := m.(*ast.IfStmt)
			if !ok || !c18CallsMethod(ifs.Body, "ToBytes") {
				return true
			}
			var conj []string
			(&c18Tr{}).statusConjuncts(ifs.Cond, &conj)
			sites = append(sites, fmt.Sprintf("(\"%s\", [%s])", fn.name, strings.Join(conj, ", ")))
			n++
			return true
		})
		if fn.must && n != 1 {
			return "", fmt.Errorf("%s: expected exactly one auto-read block, found %d", fn.name, n)
		}
	}
	// 4. parseResponseBody: the status guards of the success and error arms
	fd, err = c.funcDecl("", "", "parseResponseBody")
	if err != nil {
		return "", err
	}
	arms := map[string][]string{}
	var sw *ast.SwitchStmt
	ast.Inspect(fd, func(m ast.Node) bool {
		if s, ok := m.(*ast.SwitchStmt); ok && sw == nil {
			sw = s
		}
		return true
	})
	if sw == nil {
		return "", fmt.Errorf("parseResponseBody: no switch")
	}
	for _, st := range sw.Body.List {
		cc := st.(*ast.CaseClause)
		if len(cc.List) != 1 {
			return "", fmt.Errorf("parseResponseBody: case clause outside the subset")
		}
		id, ok := cc.List[0].(*ast.Ident)
		if !ok {
			return "", fmt.Errorf("parseResponseBody: case label outside the subset")
		}
		var conj []string
		if len(cc.Body) == 0 {
			return "", fmt.Errorf("parseResponseBody: empty arm %s", id.Name)
		}
		ifs, ok := cc.Body[0].(*ast.IfStmt)
		if !ok {
			return "", fmt.Errorf("parseResponseBody: arm %s does not start with an if", id.Name)
		}
		(&c18Tr{}).statusConjuncts(ifs.Cond, &conj)
		kind := "bind" // the if guards the unmarshal
		if len(ifs.Body.List) == 1 {
			if _, ok := ifs.Body.List[0].(*ast.ReturnStmt); ok {
				kind = "return" // early return
			}
		}
		arms[id.Name] = append([]string{"\"" + kind + "\""}, conj...)
	}
	arm := func(name string) (string, error) {
		a, ok := arms[name]
		if !ok {
			return "", fmt.Errorf("parseResponseBody: no arm for %s", name)
		}
		return "(" + a[0] + ", [" + strings.Join(a[1:], ", ") + "])", nil
	}
	sArm, err := arm("SuccessState")
	if err != nil {
		return "", err
	}
	eArm, err := arm("ErrorState")
	if err != nil {
		return "", err
	}
	if len(arms) != 2 {
		return "", fmt.Errorf("parseResponseBody: %d arms, expected 2", len(arms))
	}
	var b strings.Builder
	b.WriteString("namespace Generated.C18Facts\n\n")
	b.WriteString("inductive Op | gt | lt | ge | le | eq | ne\n  deriving DecidableEq, Repr\n\n")
	fmt.Fprintf(&b, "def successState : Nat := %d\ndef errorState : Nat := %d\ndef unknownState : Nat := %d\n\n", consts["SuccessState"], consts["ErrorState"], consts["UnknownState"])
	b.WriteString("/-- middleware.go defaultResultStateChecker, translated statement by statement. -/\n")
	fmt.Fprintf(&b, "def defaultChecker (code : Int) : Nat :=\n  %s\n\n", chain)
	b.WriteString("/-- status conjuncts of every `if … { resp.ToBytes() … }` auto-read block. -/\n")
	fmt.Fprintf(&b, "def autoReadSites : List (String × List (Op × Int)) := [%s]\n\n", strings.Join(sites, ", "))
	b.WriteString("/-- parseResponseBody: first `if` of the success / error arm: kind and status conjuncts. -/\n")
	fmt.Fprintf(&b, "def parseSuccessArm : String × List (Op × Int) := %s\n", sArm)
	fmt.Fprintf(&b, "def parseErrorArm : String × List (Op × Int) := %s\n\n", eArm)
	b.WriteString("end Generated.C18Facts\n")
	return b.String(), nil
}
