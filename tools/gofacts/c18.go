package main

// C18 facts, regenerated from the go/ast of /repo:
//
//  1. the iota values of the ResultState constants;
//  2. defaultResultStateChecker, TRANSLATED into a Lean function of the status code by a small
//     symbolic evaluator. Control-flow shape does not matter: if / else-if chains, guard clauses
//     with early returns, tagless or tagged `switch` (on the code), nested blocks, the status
//     code or a threshold or the result hoisted into locals (any names), and a call to an
//     unexported helper of the same package (inlined, one level deep) all evaluate to the same
//     kind of decision tree; the bridge proves it equal to the model by case analysis + omega,
//     whatever the branch shape;
//  3. the status BOUNDARIES of every auto-read site (an `if` whose body calls ToBytes, in
//     Client.roundTrip and in the digest middleware), in a normal form that identifies
//     `> 199`, `>= 200`, and — guard-clause / De Morgan forms — `<= 199`, `< 200`; comparisons
//     hoisted into a local or moved into an unexported helper predicate (one level) are followed;
//  4. the status POINTS parseResponseBody (and unexported helpers it calls, one level) compares
//     with `==` / `!=` — the 204 special-casing — as a set, independent of the control flow.
//
// Facts 3 and 4 are deliberately shape-free: WHICH branch a guard protects is pinned
// behaviourally by the bind / call lanes (dropping or flipping a guard is a failing input
// there); the fact pins the constant for every status at once. Only fact 2 can refuse (exit 1),
// and only on code outside the statement subset above.

import (
	"fmt"
	"go/ast"
	"go/token"
	"sort"
	"strconv"
	"strings"
)

func init() { register("C18Facts", c18Facts) }

// net/http status constants the anchored code may mention.
var c18HTTPStatus = map[string]int{
	"StatusContinue": 100, "StatusSwitchingProtocols": 101, "StatusOK": 200, "StatusCreated": 201,
	"StatusAccepted": 202, "StatusNoContent": 204, "StatusResetContent": 205, "StatusPartialContent": 206,
	"StatusMultipleChoices": 300, "StatusNotModified": 304, "StatusBadRequest": 400, "StatusUnauthorized": 401,
	"StatusForbidden": 403, "StatusNotFound": 404, "StatusInternalServerError": 500,
}

// ---------------------------------------------------------------------------------------
// symbolic values

type c18Val struct {
	kind string // "code" (the status code), "int" (integer constant), "state" (Lean Nat term), "bool" (Lean Bool term)
	term string
}

type c18Env map[string]c18Val

func (e c18Env) with(name string, v c18Val) c18Env {
	n := c18Env{}
	for k, x := range e {
		n[k] = x
	}
	n[name] = v
	return n
}

type c18Sym struct {
	c      *ctx
	consts map[string]int // ResultState constants
	depth  int            // helper inlining depth
}

var c18CmpOps = map[token.Token]string{token.GTR: ">", token.LSS: "<", token.GEQ: "≥", token.LEQ: "≤", token.EQL: "=", token.NEQ: "≠"}

// helper finds an unexported top-level function or method of the root package by name.
func (s *c18Sym) helper(name string) *ast.FuncDecl {
	if name == "" || ast.IsExported(name) {
		return nil
	}
	fs, err := s.c.files("")
	if err != nil {
		return nil
	}
	var found *ast.FuncDecl
	for _, f := range fs {
		for _, d := range f.Decls {
			if fd, ok := d.(*ast.FuncDecl); ok && fd.Name.Name == name && fd.Body != nil {
				if found != nil {
					return nil // ambiguous (method on several types)
				}
				found = fd
			}
		}
	}
	return found
}

func c18CalleeName(ce *ast.CallExpr) string {
	switch f := ce.Fun.(type) {
	case *ast.Ident:
		return f.Name
	case *ast.SelectorExpr:
		return f.Sel.Name
	}
	return ""
}

// expr evaluates an expression to a symbolic value.
func (s *c18Sym) expr(e ast.Expr, env c18Env) (c18Val, error) {
	switch x := e.(type) {
	case *ast.ParenExpr:
		return s.expr(x.X, env)
	case *ast.Ident:
		if v, ok := env[x.Name]; ok {
			return v, nil
		}
		if v, ok := s.consts[x.Name]; ok {
			return c18Val{"state", strconv.Itoa(v)}, nil
		}
		if x.Name == "true" || x.Name == "false" {
			return c18Val{"bool", x.Name}, nil
		}
	case *ast.SelectorExpr:
		if x.Sel.Name == "StatusCode" {
			return c18Val{"code", "code"}, nil
		}
		if id, ok := x.X.(*ast.Ident); ok && id.Name == "http" {
			if v, ok := c18HTTPStatus[x.Sel.Name]; ok {
				return c18Val{"int", strconv.Itoa(v)}, nil
			}
		}
	case *ast.BasicLit:
		if x.Kind == token.INT {
			if v, err := strconv.ParseInt(x.Value, 0, 64); err == nil {
				return c18Val{"int", strconv.FormatInt(v, 10)}, nil
			}
		}
	case *ast.UnaryExpr:
		if x.Op == token.NOT {
			v, err := s.expr(x.X, env)
			if err != nil {
				return v, err
			}
			if v.kind == "bool" {
				return c18Val{"bool", "(!" + v.term + ")"}, nil
			}
		}
	case *ast.BinaryExpr:
		l, err := s.expr(x.X, env)
		if err != nil {
			return l, err
		}
		r, err := s.expr(x.Y, env)
		if err != nil {
			return r, err
		}
		isInt := func(v c18Val) bool { return v.kind == "code" || v.kind == "int" }
		switch {
		case (x.Op == token.LAND || x.Op == token.LOR) && l.kind == "bool" && r.kind == "bool":
			op := " && "
			if x.Op == token.LOR {
				op = " || "
			}
			return c18Val{"bool", "(" + l.term + op + r.term + ")"}, nil
		case c18CmpOps[x.Op] != "" && isInt(l) && isInt(r):
			return c18Val{"bool", "decide (" + l.term + " " + c18CmpOps[x.Op] + " " + r.term + ")"}, nil
		}
	case *ast.CallExpr:
		// an unexported helper of the same package, inlined one level deep
		if fd := s.helper(c18CalleeName(x)); fd != nil && s.depth == 0 {
			var args []c18Val
			if sel, ok := x.Fun.(*ast.SelectorExpr); ok && fd.Recv != nil { // method call: receiver first
				if v, err := s.expr(sel.X, env); err == nil {
					args = append(args, v)
				} else {
					args = append(args, c18Val{"opaque", ""})
				}
			}
			for _, a := range x.Args {
				v, err := s.expr(a, env)
				if err != nil {
					v = c18Val{"opaque", ""} // e.g. the *Response itself: only its StatusCode is ever read
				}
				args = append(args, v)
			}
			var names []string
			if fd.Recv != nil {
				for _, f := range fd.Recv.List {
					for _, n := range f.Names {
						names = append(names, n.Name)
					}
				}
			}
			for _, f := range fd.Type.Params.List {
				for _, n := range f.Names {
					names = append(names, n.Name)
				}
			}
			if len(names) != len(args) {
				return c18Val{}, fmt.Errorf("helper %s: cannot bind arguments", fd.Name.Name)
			}
			henv := c18Env{}
			for i, n := range names {
				if args[i].kind != "opaque" {
					henv[n] = args[i]
				}
			}
			s.depth++
			t, err := s.block(fd.Body.List, henv, func(c18Env) (string, error) {
				return "", fmt.Errorf("helper %s falls off its end", fd.Name.Name)
			})
			s.depth--
			if err != nil {
				return c18Val{}, err
			}
			kind := "state"
			if fd.Type.Results != nil && len(fd.Type.Results.List) == 1 {
				if id, ok := fd.Type.Results.List[0].Type.(*ast.Ident); ok && id.Name == "bool" {
					kind = "bool"
				}
			}
			return c18Val{kind, "(" + t + ")"}, nil
		}
	}
	return c18Val{}, fmt.Errorf("expression outside the subset: %T", e)
}

// block symbolically executes stmts; k is what happens when control falls off the end. The
// result is a Lean term for the value finally returned.
func (s *c18Sym) block(stmts []ast.Stmt, env c18Env, k func(c18Env) (string, error)) (string, error) {
	if len(stmts) == 0 {
		return k(env)
	}
	rest := func(e c18Env) (string, error) { return s.block(stmts[1:], e, k) }
	switch x := stmts[0].(type) {
	case *ast.EmptyStmt:
		return rest(env)
	case *ast.BlockStmt:
		return s.block(x.List, env, rest)
	case *ast.ReturnStmt:
		if len(x.Results) != 1 {
			return "", fmt.Errorf("return outside the subset")
		}
		v, err := s.expr(x.Results[0], env)
		if err != nil {
			return "", err
		}
		if v.kind != "state" && v.kind != "bool" {
			return "", fmt.Errorf("return of a %s value", v.kind)
		}
		return v.term, nil
	case *ast.AssignStmt:
		if len(x.Lhs) != 1 || len(x.Rhs) != 1 || (x.Tok != token.DEFINE && x.Tok != token.ASSIGN) {
			return "", fmt.Errorf("assignment outside the subset")
		}
		id, ok := x.Lhs[0].(*ast.Ident)
		if !ok {
			return "", fmt.Errorf("assignment to a non-local")
		}
		v, err := s.expr(x.Rhs[0], env)
		if err != nil {
			return "", err
		}
		return rest(env.with(id.Name, v))
	case *ast.DeclStmt:
		gd, ok := x.Decl.(*ast.GenDecl)
		if !ok || (gd.Tok != token.VAR && gd.Tok != token.CONST) {
			return "", fmt.Errorf("declaration outside the subset")
		}
		for _, sp := range gd.Specs {
			vs := sp.(*ast.ValueSpec)
			if len(vs.Names) != len(vs.Values) {
				if len(vs.Values) == 0 {
					continue // `var st ResultState`: assigned before use or the evaluation fails at the use
				}
				return "", fmt.Errorf("declaration outside the subset")
			}
			for i, n := range vs.Names {
				v, err := s.expr(vs.Values[i], env)
				if err != nil {
					return "", err
				}
				env = env.with(n.Name, v)
			}
		}
		return rest(env)
	case *ast.IfStmt:
		if x.Init != nil {
			return s.block([]ast.Stmt{x.Init, &ast.IfStmt{Cond: x.Cond, Body: x.Body, Else: x.Else}}, env, rest)
		}
		c, err := s.expr(x.Cond, env)
		if err != nil {
			return "", err
		}
		if c.kind != "bool" {
			return "", fmt.Errorf("condition is not boolean")
		}
		th, err := s.block(x.Body.List, env, rest)
		if err != nil {
			return "", err
		}
		var el string
		if x.Else == nil {
			el, err = rest(env)
		} else {
			el, err = s.block([]ast.Stmt{x.Else}, env, rest)
		}
		if err != nil {
			return "", err
		}
		return "(if " + c.term + " then " + th + " else " + el + ")", nil
	case *ast.SwitchStmt:
		if x.Init != nil {
			return s.block([]ast.Stmt{x.Init, &ast.SwitchStmt{Tag: x.Tag, Body: x.Body}}, env, rest)
		}
		var tag *c18Val
		if x.Tag != nil {
			v, err := s.expr(x.Tag, env)
			if err != nil {
				return "", err
			}
			if v.kind != "code" && v.kind != "int" && v.kind != "bool" {
				return "", fmt.Errorf("switch tag outside the subset")
			}
			tag = &v
		}
		var def *ast.CaseClause
		type arm struct {
			cond string
			body []ast.Stmt
		}
		var arms []arm
		for _, st := range x.Body.List {
			cc := st.(*ast.CaseClause)
			for _, b := range cc.Body {
				if br, ok := b.(*ast.BranchStmt); ok && br.Tok == token.FALLTHROUGH {
					return "", fmt.Errorf("fallthrough is outside the subset")
				}
			}
			if cc.List == nil {
				def = cc
				continue
			}
			var alts []string
			for _, e := range cc.List {
				v, err := s.expr(e, env)
				if err != nil {
					return "", err
				}
				switch {
				case tag == nil && v.kind == "bool":
					alts = append(alts, v.term)
				case tag != nil && tag.kind == "bool" && v.kind == "bool":
					alts = append(alts, "("+tag.term+" == "+v.term+")")
				case tag != nil && (v.kind == "int" || v.kind == "code") && tag.kind != "bool":
					alts = append(alts, "decide ("+tag.term+" = "+v.term+")")
				default:
					return "", fmt.Errorf("case expression outside the subset")
				}
			}
			arms = append(arms, arm{"(" + strings.Join(alts, " || ") + ")", cc.Body})
		}
		// `break` inside a switch arm would leave the switch: not supported
		var build func(i int) (string, error)
		build = func(i int) (string, error) {
			if i == len(arms) {
				if def != nil {
					return s.block(def.Body, env, rest)
				}
				return rest(env)
			}
			th, err := s.block(arms[i].body, env, rest)
			if err != nil {
				return "", err
			}
			el, err := build(i + 1)
			if err != nil {
				return "", err
			}
			return "(if " + arms[i].cond + " then " + th + " else " + el + ")", nil
		}
		return build(0)
	}
	return "", fmt.Errorf("statement outside the subset: %T", stmts[0])
}

// ---------------------------------------------------------------------------------------
// shape-free threshold facts

// c18Cmp is one comparison of the status code with a constant, normalised:
// boundary b ("code ≥ b" versus "code < b", whichever way it is written or negated) or point p.
type c18Cmp struct {
	boundary bool
	v        int
}

// statusLocals returns the locals of fn that are bound (anywhere) to X.StatusCode.
func c18StatusLocals(fn ast.Node) map[string]bool {
	m := map[string]bool{}
	ast.Inspect(fn, func(n ast.Node) bool {
		if as, ok := n.(*ast.AssignStmt); ok && len(as.Lhs) == len(as.Rhs) {
			for i, r := range as.Rhs {
				if sel, ok := r.(*ast.SelectorExpr); ok && sel.Sel.Name == "StatusCode" {
					if id, ok := as.Lhs[i].(*ast.Ident); ok {
						m[id.Name] = true
					}
				}
			}
		}
		return true
	})
	return m
}

func c18IntConst(e ast.Expr) (int, bool) {
	switch x := e.(type) {
	case *ast.ParenExpr:
		return c18IntConst(x.X)
	case *ast.BasicLit:
		if x.Kind == token.INT {
			if v, err := strconv.ParseInt(x.Value, 0, 64); err == nil {
				return int(v), true
			}
		}
	case *ast.SelectorExpr:
		if id, ok := x.X.(*ast.Ident); ok && id.Name == "http" {
			v, ok := c18HTTPStatus[x.Sel.Name]
			return v, ok
		}
	}
	return 0, false
}

// statusCmps collects every comparison of the status code with a constant under n.
func c18StatusCmps(n ast.Node, locals map[string]bool, out *[]c18Cmp) {
	isCode := func(e ast.Expr) bool {
		for {
			p, ok := e.(*ast.ParenExpr)
			if !ok {
				break
			}
			e = p.X
		}
		switch x := e.(type) {
		case *ast.SelectorExpr:
			return x.Sel.Name == "StatusCode"
		case *ast.Ident:
			return locals[x.Name]
		}
		return false
	}
	ast.Inspect(n, func(m ast.Node) bool {
		be, ok := m.(*ast.BinaryExpr)
		if !ok {
			return true
		}
		op := be.Op
		var v int
		var okc bool
		switch {
		case isCode(be.X):
			v, okc = c18IntConst(be.Y)
		case isCode(be.Y): // constant on the left: mirror the operator
			v, okc = c18IntConst(be.X)
			switch op {
			case token.GTR:
				op = token.LSS
			case token.LSS:
				op = token.GTR
			case token.GEQ:
				op = token.LEQ
			case token.LEQ:
				op = token.GEQ
			}
		}
		if !okc {
			return true
		}
		switch op {
		case token.GTR, token.LEQ: // code > v  |  !(code > v)
			*out = append(*out, c18Cmp{true, v + 1})
		case token.GEQ, token.LSS: // code >= v |  !(code >= v)
			*out = append(*out, c18Cmp{true, v})
		case token.EQL, token.NEQ:
			*out = append(*out, c18Cmp{false, v})
		}
		return true
	})
}

func c18CallsMethod(n ast.Node, method string) bool {
	found := false
	ast.Inspect(n, func(m ast.Node) bool {
		if ce, ok := m.(*ast.CallExpr); ok {
			if sel, ok := ce.Fun.(*ast.SelectorExpr); ok && sel.Sel.Name == method {
				found = true
			}
		}
		return true
	})
	return found
}

// reads: n calls ToBytes, directly or through an unexported helper (one level).
func (s *c18Sym) reads(n ast.Node) bool {
	if c18CallsMethod(n, "ToBytes") {
		return true
	}
	found := false
	ast.Inspect(n, func(m ast.Node) bool {
		if ce, ok := m.(*ast.CallExpr); ok {
			if h := s.helper(c18CalleeName(ce)); h != nil && h.Name.Name != "unmarshalBody" && c18CallsMethod(h.Body, "ToBytes") {
				found = true
			}
		}
		return true
	})
	return found
}

// cmpsWithHelpers: the comparisons under n plus those inside unexported same-package helpers
// called under n (one level deep).
func (s *c18Sym) cmpsWithHelpers(n ast.Node, locals map[string]bool) []c18Cmp {
	var out []c18Cmp
	c18StatusCmps(n, locals, &out)
	seen := map[string]bool{}
	ast.Inspect(n, func(m ast.Node) bool {
		if ce, ok := m.(*ast.CallExpr); ok {
			name := c18CalleeName(ce)
			if fd := s.helper(name); fd != nil && !seen[name] {
				seen[name] = true
				c18StatusCmps(fd.Body, c18StatusLocals(fd), &out)
			}
		}
		return true
	})
	return out
}

func c18Render(cmps []c18Cmp, boundary bool) string {
	set := map[int]bool{}
	for _, c := range cmps {
		if c.boundary == boundary {
			set[c.v] = true
		}
	}
	var vs []int
	for v := range set {
		vs = append(vs, v)
	}
	sort.Ints(vs)
	p := make([]string, len(vs))
	for i, v := range vs {
		p[i] = strconv.Itoa(v)
	}
	return "[" + strings.Join(p, ", ") + "]"
}

// ---------------------------------------------------------------------------------------

func c18Facts(c *ctx) (string, error) {
	// 1. ResultState constants (iota block)
	consts := map[string]int{}
	fs, err := c.files("")
	if err != nil {
		return "", err
	}
	for _, f := range fs {
		for _, d := range f.Decls {
			gd, ok := d.(*ast.GenDecl)
			if !ok || gd.Tok != token.CONST {
				continue
			}
			isBlock := false
			for i, s := range gd.Specs {
				vs := s.(*ast.ValueSpec)
				if i == 0 {
					if id, ok := vs.Type.(*ast.Ident); ok && id.Name == "ResultState" && len(vs.Values) == 1 {
						if v, ok := vs.Values[0].(*ast.Ident); ok && v.Name == "iota" {
							isBlock = true
						}
					}
				}
				if isBlock {
					if i > 0 && (vs.Type != nil || len(vs.Values) != 0) {
						return "", fmt.Errorf("ResultState const block is not a plain iota block")
					}
					for _, n := range vs.Names {
						consts[n.Name] = i
					}
				}
			}
		}
	}
	for _, n := range []string{"SuccessState", "ErrorState", "UnknownState"} {
		if _, ok := consts[n]; !ok {
			return "", fmt.Errorf("constant %s not found in an iota block of ResultState", n)
		}
	}
	if len(consts) != 3 {
		return "", fmt.Errorf("ResultState has %d constants, expected 3", len(consts))
	}
	sym := &c18Sym{c: c, consts: consts}
	// 2. defaultResultStateChecker, symbolically evaluated
	fd, err := c.funcDecl("", "", "defaultResultStateChecker")
	if err != nil {
		return "", err
	}
	tree, err := sym.block(fd.Body.List, c18Env{}, func(c18Env) (string, error) {
		return "", fmt.Errorf("control falls off the end")
	})
	if err != nil {
		return "", fmt.Errorf("defaultResultStateChecker: %v", err)
	}
	// 3. auto-read sites
	var sites []string
	for _, fn := range []struct {
		recv, name string
		must       bool
	}{{"Client", "roundTrip", true}, {"", "handleDigestAuthFunc", false}} {
		fd, err := c.funcDecl("", fn.recv, fn.name)
		if err != nil {
			if fn.must {
				return "", err
			}
			continue
		}
		// the function itself and the unexported helpers it calls (one level): the whole
		// auto-read block may have been extracted
		scan := []*ast.FuncDecl{fd}
		seenH := map[string]bool{}
		ast.Inspect(fd, func(m ast.Node) bool {
			if ce, ok := m.(*ast.CallExpr); ok {
				name := c18CalleeName(ce)
				if h := sym.helper(name); h != nil && !seenH[name] && name != "parseResponseBody" {
					seenH[name] = true
					scan = append(scan, h)
				}
			}
			return true
		})
		for _, fd := range scan {
			locals := c18StatusLocals(fd)
			// a condition hoisted into a boolean local: `auto := … && resp.StatusCode > 199; if auto {`
			boolLocals := map[string]ast.Expr{}
			ast.Inspect(fd, func(m ast.Node) bool {
				if as, ok := m.(*ast.AssignStmt); ok && len(as.Lhs) == 1 && len(as.Rhs) == 1 {
					if id, ok := as.Lhs[0].(*ast.Ident); ok {
						boolLocals[id.Name] = as.Rhs[0]
					}
				}
				return true
			})
			ast.Inspect(fd, func(m ast.Node) bool {
				ifs, ok := m.(*ast.IfStmt)
				if !ok {
					return true
				}
				inBody := sym.reads(ifs.Body)
				inElse := ifs.Else != nil && sym.reads(ifs.Else)
				if !inBody && !inElse {
					return true
				}
				cmps := sym.cmpsWithHelpers(ifs.Cond, locals)
				ast.Inspect(ifs.Cond, func(x ast.Node) bool {
					if id, ok := x.(*ast.Ident); ok {
						if e, ok := boolLocals[id.Name]; ok {
							cmps = append(cmps, sym.cmpsWithHelpers(e, locals)...)
						}
					}
					return true
				})
				if len(cmps) == 0 && inBody {
					// nested form: the status test sits in an enclosing/enclosed `if`; the inner site reports it
					return true
				}
				sites = append(sites, fmt.Sprintf("(\"%s\", %s)", fn.name, c18Render(cmps, true)))
				return true
			})
		}
	}
	// 4. parseResponseBody: status points
	fd, err = c.funcDecl("", "", "parseResponseBody")
	if err != nil {
		return "", err
	}
	points := c18Render(sym.cmpsWithHelpers(fd.Body, c18StatusLocals(fd)), false)

	var b strings.Builder
	b.WriteString("namespace Generated.C18Facts\n\n")
	fmt.Fprintf(&b, "def successState : Nat := %d\ndef errorState : Nat := %d\ndef unknownState : Nat := %d\n\n", consts["SuccessState"], consts["ErrorState"], consts["UnknownState"])
	b.WriteString("/-- middleware.go defaultResultStateChecker, symbolically evaluated into a decision tree. -/\n")
	fmt.Fprintf(&b, "def defaultChecker (code : Int) : Nat :=\n  %s\n\n", tree)
	b.WriteString("/-- auto-read sites (`if … { … ToBytes() … }`): the status boundaries b (\"code ≥ b\") their conditions test. -/\n")
	fmt.Fprintf(&b, "def autoReadSites : List (String × List Int) := [%s]\n\n", strings.Join(sites, ", "))
	b.WriteString("/-- parseResponseBody (+ helpers, one level): the status codes it compares with == / !=. -/\n")
	fmt.Fprintf(&b, "def parseStatusPoints : List Int := %s\n\n", points)
	b.WriteString("end Generated.C18Facts\n")
	return b.String(), nil
}
