package main

// C14 facts: the switch arms of compress.NewCompressReader, the decoder library each lazy
// reader constructs, and — for each of the three protocol stacks — the shape of the request-side
// "ask for gzip" condition and of the response-side decoding branch (gzip test, AutoDecompression
// test, guard, header rewrite, body assignment). Shapes are classified structurally (receiver
// and local-variable names do not matter); anything unclassifiable makes the extractor REFUSE.

import (
	"bytes"
	"fmt"
	"go/ast"
	"go/printer"
	"go/token"
	"strconv"
	"strings"
)

func init() { register("C14Facts", c14Facts) }

func c14Print(c *ctx, n ast.Node) string {
	var b bytes.Buffer
	printer.Fprint(&b, c.fset, n)
	return b.String()
}

func c14Str(e ast.Expr) (string, bool) {
	bl, ok := e.(*ast.BasicLit)
	if !ok || bl.Kind != token.STRING {
		return "", false
	}
	s, err := strconv.Unquote(bl.Value)
	return s, err == nil
}

// c14HeaderGet recognises `X.Header.Get("K")` and returns K.
func c14HeaderGet(e ast.Expr) (string, bool) {
	call, ok := e.(*ast.CallExpr)
	if !ok || len(call.Args) != 1 {
		return "", false
	}
	sel, ok := call.Fun.(*ast.SelectorExpr)
	if !ok || sel.Sel.Name != "Get" {
		return "", false
	}
	hs, ok := sel.X.(*ast.SelectorExpr)
	if !ok || hs.Sel.Name != "Header" {
		return "", false
	}
	return c14Str(call.Args[0])
}

func c14LastSel(e ast.Expr) string {
	if s, ok := e.(*ast.SelectorExpr); ok {
		return s.Sel.Name
	}
	return ""
}

func c14Conjuncts(e ast.Expr) []ast.Expr {
	if p, ok := e.(*ast.ParenExpr); ok {
		return c14Conjuncts(p.X)
	}
	if b, ok := e.(*ast.BinaryExpr); ok && b.Op == token.LAND {
		return append(c14Conjuncts(b.X), c14Conjuncts(b.Y)...)
	}
	return []ast.Expr{e}
}

// ---- NewCompressReader ------------------------------------------------------------------

func c14Arms(c *ctx) (arms [][2]string, err error) {
	fd, err := c.funcDecl("internal/compress", "", "NewCompressReader")
	if err != nil {
		return nil, err
	}
	if fd.Type.Params == nil || len(fd.Type.Params.List) != 2 || len(fd.Type.Params.List[1].Names) != 1 {
		return nil, fmt.Errorf("NewCompressReader: unexpected parameter list")
	}
	param := fd.Type.Params.List[1].Names[0].Name
	if len(fd.Body.List) != 2 {
		return nil, fmt.Errorf("NewCompressReader: body is not `switch …; return nil` (%d statements)", len(fd.Body.List))
	}
	sw, ok := fd.Body.List[0].(*ast.SwitchStmt)
	if !ok || sw.Init != nil {
		return nil, fmt.Errorf("NewCompressReader: first statement is not a plain switch")
	}
	if id, ok := sw.Tag.(*ast.Ident); !ok || id.Name != param {
		return nil, fmt.Errorf("NewCompressReader: switch tag is %s, not the encoding parameter", c14Print(c, sw.Tag))
	}
	ret, ok := fd.Body.List[1].(*ast.ReturnStmt)
	if !ok || len(ret.Results) != 1 || c14Print(c, ret.Results[0]) != "nil" {
		return nil, fmt.Errorf("NewCompressReader: does not end in `return nil`")
	}
	for _, st := range sw.Body.List {
		cc := st.(*ast.CaseClause)
		if cc.List == nil {
			return nil, fmt.Errorf("NewCompressReader: default clause")
		}
		if len(cc.Body) != 1 {
			return nil, fmt.Errorf("NewCompressReader: case body with %d statements", len(cc.Body))
		}
		r, ok := cc.Body[0].(*ast.ReturnStmt)
		if !ok || len(r.Results) != 1 {
			return nil, fmt.Errorf("NewCompressReader: case body is not a return")
		}
		call, ok := r.Results[0].(*ast.CallExpr)
		if !ok || len(call.Args) != 1 {
			return nil, fmt.Errorf("NewCompressReader: case returns %s", c14Print(c, r.Results[0]))
		}
		ctor, ok := call.Fun.(*ast.Ident)
		if !ok {
			return nil, fmt.Errorf("NewCompressReader: constructor %s", c14Print(c, call.Fun))
		}
		for _, e := range cc.List {
			tok, ok := c14Str(e)
			if !ok {
				return nil, fmt.Errorf("NewCompressReader: case label %s is not a string literal", c14Print(c, e))
			}
			arms = append(arms, [2]string{tok, ctor.Name})
		}
	}
	return arms, nil
}

// c14ReaderLib: which `pkg.NewReader` the Read method of a lazy reader calls, with pkg resolved
// to its import path (deflate: compress/flate = raw deflate, not compress/zlib).
func c14ReaderLib(c *ctx, recv string) (string, error) {
	fd, err := c.funcDecl("internal/compress", recv, "Read")
	if err != nil {
		return "", err
	}
	fs, _ := c.files("internal/compress")
	var file *ast.File
	for _, f := range fs {
		for _, d := range f.Decls {
			if d == ast.Decl(fd) {
				file = f
			}
		}
	}
	var found []string
	ast.Inspect(fd.Body, func(n ast.Node) bool {
		call, ok := n.(*ast.CallExpr)
		if !ok {
			return true
		}
		sel, ok := call.Fun.(*ast.SelectorExpr)
		if !ok || sel.Sel.Name != "NewReader" {
			return true
		}
		pkg, ok := sel.X.(*ast.Ident)
		if !ok {
			return true
		}
		path := ""
		for _, im := range file.Imports {
			p, _ := strconv.Unquote(im.Path.Value)
			name := p[strings.LastIndex(p, "/")+1:]
			if im.Name != nil {
				name = im.Name.Name
			}
			if name == pkg.Name {
				path = p
			}
		}
		found = append(found, path)
		return true
	})
	if len(found) != 1 || found[0] == "" {
		return "", fmt.Errorf("%s.Read: expected exactly one pkg.NewReader call, found %v", recv, found)
	}
	return found[0], nil
}

// ---- request side ----------------------------------------------------------------------

func c14AskConds(c *ctx, dir, recv, fn string) ([]string, error) {
	fd, err := c.funcDecl(dir, recv, fn)
	if err != nil {
		return nil, err
	}
	var hits []*ast.IfStmt
	ast.Inspect(fd.Body, func(n ast.Node) bool {
		is, ok := n.(*ast.IfStmt)
		if !ok {
			return true
		}
		for _, st := range is.Body.List {
			as, ok := st.(*ast.AssignStmt)
			if !ok || len(as.Lhs) != 1 || len(as.Rhs) != 1 {
				continue
			}
			name := c14LastSel(as.Lhs[0])
			if id, ok := as.Lhs[0].(*ast.Ident); ok {
				name = id.Name
			}
			if name == "requestedGzip" && c14Print(c, as.Rhs[0]) == "true" {
				hits = append(hits, is)
			}
		}
		return true
	})
	if len(hits) != 1 {
		return nil, fmt.Errorf("%s.%s: %d `if … { requestedGzip = true }` statements", recv, fn, len(hits))
	}
	var out []string
	for _, e := range c14Conjuncts(hits[0].Cond) {
		k, err := c14AskConjunct(c, e)
		if err != nil {
			return nil, fmt.Errorf("%s.%s: %v", recv, fn, err)
		}
		out = append(out, k)
	}
	return out, nil
}

func c14AskConjunct(c *ctx, e ast.Expr) (string, error) {
	if u, ok := e.(*ast.UnaryExpr); ok && u.Op == token.NOT {
		switch strings.ToLower(c14LastSel(u.X)) {
		case "disablecompression":
			return "notDisabled", nil
		case "ishead":
			return "notHead", nil
		}
	}
	if b, ok := e.(*ast.BinaryExpr); ok {
		if k, ok := c14HeaderGet(b.X); ok && b.Op == token.EQL {
			if s, ok := c14Str(b.Y); ok && s == "" {
				return "noHeader:" + k, nil
			}
		}
		if c14LastSel(b.X) == "Method" && b.Op == token.NEQ {
			if s, ok := c14Str(b.Y); ok && s == "HEAD" {
				return "notHead", nil
			}
			if c14Print(c, b.Y) == "http.MethodHead" {
				return "notHead", nil
			}
		}
	}
	return "", fmt.Errorf("unclassified conjunct `%s` in the ask-for-gzip condition", c14Print(c, e))
}

// ---- response side ---------------------------------------------------------------------

type c14Site struct {
	gzipFlag    string
	gzipTest    string
	gzipToken   string
	gzipEffects []string
	autoConds   []string
	autoGuard   string
	autoEffects []string
	elseEffects []string
	before      string
	after       string
}

// c14Effect classifies one statement of a decoding block.
func c14Effect(c *ctx, st ast.Stmt, readerVar string) (string, error) {
	switch s := st.(type) {
	case *ast.ExprStmt:
		if call, ok := s.X.(*ast.CallExpr); ok && len(call.Args) == 1 {
			if sel, ok := call.Fun.(*ast.SelectorExpr); ok && sel.Sel.Name == "Del" && c14LastSel(sel.X) == "Header" {
				if k, ok := c14Str(call.Args[0]); ok {
					return "del:" + k, nil
				}
			}
		}
	case *ast.AssignStmt:
		if len(s.Lhs) == 1 && len(s.Rhs) == 1 && s.Tok == token.ASSIGN {
			switch f := c14LastSel(s.Lhs[0]); f {
			case "ContentLength":
				return "ContentLength=" + c14Print(c, s.Rhs[0]), nil
			case "Uncompressed":
				return "Uncompressed=" + c14Print(c, s.Rhs[0]), nil
			case "Body", "responseBody":
				return "set:" + f + ":" + c14Source(c, s.Rhs[0], readerVar), nil
			}
		}
	}
	return "", fmt.Errorf("unclassified statement `%s` in a decoding branch", c14Print(c, st))
}

// c14Source names where a body comes from, without local-variable names: "reader" = the result
// of compress.NewCompressReader (called in place or bound by the guarding if), "local" = any
// other local (the framing-level body).
func c14Source(c *ctx, e ast.Expr, readerVar string) string {
	switch x := e.(type) {
	case *ast.Ident:
		if readerVar != "" && x.Name == readerVar {
			return "reader"
		}
		return "local"
	case *ast.SelectorExpr:
		return "field:" + x.Sel.Name
	case *ast.CallExpr:
		if c14Print(c, x.Fun) == "compress.NewCompressReader" {
			return "reader"
		}
		return "call:" + c14Print(c, x.Fun)
	case *ast.UnaryExpr:
		if cl, ok := x.X.(*ast.CompositeLit); ok && x.Op == token.AND {
			return "new:" + c14Print(c, cl.Type)
		}
	case *ast.CompositeLit:
		return "lit:" + c14Print(c, x.Type)
	}
	return "expr:" + c14Print(c, e)
}

func c14Effects(c *ctx, l []ast.Stmt, readerVar string) ([]string, error) {
	var out []string
	for _, st := range l {
		e, err := c14Effect(c, st, readerVar)
		if err != nil {
			return nil, err
		}
		out = append(out, e)
	}
	return out, nil
}

func c14SiteFacts(c *ctx, dir, recv, fn string) (*c14Site, error) {
	fd, err := c.funcDecl(dir, recv, fn)
	if err != nil {
		return nil, err
	}
	where := recv + "." + fn
	// the chain: if <flag> && <gzip test> {…} else if <auto…> {…} [else {…}]
	type hit struct {
		is    *ast.IfStmt
		block *ast.BlockStmt
		idx   int
	}
	var hits []hit
	ast.Inspect(fd.Body, func(n ast.Node) bool {
		bl, ok := n.(*ast.BlockStmt)
		if !ok {
			return true
		}
		for i, st := range bl.List {
			is, ok := st.(*ast.IfStmt)
			if !ok || is.Init != nil {
				continue
			}
			if strings.Contains(c14Print(c, is.Cond), `"gzip"`) {
				hits = append(hits, hit{is, bl, i})
			}
		}
		return true
	})
	if len(hits) != 1 {
		return nil, fmt.Errorf("%s: %d if-statements testing \"gzip\"", where, len(hits))
	}
	h := hits[0]
	s := &c14Site{}
	cj := c14Conjuncts(h.is.Cond)
	if len(cj) != 2 {
		return nil, fmt.Errorf("%s: gzip condition `%s` is not `flag && test`", where, c14Print(c, h.is.Cond))
	}
	s.gzipFlag = c14LastSel(cj[0])
	if s.gzipFlag == "" {
		return nil, fmt.Errorf("%s: gzip flag `%s` is not a field", where, c14Print(c, cj[0]))
	}
	switch t := cj[1].(type) {
	case *ast.CallExpr:
		if len(t.Args) == 2 && strings.HasSuffix(c14Print(c, t.Fun), "EqualFold") {
			k, ok1 := c14HeaderGet(t.Args[0])
			tok, ok2 := c14Str(t.Args[1])
			if ok1 && ok2 && k == "Content-Encoding" {
				s.gzipTest, s.gzipToken = c14Print(c, t.Fun), tok
			}
		}
	case *ast.BinaryExpr:
		k, ok1 := c14HeaderGet(t.X)
		tok, ok2 := c14Str(t.Y)
		if ok1 && ok2 && k == "Content-Encoding" && t.Op == token.EQL {
			s.gzipTest, s.gzipToken = "==", tok
		}
	}
	if s.gzipTest == "" {
		return nil, fmt.Errorf("%s: unclassified gzip test `%s`", where, c14Print(c, cj[1]))
	}
	if s.gzipEffects, err = c14Effects(c, h.is.Body.List, ""); err != nil {
		return nil, fmt.Errorf("%s: %v", where, err)
	}
	ei, ok := h.is.Else.(*ast.IfStmt)
	if !ok || ei.Init != nil {
		return nil, fmt.Errorf("%s: the gzip branch has no `else if` (AutoDecompression) branch", where)
	}
	for _, e := range c14Conjuncts(ei.Cond) {
		if u, ok := e.(*ast.UnaryExpr); ok && u.Op == token.NOT && c14LastSel(u.X) == "isHead" {
			s.autoConds = append(s.autoConds, "notHead")
		} else if c14LastSel(e) == "AutoDecompression" {
			s.autoConds = append(s.autoConds, "auto")
		} else {
			return nil, fmt.Errorf("%s: unclassified conjunct `%s` in the AutoDecompression condition", where, c14Print(c, e))
		}
	}
	// inside: either `if cr := compress.NewCompressReader(_, X.Header.Get("Content-Encoding")); cr != nil {…}`
	// or `ce := X.Header.Get("Content-Encoding"); if ce != "" {…}`
	var inner *ast.IfStmt
	readerVar := ""
	switch len(ei.Body.List) {
	case 1:
		inner, _ = ei.Body.List[0].(*ast.IfStmt)
		if inner != nil && inner.Init != nil {
			as, ok := inner.Init.(*ast.AssignStmt)
			good := ok && len(as.Rhs) == 1 && len(as.Lhs) == 1
			if good {
				call, ok := as.Rhs[0].(*ast.CallExpr)
				good = ok && c14Print(c, call.Fun) == "compress.NewCompressReader" && len(call.Args) == 2
				if good {
					k, ok := c14HeaderGet(call.Args[1])
					good = ok && k == "Content-Encoding"
				}
			}
			if good && c14Print(c, inner.Cond) == c14Print(c, as.Lhs[0])+" != nil" {
				s.autoGuard = "reader-exists"
				readerVar = c14Print(c, as.Lhs[0])
			}
		}
	case 2:
		as, ok := ei.Body.List[0].(*ast.AssignStmt)
		inner, _ = ei.Body.List[1].(*ast.IfStmt)
		if ok && inner != nil && inner.Init == nil && len(as.Lhs) == 1 && len(as.Rhs) == 1 {
			if k, ok := c14HeaderGet(as.Rhs[0]); ok && k == "Content-Encoding" && c14Print(c, inner.Cond) == c14Print(c, as.Lhs[0])+` != ""` {
				s.autoGuard = "encoding-nonempty"
			}
		}
	}
	if s.autoGuard == "" || inner == nil || inner.Else != nil {
		return nil, fmt.Errorf("%s: unclassified body of the AutoDecompression branch", where)
	}
	if s.autoEffects, err = c14Effects(c, inner.Body.List, readerVar); err != nil {
		return nil, fmt.Errorf("%s: %v", where, err)
	}
	switch e := ei.Else.(type) {
	case nil:
	case *ast.BlockStmt:
		if s.elseEffects, err = c14Effects(c, e.List, ""); err != nil {
			return nil, fmt.Errorf("%s: %v", where, err)
		}
	default:
		return nil, fmt.Errorf("%s: a third `else if` in the decoding chain", where)
	}
	// body assignments immediately before / after the chain (HTTP/3 goes through s.responseBody)
	if h.idx > 0 {
		if e, err := c14Effect(c, h.block.List[h.idx-1], ""); err == nil && strings.HasPrefix(e, "set:") {
			s.before = e
		}
	}
	if h.idx+1 < len(h.block.List) {
		if e, err := c14Effect(c, h.block.List[h.idx+1], ""); err == nil && strings.HasPrefix(e, "set:") {
			s.after = e
		}
	}
	return s, nil
}

// ---- rendering -------------------------------------------------------------------------

func c14LeanStrs(l []string) string {
	q := make([]string, len(l))
	for i, s := range l {
		q[i] = strconv.Quote(s)
	}
	return "[" + strings.Join(q, ", ") + "]"
}

func c14Facts(c *ctx) (string, error) {
	arms, err := c14Arms(c)
	if err != nil {
		return "", err
	}
	var b strings.Builder
	b.WriteString("/-! C14 facts: compress.NewCompressReader switch arms, decoder libraries, and the shape of the\nrequest-side and response-side compression logic of the three protocol stacks. -/\nnamespace Generated.C14Facts\n\n")
	b.WriteString("/-- `case <token>: return <constructor>(body)`; the function ends in `return nil`. -/\n")
	b.WriteString("def arms : List (List UInt8 × String) := [\n")
	for i, a := range arms {
		sep := ","
		if i == len(arms)-1 {
			sep = ""
		}
		fmt.Fprintf(&b, "  (%s, %s)%s\n", leanBytes(a[0]), strconv.Quote(a[1]), sep)
	}
	b.WriteString("]\n\n")
	b.WriteString("/-- reader type → import path of the `NewReader` its Read method calls -/\ndef libs : List (String × String) := [\n")
	readers := []string{"GzipReader", "DeflateReader", "BrotliReader", "ZstdReader"}
	for i, r := range readers {
		lib, err := c14ReaderLib(c, r)
		if err != nil {
			return "", err
		}
		sep := ","
		if i == len(readers)-1 {
			sep = ""
		}
		fmt.Fprintf(&b, "  (%s, %s)%s\n", strconv.Quote(r), strconv.Quote(lib), sep)
	}
	b.WriteString("]\n\n")
	type site struct{ name, dir, askRecv, askFn, respRecv, respFn string }
	sites := []site{
		{"h1", "", "persistConn", "roundTrip", "persistConn", "readLoop"},
		{"h2", "internal/http2", "ClientConn", "roundTrip", "clientConnReadLoop", "handleResponse"},
		{"h3", "internal/http3", "requestStream", "SendRequestHeader", "requestStream", "ReadResponse"},
	}
	b.WriteString("structure Site where\n  ask : List String\n  gzipFlag : String\n  gzipTest : String\n  gzipToken : List UInt8\n  gzipEffects : List String\n  autoConds : List String\n  autoGuard : String\n  autoEffects : List String\n  elseEffects : List String\n  before : String\n  after : String\n  deriving DecidableEq, Repr\n\n")
	for _, st := range sites {
		ask, err := c14AskConds(c, st.dir, st.askRecv, st.askFn)
		if err != nil {
			return "", err
		}
		s, err := c14SiteFacts(c, st.dir, st.respRecv, st.respFn)
		if err != nil {
			return "", err
		}
		fmt.Fprintf(&b, "/-- %s: %s.%s (request) / %s.%s (response) -/\ndef %s : Site where\n", st.dir, st.askRecv, st.askFn, st.respRecv, st.respFn, st.name)
		fmt.Fprintf(&b, "  ask := %s\n  gzipFlag := %s\n  gzipTest := %s\n  gzipToken := %s\n  gzipEffects := %s\n  autoConds := %s\n  autoGuard := %s\n  autoEffects := %s\n  elseEffects := %s\n  before := %s\n  after := %s\n\n",
			c14LeanStrs(ask), strconv.Quote(s.gzipFlag), strconv.Quote(s.gzipTest), leanBytes(s.gzipToken), c14LeanStrs(s.gzipEffects),
			c14LeanStrs(s.autoConds), strconv.Quote(s.autoGuard), c14LeanStrs(s.autoEffects), c14LeanStrs(s.elseEffects),
			strconv.Quote(s.before), strconv.Quote(s.after))
	}
	b.WriteString("end Generated.C14Facts\n")
	return b.String(), nil
}
