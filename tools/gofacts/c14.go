package main

// C14 facts: the switch arms of compress.NewCompressReader, the decoder library each lazy
// reader constructs, and — for each of the three protocol stacks — the shape of the request-side
// "ask for gzip" condition and of the response-side decoding branch (gzip test, AutoDecompression
// test, guard, header rewrite, body assignment). Shapes are classified structurally (receiver
// and local-variable names do not matter); anything unclassifiable makes the extractor REFUSE.

import (
	"bytes"
	"fmt"
	"go/ast"
	"go/printer"
	"go/token"
	"strconv"
	"strings"
)

func init() { register("C14Facts", c14Facts) }

func c14Print(c *ctx, n ast.Node) string {
	var b bytes.Buffer
	printer.Fprint(&b, c.fset, n)
	return b.String()
}

func c14Str(e ast.Expr) (string, bool) {
	bl, ok := e.(*ast.BasicLit)
	if !ok || bl.Kind != token.STRING {
		return "", false
	}
	s, err := strconv.Unquote(bl.Value)
	return s, err == nil
}

// c14HeaderGet recognises `X.Header.Get("K")` and returns K.
func c14HeaderGet(e ast.Expr) (string, bool) {
	call, ok := e.(*ast.CallExpr)
	if !ok || len(call.Args) != 1 {
		return "", false
	}
	sel, ok := call.Fun.(*ast.SelectorExpr)
	if ok && sel.Sel.Name == "ContentEncoding" {
		// compress.ContentEncoding(resp.Header): the Content-Encoding field lines as one value
		// (fixes/C14-7) - the same fact: this expression reads the response's Content-Encoding
		if hs, ok := call.Args[0].(*ast.SelectorExpr); ok && hs.Sel.Name == "Header" {
			return "Content-Encoding", true
		}
		return "", false
	}
	if !ok || sel.Sel.Name != "Get" {
		return "", false
	}
	hs, ok := sel.X.(*ast.SelectorExpr)
	if !ok || hs.Sel.Name != "Header" {
		return "", false
	}
	return c14Str(call.Args[0])
}

func c14LastSel(e ast.Expr) string {
	if s, ok := e.(*ast.SelectorExpr); ok {
		return s.Sel.Name
	}
	return ""
}

func c14Conjuncts(e ast.Expr) []ast.Expr {
	if p, ok := e.(*ast.ParenExpr); ok {
		return c14Conjuncts(p.X)
	}
	if b, ok := e.(*ast.BinaryExpr); ok && b.Op == token.LAND {
		return append(c14Conjuncts(b.X), c14Conjuncts(b.Y)...)
	}
	return []ast.Expr{e}
}

// ---- NewCompressReader ------------------------------------------------------------------

func c14Arms(c *ctx) (arms [][2]string, err error) {
	fd, err := c.funcDecl("internal/compress", "", "NewCompressReader")
	if err != nil {
		return nil, err
	}
	if fd.Type.Params == nil || len(fd.Type.Params.List) != 2 || len(fd.Type.Params.List[1].Names) != 1 {
		return nil, fmt.Errorf("NewCompressReader: unexpected parameter list")
	}
	param := fd.Type.Params.List[1].Names[0].Name
	if len(fd.Body.List) != 2 {
		return nil, fmt.Errorf("NewCompressReader: body is not `switch …; return nil` (%d statements)", len(fd.Body.List))
	}
	sw, ok := fd.Body.List[0].(*ast.SwitchStmt)
	if !ok || sw.Init != nil {
		return nil, fmt.Errorf("NewCompressReader: first statement is not a plain switch")
	}
	if id, ok := sw.Tag.(*ast.Ident); !ok || id.Name != param {
		return nil, fmt.Errorf("NewCompressReader: switch tag is %s, not the encoding parameter", c14Print(c, sw.Tag))
	}
	ret, ok := fd.Body.List[1].(*ast.ReturnStmt)
	if !ok || len(ret.Results) != 1 || c14Print(c, ret.Results[0]) != "nil" {
		return nil, fmt.Errorf("NewCompressReader: does not end in `return nil`")
	}
	for _, st := range sw.Body.List {
		cc := st.(*ast.CaseClause)
		if cc.List == nil {
			return nil, fmt.Errorf("NewCompressReader: default clause")
		}
		if len(cc.Body) != 1 {
			return nil, fmt.Errorf("NewCompressReader: case body with %d statements", len(cc.Body))
		}
		r, ok := cc.Body[0].(*ast.ReturnStmt)
		if !ok || len(r.Results) != 1 {
			return nil, fmt.Errorf("NewCompressReader: case body is not a return")
		}
		call, ok := r.Results[0].(*ast.CallExpr)
		if !ok || len(call.Args) != 1 {
			return nil, fmt.Errorf("NewCompressReader: case returns %s", c14Print(c, r.Results[0]))
		}
		ctor, ok := call.Fun.(*ast.Ident)
		if !ok {
			return nil, fmt.Errorf("NewCompressReader: constructor %s", c14Print(c, call.Fun))
		}
		for _, e := range cc.List {
			tok, ok := c14Str(e)
			if !ok {
				return nil, fmt.Errorf("NewCompressReader: case label %s is not a string literal", c14Print(c, e))
			}
			arms = append(arms, [2]string{tok, ctor.Name})
		}
	}
	return arms, nil
}

// c14ReaderLib: which `pkg.NewReader` the Read method of a lazy reader calls, with pkg resolved
// to its import path (deflate: compress/flate = raw deflate, not compress/zlib).
func c14ReaderLib(c *ctx, recv string) (string, error) {
	fd, err := c.funcDecl("internal/compress", recv, "Read")
	if err != nil {
		return "", err
	}
	fs, _ := c.files("internal/compress")
	var file *ast.File
	for _, f := range fs {
		for _, d := range f.Decls {
			if d == ast.Decl(fd) {
				file = f
			}
		}
	}
	var found []string
	var scan func(body *ast.BlockStmt, depth int)
	scan = func(body *ast.BlockStmt, depth int) {
		ast.Inspect(body, func(n ast.Node) bool {
			call, ok := n.(*ast.CallExpr)
			if !ok {
				return true
			}
			if id, ok := call.Fun.(*ast.Ident); ok && depth == 0 && !ast.IsExported(id.Name) {
				// an unexported helper of the package (e.g. a pooled constructor): one level deep
				if h, err := c.funcDecl("internal/compress", "", id.Name); err == nil && h.Body != nil {
					scan(h.Body, 1)
				}
				return true
			}
			sel, ok := call.Fun.(*ast.SelectorExpr)
			if !ok || sel.Sel.Name != "NewReader" {
				return true
			}
			pkg, ok := sel.X.(*ast.Ident)
			if !ok {
				return true
			}
			path := ""
			for _, im := range file.Imports {
				p, _ := strconv.Unquote(im.Path.Value)
				name := p[strings.LastIndex(p, "/")+1:]
				if im.Name != nil {
					name = im.Name.Name
				}
				if name == pkg.Name {
					path = p
				}
			}
			found = append(found, path)
			return true
		})
	}
	scan(fd.Body, 0)
	if len(found) != 1 || found[0] == "" {
		return "", fmt.Errorf("%s.Read: expected exactly one pkg.NewReader call, found %v", recv, found)
	}
	return found[0], nil
}

// ---- a function with its single-assignment locals -----------------------------------------

// errAbstain: the construct the fact is about could not be LOCATED in the shape family the
// extractor knows (if/else-if chain or tagless switch, helpers one level deep, hoisted locals,
// nested ifs). The fact is then reported as absent (`none`) - no claim, no alarm: every part of
// these shapes is also pinned behaviourally by the C14 lanes. A construct that IS located but
// contains something unclassifiable is reported with an "other:…" marker, which no bridging
// theorem accepts.
type errAbstain struct{ why string }

func (e errAbstain) Error() string { return e.why }

type c14Fn struct {
	c      *ctx
	dir    string
	fd     *ast.FuncDecl
	locals map[string]ast.Expr // x := e / var x = e, defined once and never reassigned
	depth  int                 // > 0 while reading an inlined helper condition (no further inlining)
	inl    map[*ast.CallExpr]ast.Expr // helper calls already inlined (their locals are merged once)
}

func c14NewFn(c *ctx, dir, recv, name string) (*c14Fn, error) {
	fd, err := c.funcDecl(dir, recv, name)
	if err != nil {
		return nil, errAbstain{err.Error()}
	}
	return c14FnOf(c, dir, fd), nil
}

// c14FnOf: a function with its single-assignment locals.
func c14FnOf(c *ctx, dir string, fd *ast.FuncDecl) *c14Fn {
	f := &c14Fn{c: c, dir: dir, fd: fd, locals: map[string]ast.Expr{}}
	count := map[string]int{}
	ast.Inspect(fd.Body, func(n ast.Node) bool {
		switch s := n.(type) {
		case *ast.AssignStmt:
			for i, l := range s.Lhs {
				id, ok := l.(*ast.Ident)
				if !ok {
					continue
				}
				if s.Tok == token.DEFINE && len(s.Lhs) == len(s.Rhs) {
					count[id.Name]++
					f.locals[id.Name] = s.Rhs[i]
				} else {
					count[id.Name] += 2 // reassigned or multi-value: not a pure alias
				}
			}
		case *ast.ValueSpec:
			for i, id := range s.Names {
				if len(s.Values) == len(s.Names) {
					count[id.Name]++
					f.locals[id.Name] = s.Values[i]
				} else {
					count[id.Name] += 2
				}
			}
		case *ast.IncDecStmt:
			if id, ok := s.X.(*ast.Ident); ok {
				count[id.Name] += 2
			}
		}
		return true
	})
	for k, n := range count {
		if n != 1 {
			delete(f.locals, k)
		}
	}
	return f
}

// inlineBool: e is a call of an unexported function or method of the same package whose body is
// `[x := …]* return <expr>` (a condition extracted into a helper): the returned expression, to be
// read in place of the call - by meaning: the classifiers look at selectors, header keys, literals
// and never at receiver / parameter names, so no substitution is needed. The helper's
// single-assignment locals become resolvable (unless a name is already taken here). One level deep.
func (f *c14Fn) inlineBool(e ast.Expr) (ast.Expr, bool) {
	if f.depth > 0 {
		return nil, false
	}
	call, ok := f.resolve(e).(*ast.CallExpr)
	if !ok {
		return nil, false
	}
	if r, done := f.inl[call]; done {
		return r, r != nil
	}
	if f.inl == nil {
		f.inl = map[*ast.CallExpr]ast.Expr{}
	}
	f.inl[call] = nil // until proved inlinable
	var name, recv string
	switch fn := call.Fun.(type) {
	case *ast.Ident:
		name = fn.Name
	case *ast.SelectorExpr:
		if _, isIdent := fn.X.(*ast.Ident); !isIdent {
			if _, isSel := fn.X.(*ast.SelectorExpr); !isSel {
				return nil, false
			}
		}
		name, recv = fn.Sel.Name, "*"
	default:
		return nil, false
	}
	if name == "" || !(name[0] >= 'a' && name[0] <= 'z') {
		return nil, false
	}
	h := f.helper(name, recv)
	if h == nil || h.fd.Type.Results == nil || len(h.fd.Type.Results.List) != 1 {
		return nil, false
	}
	var ret ast.Expr
	for i, st := range h.fd.Body.List {
		switch x := st.(type) {
		case *ast.AssignStmt:
			if x.Tok != token.DEFINE {
				return nil, false
			}
		case *ast.DeclStmt:
		case *ast.ReturnStmt:
			if i != len(h.fd.Body.List)-1 || len(x.Results) != 1 {
				return nil, false
			}
			ret = x.Results[0]
		default:
			return nil, false
		}
	}
	if ret == nil {
		return nil, false
	}
	for k, v := range h.locals {
		if _, taken := f.locals[k]; taken {
			return nil, false
		}
		_ = v
	}
	for k, v := range h.locals {
		f.locals[k] = v
	}
	f.inl[call] = ret
	return ret, true
}

// resolve follows a local alias to the expression it was defined as (and strips parentheses).
func (f *c14Fn) resolve(e ast.Expr) ast.Expr {
	for i := 0; i < 4; i++ {
		switch x := e.(type) {
		case *ast.ParenExpr:
			e = x.X
			continue
		case *ast.Ident:
			if d, ok := f.locals[x.Name]; ok {
				e = d
				continue
			}
		}
		break
	}
	return e
}

func (f *c14Fn) print(n ast.Node) string { return c14Print(f.c, n) }

func (f *c14Fn) headerGet(e ast.Expr) (string, bool) { return c14HeaderGet(f.resolve(e)) }

func (f *c14Fn) str(e ast.Expr) (string, bool) { return c14Str(f.resolve(e)) }

// conjuncts flattens && (through parentheses and boolean locals).
func (f *c14Fn) conjuncts(e ast.Expr) []ast.Expr {
	r := f.resolve(e)
	if b, ok := r.(*ast.BinaryExpr); ok && b.Op == token.LAND {
		return append(f.conjuncts(b.X), f.conjuncts(b.Y)...)
	}
	if body, ok := f.inlineBool(e); ok { // a condition extracted into a same-package helper
		f.depth++
		out := f.conjuncts(body)
		f.depth--
		return out
	}
	return []ast.Expr{e}
}

// isHeadTest: `X.Method == "HEAD"` / `== http.MethodHead` / a field or local called isHead.
func (f *c14Fn) isHeadTest(e ast.Expr) bool {
	if c14LastSel(e) == "isHead" {
		return true
	}
	if id, ok := e.(*ast.Ident); ok && id.Name == "isHead" {
		if _, aliased := f.locals[id.Name]; !aliased {
			return true
		}
	}
	r := f.resolve(e)
	if c14LastSel(r) == "isHead" {
		return true
	}
	if b, ok := r.(*ast.BinaryExpr); ok && b.Op == token.EQL {
		for _, p := range [][2]ast.Expr{{b.X, b.Y}, {b.Y, b.X}} {
			if c14LastSel(f.resolve(p[0])) == "Method" {
				if s, ok := f.str(p[1]); ok && s == "HEAD" {
					return true
				}
				if f.print(p[1]) == "http.MethodHead" {
					return true
				}
			}
		}
	}
	return false
}

// notHeadTest: `!isHead…` or `X.Method != "HEAD"`.
func (f *c14Fn) notHeadTest(e ast.Expr) bool {
	r := f.resolve(e)
	if u, ok := r.(*ast.UnaryExpr); ok && u.Op == token.NOT {
		return f.isHeadTest(u.X)
	}
	if b, ok := r.(*ast.BinaryExpr); ok && b.Op == token.NEQ {
		eq := *b
		eq.Op = token.EQL
		return f.isHeadTest(&eq)
	}
	return false
}

// ---- request side ----------------------------------------------------------------------

// c14AskConds finds where `requestedGzip` becomes true: `if A && B … { requestedGzip = true }`
// (possibly inside further ifs: their conditions are conjuncts too) or `requestedGzip = A && B …`.
func c14AskConds(c *ctx, dir, recv, fn string) ([]string, error) {
	f, err := c14NewFn(c, dir, recv, fn)
	if err != nil {
		return nil, err
	}
	var found [][]ast.Expr
	var walk func(l []ast.Stmt, encl []ast.Expr)
	isFlag := func(e ast.Expr) bool {
		if id, ok := e.(*ast.Ident); ok {
			return id.Name == "requestedGzip"
		}
		return c14LastSel(e) == "requestedGzip"
	}
	walk = func(l []ast.Stmt, encl []ast.Expr) {
		for _, st := range l {
			switch s := st.(type) {
			case *ast.AssignStmt:
				for i, lhs := range s.Lhs {
					if !isFlag(lhs) || len(s.Lhs) != len(s.Rhs) {
						continue
					}
					switch f.print(s.Rhs[i]) {
					case "true":
						found = append(found, append([]ast.Expr(nil), encl...))
					case "false":
					default:
						found = append(found, append(append([]ast.Expr(nil), encl...), s.Rhs[i]))
					}
				}
			case *ast.IfStmt:
				walk(s.Body.List, append(append([]ast.Expr(nil), encl...), s.Cond))
				// an else branch negates the condition: not a shape we read
			case *ast.BlockStmt:
				walk(s.List, encl)
			}
		}
	}
	walk(f.fd.Body.List, nil)
	if len(found) != 1 {
		return nil, errAbstain{fmt.Sprintf("%s.%s: %d places set requestedGzip", recv, fn, len(found))}
	}
	var out []string
	for _, cond := range found[0] {
		for _, e := range f.conjuncts(cond) {
			out = append(out, f.askConjunct(e))
		}
	}
	return out, nil
}

func (f *c14Fn) askConjunct(e ast.Expr) string {
	r := f.resolve(e)
	if u, ok := r.(*ast.UnaryExpr); ok && u.Op == token.NOT {
		x := f.resolve(u.X)
		name := c14LastSel(x)
		if id, ok := x.(*ast.Ident); ok {
			name = id.Name
		}
		if strings.EqualFold(name, "disablecompression") {
			return "notDisabled"
		}
	}
	if f.notHeadTest(e) {
		return "notHead"
	}
	if b, ok := r.(*ast.BinaryExpr); ok && b.Op == token.EQL {
		for _, p := range [][2]ast.Expr{{b.X, b.Y}, {b.Y, b.X}} {
			if k, ok := f.headerGet(p[0]); ok {
				if s, ok := f.str(p[1]); ok && s == "" {
					return "noHeader:" + k
				}
			}
		}
	}
	return "other:" + f.print(e)
}

// ---- response side ---------------------------------------------------------------------

type c14Site struct {
	gzipFlag    string
	gzipTest    string
	gzipToken   string
	gzipEffects []string
	autoConds   []string
	autoGuard   string
	autoEffects []string
	elseEffects []string
	before      string
	after       string
}

func (f *c14Fn) isNewCompressReader(e ast.Expr) (*ast.CallExpr, bool) {
	call, ok := f.resolve(e).(*ast.CallExpr)
	if !ok || len(call.Args) != 2 {
		return nil, false
	}
	fun := f.print(call.Fun)
	return call, fun == "compress.NewCompressReader" || fun == "NewCompressReader"
}

// source names where a body comes from, by role: "reader" = the result of
// compress.NewCompressReader, "gzip" = a gzip reader (transport.go gzipReader /
// compress.NewGzipReader), "field:responseBody" = the HTTP/3 stream's body field, "raw" =
// anything else (the framing-level body: a local, bodyEOFSignal, transportResponseBody, …).
func (f *c14Fn) source(e ast.Expr) string {
	if _, ok := f.isNewCompressReader(e); ok {
		return "reader"
	}
	switch x := f.resolve(e).(type) {
	case *ast.SelectorExpr:
		if x.Sel.Name == "responseBody" {
			return "field:responseBody"
		}
	case *ast.CallExpr:
		if fun := f.print(x.Fun); fun == "compress.NewGzipReader" || fun == "NewGzipReader" {
			return "gzip"
		}
	case *ast.UnaryExpr:
		if cl, ok := x.X.(*ast.CompositeLit); ok && x.Op == token.AND && f.print(cl.Type) == "gzipReader" {
			return "gzip"
		}
	}
	return "raw"
}

// effect classifies one statement of a decoding block; a call to an unexported helper of the
// same package is replaced by the statements of its body (one level deep). ok=false: a
// declaration of a local (already recorded as an alias), nothing to report.
func (f *c14Fn) effects(l []ast.Stmt, depth int) []string {
	var out []string
	for _, st := range l {
		switch s := st.(type) {
		case *ast.ExprStmt:
			call, ok := s.X.(*ast.CallExpr)
			if !ok {
				break
			}
			if sel, ok := call.Fun.(*ast.SelectorExpr); ok && sel.Sel.Name == "Del" && c14LastSel(sel.X) == "Header" && len(call.Args) == 1 {
				if k, ok := f.str(call.Args[0]); ok {
					out = append(out, "del:"+k)
					continue
				}
			}
			// helper of the same package, one level deep
			name, recv := "", ""
			switch fun := call.Fun.(type) {
			case *ast.Ident:
				name = fun.Name
			case *ast.SelectorExpr:
				name, recv = fun.Sel.Name, "*"
			}
			if depth == 0 && name != "" && !ast.IsExported(name) {
				if h := f.helper(name, recv); h != nil {
					out = append(out, h.effects(h.fd.Body.List, 1)...)
					continue
				}
			}
		case *ast.AssignStmt:
			if s.Tok == token.DEFINE {
				continue // an alias, followed by resolve
			}
			if len(s.Lhs) == 1 && len(s.Rhs) == 1 && s.Tok == token.ASSIGN {
				switch fld := c14LastSel(s.Lhs[0]); fld {
				case "ContentLength":
					out = append(out, "ContentLength="+f.print(f.resolve(s.Rhs[0])))
					continue
				case "Uncompressed":
					out = append(out, "Uncompressed="+f.print(f.resolve(s.Rhs[0])))
					continue
				case "Body", "responseBody":
					out = append(out, "set:"+fld+":"+f.source(s.Rhs[0]))
					continue
				}
			}
		case *ast.DeclStmt:
			continue
		case *ast.ReturnStmt:
			if depth > 0 && len(s.Results) == 0 {
				continue
			}
		}
		out = append(out, "other:"+f.print(st))
	}
	return out
}

// helper finds an unexported function (recv "") or method (recv "*": any receiver) of the package.
func (f *c14Fn) helper(name, recv string) *c14Fn {
	fs, err := f.c.files(f.dir)
	if err != nil {
		return nil
	}
	var hit *ast.FuncDecl
	n := 0
	for _, file := range fs {
		for _, d := range file.Decls {
			fd, ok := d.(*ast.FuncDecl)
			if !ok || fd.Name.Name != name || fd.Body == nil || (recv == "") != (fd.Recv == nil) {
				continue
			}
			hit = fd
			n++
		}
	}
	if n != 1 {
		return nil
	}
	return c14FnOf(f.c, f.dir, hit)
}

type c14Clause struct {
	cond ast.Expr
	body []ast.Stmt
}

// chain reads an if/else-if chain or a tagless switch as ordered clauses + default.
func (f *c14Fn) chain(st ast.Stmt) (cl []c14Clause, deflt []ast.Stmt, ok bool) {
	switch s := st.(type) {
	case *ast.IfStmt:
		for cur := s; ; {
			cl = append(cl, c14Clause{cur.Cond, cur.Body.List})
			switch e := cur.Else.(type) {
			case nil:
				return cl, nil, true
			case *ast.BlockStmt:
				return cl, e.List, true
			case *ast.IfStmt:
				cur = e
			default:
				return nil, nil, false
			}
		}
	case *ast.SwitchStmt:
		if s.Tag != nil && f.print(s.Tag) != "true" {
			return nil, nil, false
		}
		for _, c := range s.Body.List {
			cc := c.(*ast.CaseClause)
			for _, b := range cc.Body {
				if br, ok := b.(*ast.BranchStmt); ok && br.Tok == token.FALLTHROUGH {
					return nil, nil, false
				}
			}
			switch len(cc.List) {
			case 0:
				deflt = cc.Body
			case 1:
				if deflt != nil {
					return nil, nil, false // a case after default: order no longer the chain's
				}
				cl = append(cl, c14Clause{cc.List[0], cc.Body})
			default:
				return nil, nil, false
			}
		}
		return cl, deflt, true
	}
	return nil, nil, false
}

// gzipTest classifies `EqualFold(Get("Content-Encoding"), tok)` / `Get(…) == tok`.
func (f *c14Fn) gzipTest(e ast.Expr) (test, tok string, ok bool) {
	switch t := f.resolve(e).(type) {
	case *ast.CallExpr:
		if len(t.Args) == 2 && strings.HasSuffix(f.print(t.Fun), "EqualFold") {
			for _, p := range [][2]ast.Expr{{t.Args[0], t.Args[1]}, {t.Args[1], t.Args[0]}} {
				k, ok1 := f.headerGet(p[0])
				tk, ok2 := f.str(p[1])
				if ok1 && ok2 && k == "Content-Encoding" {
					return f.print(t.Fun), tk, true
				}
			}
		}
	case *ast.BinaryExpr:
		if t.Op == token.EQL {
			for _, p := range [][2]ast.Expr{{t.X, t.Y}, {t.Y, t.X}} {
				k, ok1 := f.headerGet(p[0])
				tk, ok2 := f.str(p[1])
				if ok1 && ok2 && k == "Content-Encoding" {
					return "==", tk, true
				}
			}
		}
	}
	return "", "", false
}

func c14SiteFacts(c *ctx, dir, recv, fn string) (*c14Site, error) {
	f, err := c14NewFn(c, dir, recv, fn)
	if err != nil {
		return nil, err
	}
	where := recv + "." + fn
	type hit struct {
		cl    []c14Clause
		deflt []ast.Stmt
		block *ast.BlockStmt
		idx   int
	}
	var hits []hit
	ast.Inspect(f.fd.Body, func(n ast.Node) bool {
		bl, ok := n.(*ast.BlockStmt)
		if !ok {
			return true
		}
		for i, st := range bl.List {
			cl, deflt, ok := f.chain(st)
			if !ok || len(cl) == 0 {
				continue
			}
			for _, e := range f.conjuncts(cl[0].cond) {
				if _, _, ok := f.gzipTest(e); ok {
					hits = append(hits, hit{cl, deflt, bl, i})
					break
				}
			}
		}
		return true
	})
	if len(hits) != 1 {
		return nil, errAbstain{fmt.Sprintf("%s: %d chains whose first condition tests Content-Encoding against a token", where, len(hits))}
	}
	h := hits[0]
	if len(h.cl) != 2 {
		return nil, errAbstain{fmt.Sprintf("%s: decoding chain with %d conditional branches", where, len(h.cl))}
	}
	s := &c14Site{gzipFlag: "<missing>"}
	// branch 1: flag && test (either order)
	var rest []ast.Expr
	for _, e := range f.conjuncts(h.cl[0].cond) {
		if t, tok, ok := f.gzipTest(e); ok && s.gzipTest == "" {
			s.gzipTest, s.gzipToken = t, tok
		} else {
			rest = append(rest, e)
		}
	}
	if len(rest) == 1 {
		s.gzipFlag = c14LastSel(f.resolve(rest[0]))
		if s.gzipFlag == "" {
			s.gzipFlag = "other:" + f.print(rest[0])
		}
	} else if len(rest) > 1 {
		s.gzipFlag = "other:" + f.print(h.cl[0].cond)
	}
	s.gzipEffects = f.effects(h.cl[0].body, 0)
	// branch 2: AutoDecompression [&& !isHead], possibly as nested ifs, then the guard
	addAuto := func(cond ast.Expr) {
		for _, e := range f.conjuncts(cond) {
			switch {
			case f.notHeadTest(e):
				s.autoConds = append(s.autoConds, "notHead")
			case c14LastSel(f.resolve(e)) == "AutoDecompression":
				s.autoConds = append(s.autoConds, "auto")
			default:
				s.autoConds = append(s.autoConds, "other:"+f.print(e))
			}
		}
	}
	guardOf := func(is *ast.IfStmt) string {
		b, ok := f.resolve(is.Cond).(*ast.BinaryExpr)
		if !ok || b.Op != token.NEQ {
			return ""
		}
		for _, p := range [][2]ast.Expr{{b.X, b.Y}, {b.Y, b.X}} {
			if call, ok := f.isNewCompressReader(p[0]); ok && f.print(p[1]) == "nil" {
				if k, ok := f.headerGet(call.Args[1]); ok && k == "Content-Encoding" {
					return "reader-exists"
				}
			}
			if k, ok := f.headerGet(p[0]); ok && k == "Content-Encoding" {
				if v, ok := f.str(p[1]); ok && v == "" {
					return "encoding-nonempty"
				}
			}
		}
		return ""
	}
	addAuto(h.cl[1].cond)
	body := h.cl[1].body
	s.autoGuard = "none"
	for {
		var stmts []ast.Stmt // without alias definitions
		for _, st := range body {
			if as, ok := st.(*ast.AssignStmt); ok && as.Tok == token.DEFINE {
				continue
			}
			if _, ok := st.(*ast.DeclStmt); ok {
				continue
			}
			stmts = append(stmts, st)
		}
		is, single := (*ast.IfStmt)(nil), false
		if len(stmts) == 1 {
			is, single = stmts[0].(*ast.IfStmt)
		}
		if !single || is.Else != nil {
			s.autoEffects = f.effects(body, 0) // no guard at all: reported as guard "none"
			break
		}
		if g := guardOf(is); g != "" {
			s.autoGuard = g
			s.autoEffects = f.effects(is.Body.List, 0)
			break
		}
		addAuto(is.Cond) // `if auto { if !isHead { … } }`
		body = is.Body.List
	}
	s.elseEffects = f.effects(h.deflt, 0)
	// body assignments immediately before / after the chain (HTTP/3 goes through s.responseBody);
	// alias definitions in between do not count
	for i := h.idx - 1; i >= 0; i-- {
		if as, ok := h.block.List[i].(*ast.AssignStmt); ok && as.Tok == token.DEFINE {
			continue
		}
		if e := f.effects(h.block.List[i:i+1], 0); len(e) == 1 && strings.HasPrefix(e[0], "set:") {
			s.before = e[0]
		}
		break
	}
	if h.idx+1 < len(h.block.List) {
		if e := f.effects(h.block.List[h.idx+1:h.idx+2], 0); len(e) == 1 && strings.HasPrefix(e[0], "set:") {
			s.after = e[0]
		}
	}
	return s, nil
}

// ---- rendering -------------------------------------------------------------------------

func c14LeanStrs(l []string) string {
	q := make([]string, len(l))
	for i, s := range l {
		q[i] = strconv.Quote(s)
	}
	return "[" + strings.Join(q, ", ") + "]"
}

func c14Facts(c *ctx) (string, error) {
	var b strings.Builder
	b.WriteString("/-! C14 facts: compress.NewCompressReader switch arms, decoder libraries, and the shape of the\nrequest-side and response-side compression logic of the three protocol stacks.\nA fact is `none` when the construct could not be located in the shape family the extractor reads\n(no claim is made then; the C14 lanes pin the behaviour). -/\nnamespace Generated.C14Facts\n\n")
	b.WriteString("/-- `case <token>: return <constructor>(body)`; the function ends in `return nil`. -/\n")
	if arms, err := c14Arms(c); err != nil {
		fmt.Fprintf(&b, "-- not located: %s\ndef arms : Option (List (List UInt8 × String)) := none\n\n", strings.ReplaceAll(err.Error(), "\n", " "))
	} else {
		b.WriteString("def arms : Option (List (List UInt8 × String)) := some [\n")
		for i, a := range arms {
			sep := ","
			if i == len(arms)-1 {
				sep = ""
			}
			fmt.Fprintf(&b, "  (%s, %s)%s\n", leanBytes(a[0]), strconv.Quote(a[1]), sep)
		}
		b.WriteString("]\n\n")
	}
	b.WriteString("/-- reader type → import path of the `NewReader` its Read method calls (\"\" = not located) -/\ndef libs : List (String × String) := [\n")
	readers := []string{"GzipReader", "DeflateReader", "BrotliReader", "ZstdReader"}
	for i, r := range readers {
		lib, err := c14ReaderLib(c, r)
		if err != nil {
			lib = ""
		}
		sep := ","
		if i == len(readers)-1 {
			sep = ""
		}
		fmt.Fprintf(&b, "  (%s, %s)%s\n", strconv.Quote(r), strconv.Quote(lib), sep)
	}
	b.WriteString("]\n\n")
	type site struct{ name, dir, askRecv, askFn, respRecv, respFn string }
	sites := []site{
		{"h1", "", "persistConn", "roundTrip", "persistConn", "readLoop"},
		{"h2", "internal/http2", "ClientConn", "roundTrip", "clientConnReadLoop", "handleResponse"},
		{"h3", "internal/http3", "requestStream", "SendRequestHeader", "requestStream", "ReadResponse"},
	}
	b.WriteString("structure Site where\n  gzipFlag : String\n  gzipTest : String\n  gzipToken : List UInt8\n  gzipEffects : List String\n  autoConds : List String\n  autoGuard : String\n  autoEffects : List String\n  elseEffects : List String\n  before : String\n  after : String\n  deriving DecidableEq, Repr\n\n")
	for _, st := range sites {
		fmt.Fprintf(&b, "/-- %s %s.%s: conjuncts under which the transport asks for gzip -/\n", st.dir, st.askRecv, st.askFn)
		if ask, err := c14AskConds(c, st.dir, st.askRecv, st.askFn); err != nil {
			fmt.Fprintf(&b, "-- not located: %s\ndef %sAsk : Option (List String) := none\n\n", strings.ReplaceAll(err.Error(), "\n", " "), st.name)
		} else {
			fmt.Fprintf(&b, "def %sAsk : Option (List String) := some %s\n\n", st.name, c14LeanStrs(ask))
		}
		fmt.Fprintf(&b, "/-- %s %s.%s: the decoding chain -/\n", st.dir, st.respRecv, st.respFn)
		s, err := c14SiteFacts(c, st.dir, st.respRecv, st.respFn)
		if err != nil {
			fmt.Fprintf(&b, "-- not located: %s\ndef %s : Option Site := none\n\n", strings.ReplaceAll(err.Error(), "\n", " "), st.name)
			continue
		}
		fmt.Fprintf(&b, "def %s : Option Site := some {\n", st.name)
		fmt.Fprintf(&b, "  gzipFlag := %s\n  gzipTest := %s\n  gzipToken := %s\n  gzipEffects := %s\n  autoConds := %s\n  autoGuard := %s\n  autoEffects := %s\n  elseEffects := %s\n  before := %s\n  after := %s }\n\n",
			strconv.Quote(s.gzipFlag), strconv.Quote(s.gzipTest), leanBytes(s.gzipToken), c14LeanStrs(s.gzipEffects),
			c14LeanStrs(s.autoConds), strconv.Quote(s.autoGuard), c14LeanStrs(s.autoEffects), c14LeanStrs(s.elseEffects),
			strconv.Quote(s.before), strconv.Quote(s.after))
	}
	b.WriteString("end Generated.C14Facts\n")
	return b.String(), nil
}
