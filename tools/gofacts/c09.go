// C09 lock-set facts: for every syntactic access to an anchored shared field, the set of
// mutexes held at that point of the enclosing function.
//
// Method (purely syntactic, go/ast only):
//   - a structured walk of each function body tracks the set of held locks: `X.mu.Lock()` /
//     `RLock()` adds the lock, a non-deferred `X.mu.Unlock()` / `RUnlock()` removes it, a
//     deferred unlock keeps it to the end of the function; branches are joined by
//     intersection, a branch that ends in return/panic/break/continue/goto does not flow
//     into the code after it (break/continue lock sets are joined into the loop exit);
//   - a function whose doc comment says "<expr> must be held" / "<expr> is held" starts with
//     that lock held (the `…Locked` convention); such a function that touches an anchored field
//     gets a pseudo-field `entry:<func>` whose accesses are its entry (lock set = the documented
//     lock) and every call site (lock set = what the caller holds there), so the convention
//     itself is checked;
//   - a func literal passed directly as a call argument (synchronous callback) inherits the
//     lock set; one started with `go`, deferred, or stored starts with the empty set;
//   - locks and fields are named `<StructType>.<field>`; the struct type of the base
//     expression is resolved from receiver/parameter/`:=` declarations and struct field types
//     of the same package. If a selector has an anchored field NAME, its base type cannot be
//     resolved and another struct of the package declares the same field name, the extractor
//     REFUSES rather than guesses.
//
// Output: Generated/Locks.lean (self-contained data) plus `-- FACT` comment lines with the
// same content in a line-oriented form for the Go facts lane.
package main

import (
	"fmt"
	"go/ast"
	"go/token"
	"os"
	"regexp"
	"sort"
	"strings"
)

type c09Anchor struct {
	dir    string
	typ    string
	fields []string
	// methodPrefix != "": the anchored state is the OBJECT behind the (immutable) field, and
	// only calls of its methods with this name prefix touch it (cc.fr: the Framer's write side
	// is what wmu guards; ReadFrame belongs to the read loop alone)
	methodPrefix string
}

// The anchored shared state of property C09 (properties.jsonl, anchors.state). The order
// fixes the field ids used by lean/Bridge/C09.lean — append only.
var c09Anchors = []c09Anchor{
	{"", "Transport", []string{"pendingAltSvcs"}, ""},                                                                             // 0
	{"pkg/altsvc", "AltSvcJar", []string{"entries"}, ""},                                                                          // 1
	{"", "Transport", []string{"idleConn", "idleConnWait", "idleLRU", "connsPerHost", "connsPerHostWait", "dialsInProgress"}, ""}, // 2..7
	{"internal/http2", "clientConnPool", []string{"conns", "dialing", "keys", "addConnCalls"}, ""},                                // 8..11
	{"internal/http3", "RoundTripper", []string{"clients"}, ""},                                                                   // 12
	{"internal/http3", "RoundTripper", []string{"transport"}, ""},                                                                 // 13 (lazily created quic.Transport; finding C09-4)
	// the HTTP/2 demultiplexer state of one ClientConn ("mu guards following")
	{"internal/http2", "ClientConn", []string{"streams", "nextStreamID", "pendingRequests", "streamsReserved", "goAway", "closed"}, ""}, // 14..19
	// peer settings ("also guarded by wmu"): written under mu AND wmu, read under either
	{"internal/http2", "ClientConn", []string{"maxConcurrentStreams", "initialWindowSize", "maxFrameSize"}, ""}, // 20..22
	// HTTP/3: datagram streams of one connection
	{"internal/http3", "connection", []string{"streams"}, ""}, // 23
	// the write side of an HTTP/2 connection ("wmu is held while writing"): buffered writer,
	// HPACK encoder and its buffer
	{"internal/http2", "ClientConn", []string{"bw", "hbuf"}, ""}, // 24, 25
	{"internal/http2", "ClientConn", []string{"fr"}, "Write"},    // 26: Framer.Write* only
}

// Setup-time setters: documented to be called while configuring, not concurrently with
// requests (like every other Set*/Enable* method of Transport, which write plain fields).
// Their accesses are listed with cfg = true and are not required to hold the common lock.
var c09ConfigFuncs = map[string]bool{
	"Transport.EnableHTTP3":  true,
	"Transport.DisableHTTP3": true,
	// constructor: the ClientConn is not yet visible to any other goroutine (go cc.readLoop()
	// is its last statement)
	"Transport.newClientConn": true,
}

type c09Access struct {
	field string // "Transport.idleConn" or "entry:Transport.removeIdleConnLocked"
	fn    string // "Transport.tryPutIdleConn"
	kind  string // read | write | call | entry | callsite
	cfg   bool
	pos   string // file:line
	held  []string
}

var c09HeldRe = regexp.MustCompile(`([A-Za-z_]\w*(?:\.[A-Za-z_]\w*)+) (?:must be|is|be) held`)

// "Must hold cc.mu." / "must hold t.idleMu"
var c09HoldRe = regexp.MustCompile(`[Mm]ust hold ([A-Za-z_]\w*(?:\.[A-Za-z_]\w*)+)`)

type c09Pkg struct {
	c            *ctx
	dir          string
	structs      map[string]map[string]ast.Expr // struct -> field -> type expr
	anchors      map[string]string              // field name -> struct type (anchored)
	methodPrefix map[string]string              // anchored field name -> method-name prefix filter
	funcs        []*ast.FuncDecl
	// caller-holds functions: "Recv.name" -> locks held at entry
	entryLocks map[string][]string
	tracked    map[string]bool // caller-holds functions that get an entry pseudo-field
	// …Locked functions whose doc comment names no lock: the entry lock set is INFERRED as the
	// intersection of the lock sets held at all call sites (fixpoint, since callers may be
	// caller-holds functions themselves)
	inferred map[string]bool
	out      []c09Access
	err      error
}

func c09BaseType(e ast.Expr) string {
	for {
		switch t := e.(type) {
		case *ast.StarExpr:
			e = t.X
			continue
		case *ast.ParenExpr:
			e = t.X
			continue
		case *ast.Ident:
			return t.Name
		case *ast.IndexExpr:
			e = t.X
			continue
		default:
			return ""
		}
	}
}

func c09Unexported(name string) bool {
	return name != "" && name[0] >= 'a' && name[0] <= 'z'
}

func c09CalleeName(e ast.Expr) string {
	switch t := e.(type) {
	case *ast.Ident:
		return t.Name
	case *ast.SelectorExpr:
		return t.Sel.Name
	case *ast.ParenExpr:
		return c09CalleeName(t.X)
	}
	return ""
}

func c09Recv(fd *ast.FuncDecl) (name, typ string) {
	if fd.Recv == nil || len(fd.Recv.List) != 1 {
		return "", ""
	}
	f := fd.Recv.List[0]
	if len(f.Names) == 1 {
		name = f.Names[0].Name
	}
	return name, c09BaseType(f.Type)
}

func c09FuncName(fd *ast.FuncDecl) string {
	_, typ := c09Recv(fd)
	if typ != "" {
		return typ + "." + fd.Name.Name
	}
	return fd.Name.Name
}

// one function being scanned
type c09Scan struct {
	p   *c09Pkg
	fn  string
	env map[string]string // local identifier -> struct type ("" = known to be unresolvable)
	// closures bound to a local variable that is only ever CALLED in this function
	// (`w := func(..){..}; if x { w = func(..){..} }; w(a)`): their bodies run where the variable
	// is called, with the locks held there. A variable that escapes (passed on, returned,
	// stored) keeps the conservative reading: the body runs with unknown locks.
	localFuncs map[string][]*ast.FuncLit
	escaping   map[string]bool
	inlining   int
}

// c09Escaping finds the local names that occur anywhere but in the function position of a call
// or on the left of an assignment / declaration.
func c09Escaping(body *ast.BlockStmt) map[string]bool {
	esc := map[string]bool{}
	if body == nil {
		return esc
	}
	ok := map[*ast.Ident]bool{}
	ast.Inspect(body, func(n ast.Node) bool {
		switch t := n.(type) {
		case *ast.CallExpr:
			if id, isID := t.Fun.(*ast.Ident); isID {
				ok[id] = true
			}
		case *ast.AssignStmt:
			for _, l := range t.Lhs {
				if id, isID := l.(*ast.Ident); isID {
					ok[id] = true
				}
			}
		case *ast.ValueSpec:
			for _, id := range t.Names {
				ok[id] = true
			}
		case *ast.SelectorExpr:
			ok[t.Sel] = true
		case *ast.KeyValueExpr:
			if id, isID := t.Key.(*ast.Ident); isID {
				ok[id] = true
			}
		}
		return true
	})
	ast.Inspect(body, func(n ast.Node) bool {
		if id, isID := n.(*ast.Ident); isID && !ok[id] {
			esc[id.Name] = true
		}
		return true
	})
	return esc
}

// bindFunc registers `name = func…` for call-site inlining; false = scan it the conservative way.
func (s *c09Scan) bindFunc(lhs ast.Expr, rhs ast.Expr) bool {
	id, isID := lhs.(*ast.Ident)
	lit, isLit := rhs.(*ast.FuncLit)
	if !isID || !isLit || id.Name == "_" || s.escaping[id.Name] {
		return false
	}
	s.localFuncs[id.Name] = append(s.localFuncs[id.Name], lit)
	return true
}

func (s *c09Scan) bind(name, typ string) {
	if name == "_" || name == "" {
		return
	}
	if old, ok := s.env[name]; ok && old != typ {
		s.env[name] = "" // conflicting declarations: unresolvable
		return
	}
	s.env[name] = typ
}

// typeOf resolves the struct type name of an expression ("" if unknown).
func (s *c09Scan) typeOf(e ast.Expr) string {
	switch t := e.(type) {
	case *ast.Ident:
		return s.env[t.Name]
	case *ast.ParenExpr:
		return s.typeOf(t.X)
	case *ast.StarExpr:
		return s.typeOf(t.X)
	case *ast.UnaryExpr:
		if t.Op == token.AND {
			return s.typeOf(t.X)
		}
	case *ast.CompositeLit:
		return c09BaseType(t.Type)
	case *ast.SelectorExpr:
		bt := s.typeOf(t.X)
		if bt == "" {
			return ""
		}
		if fs, ok := s.p.structs[bt]; ok {
			if ft, ok := fs[t.Sel.Name]; ok {
				b := c09BaseType(ft)
				if _, isStruct := s.p.structs[b]; isStruct {
					return b
				}
				return ""
			}
		}
	}
	return ""
}

// anchoredField reports whether sel is an access to an anchored field; name = "Type.field".
func (s *c09Scan) anchoredField(sel *ast.SelectorExpr) (string, bool) {
	typ, ok := s.p.anchors[sel.Sel.Name]
	if !ok {
		return "", false
	}
	bt := s.typeOf(sel.X)
	if bt == typ {
		return typ + "." + sel.Sel.Name, true
	}
	if bt != "" {
		return "", false // resolved to another struct
	}
	// unresolved base: accept only if no other struct declares this field name
	for sn, fs := range s.p.structs {
		if sn == typ {
			continue
		}
		if _, clash := fs[sel.Sel.Name]; clash {
			if s.p.err == nil {
				s.p.err = fmt.Errorf("%s: cannot resolve the type of the base of selector .%s at %s (field name also declared by struct %s)",
					s.fn, sel.Sel.Name, s.p.c.fset.Position(sel.Pos()), sn)
			}
			return "", false
		}
	}
	return typ + "." + sel.Sel.Name, true
}

func (s *c09Scan) lockName(e ast.Expr) string {
	if sel, ok := e.(*ast.SelectorExpr); ok {
		if bt := s.typeOf(sel.X); bt != "" {
			return bt + "." + sel.Sel.Name
		}
		return "?" + c09ExprText(e)
	}
	return "?" + c09ExprText(e)
}

func c09ExprText(e ast.Expr) string {
	switch t := e.(type) {
	case *ast.Ident:
		return t.Name
	case *ast.SelectorExpr:
		return c09ExprText(t.X) + "." + t.Sel.Name
	case *ast.StarExpr:
		return "*" + c09ExprText(t.X)
	case *ast.ParenExpr:
		return c09ExprText(t.X)
	}
	return "_"
}

type c09Set map[string]bool

func (a c09Set) clone() c09Set {
	b := c09Set{}
	for k := range a {
		b[k] = true
	}
	return b
}
func (a c09Set) inter(b c09Set) c09Set {
	r := c09Set{}
	for k := range a {
		if b[k] {
			r[k] = true
		}
	}
	return r
}
func (a c09Set) list() []string {
	var l []string
	for k := range a {
		l = append(l, k)
	}
	sort.Strings(l)
	return l
}

// lockCall recognises X.Lock()/RLock()/Unlock()/RUnlock().
func c09LockCall(e ast.Expr) (target ast.Expr, lock bool, ok bool) {
	call, isCall := e.(*ast.CallExpr)
	if !isCall || len(call.Args) != 0 {
		return nil, false, false
	}
	sel, isSel := call.Fun.(*ast.SelectorExpr)
	if !isSel {
		return nil, false, false
	}
	switch sel.Sel.Name {
	case "Lock", "RLock":
		return sel.X, true, true
	case "Unlock", "RUnlock":
		return sel.X, false, true
	}
	return nil, false, false
}

func (s *c09Scan) record(field, kind string, pos token.Pos, held c09Set) {
	p := s.p.c.fset.Position(pos)
	file := p.Filename
	if i := strings.LastIndex(file, "/"); i >= 0 {
		file = file[i+1:]
	}
	s.p.out = append(s.p.out, c09Access{field: field, fn: s.fn, kind: kind, cfg: c09ConfigFuncs[s.fn],
		pos: fmt.Sprintf("%s:%d", file, p.Line), held: held.list()})
}

// expr scans an expression for anchored accesses. ctxKind is the kind to give to an anchored
// selector found at the top of e ("read" by default).
func (s *c09Scan) expr(e ast.Expr, held c09Set, topKind string) {
	if e == nil {
		return
	}
	switch t := e.(type) {
	case *ast.SelectorExpr:
		if name, ok := s.anchoredField(t); ok {
			if s.p.methodPrefix[t.Sel.Name] == "" { // else: only method calls count (see call)
				s.record(name, topKind, t.Pos(), held)
			}
			s.expr(t.X, held, "read")
			return
		}
		// t.idleLRU.m / q.head ... : a selection THROUGH an anchored field is a read of it
		s.expr(t.X, held, topKind)
	case *ast.IndexExpr:
		s.expr(t.X, held, topKind) // m[k] as read or (on the LHS) write of the map
		s.expr(t.Index, held, "read")
	case *ast.SliceExpr:
		s.expr(t.X, held, topKind)
		s.expr(t.Low, held, "read")
		s.expr(t.High, held, "read")
		s.expr(t.Max, held, "read")
	case *ast.StarExpr:
		s.expr(t.X, held, topKind)
	case *ast.ParenExpr:
		s.expr(t.X, held, topKind)
	case *ast.UnaryExpr:
		k := "read"
		if t.Op == token.AND {
			k = "write" // address taken: conservatively a write
		}
		s.expr(t.X, held, k)
	case *ast.BinaryExpr:
		s.expr(t.X, held, "read")
		s.expr(t.Y, held, "read")
	case *ast.KeyValueExpr:
		s.expr(t.Key, held, "read")
		s.expr(t.Value, held, "read")
	case *ast.CompositeLit:
		for _, el := range t.Elts {
			if kv, ok := el.(*ast.KeyValueExpr); ok {
				// struct literal keys are field names, not accesses
				if _, isIdent := kv.Key.(*ast.Ident); !isIdent {
					s.expr(kv.Key, held, "read")
				}
				s.expr(kv.Value, held, "read")
			} else {
				s.expr(el, held, "read")
			}
		}
	case *ast.TypeAssertExpr:
		s.expr(t.X, held, "read")
	case *ast.FuncLit:
		// stored / returned closure: runs later with unknown locks
		s.funcBody(t.Body, c09Set{})
	case *ast.CallExpr:
		s.call(t, held)
	}
}

func (s *c09Scan) call(call *ast.CallExpr, held c09Set) {
	// builtin delete(m, k) writes m; len/cap read
	if id, ok := call.Fun.(*ast.Ident); ok {
		switch id.Name {
		case "delete":
			if len(call.Args) == 2 {
				s.expr(call.Args[0], held, "write")
				s.expr(call.Args[1], held, "read")
				return
			}
		}
		if locks, ok := s.p.entryLocks[id.Name]; ok && s.p.tracked[id.Name] && (len(locks) > 0 || s.p.inferred[id.Name]) {
			s.record("entry:"+id.Name, "callsite", call.Pos(), held)
		}
		if lits := s.localFuncs[id.Name]; len(lits) > 0 && s.inlining < 4 {
			// a call of a local closure variable: any of the closures bound to it may run here
			s.inlining++
			for _, lit := range lits {
				s.funcBody(lit.Body, held.clone())
			}
			s.inlining--
		}
	}
	if sel, ok := call.Fun.(*ast.SelectorExpr); ok {
		// method call ON an anchored field (t.idleLRU.add(pc), t.dialsInProgress.pushBack(w)):
		// conservatively a write of the field
		if inner, ok2 := sel.X.(*ast.SelectorExpr); ok2 {
			if name, ok3 := s.anchoredField(inner); ok3 {
				if pre := s.p.methodPrefix[inner.Sel.Name]; pre == "" || strings.HasPrefix(sel.Sel.Name, pre) {
					s.record(name, "call", inner.Pos(), held)
				}
				s.expr(inner.X, held, "read")
			} else {
				s.expr(sel.X, held, "read")
			}
		} else {
			s.expr(sel.X, held, "read")
		}
		// call of a caller-holds function
		if bt := s.typeOf(sel.X); bt != "" {
			fn := bt + "." + sel.Sel.Name
			if s.p.tracked[fn] {
				s.record("entry:"+fn, "callsite", call.Pos(), held)
			}
		} else {
			for fn := range s.p.tracked {
				if strings.HasSuffix(fn, "."+sel.Sel.Name) {
					s.record("entry:"+fn, "callsite", call.Pos(), held)
				}
			}
		}
	} else {
		s.expr(call.Fun, held, "read")
	}
	for _, a := range call.Args {
		if fl, ok := a.(*ast.FuncLit); ok {
			// synchronous callback: inherits the caller's lock set
			s.funcBody(fl.Body, held.clone())
			continue
		}
		s.expr(a, held, "read")
	}
}

type c09Loop struct {
	exits []c09Set // lock sets at break/continue
}

// funcBody scans a function (literal) body starting with the given lock set.
func (s *c09Scan) funcBody(b *ast.BlockStmt, held c09Set) {
	if b == nil {
		return
	}
	s.stmts(b.List, held, nil)
}

// stmts returns the lock set after the list and whether control cannot fall out of it.
func (s *c09Scan) stmts(list []ast.Stmt, held c09Set, loop *c09Loop) (c09Set, bool) {
	for _, st := range list {
		var term bool
		held, term = s.stmt(st, held, loop)
		if term {
			return held, true
		}
	}
	return held, false
}

func c09IsPanic(e ast.Expr) bool {
	if call, ok := e.(*ast.CallExpr); ok {
		if id, ok := call.Fun.(*ast.Ident); ok && id.Name == "panic" {
			return true
		}
		if sel, ok := call.Fun.(*ast.SelectorExpr); ok {
			if x, ok := sel.X.(*ast.Ident); ok && x.Name == "log" && strings.HasPrefix(sel.Sel.Name, "Fatal") {
				return true
			}
		}
	}
	return false
}

func (s *c09Scan) declare(lhs []ast.Expr, rhs []ast.Expr) {
	if len(lhs) == len(rhs) {
		for i, l := range lhs {
			if id, ok := l.(*ast.Ident); ok {
				s.bind(id.Name, s.typeOf(rhs[i]))
			}
		}
		return
	}
	for _, l := range lhs {
		if id, ok := l.(*ast.Ident); ok {
			s.bind(id.Name, "")
		}
	}
}

func (s *c09Scan) stmt(st ast.Stmt, held c09Set, loop *c09Loop) (c09Set, bool) {
	switch t := st.(type) {
	case nil:
		return held, false
	case *ast.ExprStmt:
		if target, isLock, ok := c09LockCall(t.X); ok {
			s.expr(target, held, "read")
			h := held.clone()
			if isLock {
				h[s.lockName(target)] = true
			} else {
				delete(h, s.lockName(target))
			}
			return h, false
		}
		s.expr(t.X, held, "read")
		return held, c09IsPanic(t.X)
	case *ast.DeferStmt:
		if _, isLock, ok := c09LockCall(t.Call); ok && !isLock {
			return held, false // deferred unlock: held to the end of the function
		}
		if fl, ok := t.Call.Fun.(*ast.FuncLit); ok {
			s.funcBody(fl.Body, c09Set{})
			for _, a := range t.Call.Args {
				s.expr(a, held, "read")
			}
			return held, false
		}
		// deferred ordinary call: runs at exit with unknown locks
		s.call(t.Call, c09Set{})
		return held, false
	case *ast.GoStmt:
		if fl, ok := t.Call.Fun.(*ast.FuncLit); ok {
			s.funcBody(fl.Body, c09Set{})
		} else {
			// `go x.f(args)`: receiver and args are evaluated here, the call runs elsewhere
			if sel, ok := t.Call.Fun.(*ast.SelectorExpr); ok {
				s.expr(sel.X, held, "read")
			}
		}
		for _, a := range t.Call.Args {
			s.expr(a, held, "read")
		}
		return held, false
	case *ast.AssignStmt:
		for i, r := range t.Rhs {
			if len(t.Lhs) == len(t.Rhs) && s.bindFunc(t.Lhs[i], r) {
				continue // scanned where the variable is called
			}
			s.expr(r, held, "read")
		}
		if t.Tok == token.DEFINE {
			s.declare(t.Lhs, t.Rhs)
		}
		for _, l := range t.Lhs {
			if _, isIdent := l.(*ast.Ident); isIdent {
				continue
			}
			s.expr(l, held, "write")
		}
		return held, false
	case *ast.IncDecStmt:
		s.expr(t.X, held, "write")
		return held, false
	case *ast.SendStmt:
		s.expr(t.Chan, held, "read")
		s.expr(t.Value, held, "read")
		return held, false
	case *ast.DeclStmt:
		if gd, ok := t.Decl.(*ast.GenDecl); ok {
			for _, sp := range gd.Specs {
				if vs, ok := sp.(*ast.ValueSpec); ok {
					for i, v := range vs.Values {
						if len(vs.Values) == len(vs.Names) && s.bindFunc(vs.Names[i], v) {
							continue
						}
						s.expr(v, held, "read")
					}
					for i, n := range vs.Names {
						typ := ""
						if vs.Type != nil {
							b := c09BaseType(vs.Type)
							if _, isStruct := s.p.structs[b]; isStruct {
								typ = b
							}
						} else if i < len(vs.Values) && len(vs.Values) == len(vs.Names) {
							typ = s.typeOf(vs.Values[i])
						}
						s.bind(n.Name, typ)
					}
				}
			}
		}
		return held, false
	case *ast.ReturnStmt:
		for _, r := range t.Results {
			s.expr(r, held, "read")
		}
		return held, true
	case *ast.BranchStmt:
		if (t.Tok == token.BREAK || t.Tok == token.CONTINUE) && loop != nil {
			loop.exits = append(loop.exits, held)
		}
		return held, true
	case *ast.BlockStmt:
		return s.stmts(t.List, held, loop)
	case *ast.LabeledStmt:
		return s.stmt(t.Stmt, held, loop)
	case *ast.IfStmt:
		h := held
		if t.Init != nil {
			h, _ = s.stmt(t.Init, h, loop)
		}
		s.expr(t.Cond, h, "read")
		h1, t1 := s.stmts(t.Body.List, h, loop)
		h2, t2 := h, false
		if t.Else != nil {
			h2, t2 = s.stmt(t.Else, h, loop)
		}
		switch {
		case t1 && t2:
			return h, true
		case t1:
			return h2, false
		case t2:
			return h1, false
		}
		return h1.inter(h2), false
	case *ast.ForStmt:
		h := held
		if t.Init != nil {
			h, _ = s.stmt(t.Init, h, loop)
		}
		s.expr(t.Cond, h, "read")
		lp := &c09Loop{}
		hb, term := s.stmts(t.Body.List, h, lp)
		if t.Post != nil {
			s.stmt(t.Post, hb, lp)
		}
		out := h
		if t.Cond == nil {
			// `for { … }` is left only through break (or return)
			out = nil
		}
		if !term {
			if out == nil {
				out = hb
			} else {
				out = out.inter(hb)
			}
		}
		for _, e := range lp.exits {
			if out == nil {
				out = e
			} else {
				out = out.inter(e)
			}
		}
		if out == nil {
			return h, true // infinite loop without break: nothing falls out
		}
		return out, false
	case *ast.RangeStmt:
		s.expr(t.X, held, "read")
		if t.Tok == token.DEFINE {
			if id, ok := t.Key.(*ast.Ident); ok {
				s.bind(id.Name, "")
			}
			if id, ok := t.Value.(*ast.Ident); ok {
				s.bind(id.Name, "")
			}
		}
		lp := &c09Loop{}
		hb, term := s.stmts(t.Body.List, held, lp)
		out := held
		if !term {
			out = out.inter(hb)
		}
		for _, e := range lp.exits {
			out = out.inter(e)
		}
		return out, false
	case *ast.SwitchStmt:
		h := held
		if t.Init != nil {
			h, _ = s.stmt(t.Init, h, loop)
		}
		s.expr(t.Tag, h, "read")
		return s.clauses(t.Body, h, loop)
	case *ast.TypeSwitchStmt:
		h := held
		if t.Init != nil {
			h, _ = s.stmt(t.Init, h, loop)
		}
		if as, ok := t.Assign.(*ast.AssignStmt); ok {
			for _, r := range as.Rhs {
				s.expr(r, h, "read")
			}
			for _, l := range as.Lhs {
				if id, ok := l.(*ast.Ident); ok {
					s.bind(id.Name, "")
				}
			}
		} else if es, ok := t.Assign.(*ast.ExprStmt); ok {
			s.expr(es.X, h, "read")
		}
		return s.clauses(t.Body, h, loop)
	case *ast.SelectStmt:
		return s.clauses(t.Body, held, loop)
	default:
		return held, false
	}
}

// clauses joins the arms of a switch / type switch / select. `break` inside an arm leaves the
// switch, not an enclosing loop, so arms get their own exit collector.
func (s *c09Scan) clauses(body *ast.BlockStmt, held c09Set, loop *c09Loop) (c09Set, bool) {
	var out c09Set
	hasDefault := false
	join := func(h c09Set) {
		if out == nil {
			out = h
		} else {
			out = out.inter(h)
		}
	}
	isSelect := false
	for _, cl := range body.List {
		inner := &c09Loop{}
		var list []ast.Stmt
		h := held
		switch c := cl.(type) {
		case *ast.CaseClause:
			if c.List == nil {
				hasDefault = true
			}
			for _, e := range c.List {
				s.expr(e, held, "read")
			}
			list = c.Body
		case *ast.CommClause:
			isSelect = true
			if c.Comm == nil {
				hasDefault = true
			} else {
				h, _ = s.stmt(c.Comm, held, loop)
			}
			list = c.Body
		}
		hb, term := s.stmts(list, h, inner)
		if !term {
			join(hb)
		}
		for _, e := range inner.exits {
			// a `continue` inside a switch arm belongs to the enclosing loop; joining it into
			// both is conservative
			join(e)
			if loop != nil {
				loop.exits = append(loop.exits, e)
			}
		}
	}
	if !hasDefault && !isSelect {
		join(held)
	}
	if out == nil {
		if len(body.List) == 0 {
			return held, false
		}
		return held, true
	}
	return out, false
}

func (p *c09Pkg) load() error {
	fs, err := p.c.files(p.dir)
	if err != nil {
		return err
	}
	p.structs = map[string]map[string]ast.Expr{}
	names := make([]string, 0, len(fs))
	for n := range fs {
		names = append(names, n)
	}
	sort.Strings(names)
	for _, n := range names {
		f := fs[n]
		for _, d := range f.Decls {
			switch t := d.(type) {
			case *ast.GenDecl:
				for _, sp := range t.Specs {
					ts, ok := sp.(*ast.TypeSpec)
					if !ok {
						continue
					}
					st, ok := ts.Type.(*ast.StructType)
					if !ok {
						continue
					}
					m := map[string]ast.Expr{}
					for _, fl := range st.Fields.List {
						for _, nm := range fl.Names {
							m[nm.Name] = fl.Type
						}
					}
					p.structs[ts.Name.Name] = m
				}
			case *ast.FuncDecl:
				if t.Body != nil {
					p.funcs = append(p.funcs, t)
				}
			}
		}
	}
	return nil
}

func (p *c09Pkg) newScan(fd *ast.FuncDecl) *c09Scan {
	s := &c09Scan{p: p, fn: c09FuncName(fd), env: map[string]string{}, localFuncs: map[string][]*ast.FuncLit{},
		escaping: c09Escaping(fd.Body)}
	rn, rt := c09Recv(fd)
	if rn != "" {
		if _, ok := p.structs[rt]; ok {
			s.bind(rn, rt)
		}
	}
	if fd.Type.Params != nil {
		for _, f := range fd.Type.Params.List {
			b := c09BaseType(f.Type)
			if _, ok := p.structs[b]; !ok {
				b = ""
			}
			for _, n := range f.Names {
				s.bind(n.Name, b)
			}
		}
	}
	if fd.Type.Results != nil {
		for _, f := range fd.Type.Results.List {
			b := c09BaseType(f.Type)
			if _, ok := p.structs[b]; !ok {
				b = ""
			}
			for _, n := range f.Names {
				s.bind(n.Name, b)
			}
		}
	}
	return s
}

func (p *c09Pkg) run() error {
	// verify the anchored struct fields exist
	for fname, typ := range p.anchors {
		fs, ok := p.structs[typ]
		if !ok {
			return fmt.Errorf("struct %s not found in %s", typ, p.dir)
		}
		if _, ok := fs[fname]; !ok {
			return fmt.Errorf("field %s.%s not found in %s", typ, fname, p.dir)
		}
	}
	// pass 1: caller-holds functions (doc comment names the lock)
	p.entryLocks = map[string][]string{}
	p.inferred = map[string]bool{}
	// names of package functions that are started with go, deferred, or appear outside the
	// function position of a call (method values, callbacks, interface satisfaction is not
	// visible syntactically: exported names are never inferred)
	asyncOrValue := map[string]bool{}
	fnNames := map[string]bool{}
	for _, fd := range p.funcs {
		fnNames[fd.Name.Name] = true
	}
	for _, fd := range p.funcs {
		callFuns := map[ast.Expr]bool{}
		localNames := map[string]bool{} // identifiers the function declares itself
		ast.Inspect(fd, func(n ast.Node) bool {
			switch t := n.(type) {
			case *ast.GoStmt:
				asyncOrValue[c09CalleeName(t.Call.Fun)] = true
			case *ast.DeferStmt:
				asyncOrValue[c09CalleeName(t.Call.Fun)] = true
			case *ast.CallExpr:
				callFuns[t.Fun] = true
			case *ast.AssignStmt:
				if t.Tok == token.DEFINE {
					for _, l := range t.Lhs {
						if id, ok := l.(*ast.Ident); ok {
							localNames[id.Name] = true
						}
					}
				}
			case *ast.ValueSpec:
				for _, id := range t.Names {
					localNames[id.Name] = true
				}
			case *ast.Field:
				for _, id := range t.Names {
					localNames[id.Name] = true
				}
			case *ast.RangeStmt:
				if id, ok := t.Key.(*ast.Ident); ok {
					localNames[id.Name] = true
				}
				if id, ok := t.Value.(*ast.Ident); ok {
					localNames[id.Name] = true
				}
			}
			return true
		})
		selIdent := map[*ast.Ident]bool{}
		ast.Inspect(fd, func(n ast.Node) bool {
			switch t := n.(type) {
			case *ast.SelectorExpr:
				selIdent[t.Sel] = true
				if !callFuns[t] && fnNames[t.Sel.Name] {
					asyncOrValue[t.Sel.Name] = true
				}
			case *ast.KeyValueExpr:
				if id, ok := t.Key.(*ast.Ident); ok {
					selIdent[id] = true // struct literal key
				}
			case *ast.Ident:
				if !selIdent[t] && !callFuns[t] && fnNames[t.Name] && t.Obj == nil && !localNames[t.Name] && t != fd.Name {
					asyncOrValue[t.Name] = true
				}
			}
			return true
		})
	}
	if os.Getenv("GOFACTS_C09_DEBUG") != "" {
		var l []string
		for n := range asyncOrValue {
			l = append(l, n)
		}
		sort.Strings(l)
		fmt.Fprintf(os.Stderr, "asyncOrValue %s: %v\n", p.dir, l)
	}
	for _, fd := range p.funcs {
		name := c09FuncName(fd)
		var locks []string
		if fd.Doc != nil {
			s := p.newScan(fd)
			ms := c09HeldRe.FindAllStringSubmatch(fd.Doc.Text(), -1)
			ms = append(ms, c09HoldRe.FindAllStringSubmatch(fd.Doc.Text(), -1)...)
			for _, m := range ms {
				parts := strings.Split(m[1], ".")
				var e ast.Expr = ast.NewIdent(parts[0])
				for _, q := range parts[1:] {
					e = &ast.SelectorExpr{X: e, Sel: ast.NewIdent(q)}
				}
				ln := s.lockName(e)
				if !strings.HasPrefix(ln, "?") {
					locks = append(locks, ln)
				}
			}
		}
		if len(locks) > 0 {
			p.entryLocks[name] = locks
		} else if strings.HasSuffix(fd.Name.Name, "Locked") {
			p.entryLocks[name] = nil // convention without a documented lock: inferred below
			p.inferred[name] = true
		} else if c09Unexported(fd.Name.Name) && !asyncOrValue[fd.Name.Name] && fd.Name.Name != "init" && fd.Name.Name != "main" {
			// an unexported function that is only ever CALLED (never started with go, deferred,
			// or used as a value): whatever all its call sites hold, it holds. This is what keeps
			// the table stable when a critical section is split into helpers.
			p.entryLocks[name] = nil
			p.inferred[name] = true
		}
	}
	// pass 2: which caller-holds functions touch anchored state (directly or through another
	// tracked one)? iterate to a fixpoint with a dry scan.
	p.tracked = map[string]bool{}
	for iter := 0; iter < 4; iter++ {
		changed := false
		for _, fd := range p.funcs {
			name := c09FuncName(fd)
			if _, ok := p.entryLocks[name]; !ok || p.tracked[name] {
				continue
			}
			save, saveErr := p.out, p.err
			p.out = nil
			s := p.newScan(fd)
			s.funcBody(fd.Body, c09Set{})
			n := len(p.out)
			p.out, p.err = save, saveErr
			if n > 0 {
				p.tracked[name] = true
				changed = true
			}
		}
		if !changed {
			break
		}
	}
	// pass 2b: infer the entry lock set of tracked …Locked functions without a documented lock:
	// start from "every lock of the package", shrink to the intersection over the call sites
	// until stable. A function nobody calls ends with the empty set.
	anyInferred := false
	for name := range p.inferred {
		if p.tracked[name] {
			anyInferred = true
		}
	}
	if anyInferred {
		all := c09Set{}
		dry := func() []c09Access {
			save, saveErr := p.out, p.err
			p.out = nil
			for _, fd := range p.funcs {
				name := c09FuncName(fd)
				s := p.newScan(fd)
				held := c09Set{}
				if locks, ok := p.entryLocks[name]; ok && p.tracked[name] {
					for _, l := range locks {
						held[l] = true
					}
				}
				s.funcBody(fd.Body, held)
			}
			out := p.out
			p.out, p.err = save, saveErr
			return out
		}
		for _, a := range dry() {
			for _, l := range a.held {
				all[l] = true
			}
		}
		// also the locks that are only ever taken around calls (no anchored access in between)
		for _, fd := range p.funcs {
			s := p.newScan(fd)
			ast.Inspect(fd, func(n ast.Node) bool {
				if es, ok := n.(*ast.ExprStmt); ok {
					if target, isLock, ok := c09LockCall(es.X); ok && isLock {
						if ln := s.lockName(target); !strings.HasPrefix(ln, "?") {
							all[ln] = true
						}
					}
				}
				return true
			})
		}
		for name := range p.inferred {
			if p.tracked[name] {
				p.entryLocks[name] = all.list()
			}
		}
		for iter := 0; iter < 10; iter++ {
			sites := map[string][]c09Set{}
			for _, a := range dry() {
				if a.kind == "callsite" && strings.HasPrefix(a.field, "entry:") {
					fn := strings.TrimPrefix(a.field, "entry:")
					h := c09Set{}
					for _, l := range a.held {
						h[l] = true
					}
					sites[fn] = append(sites[fn], h)
				}
			}
			changed := false
			for name := range p.inferred {
				if !p.tracked[name] {
					continue
				}
				nw := c09Set{}
				if ss := sites[name]; len(ss) > 0 {
					nw = ss[0].clone()
					for _, h := range ss[1:] {
						nw = nw.inter(h)
					}
				}
				if strings.Join(nw.list(), ",") != strings.Join(p.entryLocks[name], ",") {
					p.entryLocks[name] = nw.list()
					changed = true
				}
			}
			if !changed {
				break
			}
		}
		if os.Getenv("GOFACTS_C09_DEBUG") != "" {
			for name := range p.inferred {
				if p.tracked[name] {
					fmt.Fprintf(os.Stderr, "inferred %s: %v\n", name, p.entryLocks[name])
				}
			}
		}
		for name := range p.inferred {
			if p.tracked[name] && len(p.entryLocks[name]) == 0 && !strings.HasSuffix(name, "Locked") {
				delete(p.tracked, name) // holds nothing on entry: an ordinary function
			}
		}
	}
	// pass 3: the real scan
	for _, fd := range p.funcs {
		name := c09FuncName(fd)
		s := p.newScan(fd)
		held := c09Set{}
		if locks, ok := p.entryLocks[name]; ok && p.tracked[name] {
			if len(locks) == 0 && !p.inferred[name] {
				return fmt.Errorf("%s touches anchored state and follows the …Locked convention, but its doc comment does not name the lock the caller holds", name)
			}
			for _, l := range locks {
				held[l] = true
			}
			s.record("entry:"+name, "entry", fd.Pos(), held)
		}
		s.funcBody(fd.Body, held)
	}
	return p.err
}

func c09Codes(s string) string {
	parts := make([]string, len(s))
	for i := 0; i < len(s); i++ {
		parts[i] = fmt.Sprint(s[i])
	}
	return "[" + strings.Join(parts, ", ") + "]"
}

func c09Collect(c *ctx) ([]c09Access, []string, error) {
	var all []c09Access
	var fieldOrder []string
	byDir := map[string]*c09Pkg{}
	var dirs []string
	for _, a := range c09Anchors {
		p, ok := byDir[a.dir]
		if !ok {
			p = &c09Pkg{c: c, dir: a.dir, anchors: map[string]string{}, methodPrefix: map[string]string{}}
			if err := p.load(); err != nil {
				return nil, nil, err
			}
			byDir[a.dir] = p
			dirs = append(dirs, a.dir)
		}
		for _, f := range a.fields {
			if old, dup := p.anchors[f]; dup && old != a.typ {
				return nil, nil, fmt.Errorf("anchored field name %s used by two structs in %q", f, a.dir)
			}
			p.anchors[f] = a.typ
			if a.methodPrefix != "" {
				p.methodPrefix[f] = a.methodPrefix
			}
			fieldOrder = append(fieldOrder, a.typ+"."+f)
		}
	}
	for _, d := range dirs {
		p := byDir[d]
		if err := p.run(); err != nil {
			return nil, nil, err
		}
		all = append(all, p.out...)
	}
	// pseudo fields, sorted
	seen := map[string]bool{}
	for _, f := range fieldOrder {
		seen[f] = true
	}
	var pseudo []string
	for _, a := range all {
		if !seen[a.field] {
			seen[a.field] = true
			pseudo = append(pseudo, a.field)
		}
	}
	sort.Strings(pseudo)
	// every anchored field must have at least one access (else the source left the shape we know)
	cnt := map[string]int{}
	for _, a := range all {
		cnt[a.field]++
	}
	for _, f := range fieldOrder {
		if cnt[f] == 0 {
			return nil, nil, fmt.Errorf("no access to anchored field %s found", f)
		}
	}
	return all, append(fieldOrder, pseudo...), nil
}

func init() {
	register("Locks", func(c *ctx) (string, error) {
		all, fields, err := c09Collect(c)
		if err != nil {
			return "", err
		}
		lockID := map[string]int{}
		var locks []string
		for _, a := range all {
			for _, l := range a.held {
				if _, ok := lockID[l]; !ok {
					lockID[l] = 0
					locks = append(locks, l)
				}
			}
		}
		sort.Strings(locks)
		for i, l := range locks {
			lockID[l] = i + 1 // lock ids start at 1
		}
		nAnch := 0
		for _, a := range c09Anchors {
			nAnch += len(a.fields)
		}
		var b strings.Builder
		b.WriteString("/-! Lock-set facts for the anchored shared state of C09.\n")
		b.WriteString("Each field: (id, [(function name as ASCII codes, isWrite, isSetupTimeSetter, held lock ids)]).\n")
		b.WriteString("Field ids below " + fmt.Sprint(nAnch) + " are the anchored fields in the fixed order of tools/gofacts/c09.go;\n")
		b.WriteString("ids from 100 are `entry:<func>` pseudo-fields (the …Locked calling convention). -/\n")
		b.WriteString("namespace Generated.Locks\n\n")
		b.WriteString("def lockNames : List (Nat × String) := [\n")
		for i, l := range locks {
			sep := ","
			if i == len(locks)-1 {
				sep = ""
			}
			fmt.Fprintf(&b, "  (%d, %q)%s\n", i+1, l, sep)
		}
		b.WriteString("]\n\n")
		fid := func(i int) int {
			if i < nAnch {
				return i
			}
			return 100 + i - nAnch
		}
		b.WriteString("def fieldNames : List (Nat × String) := [\n")
		for i, f := range fields {
			sep := ","
			if i == len(fields)-1 {
				sep = ""
			}
			fmt.Fprintf(&b, "  (%d, %q)%s\n", fid(i), f, sep)
		}
		b.WriteString("]\n\n")
		b.WriteString("def fields : List (Nat × List (List Nat × Bool × Bool × List Nat)) := [\n")
		var facts []string
		for i, f := range fields {
			fmt.Fprintf(&b, "  -- %s\n  (%d, [\n", f, fid(i))
			var rows []string
			for _, a := range all {
				if a.field != f {
					continue
				}
				ids := make([]string, len(a.held))
				for k, l := range a.held {
					ids[k] = fmt.Sprint(lockID[l])
				}
				w := a.kind != "read" && a.kind != "callsite" && a.kind != "entry"
				rows = append(rows, fmt.Sprintf("    (%s, %v, %v, [%s]) -- %s %s %s", c09Codes(a.fn), w, a.cfg, strings.Join(ids, ", "), a.fn, a.kind, a.pos))
				k := a.kind
				if a.cfg {
					k = "config"
				}
				facts = append(facts, fmt.Sprintf("-- FACT %d|%s|%s|%s|%s|%s", fid(i), f, a.fn, k, a.pos, strings.Join(a.held, ",")))
			}
			for k, r := range rows {
				// the trailing comment must come after the comma
				idx := strings.Index(r, " -- ")
				sep := ","
				if k == len(rows)-1 {
					sep = ""
				}
				b.WriteString(r[:idx] + sep + r[idx:] + "\n")
			}
			sep := ","
			if i == len(fields)-1 {
				sep = ""
			}
			b.WriteString("  ])" + sep + "\n")
		}
		b.WriteString("]\n\nend Generated.Locks\n\n")
		for _, l := range locks {
			fmt.Fprintf(&b, "-- LOCK %d|%s\n", lockID[l], l)
		}
		for _, f := range facts {
			b.WriteString(f + "\n")
		}
		return b.String(), nil
	})
}
