package main

// C12Facts: for every selector X.TLSClientConfig / X.DialTLSContext / X.TLSHandshakeContext in
// the root package, internal/http2 and internal/http3 the struct that DECLARES the selected
// field, decided by go/types (Selection / field object identity), plus the pointer wiring of
// the protocol stacks (`Options: &X.Options` in T(), Transport.Clone, EnableHTTP3).
//
// The packages are type-checked from source with a lenient configuration: imports outside
// imroc/req's own transport/http2/http3 packages are replaced by empty packages and type
// errors are ignored. Field selection on the locally declared struct types (embedding depth,
// shadowing) is still decided by go/types' own lookup; a selector of interest that go/types
// could not resolve makes the extractor REFUSE.

import (
	"fmt"
	"go/ast"
	"go/build"
	"go/token"
	"go/types"
	"path"
	"path/filepath"
	"sort"
	"strings"
)

const c12Module = "github.com/imroc/req/v3"

var c12Fields = map[string]string{
	"TLSClientConfig":     "tlsClientConfig",
	"DialTLSContext":      "dialTLSContext",
	"TLSHandshakeContext": "tlsHandshakeContext",
}

type c12Checker struct {
	c     *ctx
	pkgs  map[string]*types.Package
	infos map[string]*types.Info
	files map[string][]*ast.File
	names map[string][]string
}

func (k *c12Checker) Import(p string) (*types.Package, error) {
	if pk, ok := k.pkgs[p]; ok {
		return pk, nil
	}
	real := map[string]string{
		c12Module + "/internal/transport": "internal/transport",
		c12Module + "/internal/http2":     "internal/http2",
		c12Module + "/internal/http3":     "internal/http3",
	}
	if dir, ok := real[p]; ok {
		return k.check(p, dir)
	}
	pk := types.NewPackage(p, path.Base(p))
	pk.MarkComplete()
	k.pkgs[p] = pk
	return pk, nil
}

func (k *c12Checker) check(importPath, dir string) (*types.Package, error) {
	fm, err := k.c.files(dir)
	if err != nil {
		return nil, err
	}
	var names []string
	for n := range fm {
		names = append(names, n)
	}
	sort.Strings(names)
	var files []*ast.File
	var kept []string
	for _, n := range names {
		f := fm[n]
		// files excluded from the normal build (//go:build js …) would redeclare things
		if ok, err := build.Default.MatchFile(filepath.Join(k.c.repo, dir), n); err != nil || !ok {
			continue
		}
		files = append(files, f)
		kept = append(kept, n)
	}
	info := &types.Info{
		Selections: map[*ast.SelectorExpr]*types.Selection{},
		Uses:       map[*ast.Ident]types.Object{},
		Defs:       map[*ast.Ident]types.Object{},
		Types:      map[ast.Expr]types.TypeAndValue{},
	}
	conf := types.Config{Importer: k, Error: func(error) {}, FakeImportC: true, DisableUnusedImportCheck: true}
	pk, _ := conf.Check(importPath, k.c.fset, files, info)
	if pk == nil {
		return nil, fmt.Errorf("type-check of %s produced no package", importPath)
	}
	k.pkgs[importPath] = pk
	k.infos[importPath] = info
	k.files[importPath] = files
	k.names[importPath] = kept
	return pk, nil
}

// owner maps every struct field object of the checked packages to "pkg.Type".
func (k *c12Checker) fieldOwners() map[*types.Var]string {
	out := map[*types.Var]string{}
	for _, pk := range k.pkgs {
		sc := pk.Scope()
		for _, n := range sc.Names() {
			tn, ok := sc.Lookup(n).(*types.TypeName)
			if !ok {
				continue
			}
			st, ok := tn.Type().Underlying().(*types.Struct)
			if !ok {
				continue
			}
			for i := 0; i < st.NumFields(); i++ {
				out[st.Field(i)] = pk.Name() + "." + tn.Name()
			}
		}
	}
	return out
}

type c12Site struct {
	file, fn, field, owner string
	write                  bool
	pos                    token.Position
}

func init() {
	register("C12Facts", func(c *ctx) (string, error) {
		k := &c12Checker{c: c, pkgs: map[string]*types.Package{}, infos: map[string]*types.Info{}, files: map[string][]*ast.File{}, names: map[string][]string{}}
		if _, err := k.check(c12Module, "."); err != nil {
			return "", err
		}
		for _, p := range []string{"/internal/transport", "/internal/http2", "/internal/http3"} {
			if k.pkgs[c12Module+p] == nil || k.infos[c12Module+p] == nil {
				return "", fmt.Errorf("package %s was not reached from the root package", p)
			}
		}
		owners := k.fieldOwners()
		var sites []c12Site
		type wire struct {
			fn, stack string
			same      bool
			pos       token.Position
		}
		var wires []wire

		for _, ip := range []string{c12Module, c12Module + "/internal/http2", c12Module + "/internal/http3"} {
			info := k.infos[ip]
			for fi, f := range k.files[ip] {
				fname := k.names[ip][fi]
				fileTag := map[string]string{c12Module: "root", c12Module + "/internal/http2": "http2", c12Module + "/internal/http3": "http3"}[ip]
				if ip == c12Module && (fname == "client.go" || fname == "client_wrapper.go") {
					fileTag = "client"
				}
				for _, d := range f.Decls {
					fd, ok := d.(*ast.FuncDecl)
					if !ok || fd.Body == nil {
						continue
					}
					fn := fd.Name.Name
					writes := map[ast.Expr]bool{}
					ast.Inspect(fd.Body, func(n ast.Node) bool {
						if as, ok := n.(*ast.AssignStmt); ok {
							for _, l := range as.Lhs {
								writes[l] = true
							}
						}
						return true
					})
					var err error
					ast.Inspect(fd.Body, func(n ast.Node) bool {
						switch x := n.(type) {
						case *ast.SelectorExpr:
							fld, ok := c12Fields[x.Sel.Name]
							if !ok {
								return true
							}
							var obj types.Object
							if sel := info.Selections[x]; sel != nil {
								obj = sel.Obj()
							} else if o := info.Uses[x.Sel]; o != nil {
								obj = o // qualified identifier or resolved without Selection
							}
							v, _ := obj.(*types.Var)
							if v == nil || !v.IsField() || owners[v] == "" {
								// a method / function of that name (Client.SetTLSClientConfig is not matched: names differ)
								if _, isFunc := obj.(*types.Func); isFunc {
									return true
								}
								err = fmt.Errorf("%s: selector %s.%s not resolved by go/types", c.fset.Position(x.Pos()), c12ExprStr(x.X), x.Sel.Name)
								return false
							}
							sites = append(sites, c12Site{fileTag, fn, fld, owners[v], writes[ast.Expr(x)], c.fset.Position(x.Pos())})
						case *ast.KeyValueExpr:
							id, ok := x.Key.(*ast.Ident)
							if !ok {
								return true
							}
							fld, ok := c12Fields[id.Name]
							if !ok {
								return true
							}
							v, _ := info.Uses[id].(*types.Var)
							if v == nil || !v.IsField() || owners[v] == "" {
								err = fmt.Errorf("%s: composite literal key %s not resolved", c.fset.Position(x.Pos()), id.Name)
								return false
							}
							sites = append(sites, c12Site{fileTag, fn, fld, owners[v], true, c.fset.Position(x.Pos())})
						}
						return true
					})
					if err != nil {
						return "", err
					}
					if ip == c12Module {
						ws, err := c12Wiring(c, info, fd)
						if err != nil {
							return "", err
						}
						for _, w := range ws {
							wires = append(wires, wire{w.fn, w.stack, w.same, w.pos})
						}
					}
				}
			}
		}
		if len(sites) == 0 {
			return "", fmt.Errorf("no TLSClientConfig/DialTLSContext/TLSHandshakeContext selector found")
		}
		var b strings.Builder
		b.WriteString("import Req.Pool.Tls\n/-! Selector resolution and stack wiring facts for C12 (go/types). -/\nnamespace Generated.C12Facts\nopen Req.Pool.TLS\n\n")
		b.WriteString("def sites : List Site := [\n")
		for i, s := range sites {
			decl := ".stackLocal"
			if s.owner == "transport.Options" {
				decl = ".sharedOptions"
			}
			sep := ","
			if i == len(sites)-1 {
				sep = ""
			}
			fmt.Fprintf(&b, "  ⟨.%s, .%s, %s, %v⟩%s  -- %s:%d %s: declared by %s\n", s.file, s.field, decl, s.write, sep,
				path.Base(s.pos.Filename), s.pos.Line, s.fn, s.owner)
		}
		b.WriteString("]\n\ndef wiring : List WireSite := [\n")
		for i, w := range wires {
			sep := ","
			if i == len(wires)-1 {
				sep = ""
			}
			fmt.Fprintf(&b, "  ⟨.%s, .%s, %v⟩%s  -- %s:%d\n", w.fn, w.stack, w.same, sep, path.Base(w.pos.Filename), w.pos.Line)
		}
		b.WriteString("]\n\nend Generated.C12Facts\n")
		return b.String(), nil
	})
}

func c12ExprStr(e ast.Expr) string {
	switch x := e.(type) {
	case *ast.Ident:
		return x.Name
	case *ast.SelectorExpr:
		return c12ExprStr(x.X) + "." + x.Sel.Name
	case *ast.StarExpr:
		return "*" + c12ExprStr(x.X)
	case *ast.CallExpr:
		return c12ExprStr(x.Fun) + "()"
	}
	return "?"
}

type c12Wire struct {
	fn, stack string
	same      bool
	pos       token.Position
}

// c12Wiring looks, in one function of the root package, for
//
//	&h2internal.Transport{Options: &X.Options, …}   assigned to Y.t2
//	&http3.RoundTripper{Options: &X.Options, …}     assigned to Y.t3 (directly or through a local)
//
// and, in Transport.Clone, for the call Y.EnableHTTP3() on the clone variable. sameOwner =
// X and Y are the same object.
func c12Wiring(c *ctx, info *types.Info, fd *ast.FuncDecl) ([]c12Wire, error) {
	var out []c12Wire
	fnTag := ""
	recv := ""
	if fd.Recv != nil && len(fd.Recv.List) == 1 {
		t := fd.Recv.List[0].Type
		if st, ok := t.(*ast.StarExpr); ok {
			t = st.X
		}
		if id, ok := t.(*ast.Ident); ok {
			recv = id.Name
		}
	}
	switch {
	case recv == "" && fd.Name.Name == "T":
		fnTag = "newT"
	case recv == "Transport" && fd.Name.Name == "Clone":
		fnTag = "clone"
	case recv == "Transport" && fd.Name.Name == "EnableHTTP3":
		fnTag = "enableHTTP3"
	}
	objOf := func(e ast.Expr) types.Object {
		id, ok := e.(*ast.Ident)
		if !ok {
			return nil
		}
		if o := info.Uses[id]; o != nil {
			return o
		}
		return info.Defs[id]
	}
	// stack literals: literal node -> (stack, X object)
	type lit struct {
		stack string
		x     types.Object
		node  ast.Expr
	}
	var lits []lit
	var err error
	ast.Inspect(fd.Body, func(n ast.Node) bool {
		ue, ok := n.(*ast.UnaryExpr)
		if !ok || ue.Op != token.AND {
			return true
		}
		cl, ok := ue.X.(*ast.CompositeLit)
		if !ok {
			return true
		}
		sel, ok := cl.Type.(*ast.SelectorExpr)
		if !ok {
			return true
		}
		stack := ""
		switch c12ExprStr(sel) {
		case "h2internal.Transport":
			stack = "h2"
		case "http3.RoundTripper":
			stack = "h3"
		default:
			return true
		}
		var x types.Object
		found := false
		for _, el := range cl.Elts {
			kv, ok := el.(*ast.KeyValueExpr)
			if !ok {
				continue
			}
			if id, ok := kv.Key.(*ast.Ident); ok && id.Name == "Options" {
				found = true
				if u, ok := kv.Value.(*ast.UnaryExpr); ok && u.Op == token.AND {
					if s2, ok := u.X.(*ast.SelectorExpr); ok && s2.Sel.Name == "Options" {
						x = objOf(s2.X)
					}
				}
			}
		}
		if !found || x == nil {
			err = fmt.Errorf("%s: %s literal without `Options: &X.Options`", c.fset.Position(cl.Pos()), c12ExprStr(sel))
			return false
		}
		lits = append(lits, lit{stack, x, ue})
		return true
	})
	if err != nil {
		return nil, err
	}
	if len(lits) > 0 && fnTag == "" {
		return nil, fmt.Errorf("%s: protocol stack constructed in unexpected function %s", c.fset.Position(fd.Pos()), fd.Name.Name)
	}
	for _, l := range lits {
		// find the assignment chain literal -> [local ->] Y.t2 / Y.t3
		var holder types.Object // local var holding the literal
		var y types.Object
		ast.Inspect(fd.Body, func(n ast.Node) bool {
			as, ok := n.(*ast.AssignStmt)
			if !ok || len(as.Lhs) != len(as.Rhs) {
				return true
			}
			for i, r := range as.Rhs {
				fromLit := r == l.node
				fromHolder := holder != nil && objOf(r) == holder
				if !fromLit && !fromHolder {
					continue
				}
				switch lh := as.Lhs[i].(type) {
				case *ast.Ident:
					if fromLit {
						holder = objOf(lh)
					}
				case *ast.SelectorExpr:
					want := map[string]string{"h2": "t2", "h3": "t3"}[l.stack]
					if lh.Sel.Name == want {
						y = objOf(lh.X)
					}
				}
			}
			return true
		})
		if y == nil {
			return nil, fmt.Errorf("%s: could not find which transport the %s stack literal is stored into", c.fset.Position(l.node.Pos()), l.stack)
		}
		out = append(out, c12Wire{fnTag, l.stack, l.x == y, c.fset.Position(l.node.Pos())})
	}
	if fnTag == "clone" {
		// the clone variable: the one whose .t2 is assigned
		var cloneVar types.Object
		ast.Inspect(fd.Body, func(n ast.Node) bool {
			if as, ok := n.(*ast.AssignStmt); ok {
				for _, lh := range as.Lhs {
					if s, ok := lh.(*ast.SelectorExpr); ok && s.Sel.Name == "t2" {
						cloneVar = objOf(s.X)
					}
				}
			}
			return true
		})
		calls := 0
		ast.Inspect(fd.Body, func(n ast.Node) bool {
			ce, ok := n.(*ast.CallExpr)
			if !ok {
				return true
			}
			if s, ok := ce.Fun.(*ast.SelectorExpr); ok && s.Sel.Name == "EnableHTTP3" {
				calls++
				out = append(out, c12Wire{"clone", "h3", cloneVar != nil && objOf(s.X) == cloneVar, c.fset.Position(ce.Pos())})
			}
			return true
		})
		if calls == 0 {
			return nil, fmt.Errorf("Transport.Clone no longer calls EnableHTTP3 on the clone")
		}
	}
	return out, nil
}
