package main

// C12Facts: for every selector X.TLSClientConfig / X.DialTLSContext / X.TLSHandshakeContext in
// the root package, internal/http2 and internal/http3 the struct that DECLARES the selected
// field, decided by go/types (Selection / field object identity), plus the pointer wiring of
// the protocol stacks (`Options: &X.Options` in T(), Transport.Clone, EnableHTTP3).
//
// The packages are type-checked from source with a lenient configuration: imports outside
// imroc/req's own transport/http2/http3 packages are replaced by empty packages and type
// errors are ignored. Field selection on the locally declared struct types (embedding depth,
// shadowing) is still decided by go/types' own lookup; a selector of interest that go/types
// could not resolve makes the extractor REFUSE.

import (
	"fmt"
	"go/ast"
	"go/build"
	"go/token"
	"go/types"
	"path"
	"path/filepath"
	"sort"
	"strings"
)

const c12Module = "github.com/imroc/req/v3"

var c12Fields = map[string]string{
	"TLSClientConfig":     "tlsClientConfig",
	"DialTLSContext":      "dialTLSContext",
	"TLSHandshakeContext": "tlsHandshakeContext",
}

type c12Checker struct {
	c     *ctx
	pkgs  map[string]*types.Package
	infos map[string]*types.Info
	files map[string][]*ast.File
	names map[string][]string
}

func (k *c12Checker) Import(p string) (*types.Package, error) {
	if pk, ok := k.pkgs[p]; ok {
		return pk, nil
	}
	real := map[string]string{
		c12Module + "/internal/transport": "internal/transport",
		c12Module + "/internal/http2":     "internal/http2",
		c12Module + "/internal/http3":     "internal/http3",
	}
	if dir, ok := real[p]; ok {
		return k.check(p, dir)
	}
	pk := types.NewPackage(p, path.Base(p))
	pk.MarkComplete()
	k.pkgs[p] = pk
	return pk, nil
}

func (k *c12Checker) check(importPath, dir string) (*types.Package, error) {
	fm, err := k.c.files(dir)
	if err != nil {
		return nil, err
	}
	var names []string
	for n := range fm {
		names = append(names, n)
	}
	sort.Strings(names)
	var files []*ast.File
	var kept []string
	for _, n := range names {
		f := fm[n]
		// files excluded from the normal build (//go:build js …) would redeclare things
		if ok, err := build.Default.MatchFile(filepath.Join(k.c.repo, dir), n); err != nil || !ok {
			continue
		}
		files = append(files, f)
		kept = append(kept, n)
	}
	info := &types.Info{
		Selections: map[*ast.SelectorExpr]*types.Selection{},
		Uses:       map[*ast.Ident]types.Object{},
		Defs:       map[*ast.Ident]types.Object{},
		Types:      map[ast.Expr]types.TypeAndValue{},
	}
	conf := types.Config{Importer: k, Error: func(error) {}, FakeImportC: true, DisableUnusedImportCheck: true}
	pk, _ := conf.Check(importPath, k.c.fset, files, info)
	if pk == nil {
		return nil, fmt.Errorf("type-check of %s produced no package", importPath)
	}
	k.pkgs[importPath] = pk
	k.infos[importPath] = info
	k.files[importPath] = files
	k.names[importPath] = kept
	return pk, nil
}

// owner maps every struct field object of the checked packages to "pkg.Type".
func (k *c12Checker) fieldOwners() map[*types.Var]string {
	out := map[*types.Var]string{}
	for _, pk := range k.pkgs {
		sc := pk.Scope()
		for _, n := range sc.Names() {
			tn, ok := sc.Lookup(n).(*types.TypeName)
			if !ok {
				continue
			}
			st, ok := tn.Type().Underlying().(*types.Struct)
			if !ok {
				continue
			}
			for i := 0; i < st.NumFields(); i++ {
				out[st.Field(i)] = pk.Name() + "." + tn.Name()
			}
		}
	}
	return out
}

type c12Site struct {
	file, fn, field, owner string
	write                  bool
	pos                    token.Position
}

func init() {
	register("C12Facts", func(c *ctx) (string, error) {
		k := &c12Checker{c: c, pkgs: map[string]*types.Package{}, infos: map[string]*types.Info{}, files: map[string][]*ast.File{}, names: map[string][]string{}}
		if _, err := k.check(c12Module, "."); err != nil {
			return "", err
		}
		for _, p := range []string{"/internal/transport", "/internal/http2", "/internal/http3"} {
			if k.pkgs[c12Module+p] == nil || k.infos[c12Module+p] == nil {
				return "", fmt.Errorf("package %s was not reached from the root package", p)
			}
		}
		owners := k.fieldOwners()
		var sites []c12Site
		type wire struct {
			fn, stack string
			same      bool
			pos       token.Position
		}
		var wires []wire

		for _, ip := range []string{c12Module, c12Module + "/internal/http2", c12Module + "/internal/http3"} {
			info := k.infos[ip]
			for fi, f := range k.files[ip] {
				fname := k.names[ip][fi]
				fileTag := map[string]string{c12Module: "root", c12Module + "/internal/http2": "http2", c12Module + "/internal/http3": "http3"}[ip]
				if ip == c12Module && (fname == "client.go" || fname == "client_wrapper.go") {
					fileTag = "client"
				}
				for _, d := range f.Decls {
					fd, ok := d.(*ast.FuncDecl)
					if !ok || fd.Body == nil {
						continue
					}
					fn := fd.Name.Name
					writes := map[ast.Expr]bool{}
					ast.Inspect(fd.Body, func(n ast.Node) bool {
						if as, ok := n.(*ast.AssignStmt); ok {
							for _, l := range as.Lhs {
								writes[l] = true
							}
						}
						return true
					})
					var err error
					ast.Inspect(fd.Body, func(n ast.Node) bool {
						switch x := n.(type) {
						case *ast.SelectorExpr:
							fld, ok := c12Fields[x.Sel.Name]
							if !ok {
								return true
							}
							var obj types.Object
							if sel := info.Selections[x]; sel != nil {
								obj = sel.Obj()
							} else if o := info.Uses[x.Sel]; o != nil {
								obj = o // qualified identifier or resolved without Selection
							}
							v, _ := obj.(*types.Var)
							if v == nil || !v.IsField() || owners[v] == "" {
								// a method / function of that name (Client.SetTLSClientConfig is not matched: names differ)
								if _, isFunc := obj.(*types.Func); isFunc {
									return true
								}
								err = fmt.Errorf("%s: selector %s.%s not resolved by go/types", c.fset.Position(x.Pos()), c12ExprStr(x.X), x.Sel.Name)
								return false
							}
							sites = append(sites, c12Site{fileTag, fn, fld, owners[v], writes[ast.Expr(x)], c.fset.Position(x.Pos())})
						case *ast.KeyValueExpr:
							id, ok := x.Key.(*ast.Ident)
							if !ok {
								return true
							}
							fld, ok := c12Fields[id.Name]
							if !ok {
								return true
							}
							v, _ := info.Uses[id].(*types.Var)
							if v == nil || !v.IsField() || owners[v] == "" {
								err = fmt.Errorf("%s: composite literal key %s not resolved", c.fset.Position(x.Pos()), id.Name)
								return false
							}
							sites = append(sites, c12Site{fileTag, fn, fld, owners[v], true, c.fset.Position(x.Pos())})
						}
						return true
					})
					if err != nil {
						return "", err
					}
					if ip == c12Module {
						ws, err := c12Wiring(c, info, fd, k.files[c12Module])
						if err != nil {
							return "", err
						}
						for _, w := range ws {
							wires = append(wires, wire{w.fn, w.stack, w.same, w.pos})
						}
					}
				}
			}
		}
		if len(sites) == 0 {
			return "", fmt.Errorf("no TLSClientConfig/DialTLSContext/TLSHandshakeContext selector found")
		}
		fp, err := c12Fingerprint(c)
		if err != nil {
			return "", err
		}
		var b strings.Builder
		b.WriteString("import Req.Pool.Tls\nimport Req.Pool.TlsPaths\n/-! Selector resolution and stack wiring facts for C12 (go/types). -/\nnamespace Generated.C12Facts\nopen Req.Pool.TLS\n\n")
		b.WriteString("def sites : List Site := [\n")
		for i, s := range sites {
			decl := ".stackLocal"
			if s.owner == "transport.Options" {
				decl = ".sharedOptions"
			}
			sep := ","
			if i == len(sites)-1 {
				sep = ""
			}
			fmt.Fprintf(&b, "  ⟨.%s, .%s, %s, %v⟩%s  -- %s:%d %s: declared by %s\n", s.file, s.field, decl, s.write, sep,
				path.Base(s.pos.Filename), s.pos.Line, s.fn, s.owner)
		}
		b.WriteString("]\n\ndef wiring : List WireSite := [\n")
		for i, w := range wires {
			sep := ","
			if i == len(wires)-1 {
				sep = ""
			}
			fmt.Fprintf(&b, "  ⟨.%s, .%s, %v⟩%s  -- %s:%d\n", w.fn, w.stack, w.same, sep, path.Base(w.pos.Filename), w.pos.Line)
		}
		b.WriteString("]\n\n")
		fmt.Fprintf(&b, "/-- Fields of the client's tls.Config that reach the same field of the utls.Config built by the\nfingerprint handshake (%s:%d, in %s). -/\ndef fpCopied : List FpField := [", path.Base(fp.pos.Filename), fp.pos.Line, fp.fn)
		for i, f := range fp.copied {
			if i > 0 {
				b.WriteString(", ")
			}
			b.WriteString("." + f)
		}
		b.WriteString("]\n\nend Generated.C12Facts\n")
		return b.String(), nil
	})
}

func c12ExprStr(e ast.Expr) string {
	switch x := e.(type) {
	case *ast.Ident:
		return x.Name
	case *ast.SelectorExpr:
		return c12ExprStr(x.X) + "." + x.Sel.Name
	case *ast.StarExpr:
		return "*" + c12ExprStr(x.X)
	case *ast.CallExpr:
		return c12ExprStr(x.Fun) + "()"
	}
	return "?"
}

type c12Wire struct {
	fn, stack string
	same      bool
	pos       token.Position
}

// c12Wiring finds, in one function of the root package, every store of a protocol stack into a
// transport:
//
//	Y.t2 = <value>      Y.t3 = <value>
//
// and resolves what the stack's `Options` pointer is, symbolically: <value> may be the
// `&h2internal.Transport{…}` / `&http3.RoundTripper{…}` literal itself, a local variable that holds
// it, or a call to a function of the same package that builds it (followed ONE level deep, the
// parameters substituted by the arguments). `Options` may be given as a key of the literal or by a
// field assignment after construction (`v.Options = E`, `Y.t2.Options = E`). sameOwner = the
// resolved expression is `&Z.Options` with Z the very object Y. A value that cannot be resolved
// this way makes the extractor REFUSE; a resolved pointer to anything else (a detached copy, a
// local, another transport's options) is reported as sameOwner = false.
//
// In Transport.Clone the call Y.EnableHTTP3() must be made on the clone (the returned variable).
func c12Wiring(c *ctx, info *types.Info, fd *ast.FuncDecl, pkgFiles []*ast.File) ([]c12Wire, error) {
	var out []c12Wire
	fnTag := ""
	recv := c12RecvName(fd)
	switch {
	case recv == "" && fd.Name.Name == "T":
		fnTag = "newT"
	case recv == "Transport" && fd.Name.Name == "Clone":
		fnTag = "clone"
	case recv == "Transport" && fd.Name.Name == "EnableHTTP3":
		fnTag = "enableHTTP3"
	}
	r := &c12Resolver{c: c, info: info, files: pkgFiles}
	var err error
	ast.Inspect(fd.Body, func(n ast.Node) bool {
		as, ok := n.(*ast.AssignStmt)
		if !ok || err != nil {
			return err == nil
		}
		if len(as.Lhs) != len(as.Rhs) {
			return true
		}
		for i, lh := range as.Lhs {
			sel, ok := lh.(*ast.SelectorExpr)
			if !ok || (sel.Sel.Name != "t2" && sel.Sel.Name != "t3") {
				continue
			}
			if id, ok := as.Rhs[i].(*ast.Ident); ok && id.Name == "nil" {
				continue // DisableHTTP3
			}
			stack := map[string]string{"t2": "h2", "t3": "h3"}[sel.Sel.Name]
			y := r.objOf(sel.X)
			if y == nil {
				err = fmt.Errorf("%s: stack stored into something that is not a plain variable", c.fset.Position(as.Pos()))
				return false
			}
			if fnTag == "" {
				err = fmt.Errorf("%s: protocol stack stored in unexpected function %s", c.fset.Position(as.Pos()), fd.Name.Name)
				return false
			}
			opt, e := r.stackOptions(fd, as.Rhs[i], stack, 1)
			if e != nil {
				err = e
				return false
			}
			if opt == nil {
				// filled after the store: Y.t2.Options = E
				opt = r.fieldAssign(fd, func(x ast.Expr) bool {
					s2, ok := x.(*ast.SelectorExpr)
					return ok && s2.Sel.Name == sel.Sel.Name && r.objOf(s2.X) == y
				})
			}
			if opt == nil {
				err = fmt.Errorf("%s: could not find what the %s stack's Options points at", c.fset.Position(as.Pos()), stack)
				return false
			}
			same := false
			if u, ok := c12Unparen(opt).(*ast.UnaryExpr); ok && u.Op == token.AND {
				if s2, ok := c12Unparen(u.X).(*ast.SelectorExpr); ok && s2.Sel.Name == "Options" {
					same = r.objOf(s2.X) == y
				}
			}
			out = append(out, c12Wire{fnTag, stack, same, c.fset.Position(as.Pos())})
		}
		return true
	})
	if err != nil {
		return nil, err
	}
	if fnTag == "clone" {
		// the clone: the variable Clone returns
		var cloneVar types.Object
		ast.Inspect(fd.Body, func(n ast.Node) bool {
			if rs, ok := n.(*ast.ReturnStmt); ok && len(rs.Results) == 1 {
				if o := r.objOf(rs.Results[0]); o != nil {
					cloneVar = o
				}
			}
			return true
		})
		calls := 0
		ast.Inspect(fd.Body, func(n ast.Node) bool {
			ce, ok := n.(*ast.CallExpr)
			if !ok {
				return true
			}
			if s, ok := ce.Fun.(*ast.SelectorExpr); ok && s.Sel.Name == "EnableHTTP3" {
				calls++
				out = append(out, c12Wire{"clone", "h3", cloneVar != nil && r.objOf(s.X) == cloneVar, c.fset.Position(ce.Pos())})
			}
			return true
		})
		if calls == 0 {
			return nil, fmt.Errorf("Transport.Clone no longer calls EnableHTTP3 on the clone")
		}
	}
	return out, nil
}

func c12RecvName(fd *ast.FuncDecl) string {
	if fd.Recv == nil || len(fd.Recv.List) != 1 {
		return ""
	}
	t := fd.Recv.List[0].Type
	if st, ok := t.(*ast.StarExpr); ok {
		t = st.X
	}
	if id, ok := t.(*ast.Ident); ok {
		return id.Name
	}
	return ""
}

func c12Unparen(e ast.Expr) ast.Expr {
	for {
		p, ok := e.(*ast.ParenExpr)
		if !ok {
			return e
		}
		e = p.X
	}
}

type c12Resolver struct {
	c     *ctx
	info  *types.Info
	files []*ast.File
}

func (r *c12Resolver) objOf(e ast.Expr) types.Object {
	id, ok := c12Unparen(e).(*ast.Ident)
	if !ok {
		return nil
	}
	if o := r.info.Uses[id]; o != nil {
		return o
	}
	return r.info.Defs[id]
}

func c12StackLit(e ast.Expr, stack string) *ast.CompositeLit {
	e = c12Unparen(e)
	if u, ok := e.(*ast.UnaryExpr); ok && u.Op == token.AND {
		e = c12Unparen(u.X)
	}
	cl, ok := e.(*ast.CompositeLit)
	if !ok {
		return nil
	}
	sel, ok := cl.Type.(*ast.SelectorExpr)
	if !ok {
		return nil
	}
	want := map[string]string{"h2": "h2internal.Transport", "h3": "http3.RoundTripper"}[stack]
	if c12ExprStr(sel) != want {
		return nil
	}
	return cl
}

// fieldAssign finds `<target>.Options = E` in fd, where isTarget recognises <target>.
func (r *c12Resolver) fieldAssign(fd *ast.FuncDecl, isTarget func(ast.Expr) bool) ast.Expr {
	var found ast.Expr
	ast.Inspect(fd.Body, func(n ast.Node) bool {
		as, ok := n.(*ast.AssignStmt)
		if !ok || len(as.Lhs) != len(as.Rhs) {
			return true
		}
		for i, lh := range as.Lhs {
			if s, ok := lh.(*ast.SelectorExpr); ok && s.Sel.Name == "Options" && isTarget(c12Unparen(s.X)) {
				found = as.Rhs[i] // the last assignment in source order wins
			}
		}
		return true
	})
	return found
}

// stackOptions resolves the `Options` expression of the stack value v (an expression of
// function fd). It returns (nil, nil) when v is a stack literal / local without any Options
// given (the caller then looks for a later field assignment), an error when v is of a shape the
// extractor does not understand.
func (r *c12Resolver) stackOptions(fd *ast.FuncDecl, v ast.Expr, stack string, depth int) (ast.Expr, error) {
	v = c12Unparen(v)
	if cl := c12StackLit(v, stack); cl != nil {
		for _, el := range cl.Elts {
			if kv, ok := el.(*ast.KeyValueExpr); ok {
				if id, ok := kv.Key.(*ast.Ident); ok && id.Name == "Options" {
					return kv.Value, nil
				}
			}
		}
		return nil, nil
	}
	switch x := v.(type) {
	case *ast.Ident:
		obj := r.objOf(x)
		if obj == nil {
			return nil, fmt.Errorf("%s: unresolved identifier %s", r.c.fset.Position(x.Pos()), x.Name)
		}
		// a field assignment on the local after construction wins over the literal's key
		if e := r.fieldAssign(fd, func(t ast.Expr) bool { return r.objOf(t) == obj }); e != nil {
			return e, nil
		}
		// the local's defining assignment
		var def ast.Expr
		ast.Inspect(fd.Body, func(n ast.Node) bool {
			switch a := n.(type) {
			case *ast.AssignStmt:
				if len(a.Lhs) == len(a.Rhs) {
					for i, lh := range a.Lhs {
						if id, ok := lh.(*ast.Ident); ok && r.objOf(id) == obj {
							def = a.Rhs[i]
						}
					}
				}
			case *ast.ValueSpec:
				for i, n2 := range a.Names {
					if r.objOf(n2) == obj && i < len(a.Values) {
						def = a.Values[i]
					}
				}
			}
			return true
		})
		if def == nil {
			return nil, fmt.Errorf("%s: no definition found for the stack variable %s in %s", r.c.fset.Position(x.Pos()), x.Name, fd.Name.Name)
		}
		return r.stackOptions(fd, def, stack, depth)
	case *ast.CallExpr:
		if depth == 0 {
			return nil, fmt.Errorf("%s: stack built through more than one level of helper calls", r.c.fset.Position(x.Pos()))
		}
		fid, ok := x.Fun.(*ast.Ident)
		if !ok {
			return nil, fmt.Errorf("%s: stack value is the result of %s, not of a function of this package", r.c.fset.Position(x.Pos()), c12ExprStr(x.Fun))
		}
		var helper *ast.FuncDecl
		for _, f := range r.files {
			for _, d := range f.Decls {
				if h, ok := d.(*ast.FuncDecl); ok && h.Recv == nil && h.Name.Name == fid.Name && h.Body != nil {
					helper = h
				}
			}
		}
		if helper == nil {
			return nil, fmt.Errorf("%s: helper %s not found in the package", r.c.fset.Position(x.Pos()), fid.Name)
		}
		// parameters -> arguments
		params := map[types.Object]ast.Expr{}
		k := 0
		for _, fl := range helper.Type.Params.List {
			for _, n := range fl.Names {
				if k < len(x.Args) {
					if o := r.info.Defs[n]; o != nil {
						params[o] = x.Args[k]
					}
				}
				k++
			}
		}
		if k != len(x.Args) {
			return nil, fmt.Errorf("%s: helper %s: variadic / mismatching call", r.c.fset.Position(x.Pos()), fid.Name)
		}
		// the helper's single result
		var rets []ast.Expr
		ast.Inspect(helper.Body, func(n ast.Node) bool {
			if _, ok := n.(*ast.FuncLit); ok {
				return false
			}
			if rs, ok := n.(*ast.ReturnStmt); ok {
				if len(rs.Results) == 1 {
					rets = append(rets, rs.Results[0])
				} else {
					rets = append(rets, nil)
				}
			}
			return true
		})
		if len(rets) != 1 || rets[0] == nil {
			return nil, fmt.Errorf("%s: helper %s does not have exactly one single-value return", r.c.fset.Position(x.Pos()), fid.Name)
		}
		inner, err := r.stackOptions(helper, rets[0], stack, depth-1)
		if err != nil {
			return nil, err
		}
		if inner == nil {
			return nil, nil
		}
		return r.subst(inner, params)
	}
	return nil, fmt.Errorf("%s: stack value of unsupported shape %T", r.c.fset.Position(v.Pos()), v)
}

// subst rewrites an expression of a helper's frame into the caller's frame by replacing the
// helper's parameters with the call's arguments (small expression grammar only).
func (r *c12Resolver) subst(e ast.Expr, params map[types.Object]ast.Expr) (ast.Expr, error) {
	switch x := e.(type) {
	case *ast.Ident:
		if a, ok := params[r.objOf(x)]; ok {
			return a, nil
		}
		return x, nil // a local / global of the helper: stays foreign to the caller's transport
	case *ast.ParenExpr:
		return r.subst(x.X, params)
	case *ast.SelectorExpr:
		in, err := r.subst(x.X, params)
		if err != nil {
			return nil, err
		}
		return &ast.SelectorExpr{X: in, Sel: x.Sel}, nil
	case *ast.UnaryExpr:
		in, err := r.subst(x.X, params)
		if err != nil {
			return nil, err
		}
		return &ast.UnaryExpr{Op: x.Op, X: in, OpPos: x.OpPos}, nil
	case *ast.StarExpr:
		in, err := r.subst(x.X, params)
		if err != nil {
			return nil, err
		}
		// *(&a) = a
		if u, ok := c12Unparen(in).(*ast.UnaryExpr); ok && u.Op == token.AND {
			return u.X, nil
		}
		return &ast.StarExpr{X: in}, nil
	}
	return nil, fmt.Errorf("%s: helper's Options expression of unsupported shape %T", r.c.fset.Position(e.Pos()), e)
}
