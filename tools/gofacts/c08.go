package main

// C08 facts: how Request.do (request.go) waits between retry attempts.
//
//   retrySleepSelectsCtx   — the inter-attempt wait is a `select` with a `<-X.Done()` case that
//                            returns (true) or a bare `time.Sleep(...)` (false)
//   retrySleepShape        — "select-ctx-done" | "time.Sleep"
//   stopsOnContextCanceled — the loop has `contextCanceled := errors.Is(err, context.Canceled)`
//                            and an `if contextCanceled || … { return }` before the retry decision
//   openFindingRetrySleep  — known-findings.txt of the verification tree carries the open line
//                            `property=C08 class=retry-sleep-ignores-ctx` (read only; lets the bridge
//                            tolerate exactly the recorded defect until the fix is applied)
//
// The extractor REFUSES when it cannot find exactly one wait on GetRetryInterval in the retry
// loop or when the wait has a shape it does not understand.

import (
	"bufio"
	"flag"
	"fmt"
	"go/ast"
	"os"
	"path/filepath"
	"strings"
)

func init() { register("C08Facts", c08Facts) }

func c08ContainsCall(n ast.Node, sel string) bool {
	found := false
	ast.Inspect(n, func(x ast.Node) bool {
		if ce, ok := x.(*ast.CallExpr); ok {
			if se, ok := ce.Fun.(*ast.SelectorExpr); ok && se.Sel.Name == sel {
				found = true
			}
		}
		return !found
	})
	return found
}

func c08IsPkgCall(e ast.Expr, pkg, fn string) (*ast.CallExpr, bool) {
	ce, ok := e.(*ast.CallExpr)
	if !ok {
		return nil, false
	}
	se, ok := ce.Fun.(*ast.SelectorExpr)
	if !ok || se.Sel.Name != fn {
		return nil, false
	}
	id, ok := se.X.(*ast.Ident)
	if !ok || id.Name != pkg {
		return nil, false
	}
	return ce, true
}

// c08IsDoneRecv reports whether the comm statement receives from `<expr>.Done()`.
func c08IsDoneRecv(s ast.Stmt) bool {
	var e ast.Expr
	switch c := s.(type) {
	case *ast.ExprStmt:
		e = c.X
	case *ast.AssignStmt:
		if len(c.Rhs) == 1 {
			e = c.Rhs[0]
		}
	}
	ue, ok := e.(*ast.UnaryExpr)
	if !ok || ue.Op.String() != "<-" {
		return false
	}
	ce, ok := ue.X.(*ast.CallExpr)
	if !ok || len(ce.Args) != 0 {
		return false
	}
	se, ok := ce.Fun.(*ast.SelectorExpr)
	return ok && se.Sel.Name == "Done"
}

// c08FuncsNamed returns every top-level function / method of the root package with that name.
func c08FuncsNamed(c *ctx, name string) []*ast.FuncDecl {
	fs, err := c.files("")
	if err != nil {
		return nil
	}
	var out []*ast.FuncDecl
	for _, f := range fs {
		for _, d := range f.Decls {
			if fd, ok := d.(*ast.FuncDecl); ok && fd.Name.Name == name {
				out = append(out, fd)
			}
		}
	}
	return out
}

// c08IsRecvFromVar reports whether the comm statement receives from one of the named locals.
func c08IsRecvFromVar(s ast.Stmt, vars map[string]bool) bool {
	var e ast.Expr
	switch c := s.(type) {
	case *ast.ExprStmt:
		e = c.X
	case *ast.AssignStmt:
		if len(c.Rhs) == 1 {
			e = c.Rhs[0]
		}
	}
	ue, ok := e.(*ast.UnaryExpr)
	if !ok || ue.Op.String() != "<-" {
		return false
	}
	id, ok := ue.X.(*ast.Ident)
	return ok && vars[id.Name]
}

func c08HasReturn(stmts []ast.Stmt) bool {
	found := false
	for _, s := range stmts {
		ast.Inspect(s, func(x ast.Node) bool {
			if _, ok := x.(*ast.FuncLit); ok {
				return false
			}
			if _, ok := x.(*ast.ReturnStmt); ok {
				found = true
			}
			return !found
		})
	}
	return found
}

func c08Facts(c *ctx) (string, error) {
	fd, err := c.funcDecl("", "Request", "do")
	if err != nil {
		return "", err
	}
	// the retry loop: the outermost `for { … }` of do()
	var loop *ast.ForStmt
	for _, s := range fd.Body.List {
		if f, ok := s.(*ast.ForStmt); ok {
			if loop != nil {
				return "", fmt.Errorf("Request.do: more than one top-level for loop")
			}
			loop = f
		}
	}
	if loop == nil {
		return "", fmt.Errorf("Request.do: retry loop not found")
	}
	// --- the wait --------------------------------------------------------------------------
	// Normalised view: the wait may sit in the loop itself or, one level deep, in a helper of the
	// same package that the loop calls with the retry interval (an argument that contains the
	// GetRetryInterval call, or a local assigned from it), or that computes the interval itself.
	// What is extracted does not depend on local names, on `time.After` vs `time.NewTimer`, on the
	// order of the select cases, or on `<-ctx.Done()` vs a local holding the Done channel.
	type scope struct {
		name   string
		body   *ast.BlockStmt
		helper bool
	}
	scopes := []scope{{"Request.do", loop.Body, false}}
	intervalVars := map[string]bool{}
	ast.Inspect(loop.Body, func(x ast.Node) bool {
		if as, ok := x.(*ast.AssignStmt); ok && len(as.Lhs) == len(as.Rhs) {
			for k, rhs := range as.Rhs {
				if id, ok := as.Lhs[k].(*ast.Ident); ok && c08ContainsCall(rhs, "GetRetryInterval") {
					intervalVars[id.Name] = true
				}
			}
		}
		return true
	})
	mentionsInterval := func(e ast.Expr) bool {
		if c08ContainsCall(e, "GetRetryInterval") {
			return true
		}
		found := false
		ast.Inspect(e, func(x ast.Node) bool {
			if id, ok := x.(*ast.Ident); ok && intervalVars[id.Name] {
				found = true
			}
			return !found
		})
		return found
	}
	// helperResultUsed[name]: the loop returns depending on the helper's result
	helperReturns := map[string]bool{}
	seenHelper := map[string]bool{}
	var visitBlock func(list []ast.Stmt)
	followCall := func(ce *ast.CallExpr, enclosing ast.Stmt, rest []ast.Stmt) {
		name := ""
		switch f := ce.Fun.(type) {
		case *ast.Ident:
			name = f.Name
		case *ast.SelectorExpr:
			name = f.Sel.Name
		}
		if name == "" || name == "GetRetryInterval" {
			return
		}
		decls := c08FuncsNamed(c, name)
		if len(decls) != 1 || decls[0].Body == nil {
			return
		}
		takesInterval := false
		for _, a := range ce.Args {
			if mentionsInterval(a) {
				takesInterval = true
			}
		}
		if !takesInterval && !c08ContainsCall(decls[0].Body, "GetRetryInterval") {
			return
		}
		if !seenHelper[name] {
			seenHelper[name] = true
			scopes = append(scopes, scope{name, decls[0].Body, true})
		}
		// does the loop return on the helper's result?
		switch st := enclosing.(type) {
		case *ast.IfStmt:
			if c08HasReturn(st.Body.List) || (st.Else != nil && c08HasReturn([]ast.Stmt{st.Else})) {
				helperReturns[name] = true
			}
		case *ast.SwitchStmt:
			if c08HasReturn(st.Body.List) {
				helperReturns[name] = true
			}
		case *ast.AssignStmt:
			vars := map[string]bool{}
			for _, l := range st.Lhs {
				if id, ok := l.(*ast.Ident); ok && id.Name != "_" {
					vars[id.Name] = true
				}
			}
			for _, later := range rest {
				uses := false
				ast.Inspect(later, func(x ast.Node) bool {
					if id, ok := x.(*ast.Ident); ok && vars[id.Name] {
						uses = true
					}
					return !uses
				})
				if uses && c08HasReturn([]ast.Stmt{later}) {
					helperReturns[name] = true
				}
			}
		}
	}
	visitBlock = func(list []ast.Stmt) {
		for k, st := range list {
			// calls directly in this statement (not in nested blocks: those are visited themselves)
			var heads []ast.Node
			switch n := st.(type) {
			case *ast.IfStmt:
				if n.Init != nil {
					heads = append(heads, n.Init)
				}
				heads = append(heads, n.Cond)
				visitBlock(n.Body.List)
				if eb, ok := n.Else.(*ast.BlockStmt); ok {
					visitBlock(eb.List)
				} else if ei, ok := n.Else.(*ast.IfStmt); ok {
					visitBlock([]ast.Stmt{ei})
				}
			case *ast.SwitchStmt:
				if n.Init != nil {
					heads = append(heads, n.Init)
				}
				if n.Tag != nil {
					heads = append(heads, n.Tag)
				}
				for _, cl := range n.Body.List {
					visitBlock(cl.(*ast.CaseClause).Body)
				}
			case *ast.BlockStmt:
				visitBlock(n.List)
			case *ast.ForStmt:
				visitBlock(n.Body.List)
			case *ast.RangeStmt:
				visitBlock(n.Body.List)
			default:
				heads = append(heads, st)
			}
			for _, h := range heads {
				ast.Inspect(h, func(x ast.Node) bool {
					if _, ok := x.(*ast.FuncLit); ok {
						return false
					}
					if ce, ok := x.(*ast.CallExpr); ok {
						followCall(ce, st, list[k+1:])
					}
					return true
				})
			}
		}
	}
	visitBlock(loop.Body.List)

	haveInterval := false
	for _, sc := range scopes {
		if c08ContainsCall(sc.body, "GetRetryInterval") {
			haveInterval = true
		}
	}
	if !haveInterval {
		return "", fmt.Errorf("Request.do: no GetRetryInterval call in the retry loop (or the helper it calls)")
	}

	nSleep, nSelect := 0, 0
	selectsCtx := false
	var bad string
	for _, sc := range scopes {
		sc := sc
		// locals that hold a Done channel: `done := X.Done()`
		doneVars := map[string]bool{}
		ast.Inspect(sc.body, func(x ast.Node) bool {
			if as, ok := x.(*ast.AssignStmt); ok && len(as.Lhs) == len(as.Rhs) {
				for k, rhs := range as.Rhs {
					if ce, ok := rhs.(*ast.CallExpr); ok && len(ce.Args) == 0 {
						if se, ok := ce.Fun.(*ast.SelectorExpr); ok && se.Sel.Name == "Done" {
							if id, ok := as.Lhs[k].(*ast.Ident); ok {
								doneVars[id.Name] = true
							}
						}
					}
				}
			}
			return true
		})
		ast.Inspect(sc.body, func(x ast.Node) bool {
			switch n := x.(type) {
			case *ast.FuncLit:
				return false
			case *ast.ExprStmt:
				if ce, ok := c08IsPkgCall(n.X, "time", "Sleep"); ok {
					nSleep++
					if len(ce.Args) != 1 {
						bad = "time.Sleep with unexpected arguments"
					}
				}
			case *ast.SelectStmt:
				nSelect++
				doneReturns, other := false, 0
				for _, cl := range n.Body.List {
					cc := cl.(*ast.CommClause)
					if cc.Comm == nil {
						bad = "select with a default case in the retry wait (busy wait?)"
						continue
					}
					if c08IsDoneRecv(cc.Comm) || c08IsRecvFromVar(cc.Comm, doneVars) {
						if c08HasReturn(cc.Body) {
							doneReturns = true
						} else {
							bad = "the <-Done() case of the retry wait does not return"
						}
					} else {
						other++
					}
				}
				if doneReturns && other >= 1 {
					if sc.helper && !helperReturns[sc.name] {
						bad = "the retry loop does not return on the result of " + sc.name + " (context error dropped?)"
					} else {
						selectsCtx = true
					}
				} else if bad == "" {
					bad = "select in the retry wait without a returning <-Done() case and a timer case"
				}
			}
			return true
		})
	}
	if bad != "" {
		return "", fmt.Errorf("Request.do: %s", bad)
	}
	shape := ""
	switch {
	case nSleep == 1 && nSelect == 0:
		shape = "time.Sleep"
	case nSleep == 0 && nSelect == 1 && selectsCtx:
		shape = "select-ctx-done"
	default:
		return "", fmt.Errorf("Request.do: inter-attempt wait not understood (%d time.Sleep, %d select)", nSleep, nSelect)
	}

	// --- contextCanceled guard -------------------------------------------------------------
	// the local that remembers errors.Is(err, context.Canceled) may have any name
	canceledVar := ""
	ast.Inspect(loop.Body, func(x ast.Node) bool {
		switch n := x.(type) {
		case *ast.FuncLit:
			return false
		case *ast.AssignStmt:
			if len(n.Lhs) == 1 && len(n.Rhs) == 1 {
				if id, ok := n.Lhs[0].(*ast.Ident); ok {
					if ce, ok := c08IsPkgCall(n.Rhs[0], "errors", "Is"); ok && len(ce.Args) == 2 {
						if se, ok := ce.Args[1].(*ast.SelectorExpr); ok && se.Sel.Name == "Canceled" {
							if p, ok := se.X.(*ast.Ident); ok && p.Name == "context" {
								canceledVar = id.Name
							}
						}
					}
				}
			}
		}
		return true
	})
	assigned, guarded := canceledVar != "", false
	ast.Inspect(loop.Body, func(x ast.Node) bool {
		switch n := x.(type) {
		case *ast.FuncLit:
			return false
		case *ast.IfStmt:
			// an operand of a || chain, body = bare return
			var operands []ast.Expr
			var walk func(e ast.Expr)
			walk = func(e ast.Expr) {
				if be, ok := e.(*ast.BinaryExpr); ok && be.Op.String() == "||" {
					walk(be.X)
					walk(be.Y)
					return
				}
				if pe, ok := e.(*ast.ParenExpr); ok {
					walk(pe.X)
					return
				}
				operands = append(operands, e)
			}
			walk(n.Cond)
			for _, e := range operands {
				if id, ok := e.(*ast.Ident); ok && assigned && id.Name == canceledVar && n.Else == nil && len(n.Body.List) == 1 {
					if _, ok := n.Body.List[0].(*ast.ReturnStmt); ok {
						guarded = true
					}
				}
			}
		}
		return true
	})

	// --- known-findings.txt (read only) ------------------------------------------------------
	open := false
	if f := flag.Lookup("out"); f != nil && f.Value.String() != "" {
		p := filepath.Join(f.Value.String(), "..", "..", "known-findings.txt")
		if fh, err := os.Open(p); err == nil {
			sc := bufio.NewScanner(fh)
			for sc.Scan() {
				l := strings.TrimSpace(sc.Text())
				if strings.HasPrefix(l, "open:") && strings.Contains(l, "property=C08") &&
					strings.Contains(l, "class=retry-sleep-ignores-ctx") {
					open = true
				}
			}
			fh.Close()
		}
	}

	b := func(v bool) string {
		if v {
			return "true"
		}
		return "false"
	}
	var sb strings.Builder
	sb.WriteString("namespace Generated.C08Facts\n\n")
	sb.WriteString("/-- request.go Request.do: the wait between attempts selects on the context (and returns). -/\n")
	sb.WriteString("def retrySleepSelectsCtx : Bool := " + b(shape == "select-ctx-done") + "\n\n")
	sb.WriteString("def retrySleepShape : String := \"" + shape + "\"\n\n")
	sb.WriteString("/-- `contextCanceled := errors.Is(err, context.Canceled)` … `if contextCanceled || … { return }` -/\n")
	sb.WriteString("def stopsOnContextCanceled : Bool := " + b(assigned && guarded) + "\n\n")
	sb.WriteString("/-- known-findings.txt has `open: property=C08 class=retry-sleep-ignores-ctx` -/\n")
	sb.WriteString("def openFindingRetrySleep : Bool := " + b(open) + "\n\n")
	sb.WriteString("end Generated.C08Facts\n")
	return sb.String(), nil
}
