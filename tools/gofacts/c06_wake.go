package main

// C06 wake-up facts (Generated/C06Wake.lean): how the condition variable of a ClientConn
// (`cond`, a field of ClientConn) is used in internal/http2.
//
//   - condSignalUses: number of `….cond.Signal()` calls. The wake-up discipline of the model
//     (Req.H2.Conn.wakes, theorem no_lost_wakeup) is about Broadcast: a Signal would wake ONE of
//     several sleepers (body writers in awaitFlowControl, a RoundTrip in
//     awaitOpenSlotForStreamLocked), not necessarily the one whose condition became true.
//   - condWaiters: the functions that sleep on it.
//   - broadcastSites: for every handler the model's table relies on, whether a Broadcast is
//     reached in the function itself or in a same-package function it calls directly (so that
//     extracting `cc.cond.Broadcast()` into a helper changes nothing).
//
// Found by meaning: any selector chain ending in the field `cond` followed by the method, in
// any function of the package, function literals included (attributed to the enclosing
// declaration); receiver and local names do not matter.

import (
	"fmt"
	"go/ast"
	"sort"
	"strings"
)

func init() {
	register("C06Wake", c06Wake)
}

// the handlers behind Conn.wakes / Conn.step, as "Receiver.name"
var c06WakeSites = []string{
	"ClientConn.forgetStreamID",                 // a stream leaves cc.streams
	"clientStream.abortStreamLocked",            // cancel, Body.Close, reset, stream error, GOAWAY
	"clientStream.abortRequestBodyWrite",        // the upload is stopped
	"clientConnReadLoop.processWindowUpdate",    // WINDOW_UPDATE
	"clientConnReadLoop.processSettingsNoWrite", // SETTINGS
	"clientConnReadLoop.cleanup",                // the connection is torn down
}

func c06RecvName(fd *ast.FuncDecl) string {
	r := ""
	if fd.Recv != nil && len(fd.Recv.List) == 1 {
		t := fd.Recv.List[0].Type
		if st, ok := t.(*ast.StarExpr); ok {
			t = st.X
		}
		if ix, ok := t.(*ast.IndexExpr); ok {
			t = ix.X
		}
		if id, ok := t.(*ast.Ident); ok {
			r = id.Name
		}
	}
	return r
}

// c06CondCall: is e a call `<chain>.cond.<method>()`? returns the method.
func c06CondCall(e ast.Node) (string, bool) {
	call, ok := e.(*ast.CallExpr)
	if !ok {
		return "", false
	}
	sel, ok := call.Fun.(*ast.SelectorExpr)
	if !ok {
		return "", false
	}
	inner, ok := sel.X.(*ast.SelectorExpr)
	if !ok || inner.Sel.Name != "cond" {
		return "", false
	}
	return sel.Sel.Name, true
}

func c06Wake(c *ctx) (string, error) {
	fs, err := c.files(c06Dir)
	if err != nil {
		return "", err
	}
	// the field must still be a *sync.Cond of ClientConn
	found := false
	for _, f := range fs {
		ast.Inspect(f, func(n ast.Node) bool {
			ts, ok := n.(*ast.TypeSpec)
			if !ok || ts.Name.Name != "ClientConn" {
				return true
			}
			if st, ok := ts.Type.(*ast.StructType); ok {
				for _, fl := range st.Fields.List {
					for _, nm := range fl.Names {
						if nm.Name == "cond" && c06Render(c.fset, fl.Type) == "*sync.Cond" {
							found = true
						}
					}
				}
			}
			return false
		})
	}
	if !found {
		return "", fmt.Errorf("ClientConn.cond is no longer a *sync.Cond field")
	}
	type info struct {
		broadcast, signal, wait int
		calls                   map[string]bool // same-package callees: "name" (functions) or ".name" (methods)
	}
	decls := map[string]*info{}
	byName := map[string][]string{} // bare name -> declarations with that name
	for _, f := range fs {
		for _, d := range f.Decls {
			fd, ok := d.(*ast.FuncDecl)
			if !ok || fd.Body == nil {
				continue
			}
			key := fd.Name.Name
			if r := c06RecvName(fd); r != "" {
				key = r + "." + key
			}
			in := &info{calls: map[string]bool{}}
			decls[key] = in
			byName[fd.Name.Name] = append(byName[fd.Name.Name], key)
			ast.Inspect(fd.Body, func(n ast.Node) bool {
				if m, ok := c06CondCall(n); ok {
					switch m {
					case "Broadcast":
						in.broadcast++
					case "Signal":
						in.signal++
					case "Wait":
						in.wait++
					}
					return true
				}
				if call, ok := n.(*ast.CallExpr); ok {
					switch fn := call.Fun.(type) {
					case *ast.Ident:
						in.calls[fn.Name] = true
					case *ast.SelectorExpr:
						in.calls[fn.Sel.Name] = true
					}
				}
				return true
			})
		}
	}
	signals := 0
	var waiters []string
	for k, in := range decls {
		signals += in.signal
		if in.wait > 0 {
			waiters = append(waiters, k)
		}
	}
	sort.Strings(waiters)
	reaches := func(key string) (bool, error) {
		in, ok := decls[key]
		if !ok {
			return false, fmt.Errorf("function %s not found in %s", key, c06Dir)
		}
		if in.broadcast > 0 {
			return true, nil
		}
		for callee := range in.calls {
			for _, k := range byName[callee] {
				if decls[k].broadcast > 0 {
					return true, nil
				}
			}
		}
		return false, nil
	}
	var b strings.Builder
	b.WriteString("namespace Generated.C06Wake\n\n")
	fmt.Fprintf(&b, "/-- calls of `cond.Signal()` on a ClientConn's condition variable -/\ndef condSignalUses : Nat := %d\n\n", signals)
	b.WriteString("/-- the functions that sleep on it (`cond.Wait()`) -/\ndef condWaiters : List String := [")
	for i, w := range waiters {
		if i > 0 {
			b.WriteString(", ")
		}
		b.WriteString(c06LeanStr(w))
	}
	b.WriteString("]\n\n/-- handler, does it reach a `cond.Broadcast()` (itself or through a function it calls) -/\ndef broadcastSites : List (String × Bool) := [\n")
	for i, s := range c06WakeSites {
		ok, err := reaches(s)
		if err != nil {
			return "", err
		}
		sep := ","
		if i == len(c06WakeSites)-1 {
			sep = "]"
		}
		fmt.Fprintf(&b, "  (%s, %v)%s\n", c06LeanStr(s), ok, sep)
	}
	b.WriteString("\nend Generated.C06Wake\n")
	return b.String(), nil
}
