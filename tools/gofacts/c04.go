package main

// C04 facts: WHICH case-mapping / case-insensitive-comparison functions the HTTP/1 response-reading
// code refers to.
//
// HTTP/1 tokens are ASCII.  The reader compares them with internal/ascii.EqualFold (translated and
// proved equal to the model's `Req.Ascii.equalFold` in Bridge.PureAscii) or with byte tables; a
// Unicode-aware function in the same place (strings.EqualFold, strings.ToLower/ToUpper/Title,
// bytes.*, unicode.*, x/text cases/norm/width/precis) would also accept multi-byte look-alikes
// (U+212A KELVIN SIGN for 'k', U+017F LONG S for 's', U+0130/U+0131 for 'i', fullwidth forms).
//
// Extracted by meaning, not by shape: every REFERENCE (call or function value) to a function of one
// of those packages from the response-reading code, with the enclosing function, wherever it sits in
// the function, whatever the locals are called and however the import is aliased.  The code in scope:
//   textproto_reader.go, http.go            — all functions
//   transfer.go                             — all functions except methods of transferWriter (request side)
//   internal/chunked.go                     — all functions
//   transport.go                            — functions whose name contains "readResponse", and readLoop
// Functions that are not there (renamed, split, merged) simply contribute nothing; a missing FILE is
// refused.  The bridge (lean/Bridge/C04.lean) proves that every listed callee is ASCII-only.

import (
	"fmt"
	"go/ast"
	"path"
	"sort"
	"strconv"
	"strings"
)

// c04CaseFamily: is pkgPath.name a case-mapping / case-insensitive / Unicode-normalising function?
func c04CaseFamily(pkgPath, name string) bool {
	switch pkgPath {
	case "strings", "bytes":
		switch name {
		case "EqualFold", "ToLower", "ToUpper", "ToTitle", "Title", "ToLowerSpecial", "ToUpperSpecial", "ToTitleSpecial":
			return true
		}
		return false
	case "unicode":
		return true
	}
	if strings.HasPrefix(pkgPath, "golang.org/x/text/") {
		return true
	}
	return strings.HasSuffix(pkgPath, "/internal/ascii")
}

func c04Imports(f *ast.File) map[string]string {
	m := map[string]string{}
	for _, im := range f.Imports {
		p, err := strconv.Unquote(im.Path.Value)
		if err != nil {
			continue
		}
		name := path.Base(p)
		if im.Name != nil {
			name = im.Name.Name
		}
		if name == "_" || name == "." {
			continue
		}
		m[name] = p
	}
	return m
}

func c04RecvName(fd *ast.FuncDecl) string {
	if fd.Recv == nil || len(fd.Recv.List) != 1 {
		return ""
	}
	t := fd.Recv.List[0].Type
	if st, ok := t.(*ast.StarExpr); ok {
		t = st.X
	}
	if ix, ok := t.(*ast.IndexExpr); ok {
		t = ix.X
	}
	if id, ok := t.(*ast.Ident); ok {
		return id.Name
	}
	return ""
}

func init() {
	register("C04Facts", func(c *ctx) (string, error) {
		type scope struct {
			dir, file string
			in        func(fd *ast.FuncDecl) bool
		}
		all := func(*ast.FuncDecl) bool { return true }
		scopes := []scope{
			{".", "textproto_reader.go", all},
			{".", "http.go", all},
			{".", "transfer.go", func(fd *ast.FuncDecl) bool { return c04RecvName(fd) != "transferWriter" }},
			{"internal", "chunked.go", all},
			{".", "transport.go", func(fd *ast.FuncDecl) bool {
				return strings.Contains(fd.Name.Name, "readResponse") || fd.Name.Name == "readLoop"
			}},
		}
		var rows []string
		nFuncs := 0
		for _, sc := range scopes {
			fs, err := c.files(sc.dir)
			if err != nil {
				return "", err
			}
			f := fs[sc.file]
			if f == nil {
				return "", fmt.Errorf("response-reading file %s/%s not found", sc.dir, sc.file)
			}
			imps := c04Imports(f)
			for _, im := range f.Imports {
				if im.Name != nil && im.Name.Name == "." {
					if p, _ := strconv.Unquote(im.Path.Value); c04CaseFamily(p, "EqualFold") || p == "strings" || p == "bytes" {
						return "", fmt.Errorf("%s dot-imports %s: references cannot be attributed", sc.file, p)
					}
				}
			}
			for _, d := range f.Decls {
				fd, ok := d.(*ast.FuncDecl)
				if !ok || fd.Body == nil || !sc.in(fd) {
					continue
				}
				nFuncs++
				fn := fd.Name.Name
				if r := c04RecvName(fd); r != "" {
					fn = r + "." + fn
				}
				seen := map[string]bool{}
				ast.Inspect(fd.Body, func(n ast.Node) bool {
					se, ok := n.(*ast.SelectorExpr)
					if !ok {
						return true
					}
					id, ok := se.X.(*ast.Ident)
					if !ok || id.Obj != nil { // a local / package-level object of this file, not an import
						return true
					}
					p, ok := imps[id.Name]
					if !ok || !c04CaseFamily(p, se.Sel.Name) {
						return true
					}
					callee := p + "." + se.Sel.Name
					if !seen[callee] {
						seen[callee] = true
						rows = append(rows, fmt.Sprintf("(%q, %q, %q, %q)", path.Join(sc.dir, sc.file), fn, p, se.Sel.Name))
					}
					return true
				})
			}
		}
		if nFuncs == 0 {
			return "", fmt.Errorf("no function of the response-reading code found")
		}
		sort.Strings(rows)
		var sb strings.Builder
		sb.WriteString("namespace Generated.C04Facts\n\n")
		sb.WriteString("/-- (file, function, import path, name) for every reference to a case-mapping /\n")
		sb.WriteString("case-insensitive-comparison / Unicode-normalising function in the HTTP/1 response-reading code. -/\n")
		sb.WriteString("def caseRefs : List (String × String × String × String) := [\n")
		for i, r := range rows {
			sb.WriteString("  " + r)
			if i < len(rows)-1 {
				sb.WriteString(",")
			}
			sb.WriteString("\n")
		}
		sb.WriteString("]\n\n")
		fmt.Fprintf(&sb, "/-- number of functions scanned -/\ndef scanned : Nat := %d\n\n", nFuncs)
		sb.WriteString("end Generated.C04Facts\n")
		return sb.String(), nil
	})
}
