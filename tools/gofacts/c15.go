package main

// C15 facts: the BOM table of internal/charsets/charsets.go, the default text content-type
// list of decode.go, and the "already UTF-8" markers of transport.go autoDecodeResponseBody.

import (
	"fmt"
	"go/ast"
	"go/token"
	"strconv"
	"strings"
)

func init() { register("C15Facts", c15Facts) }

func c15StringLit(e ast.Expr) (string, error) {
	bl, ok := e.(*ast.BasicLit)
	if !ok || bl.Kind != token.STRING {
		return "", fmt.Errorf("expected a string literal, got %T", e)
	}
	return strconv.Unquote(bl.Value)
}

// []byte{0xfe, 0xff}
func c15ByteSliceLit(e ast.Expr) (string, error) {
	cl, ok := e.(*ast.CompositeLit)
	if !ok {
		return "", fmt.Errorf("expected []byte{...}, got %T", e)
	}
	at, ok := cl.Type.(*ast.ArrayType)
	if !ok || at.Len != nil {
		return "", fmt.Errorf("expected a []byte literal")
	}
	if id, ok := at.Elt.(*ast.Ident); !ok || id.Name != "byte" {
		return "", fmt.Errorf("expected a []byte literal")
	}
	var out []byte
	for _, el := range cl.Elts {
		bl, ok := el.(*ast.BasicLit)
		if !ok || (bl.Kind != token.INT && bl.Kind != token.CHAR) {
			return "", fmt.Errorf("byte element is not a literal: %T", el)
		}
		var v int64
		var err error
		if bl.Kind == token.CHAR {
			var s string
			s, err = strconv.Unquote(bl.Value)
			if err == nil && len(s) == 1 {
				v = int64(s[0])
			} else {
				return "", fmt.Errorf("bad char literal %s", bl.Value)
			}
		} else {
			v, err = strconv.ParseInt(bl.Value, 0, 64)
		}
		if err != nil || v < 0 || v > 255 {
			return "", fmt.Errorf("bad byte literal %s", bl.Value)
		}
		out = append(out, byte(v))
	}
	return string(out), nil
}

func c15Facts(c *ctx) (string, error) {
	var sb strings.Builder
	sb.WriteString("namespace Generated.C15Facts\n\n")

	// --- var boms = []struct{ bom []byte; enc string }{ {[]byte{..}, ".."}, ... }
	vs, idx, err := c.valueSpec("internal/charsets", "boms")
	if err != nil {
		return "", err
	}
	if len(vs.Values) != len(vs.Names) {
		return "", fmt.Errorf("boms: no initialiser")
	}
	cl, ok := vs.Values[idx].(*ast.CompositeLit)
	if !ok {
		return "", fmt.Errorf("boms: initialiser is %T, not a composite literal", vs.Values[idx])
	}
	at, ok := cl.Type.(*ast.ArrayType)
	if !ok || at.Len != nil {
		return "", fmt.Errorf("boms: not a slice literal")
	}
	st, ok := at.Elt.(*ast.StructType)
	if !ok || len(st.Fields.List) != 2 {
		return "", fmt.Errorf("boms: element type is not a 2-field struct")
	}
	fieldName := func(i int) string {
		f := st.Fields.List[i]
		if len(f.Names) != 1 {
			return ""
		}
		return f.Names[0].Name
	}
	if fieldName(0) != "bom" || fieldName(1) != "enc" {
		return "", fmt.Errorf("boms: fields are %q,%q, expected bom,enc", fieldName(0), fieldName(1))
	}
	var rows []string
	for _, el := range cl.Elts {
		row, ok := el.(*ast.CompositeLit)
		if !ok || len(row.Elts) != 2 {
			return "", fmt.Errorf("boms: row is not a 2-element literal")
		}
		var be, ee ast.Expr = row.Elts[0], row.Elts[1]
		if kv, ok := be.(*ast.KeyValueExpr); ok {
			// keyed form {bom: ..., enc: ...}
			kv2, ok2 := ee.(*ast.KeyValueExpr)
			if !ok2 {
				return "", fmt.Errorf("boms: mixed keyed/unkeyed row")
			}
			k1, _ := kv.Key.(*ast.Ident)
			k2, _ := kv2.Key.(*ast.Ident)
			if k1 == nil || k2 == nil {
				return "", fmt.Errorf("boms: bad keys")
			}
			switch {
			case k1.Name == "bom" && k2.Name == "enc":
				be, ee = kv.Value, kv2.Value
			case k1.Name == "enc" && k2.Name == "bom":
				be, ee = kv2.Value, kv.Value
			default:
				return "", fmt.Errorf("boms: unexpected keys %s,%s", k1.Name, k2.Name)
			}
		}
		bom, err := c15ByteSliceLit(be)
		if err != nil {
			return "", fmt.Errorf("boms: %v", err)
		}
		enc, err := c15StringLit(ee)
		if err != nil {
			return "", fmt.Errorf("boms: %v", err)
		}
		rows = append(rows, "("+leanBytes(bom)+", "+leanBytes(enc)+")")
	}
	sb.WriteString("/-- internal/charsets/charsets.go `var boms` (order kept). -/\n")
	sb.WriteString("def boms : List (List UInt8 × List UInt8) :=\n  [" + strings.Join(rows, ",\n   ") + "]\n\n")

	// FindEncoding must walk that table with bytes.HasPrefix(content, b.bom)
	fe, err := c.funcDecl("internal/charsets", "", "FindEncoding")
	if err != nil {
		return "", err
	}
	hasPrefix := false
	ast.Inspect(fe.Body, func(n ast.Node) bool {
		call, ok := n.(*ast.CallExpr)
		if !ok {
			return true
		}
		if se, ok := call.Fun.(*ast.SelectorExpr); ok {
			if x, ok := se.X.(*ast.Ident); ok && x.Name == "bytes" && se.Sel.Name == "HasPrefix" && len(call.Args) == 2 {
				if a0, ok := call.Args[0].(*ast.Ident); ok && a0.Name == "content" {
					if a1, ok := call.Args[1].(*ast.SelectorExpr); ok && a1.Sel.Name == "bom" {
						hasPrefix = true
					}
				}
			}
		}
		return true
	})
	if !hasPrefix {
		return "", fmt.Errorf("FindEncoding no longer tests bytes.HasPrefix(content, b.bom)")
	}

	// --- var textContentTypes = []string{...}
	vs, idx, err = c.valueSpec("", "textContentTypes")
	if err != nil {
		return "", err
	}
	if len(vs.Values) != len(vs.Names) {
		return "", fmt.Errorf("textContentTypes: no initialiser")
	}
	cl, ok = vs.Values[idx].(*ast.CompositeLit)
	if !ok {
		return "", fmt.Errorf("textContentTypes: not a composite literal")
	}
	var cts []string
	for _, el := range cl.Elts {
		s, err := c15StringLit(el)
		if err != nil {
			return "", fmt.Errorf("textContentTypes: %v", err)
		}
		cts = append(cts, leanBytes(s))
	}
	sb.WriteString("/-- decode.go `var textContentTypes`. -/\n")
	sb.WriteString("def textContentTypes : List (List UInt8) :=\n  [" + strings.Join(cts, ",\n   ") + "]\n\n")
	// autoDecodeText must be autoDecodeContentTypeFunc(textContentTypes...)
	vs, idx, err = c.valueSpec("", "autoDecodeText")
	if err != nil {
		return "", err
	}
	okShape := false
	if len(vs.Values) == len(vs.Names) {
		if call, ok := vs.Values[idx].(*ast.CallExpr); ok && call.Ellipsis.IsValid() && len(call.Args) == 1 {
			f, _ := call.Fun.(*ast.Ident)
			a, _ := call.Args[0].(*ast.Ident)
			okShape = f != nil && a != nil && f.Name == "autoDecodeContentTypeFunc" && a.Name == "textContentTypes"
		}
	}
	if !okShape {
		return "", fmt.Errorf("autoDecodeText is no longer autoDecodeContentTypeFunc(textContentTypes...)")
	}

	// --- the "do not decode utf-8" markers: strings.Contains(charset, "<lit>") in autoDecodeResponseBody
	fd, err := c.funcDecl("", "Transport", "autoDecodeResponseBody")
	if err != nil {
		return "", err
	}
	var markers []string
	ast.Inspect(fd.Body, func(n ast.Node) bool {
		call, ok := n.(*ast.CallExpr)
		if !ok {
			return true
		}
		se, ok := call.Fun.(*ast.SelectorExpr)
		if !ok || se.Sel.Name != "Contains" || len(call.Args) != 2 {
			return true
		}
		if x, ok := se.X.(*ast.Ident); !ok || x.Name != "strings" {
			return true
		}
		if a0, ok := call.Args[0].(*ast.Ident); ok && a0.Name == "charset" {
			if s, err := c15StringLit(call.Args[1]); err == nil {
				markers = append(markers, leanBytes(s))
			}
		}
		return true
	})
	if len(markers) == 0 {
		return "", fmt.Errorf("autoDecodeResponseBody: no strings.Contains(charset, <literal>) test found")
	}
	sb.WriteString("/-- transport.go autoDecodeResponseBody: substrings of the (lower-cased) Content-Type charset that mean \"already UTF-8\". -/\n")
	sb.WriteString("def utf8Markers : List (List UInt8) :=\n  [" + strings.Join(markers, ",\n   ") + "]\n\n")
	sb.WriteString("end Generated.C15Facts\n")
	return sb.String(), nil
}
