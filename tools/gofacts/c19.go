// C19 facts: for every field of Client, Transport, transport.Options, retryOption,
// DumpOptions (and of the HTTP/2 transport rebuilt inside Transport.Clone, and the two
// crypto/tls.Config fields the setters mutate in place):
//   - its Go type kind,
//   - how the owning struct's Clone produces it in the copy (assigned / cloned / rebuilt / absent),
//   - whether a settings method writes it, and whether one mutates the referenced object in place.
//
// Plus a few boolean facts about Client.Clone / Client.R / SetTLSFingerprint.
// The extractor works on go/ast only and REFUSES when the source leaves the shapes it knows.
package main

import (
	"bufio"
	"fmt"
	"go/ast"
	"go/token"
	"os"
	"path/filepath"
	"regexp"
	"sort"
	"strings"
)

func init() { register("CloneTable", c19CloneTable) }

type c19Field struct {
	name      string
	kind      string
	embedded  bool
	how, via  string
	hasSetter bool
	inPlace   bool
	// a map whose values are slices (url.Values, http.Header): a shallow copy of the map still
	// shares the value slices, which the setters append to
	sliceValued bool
	note        []string
}

type c19Struct struct {
	key    string // Lean-visible owner name
	fields []*c19Field
	byName map[string]*c19Field
	// embedded struct keys reachable by promotion: name of embedded field -> (struct key, isPointer)
	embeds []c19Embed
}

type c19Embed struct {
	field   string
	target  string
	pointer bool
}

func (s *c19Struct) add(f *c19Field) {
	s.fields = append(s.fields, f)
	s.byName[f.name] = f
}

type c19 struct {
	c       *ctx
	structs map[string]*c19Struct
	// which struct a pointer/struct-typed field leads to: "Client.Transport" -> "Transport"
	target map[string]string
}

var c19Basic = map[string]bool{"string": true, "bool": true, "int": true, "int8": true, "int16": true, "int32": true,
	"int64": true, "uint": true, "uint8": true, "uint16": true, "uint32": true, "uint64": true, "uintptr": true,
	"float32": true, "float64": true, "byte": true, "rune": true, "complex64": true, "complex128": true}

// kinds of the imported named types that occur in the five structs today
var c19Imported = map[string]string{
	"urlpkg.Values": "map", "url.Values": "map", "http.Header": "map",
	"time.Duration": "value", "time.Time": "value",
	"reflect.Type": "iface", "io.Writer": "iface", "http.CookieJar": "iface", "http.RoundTripper": "iface",
	"altsvc.Jar": "iface", "context.Context": "iface",
	"sync.Mutex": "struct", "sync.RWMutex": "struct", "sync.Once": "struct",
	"transport.Options": "struct", "http2.PriorityParam": "struct", "tls.Config": "struct",
	"dump.Dumper": "struct", "http.Client": "struct", "cookiejar.Jar": "struct", "http3.RoundTripper": "struct",
	"h2internal.Transport": "struct", "http.Cookie": "struct", "tls.Certificate": "struct",
	"http2.Setting": "struct", "http2.PriorityFrame": "struct", "x509.CertPool": "struct",
}

func (x *c19) kindOf(e ast.Expr, dir string, depth int) (string, error) {
	if depth > 8 {
		return "", fmt.Errorf("type nesting too deep")
	}
	switch t := e.(type) {
	case *ast.StarExpr:
		return "pointer", nil
	case *ast.ArrayType:
		if t.Len == nil {
			return "slice", nil
		}
		return "value", nil
	case *ast.MapType:
		return "map", nil
	case *ast.ChanType:
		return "pointer", nil
	case *ast.FuncType:
		return "func", nil
	case *ast.InterfaceType:
		return "iface", nil
	case *ast.StructType:
		return "struct", nil
	case *ast.Ident:
		if c19Basic[t.Name] {
			return "value", nil
		}
		if t.Name == "error" || t.Name == "any" {
			return "iface", nil
		}
		ts, err := x.typeSpec(dir, t.Name)
		if err != nil {
			return "", err
		}
		return x.kindOf(ts.Type, dir, depth+1)
	case *ast.SelectorExpr:
		if p, ok := t.X.(*ast.Ident); ok {
			if k, ok := c19Imported[p.Name+"."+t.Sel.Name]; ok {
				return k, nil
			}
			return "", fmt.Errorf("imported type %s.%s is not in the extractor's kind table", p.Name, t.Sel.Name)
		}
	case *ast.IndexExpr:
		return x.kindOf(t.X, dir, depth+1)
	}
	return "", fmt.Errorf("unsupported type expression %T", e)
}

func (x *c19) typeSpec(dir, name string) (*ast.TypeSpec, error) {
	fs, err := x.c.files(dir)
	if err != nil {
		return nil, err
	}
	for _, f := range fs {
		for _, d := range f.Decls {
			gd, ok := d.(*ast.GenDecl)
			if !ok || gd.Tok != token.TYPE {
				continue
			}
			for _, s := range gd.Specs {
				ts := s.(*ast.TypeSpec)
				if ts.Name.Name == name {
					return ts, nil
				}
			}
		}
	}
	return nil, fmt.Errorf("type %s not found in %q", name, dir)
}

func typeName(e ast.Expr) string {
	switch t := e.(type) {
	case *ast.StarExpr:
		return typeName(t.X)
	case *ast.Ident:
		return t.Name
	case *ast.SelectorExpr:
		if p, ok := t.X.(*ast.Ident); ok {
			return p.Name + "." + t.Sel.Name
		}
	}
	return ""
}

// loadStruct reads a struct declaration into the table.
func (x *c19) loadStruct(key, dir, goName string, targets map[string]string) error {
	ts, err := x.typeSpec(dir, goName)
	if err != nil {
		return err
	}
	st, ok := ts.Type.(*ast.StructType)
	if !ok {
		return fmt.Errorf("%s is not a struct", goName)
	}
	s := &c19Struct{key: key, byName: map[string]*c19Field{}}
	for _, f := range st.Fields.List {
		k, err := x.kindOf(f.Type, dir, 0)
		if err != nil {
			return fmt.Errorf("%s: %v", goName, err)
		}
		names := []string{}
		emb := false
		if len(f.Names) == 0 {
			emb = true
			tn := typeName(f.Type)
			if i := strings.LastIndex(tn, "."); i >= 0 {
				tn = tn[i+1:]
			}
			names = append(names, tn)
		} else {
			for _, n := range f.Names {
				names = append(names, n.Name)
			}
		}
		sv := false
		if mt, ok := f.Type.(*ast.MapType); ok {
			if at, ok := mt.Value.(*ast.ArrayType); ok && at.Len == nil {
				sv = true
			}
		}
		switch typeName(f.Type) {
		case "urlpkg.Values", "url.Values", "http.Header":
			sv = true
		}
		for _, n := range names {
			s.add(&c19Field{name: n, kind: k, embedded: emb, sliceValued: sv})
			if tgt, ok := targets[typeName(f.Type)]; ok {
				x.target[key+"."+n] = tgt
				if emb {
					_, isPtr := f.Type.(*ast.StarExpr)
					s.embeds = append(s.embeds, c19Embed{n, tgt, isPtr})
				}
			}
		}
	}
	x.structs[key] = s
	return nil
}

// ---------------------------------------------------------------- access paths

type c19Hop struct{ owner, field string }

// c19Ref: what an expression denotes.
type c19Ref struct {
	obj   string   // struct key when the expression denotes a struct instance (value or pointer), else ""
	owner string   // when it denotes a field: owning struct key
	field string   // … and field name
	hops  []c19Hop // pointer fields traversed to reach the instance holding the field / the instance itself
}

func (r *c19Ref) isField() bool { return r != nil && r.field != "" }

var c19Getters = map[string]string{ // method name -> field it returns (on the receiver's struct)
	"getRetryOption": "retryOption", "getDumpOptions": "dumpOptions", "GetTLSClientConfig": "TLSClientConfig",
	"pathParams": "PathParams", "GetTransport": "Transport", "GetClient": "httpClient",
}

// selectField resolves obj.F (with promotion through embedded fields).
func (x *c19) selectField(obj string, hops []c19Hop, name string) *c19Ref {
	s := x.structs[obj]
	if s == nil {
		return nil
	}
	if _, ok := s.byName[name]; ok {
		return &c19Ref{owner: obj, field: name, hops: hops}
	}
	for _, e := range s.embeds {
		h := hops
		if e.pointer {
			h = append(append([]c19Hop{}, hops...), c19Hop{obj, e.field})
		} else {
			// value-embedded: writing a promoted field writes inside this instance; the embedded
			// field itself counts as written
			h = append(append([]c19Hop{}, hops...), c19Hop{obj, e.field})
		}
		if r := x.selectField(e.target, h, name); r != nil {
			return r
		}
	}
	return nil
}

// deref: a field ref -> the struct instance it leads to (if it is a pointer/struct to a known struct).
func (x *c19) deref(r *c19Ref) *c19Ref {
	if r == nil {
		return nil
	}
	if r.obj != "" {
		return r
	}
	tgt, ok := x.target[r.owner+"."+r.field]
	if !ok {
		return nil
	}
	return &c19Ref{obj: tgt, hops: append(append([]c19Hop{}, r.hops...), c19Hop{r.owner, r.field})}
}

func (x *c19) resolve(e ast.Expr, env map[string]*c19Ref) *c19Ref {
	switch t := e.(type) {
	case *ast.ParenExpr:
		return x.resolve(t.X, env)
	case *ast.StarExpr:
		return x.resolve(t.X, env)
	case *ast.UnaryExpr:
		if t.Op == token.AND {
			return x.resolve(t.X, env)
		}
	case *ast.Ident:
		return env[t.Name]
	case *ast.SelectorExpr:
		base := x.deref(x.resolve(t.X, env))
		if base == nil {
			return nil
		}
		return x.selectField(base.obj, base.hops, t.Sel.Name)
	case *ast.CallExpr:
		if sel, ok := t.Fun.(*ast.SelectorExpr); ok {
			if fld, ok := c19Getters[sel.Sel.Name]; ok && len(t.Args) == 0 {
				base := x.deref(x.resolve(sel.X, env))
				if base == nil {
					return nil
				}
				return x.selectField(base.obj, base.hops, fld)
			}
		}
	}
	return nil
}

func (x *c19) fieldOf(r *c19Ref) *c19Field {
	if !r.isField() {
		return nil
	}
	return x.structs[r.owner].byName[r.field]
}

func (x *c19) markHops(hops []c19Hop, why string) {
	for _, h := range hops {
		f := x.structs[h.owner].byName[h.field]
		f.hasSetter = true
		// a write *through* a pointer field mutates the pointed object in place; a write into a
		// value-embedded struct is a write of that field
		if f.kind == "pointer" {
			f.inPlace = true
		}
		_ = why
	}
}

func sameExpr(a, b ast.Expr) bool {
	return exprString(a) == exprString(b)
}

func exprString(e ast.Expr) string {
	switch t := e.(type) {
	case *ast.Ident:
		return t.Name
	case *ast.SelectorExpr:
		return exprString(t.X) + "." + t.Sel.Name
	case *ast.CallExpr:
		args := []string{}
		for _, a := range t.Args {
			args = append(args, exprString(a))
		}
		return exprString(t.Fun) + "(" + strings.Join(args, ",") + ")"
	case *ast.ParenExpr:
		return exprString(t.X)
	case *ast.StarExpr:
		return "*" + exprString(t.X)
	case *ast.UnaryExpr:
		return t.Op.String() + exprString(t.X)
	case *ast.IndexExpr:
		return exprString(t.X) + "[" + exprString(t.Index) + "]"
	case *ast.BasicLit:
		return t.Value
	case *ast.BinaryExpr:
		return exprString(t.X) + " " + t.Op.String() + " " + exprString(t.Y)
	case *ast.ArrayType:
		return "[]" + exprString(t.Elt)
	case *ast.CompositeLit:
		return "lit"
	case *ast.FuncLit:
		return "func"
	}
	return fmt.Sprintf("%T", e)
}

var c19MutatingMethods = map[string]bool{"Set": true, "Add": true, "Del": true, "AppendCertsFromPEM": true,
	"AddCert": true, "SetOptions": true}

// scanSetter walks a method body (not descending into function literals) and records writes.
func (x *c19) scanSetter(recvName, recvStruct string, body *ast.BlockStmt, callees map[string]bool) {
	env := map[string]*c19Ref{recvName: {obj: recvStruct}}
	var walk func(n ast.Node) bool
	walk = func(n ast.Node) bool {
		switch s := n.(type) {
		case *ast.FuncLit:
			return false
		case *ast.AssignStmt:
			// local aliases
			if s.Tok == token.DEFINE || s.Tok == token.ASSIGN {
				for i, l := range s.Lhs {
					id, ok := l.(*ast.Ident)
					if !ok || i >= len(s.Rhs) || len(s.Lhs) != len(s.Rhs) {
						continue
					}
					if r := x.resolve(s.Rhs[i], env); r != nil && s.Tok == token.DEFINE {
						env[id.Name] = r
					}
				}
			}
			for i, l := range s.Lhs {
				var rhs ast.Expr
				if len(s.Lhs) == len(s.Rhs) {
					rhs = s.Rhs[i]
				}
				switch lt := l.(type) {
				case *ast.SelectorExpr:
					r := x.resolve(lt, env)
					if f := x.fieldOf(r); f != nil {
						f.hasSetter = true
						x.markHops(r.hops, "")
						if call, ok := rhs.(*ast.CallExpr); ok {
							if id, ok := call.Fun.(*ast.Ident); ok && id.Name == "append" && len(call.Args) > 0 && sameExpr(call.Args[0], lt) {
								f.inPlace = true // append to the field itself: writes the shared backing array when capacity allows
							}
						}
					}
				case *ast.IndexExpr:
					r := x.resolve(lt.X, env)
					if f := x.fieldOf(r); f != nil {
						f.hasSetter = true
						f.inPlace = true
						x.markHops(r.hops, "")
					}
				}
			}
		case *ast.ExprStmt:
			if call, ok := s.X.(*ast.CallExpr); ok {
				x.scanCall(call, env, callees)
			}
		case *ast.ReturnStmt:
			for _, r := range s.Results {
				if call, ok := r.(*ast.CallExpr); ok {
					x.scanCall(call, env, callees)
				}
			}
		}
		return true
	}
	ast.Inspect(body, walk)
}

func (x *c19) scanCall(call *ast.CallExpr, env map[string]*c19Ref, callees map[string]bool) {
	sel, ok := call.Fun.(*ast.SelectorExpr)
	if !ok {
		return
	}
	// chained calls: c.A().B() — look at the inner calls too
	if inner, ok := sel.X.(*ast.CallExpr); ok {
		x.scanCall(inner, env, callees)
	}
	// method call on a tracked struct instance -> callee to scan
	if base := x.deref(x.resolve(sel.X, env)); base != nil && (base.obj == "Client" || base.obj == "Transport") {
		if _, isGetter := c19Getters[sel.Sel.Name]; !isGetter || true {
			callees[base.obj+"."+sel.Sel.Name] = true
		}
		// the call mutates base through its hops only if the callee writes; recorded when the
		// callee is scanned with hops unknown, so mark the hops conservatively here for setters
		if c19SetterName.MatchString(sel.Sel.Name) {
			x.markHops(base.hops, "")
		}
	}
	// mutating method on a field (map Set/Add/Del, pool.AppendCertsFromPEM, dumper.SetOptions)
	if c19MutatingMethods[sel.Sel.Name] {
		r := x.resolve(sel.X, env)
		if f := x.fieldOf(r); f != nil && (f.kind == "map" || f.kind == "pointer") {
			f.hasSetter = true
			f.inPlace = true
			x.markHops(r.hops, "")
		}
	}
}

var c19SetterName = regexp.MustCompile(`^(Set|Enable|Disable|Add|On|Wrap|Clear|DevMode)`)

type c19Method struct {
	recvStruct, recvName, name string
	decl                       *ast.FuncDecl
}

func (x *c19) methods(dir string, structs map[string]string) ([]c19Method, error) {
	fs, err := x.c.files(dir)
	if err != nil {
		return nil, err
	}
	var out []c19Method
	names := []string{}
	for n := range fs {
		names = append(names, n)
	}
	sort.Strings(names)
	for _, n := range names {
		for _, d := range fs[n].Decls {
			fd, ok := d.(*ast.FuncDecl)
			if !ok || fd.Recv == nil || len(fd.Recv.List) != 1 || fd.Body == nil {
				continue
			}
			tn := typeName(fd.Recv.List[0].Type)
			key, ok := structs[tn]
			if !ok {
				continue
			}
			rn := "_"
			if len(fd.Recv.List[0].Names) == 1 {
				rn = fd.Recv.List[0].Names[0].Name
			}
			out = append(out, c19Method{key, rn, fd.Name.Name, fd})
		}
	}
	return out, nil
}

// ---------------------------------------------------------------- main

func c19OpenClasses(out string) map[string]bool {
	res := map[string]bool{}
	// known-findings.txt lives two levels above lean/Generated
	p := filepath.Join(out, "..", "..", "known-findings.txt")
	if e := os.Getenv("VERIF_DIR"); e != "" {
		p = filepath.Join(e, "known-findings.txt")
	}
	f, err := os.Open(p)
	if err != nil {
		return res
	}
	defer f.Close()
	re := regexp.MustCompile(`^open:\s+property=C19\s+class=(\S+)`)
	sc := bufio.NewScanner(f)
	for sc.Scan() {
		if m := re.FindStringSubmatch(strings.TrimSpace(sc.Text())); m != nil {
			res[m[1]] = true
		}
	}
	return res
}

// c19OutArg reads the -out flag of gofacts (the extractor interface does not pass it on).
func c19OutArg() string {
	for i, a := range os.Args {
		if (a == "-out" || a == "--out") && i+1 < len(os.Args) {
			return os.Args[i+1]
		}
		if strings.HasPrefix(a, "-out=") {
			return strings.TrimPrefix(a, "-out=")
		}
		if strings.HasPrefix(a, "--out=") {
			return strings.TrimPrefix(a, "--out=")
		}
	}
	return ""
}

func c19CloneTable(c *ctx) (string, error) {
	x := &c19{c: c, structs: map[string]*c19Struct{}, target: map[string]string{}}
	// synthetic stdlib structs: only the fields req's setters touch
	tlsS := &c19Struct{key: "TLSConfig", byName: map[string]*c19Field{}}
	for _, f := range []struct{ n, k string }{{"Certificates", "slice"}, {"RootCAs", "pointer"}, {"InsecureSkipVerify", "value"}, {"NextProtos", "slice"}} {
		// (*tls.Config).Clone is a field-by-field shallow copy (crypto/tls/common.go)
		tlsS.add(&c19Field{name: f.n, kind: f.k, how: "assigned", via: "crypto/tls.(*Config).Clone is shallow"})
	}
	x.structs["TLSConfig"] = tlsS
	httpS := &c19Struct{key: "HTTPClient", byName: map[string]*c19Field{}}
	for _, f := range []struct{ n, k string }{{"Transport", "iface"}, {"CheckRedirect", "func"}, {"Jar", "iface"}, {"Timeout", "value"}} {
		httpS.add(&c19Field{name: f.n, kind: f.k, how: "assigned", via: "client := *c.httpClient"})
	}
	x.structs["HTTPClient"] = httpS

	if err := x.loadStruct("DumpOptions", "", "DumpOptions", nil); err != nil {
		return "", err
	}
	if err := x.loadStruct("retryOption", "", "retryOption", nil); err != nil {
		return "", err
	}
	if err := x.loadStruct("Dumper", "internal/dump", "Dumper", nil); err != nil {
		return "", err
	}
	if err := x.loadStruct("Options", "internal/transport", "Options", map[string]string{"tls.Config": "TLSConfig"}); err != nil {
		return "", err
	}
	if err := x.loadStruct("H2Transport", "internal/http2", "Transport", map[string]string{"transport.Options": "Options"}); err != nil {
		return "", err
	}
	if err := x.loadStruct("Transport", "", "Transport", map[string]string{"transport.Options": "Options", "h2internal.Transport": "H2Transport"}); err != nil {
		return "", err
	}
	if err := x.loadStruct("Client", "", "Client", map[string]string{"Transport": "Transport", "retryOption": "retryOption",
		"DumpOptions": "DumpOptions", "http.Client": "HTTPClient"}); err != nil {
		return "", err
	}

	// ---- Clone bodies
	facts, err := x.cloneBodies()
	if err != nil {
		return "", err
	}

	// ---- setters: seeds are the exported settings methods; helpers they call are added transitively
	ms, err := x.methods("", map[string]string{"Client": "Client", "Transport": "Transport"})
	if err != nil {
		return "", err
	}
	byKey := map[string]c19Method{}
	for _, m := range ms {
		byKey[m.recvStruct+"."+m.name] = m
	}
	todo := []string{}
	for k, m := range byKey {
		if m.name != "Clone" && ast.IsExported(m.name) && c19SetterName.MatchString(m.name) {
			todo = append(todo, k)
		}
	}
	sort.Strings(todo)
	done := map[string]bool{}
	nSetters := 0
	for len(todo) > 0 {
		k := todo[0]
		todo = todo[1:]
		if done[k] {
			continue
		}
		done[k] = true
		m, ok := byKey[k]
		if !ok || m.name == "Clone" {
			continue
		}
		nSetters++
		callees := map[string]bool{}
		x.scanSetter(m.recvName, m.recvStruct, m.decl.Body, callees)
		cs := []string{}
		for cal := range callees {
			cs = append(cs, cal)
		}
		sort.Strings(cs)
		for _, cal := range cs {
			// promoted methods: Client.X that is really Transport.X
			if _, ok := byKey[cal]; !ok && strings.HasPrefix(cal, "Client.") {
				cal = "Transport." + strings.TrimPrefix(cal, "Client.")
			}
			if !done[cal] {
				todo = append(todo, cal)
			}
		}
	}
	if nSetters < 100 {
		return "", fmt.Errorf("only %d settings methods found (expected > 100): the setter scan no longer understands the source", nSetters)
	}

	// ---- the request-level settings API: every exported method of *Request whose only result is *Request
	rms, err := x.methods("", map[string]string{"Request": "Request"})
	if err != nil {
		return "", err
	}
	var reqSetters []string
	for _, m := range rms {
		if !ast.IsExported(m.name) || m.decl.Type.Results == nil || len(m.decl.Type.Results.List) != 1 || len(m.decl.Type.Results.List[0].Names) > 1 {
			continue
		}
		if _, isPtr := m.decl.Recv.List[0].Type.(*ast.StarExpr); !isPtr {
			continue
		}
		if st, ok := m.decl.Type.Results.List[0].Type.(*ast.StarExpr); ok && typeName(st.X) == "Request" {
			reqSetters = append(reqSetters, m.name)
		}
	}
	sort.Strings(reqSetters)
	if len(reqSetters) < 60 {
		return "", fmt.Errorf("only %d request-level setters found (expected > 60): the scan no longer understands request.go", len(reqSetters))
	}

	// ---- SetTLSFingerprint: does the handshake closure capture the receiver?
	fpm, ok := byKey["Client.SetTLSFingerprint"]
	if !ok {
		return "", fmt.Errorf("Client.SetTLSFingerprint not found")
	}
	captures := false
	ast.Inspect(fpm.decl.Body, func(n ast.Node) bool {
		if fl, ok := n.(*ast.FuncLit); ok {
			ast.Inspect(fl.Body, func(m ast.Node) bool {
				if id, ok := m.(*ast.Ident); ok && id.Name == fpm.recvName {
					captures = true
				}
				return true
			})
		}
		return true
	})
	facts["fingerprintCapturesClient"] = captures

	// ---- sanity: every field must have been classified
	order := []string{"Client", "Transport", "Options", "H2Transport", "retryOption", "DumpOptions", "TLSConfig", "HTTPClient", "Dumper"}
	for _, k := range order {
		for _, f := range x.structs[k].fields {
			if f.how == "" {
				return "", fmt.Errorf("field %s.%s was not classified", k, f.name)
			}
		}
	}

	open := c19OpenClasses(c19OutArg())

	// ---- print
	var b strings.Builder
	b.WriteString("import Req.Client.CloneFacts\n")
	b.WriteString("/-! Per-field clone and setter facts of client.go, transport.go, internal/transport/option.go,\n")
	b.WriteString("retry.go, dump.go (C19). `how` = how the owner's Clone produces the field. -/\n")
	b.WriteString("namespace Generated.CloneTable\nopen Req.CloneFacts\n\n")
	id := 0
	var all []string
	for _, k := range order {
		for _, f := range x.structs[k].fields {
			name := k + "_" + f.name
			fmt.Fprintf(&b, "def %s : Row := ⟨%d, %q, %q, .%s, .%s, %q, %v, %v⟩\n", name, id, k, f.name, f.kind, f.how, f.via, f.hasSetter, f.inPlace)
			all = append(all, name)
			id++
		}
	}
	b.WriteString("\ndef rows : List Row := [\n  " + strings.Join(all, ",\n  ") + "]\n\n")
	fk := []string{}
	for k := range facts {
		fk = append(fk, k)
	}
	sort.Strings(fk)
	for _, k := range fk {
		fmt.Fprintf(&b, "def %s : Bool := %v\n", k, facts[k])
	}
	fmt.Fprintf(&b, "def settingsMethodsScanned : Nat := %d\n\n", nSetters)
	b.WriteString("/-- every exported method of *Request whose only result is *Request -/\n")
	qs := make([]string, len(reqSetters))
	for i, n := range reqSetters {
		qs[i] = fmt.Sprintf("%q", n)
	}
	b.WriteString("def requestSetters : List String := [\n  " + strings.Join(qs, ", ") + "]\n\n")
	b.WriteString("/-! Open findings of C19 listed in known-findings.txt (each excuses exactly the rows/facts of its class). -/\n")
	for _, cls := range []string{"wrapper-slice-alias", "dump-options-unlinked", "h2c-allowhttp-dropped", "tls-config-shared", "fingerprint-captures-original"} {
		fmt.Fprintf(&b, "def open_%s : Bool := %v\n", strings.ReplaceAll(cls, "-", "_"), open[cls])
	}
	b.WriteString("\nend Generated.CloneTable\n")
	return b.String(), nil
}
