package main

// A c06Translator for a tiny, straight-line subset of Go into Lean definitions over Int.
//
// Subset: function bodies made of `if` (no else / no init), assignments (=, :=, +=, -=, ++),
// local untyped const declarations, `return`, `panic(...)`, expression statements that call a
// whitelisted side-effect-free-for-the-model function; expressions made of integer literals,
// identifiers, struct field selectors, conversions to fixed-width integer types, calls of
// already translated functions, + - * % << (constant shift only) and comparisons / && || !.
// Fixed-width arithmetic is made explicit: every conversion and every arithmetic result on
// int32/uint32/int/int64/uint64 is wrapped (wrap32, wrapU32, wrap64, wrapU64), so the Lean
// definition computes what the Go code computes for arguments inside the types' ranges.
// Anything else is REFUSED with an error that names the construct.

import (
	"bytes"
	"fmt"
	"go/ast"
	"go/printer"
	"go/token"
	"strconv"
	"strings"
)

type c06GoType string // "int32" "uint32" "int" "int64" "uint64" "bool" "untyped" or "*T" (struct pointer)

func c06IsIntType(t c06GoType) bool {
	switch t {
	case "int32", "uint32", "int", "int64", "uint64", "untyped":
		return true
	}
	return false
}

func c06WrapFn(t c06GoType) string {
	switch t {
	case "int32":
		return "wrap32"
	case "uint32":
		return "wrapU32"
	case "int", "int64":
		return "wrap64"
	case "uint64":
		return "wrapU64"
	}
	return ""
}

type c06StructInfo struct {
	leanName string
	fields   map[string]c06GoType
}

type c06FnSig struct {
	leanName string
	result   c06GoType
	pure     bool // no mutation, no panic: the Lean value is the result itself
}

type c06Translator struct {
	c       *ctx
	dir     string
	structs map[string]*c06StructInfo // Go struct name -> info
	fns     map[string]*c06FnSig      // "recv.name" -> signature of an already translated function
	consts  map[string]int64
}

type c06Scope struct {
	vars     map[string]c06GoType // local variables / params
	consts   map[string]int64     // local constants
	alias    map[string]c06AliasVar
	mut      []string        // mutable struct variables (receiver, pointer params) in result order
	mutVals  []string        // scalar state variables returned at the end (pseudo functions)
	skip     map[string]bool // rendered call expressions (prefix before '(') ignored as statements
	canPanic bool
	hasValue bool // function returns a value
	skipped  []string
	// inlining of a same-package helper (one level): its identifiers get a suffix in the Lean
	// text so that they cannot capture the caller's, and `return e` continues the caller
	suffix   string
	onReturn func(val string, ty c06GoType, ind string) (string, error)
}

// lean is the Lean spelling of a Go local of this scope.
func (sc *c06Scope) lean(name string) string { return name + sc.suffix }

// c06AliasSpec maps a Go selector expression (as rendered) to a scalar Lean parameter.
type c06AliasSpec struct {
	goExpr string
	lean   string
	typ    c06GoType
}

type c06AliasVar struct {
	lean string
	typ  c06GoType
}

func c06Render(fset *token.FileSet, n ast.Node) string {
	var b bytes.Buffer
	printer.Fprint(&b, fset, n)
	return strings.Join(strings.Fields(b.String()), " ")
}

func (t *c06Translator) errf(n ast.Node, format string, a ...interface{}) error {
	return fmt.Errorf("%s: %s", t.c.fset.Position(n.Pos()), fmt.Sprintf(format, a...))
}

// constValue evaluates a package-level or local integer constant expression.
func (t *c06Translator) constValue(e ast.Expr, sc *c06Scope) (int64, bool) {
	switch x := e.(type) {
	case *ast.BasicLit:
		if x.Kind == token.INT {
			v, err := strconv.ParseInt(x.Value, 0, 64)
			if err == nil {
				return v, true
			}
		}
	case *ast.ParenExpr:
		return t.constValue(x.X, sc)
	case *ast.Ident:
		if sc != nil {
			if _, shadow := sc.vars[x.Name]; shadow {
				return 0, false
			}
			if v, ok := sc.consts[x.Name]; ok {
				return v, true
			}
		}
		if v, ok := t.consts[x.Name]; ok {
			return v, true
		}
		vs, i, err := t.c.valueSpec(t.dir, x.Name)
		if err != nil || i >= len(vs.Values) {
			return 0, false
		}
		// only `const` declarations: look the GenDecl token up
		if !t.isConstSpec(vs) {
			return 0, false
		}
		v, ok := t.constValue(vs.Values[i], nil)
		if ok {
			t.consts[x.Name] = v
		}
		return v, ok
	case *ast.BinaryExpr:
		a, ok1 := t.constValue(x.X, sc)
		b, ok2 := t.constValue(x.Y, sc)
		if !ok1 || !ok2 {
			return 0, false
		}
		switch x.Op {
		case token.ADD:
			return a + b, true
		case token.SUB:
			return a - b, true
		case token.MUL:
			return a * b, true
		case token.SHL:
			if b >= 0 && b < 62 {
				return a << uint(b), true
			}
		}
	}
	return 0, false
}

func (t *c06Translator) isConstSpec(vs *ast.ValueSpec) bool {
	fs, _ := t.c.files(t.dir)
	for _, f := range fs {
		for _, d := range f.Decls {
			gd, ok := d.(*ast.GenDecl)
			if !ok || gd.Tok != token.CONST {
				continue
			}
			for _, s := range gd.Specs {
				if s == ast.Spec(vs) {
					return true
				}
			}
		}
	}
	return false
}

func c06LeanInt(v int64) string {
	if v < 0 {
		return "(" + strconv.FormatInt(v, 10) + ")"
	}
	return strconv.FormatInt(v, 10)
}

// loadStruct records the integer / pointer fields of a struct type; other field kinds are
// remembered as unusable (their use is refused).
func (t *c06Translator) loadStruct(goName, leanName string) error {
	fs, err := t.c.files(t.dir)
	if err != nil {
		return err
	}
	for _, f := range fs {
		for _, d := range f.Decls {
			gd, ok := d.(*ast.GenDecl)
			if !ok || gd.Tok != token.TYPE {
				continue
			}
			for _, s := range gd.Specs {
				ts := s.(*ast.TypeSpec)
				if ts.Name.Name != goName {
					continue
				}
				st, ok := ts.Type.(*ast.StructType)
				if !ok {
					return fmt.Errorf("type %s is not a struct", goName)
				}
				si := &c06StructInfo{leanName: leanName, fields: map[string]c06GoType{}}
				for _, fl := range st.Fields.List {
					ty := c06GoType(c06Render(t.c.fset, fl.Type))
					for _, n := range fl.Names {
						si.fields[n.Name] = ty
					}
				}
				t.structs[goName] = si
				return nil
			}
		}
	}
	return fmt.Errorf("struct %s not found", goName)
}

// expr translates an expression; returns Lean text and its Go type.
func (t *c06Translator) expr(e ast.Expr, sc *c06Scope) (string, c06GoType, error) {
	if v, ok := t.constValue(e, sc); ok {
		return c06LeanInt(v), "untyped", nil
	}
	switch x := e.(type) {
	case *ast.ParenExpr:
		s, ty, err := t.expr(x.X, sc)
		return s, ty, err
	case *ast.Ident:
		if x.Name == "true" || x.Name == "false" {
			return x.Name, "bool", nil
		}
		if ty, ok := sc.vars[x.Name]; ok {
			return sc.lean(x.Name), ty, nil
		}
		return "", "", t.errf(e, "unknown identifier %s", x.Name)
	case *ast.SelectorExpr:
		key := c06Render(t.c.fset, x)
		if a, ok := sc.alias[key]; ok {
			return a.lean, a.typ, nil
		}
		// v.field  or  v.ptrfield.field
		if id, ok := x.X.(*ast.Ident); ok {
			vt, ok := sc.vars[id.Name]
			if !ok || !strings.HasPrefix(string(vt), "*") {
				return "", "", t.errf(e, "selector on unknown or non-struct variable %s", id.Name)
			}
			si := t.structs[string(vt)[1:]]
			if si == nil {
				return "", "", t.errf(e, "unknown struct %s", vt)
			}
			ft, ok := si.fields[x.Sel.Name]
			if !ok || !c06IsIntType(ft) {
				return "", "", t.errf(e, "field %s.%s is not an integer field", vt, x.Sel.Name)
			}
			return sc.lean(id.Name) + "." + x.Sel.Name, ft, nil
		}
		if inner, ok := x.X.(*ast.SelectorExpr); ok {
			if id, ok := inner.X.(*ast.Ident); ok {
				vt, ok := sc.vars[id.Name]
				if ok && strings.HasPrefix(string(vt), "*") {
					si := t.structs[string(vt)[1:]]
					if si != nil {
						pt := si.fields[inner.Sel.Name]
						if strings.HasPrefix(string(pt), "*") {
							pi := t.structs[string(pt)[1:]]
							if pi != nil {
								if ft, ok := pi.fields[x.Sel.Name]; ok && c06IsIntType(ft) {
									return sc.lean(id.Name) + "." + inner.Sel.Name + "_" + x.Sel.Name, ft, nil
								}
							}
						}
					}
				}
			}
		}
		return "", "", t.errf(e, "unsupported selector %s", key)
	case *ast.CallExpr:
		if id, ok := x.Fun.(*ast.Ident); ok && len(x.Args) == 1 {
			if w := c06WrapFn(c06GoType(id.Name)); w != "" {
				s, ty, err := t.expr(x.Args[0], sc)
				if err != nil {
					return "", "", err
				}
				if !c06IsIntType(ty) {
					return "", "", t.errf(e, "conversion of non-integer")
				}
				return "(" + w + " " + s + ")", c06GoType(id.Name), nil
			}
		}
		if sel, ok := x.Fun.(*ast.SelectorExpr); ok && len(x.Args) == 0 {
			if id, ok := sel.X.(*ast.Ident); ok {
				if vt, ok := sc.vars[id.Name]; ok && strings.HasPrefix(string(vt), "*") {
					if sig := t.fns[string(vt)[1:]+"."+sel.Sel.Name]; sig != nil && sig.pure {
						return "(" + sig.leanName + " " + sc.lean(id.Name) + ")", sig.result, nil
					}
				}
			}
		}
		return "", "", t.errf(e, "unsupported call %s", c06Render(t.c.fset, x))
	case *ast.UnaryExpr:
		if x.Op == token.NOT {
			s, ty, err := t.expr(x.X, sc)
			if err != nil {
				return "", "", err
			}
			if ty != "bool" {
				return "", "", t.errf(e, "! on non-bool")
			}
			return "(!" + s + ")", "bool", nil
		}
		if x.Op == token.SUB {
			s, ty, err := t.expr(x.X, sc)
			if err != nil {
				return "", "", err
			}
			if !c06IsIntType(ty) {
				return "", "", t.errf(e, "- on non-integer")
			}
			r := "(-" + s + ")"
			if w := c06WrapFn(ty); w != "" {
				r = "(" + w + " " + r + ")"
			}
			return r, ty, nil
		}
		return "", "", t.errf(e, "unsupported unary %s", x.Op)
	case *ast.BinaryExpr:
		// pointer nil tests: v.ptr != nil / == nil
		if id, ok := x.Y.(*ast.Ident); ok && id.Name == "nil" && (x.Op == token.NEQ || x.Op == token.EQL) {
			if sel, ok := x.X.(*ast.SelectorExpr); ok {
				if v, ok := sel.X.(*ast.Ident); ok {
					if vt, ok := sc.vars[v.Name]; ok && strings.HasPrefix(string(vt), "*") {
						si := t.structs[string(vt)[1:]]
						if si != nil && strings.HasPrefix(string(si.fields[sel.Sel.Name]), "*") {
							s := sc.lean(v.Name) + "." + sel.Sel.Name + "_nonnil"
							if x.Op == token.EQL {
								s = "(!" + s + ")"
							}
							return s, "bool", nil
						}
					}
				}
			}
			return "", "", t.errf(e, "unsupported nil comparison")
		}
		a, ta, err := t.expr(x.X, sc)
		if err != nil {
			return "", "", err
		}
		b, tb, err := t.expr(x.Y, sc)
		if err != nil {
			return "", "", err
		}
		switch x.Op {
		case token.LAND, token.LOR:
			if ta != "bool" || tb != "bool" {
				return "", "", t.errf(e, "logical operator on non-bool")
			}
			op := "&&"
			if x.Op == token.LOR {
				op = "||"
			}
			return "(" + a + " " + op + " " + b + ")", "bool", nil
		}
		if ta == "bool" && tb == "bool" {
			switch x.Op {
			case token.EQL:
				return "(" + a + " == " + b + ")", "bool", nil
			case token.NEQ:
				return "(" + a + " != " + b + ")", "bool", nil
			}
			return "", "", t.errf(e, "unsupported operator on bools")
		}
		if !c06IsIntType(ta) || !c06IsIntType(tb) {
			return "", "", t.errf(e, "operands of %s are not integers", x.Op)
		}
		ty := ta
		if ta == "untyped" {
			ty = tb
		} else if tb != "untyped" && tb != ta {
			return "", "", t.errf(e, "mismatched operand types %s and %s", ta, tb)
		}
		switch x.Op {
		case token.LSS, token.GTR, token.LEQ, token.GEQ, token.EQL, token.NEQ:
			op := map[token.Token]string{token.LSS: "<", token.GTR: ">", token.LEQ: "≤", token.GEQ: "≥", token.EQL: "=", token.NEQ: "≠"}[x.Op]
			return "(decide (" + a + " " + op + " " + b + "))", "bool", nil
		case token.ADD, token.SUB, token.MUL:
			op := map[token.Token]string{token.ADD: "+", token.SUB: "-", token.MUL: "*"}[x.Op]
			r := "(" + a + " " + op + " " + b + ")"
			if w := c06WrapFn(ty); w != "" {
				r = "(" + w + " " + r + ")"
			}
			return r, ty, nil
		case token.REM:
			// Go's % truncates; identical to Lean's Int.emod only for non-negative operands
			if ty != "uint32" && ty != "uint64" {
				return "", "", t.errf(e, "%% only supported on unsigned operands")
			}
			return "(" + a + " % " + b + ")", ty, nil
		}
		return "", "", t.errf(e, "unsupported operator %s", x.Op)
	}
	return "", "", t.errf(e, "unsupported expression %T", e)
}

// result renders the value a function evaluates to at a return point.
func (sc *c06Scope) result(val string) string {
	parts := append([]string{}, sc.mut...)
	parts = append(parts, sc.mutVals...)
	if sc.hasValue {
		parts = append(parts, val)
	}
	var s string
	switch len(parts) {
	case 0:
		s = "()"
	case 1:
		s = parts[0]
	default:
		s = "(" + strings.Join(parts, ", ") + ")"
	}
	if sc.canPanic {
		return "Res.ok " + s
	}
	return s
}

func c06BodyPanics(n ast.Node) bool {
	found := false
	ast.Inspect(n, func(n ast.Node) bool {
		if c, ok := n.(*ast.CallExpr); ok {
			if id, ok := c.Fun.(*ast.Ident); ok && id.Name == "panic" {
				found = true
			}
		}
		return true
	})
	return found
}

// c06Terminates reports whether a statement list always ends in return/panic.
func c06Terminates(stmts []ast.Stmt) bool {
	if len(stmts) == 0 {
		return false
	}
	switch s := stmts[len(stmts)-1].(type) {
	case *ast.ReturnStmt:
		return true
	case *ast.ExprStmt:
		if c, ok := s.X.(*ast.CallExpr); ok {
			if id, ok := c.Fun.(*ast.Ident); ok && id.Name == "panic" {
				return true
			}
		}
	}
	return false
}

// assign renders `let … :=` for an assignment to a local, an alias or a struct field.
func (t *c06Translator) assign(lhs ast.Expr, rhs string, rty c06GoType, define bool, sc *c06Scope) (string, error) {
	switch l := lhs.(type) {
	case *ast.Ident:
		if define {
			if rty == "untyped" {
				rty = "int"
			}
			sc.vars[l.Name] = rty
			return "let " + sc.lean(l.Name) + " : Int := " + rhs, nil
		}
		ty, ok := sc.vars[l.Name]
		if !ok {
			return "", t.errf(lhs, "assignment to unknown variable %s", l.Name)
		}
		if rty != "untyped" && rty != ty {
			return "", t.errf(lhs, "assignment of %s to %s", rty, ty)
		}
		return "let " + sc.lean(l.Name) + " : Int := " + rhs, nil
	case *ast.SelectorExpr:
		key := c06Render(t.c.fset, l)
		if a, ok := sc.alias[key]; ok {
			if rty != "untyped" && rty != a.typ {
				return "", t.errf(lhs, "assignment of %s to %s", rty, a.typ)
			}
			return "let " + a.lean + " : Int := " + rhs, nil
		}
		s, ty, err := t.expr(l, sc)
		if err != nil {
			return "", err
		}
		if rty != "untyped" && rty != ty {
			return "", t.errf(lhs, "assignment of %s to %s", rty, ty)
		}
		dot := strings.Index(s, ".")
		v, field := s[:dot], s[dot+1:]
		return "let " + v + " := { " + v + " with " + field + " := " + rhs + " }", nil
	}
	return "", t.errf(lhs, "unsupported assignment target")
}

// stmts translates a statement list followed by the continuation `rest` (already a list).
func (t *c06Translator) stmts(list []ast.Stmt, sc *c06Scope, ind string) (string, error) {
	if len(list) == 0 {
		// fell off the end
		if sc.hasValue {
			return "", fmt.Errorf("function body can end without a return value")
		}
		return ind + sc.result(""), nil
	}
	s, rest := list[0], list[1:]
	switch x := s.(type) {
	case *ast.ReturnStmt:
		if len(x.Results) == 0 {
			if sc.onReturn != nil {
				return "", t.errf(s, "inlined helper returns no value")
			}
			return ind + sc.result(""), nil
		}
		if len(x.Results) != 1 {
			return "", t.errf(s, "multiple return values")
		}
		if call, fd := t.helperCall(x.Results[0], sc); fd != nil {
			// return helper(args)  ==  tmp := helper(args); return tmp
			tmp := &ast.Ident{Name: "ret_inl"}
			return t.inline(call, fd, tmp, true, []ast.Stmt{&ast.ReturnStmt{Results: []ast.Expr{tmp}}}, sc, ind)
		}
		v, vty, err := t.expr(x.Results[0], sc)
		if err != nil {
			return "", err
		}
		if sc.onReturn != nil {
			return sc.onReturn(v, vty, ind)
		}
		return ind + sc.result(v), nil
	case *ast.ExprStmt:
		if c, ok := x.X.(*ast.CallExpr); ok {
			if id, ok := c.Fun.(*ast.Ident); ok && id.Name == "panic" {
				return ind + "Res.panic", nil
			}
			name := c06Render(t.c.fset, c.Fun)
			if sc.skip[name] {
				sc.skipped = append(sc.skipped, c06Render(t.c.fset, c))
				return t.stmts(rest, sc, ind)
			}
		}
		return "", t.errf(s, "unsupported statement %s", c06Render(t.c.fset, s))
	case *ast.DeclStmt:
		gd, ok := x.Decl.(*ast.GenDecl)
		if !ok || gd.Tok != token.CONST {
			return "", t.errf(s, "unsupported declaration")
		}
		for _, sp := range gd.Specs {
			vs := sp.(*ast.ValueSpec)
			for i, n := range vs.Names {
				if vs.Type != nil || i >= len(vs.Values) {
					return "", t.errf(s, "unsupported const declaration")
				}
				v, ok := t.constValue(vs.Values[i], sc)
				if !ok {
					return "", t.errf(s, "const %s is not an integer constant", n.Name)
				}
				sc.consts[n.Name] = v
			}
		}
		return t.stmts(rest, sc, ind)
	case *ast.IncDecStmt:
		cur, ty, err := t.expr(x.X, sc)
		if err != nil {
			return "", err
		}
		op := "+"
		if x.Tok == token.DEC {
			op = "-"
		}
		r := "(" + cur + " " + op + " 1)"
		if w := c06WrapFn(ty); w != "" {
			r = "(" + w + " " + r + ")"
		}
		a, err := t.assign(x.X, r, ty, false, sc)
		if err != nil {
			return "", err
		}
		k, err := t.stmts(rest, sc, ind)
		if err != nil {
			return "", err
		}
		return ind + a + "\n" + k, nil
	case *ast.AssignStmt:
		if len(x.Lhs) != 1 || len(x.Rhs) != 1 {
			return "", t.errf(s, "multi-assignment")
		}
		if call, fd := t.helperCall(x.Rhs[0], sc); fd != nil && (x.Tok == token.DEFINE || x.Tok == token.ASSIGN) {
			return t.inline(call, fd, x.Lhs[0], x.Tok == token.DEFINE, rest, sc, ind)
		}
		r, rty, err := t.expr(x.Rhs[0], sc)
		if err != nil {
			return "", err
		}
		define := false
		switch x.Tok {
		case token.DEFINE:
			define = true
		case token.ASSIGN:
		case token.ADD_ASSIGN, token.SUB_ASSIGN:
			cur, cty, err := t.expr(x.Lhs[0], sc)
			if err != nil {
				return "", err
			}
			if rty != "untyped" && rty != cty {
				return "", t.errf(s, "mismatched types in %s", x.Tok)
			}
			op := "+"
			if x.Tok == token.SUB_ASSIGN {
				op = "-"
			}
			r = "(" + cur + " " + op + " " + r + ")"
			if w := c06WrapFn(cty); w != "" {
				r = "(" + w + " " + r + ")"
			}
			rty = cty
		default:
			return "", t.errf(s, "unsupported assignment operator %s", x.Tok)
		}
		a, err := t.assign(x.Lhs[0], r, rty, define, sc)
		if err != nil {
			return "", err
		}
		k, err := t.stmts(rest, sc, ind)
		if err != nil {
			return "", err
		}
		return ind + a + "\n" + k, nil
	case *ast.IfStmt:
		if x.Init != nil {
			// `if v := e; cond { … }` == `{ v := e; if cond { … } }` followed by the rest, where v
			// must not shadow anything the rest can see.
			as, ok := x.Init.(*ast.AssignStmt)
			if !ok || as.Tok != token.DEFINE || len(as.Lhs) != 1 {
				return "", t.errf(s, "unsupported if-init")
			}
			id, ok := as.Lhs[0].(*ast.Ident)
			if !ok {
				return "", t.errf(s, "unsupported if-init")
			}
			if _, clash := sc.vars[id.Name]; clash {
				return "", t.errf(s, "if-init shadows %s", id.Name)
			}
			if _, clash := sc.consts[id.Name]; clash {
				return "", t.errf(s, "if-init shadows %s", id.Name)
			}
			plain := *x
			plain.Init = nil
			return t.stmts(append([]ast.Stmt{as, &plain}, rest...), sc, ind)
		}
		c, cty, err := t.expr(x.Cond, sc)
		if err != nil {
			return "", err
		}
		if cty != "bool" {
			return "", t.errf(s, "non-bool condition")
		}
		// variables defined inside the block are local to it: copy the c06Scope
		inner := sc.clone()
		thenList := append([]ast.Stmt{}, x.Body.List...)
		if !c06Terminates(x.Body.List) {
			thenList = append(thenList, rest...) // duplicate the continuation
		}
		th, err := t.stmts(thenList, inner, ind+"  ")
		if err != nil {
			return "", err
		}
		sc.skipped = inner.skipped
		// else / else-if: the else branch runs instead of falling through
		elseList := rest
		elseScope := sc
		if x.Else != nil {
			var body []ast.Stmt
			switch e := x.Else.(type) {
			case *ast.BlockStmt:
				body = e.List
			case *ast.IfStmt:
				body = []ast.Stmt{e}
			default:
				return "", t.errf(s, "unsupported else")
			}
			elseList = append([]ast.Stmt{}, body...)
			if !c06Terminates(body) {
				elseList = append(elseList, rest...)
			}
			elseScope = sc.clone()
		}
		el, err := t.stmts(elseList, elseScope, ind+"  ")
		if err != nil {
			return "", err
		}
		return ind + "if " + c + " then\n" + th + "\n" + ind + "else\n" + el, nil
	}
	if sw, ok := s.(*ast.SwitchStmt); ok {
		chain, err := t.switchToIf(sw)
		if err != nil {
			return "", err
		}
		if chain == nil {
			return t.stmts(rest, sc, ind)
		}
		return t.stmts(append([]ast.Stmt{chain}, rest...), sc, ind)
	}
	return "", t.errf(s, "unsupported statement %T", s)
}

// switchToIf rewrites `switch [tag] { case …: … default: … }` (no init, no fallthrough, no break)
// into the equivalent if / else-if chain.
func (t *c06Translator) switchToIf(sw *ast.SwitchStmt) (ast.Stmt, error) {
	if sw.Init != nil {
		return nil, t.errf(sw, "switch with init")
	}
	var clauses []*ast.CaseClause
	var def *ast.CaseClause
	for _, c := range sw.Body.List {
		cc := c.(*ast.CaseClause)
		bad := false
		ast.Inspect(cc, func(n ast.Node) bool {
			if b, ok := n.(*ast.BranchStmt); ok && (b.Tok == token.FALLTHROUGH || b.Tok == token.BREAK) {
				bad = true
			}
			return true
		})
		if bad {
			return nil, t.errf(cc, "switch with break/fallthrough")
		}
		if cc.List == nil {
			def = cc
		} else {
			clauses = append(clauses, cc)
		}
	}
	var tail ast.Stmt
	if def != nil {
		tail = &ast.BlockStmt{List: def.Body}
	}
	for i := len(clauses) - 1; i >= 0; i-- {
		cc := clauses[i]
		var cond ast.Expr
		for _, v := range cc.List {
			var one ast.Expr = v
			if sw.Tag != nil {
				one = &ast.BinaryExpr{X: sw.Tag, Op: token.EQL, Y: v}
			}
			if cond == nil {
				cond = one
			} else {
				cond = &ast.BinaryExpr{X: cond, Op: token.LOR, Y: one}
			}
		}
		ifs := &ast.IfStmt{If: cc.Pos(), Cond: cond, Body: &ast.BlockStmt{List: cc.Body}}
		if tail != nil {
			ifs.Else = tail
		}
		tail = ifs
	}
	if b, ok := tail.(*ast.BlockStmt); ok { // only a default clause
		return &ast.IfStmt{If: sw.Pos(), Cond: &ast.Ident{Name: "true"}, Body: b}, nil
	}
	return tail, nil
}

// helperCall recognises a call of a plain function of the same package (not a conversion, not a
// method) whose body can be inlined; nil otherwise. One level deep only.
func (t *c06Translator) helperCall(e ast.Expr, sc *c06Scope) (*ast.CallExpr, *ast.FuncDecl) {
	call, ok := e.(*ast.CallExpr)
	if !ok || sc.onReturn != nil {
		return nil, nil
	}
	id, ok := call.Fun.(*ast.Ident)
	if !ok || c06WrapFn(c06GoType(id.Name)) != "" || id.Name == "panic" || id.Name == "bool" {
		return nil, nil
	}
	if _, local := sc.vars[id.Name]; local {
		return nil, nil
	}
	fd, err := t.c.funcDecl(t.dir, "", id.Name)
	if err != nil || fd.Body == nil || fd.Type.Results == nil || len(fd.Type.Results.List) != 1 || len(fd.Type.Results.List[0].Names) > 1 {
		return nil, nil
	}
	return call, fd
}

// inline translates `lhs (:)= helper(args); rest` by binding the helper's parameters, running
// its body in a scope of its own (suffixed names) and continuing with `rest` at every return.
func (t *c06Translator) inline(call *ast.CallExpr, fd *ast.FuncDecl, lhs ast.Expr, define bool, rest []ast.Stmt, sc *c06Scope, ind string) (string, error) {
	if c06BodyPanics(fd.Body) && !sc.canPanic {
		return "", t.errf(call, "helper %s can panic but its caller cannot", fd.Name.Name)
	}
	hs := &c06Scope{vars: map[string]c06GoType{}, consts: map[string]int64{}, alias: map[string]c06AliasVar{}, skip: map[string]bool{},
		mut: nil, canPanic: sc.canPanic, hasValue: true, suffix: "_" + fd.Name.Name}
	var binds []string
	i := 0
	for _, f := range fd.Type.Params.List {
		ty := c06GoType(c06Render(t.c.fset, f.Type))
		if c06WrapFn(ty) == "" && ty != "bool" {
			return "", t.errf(call, "helper %s has a parameter of unsupported type %s", fd.Name.Name, ty)
		}
		for _, n := range f.Names {
			if i >= len(call.Args) {
				return "", t.errf(call, "argument count")
			}
			a, aty, err := t.expr(call.Args[i], sc)
			if err != nil {
				return "", err
			}
			if aty != "untyped" && aty != ty {
				return "", t.errf(call, "argument %d of %s has type %s, want %s", i, fd.Name.Name, aty, ty)
			}
			hs.vars[n.Name] = ty
			binds = append(binds, ind+"let "+hs.lean(n.Name)+" : Int := "+a)
			i++
		}
	}
	if i != len(call.Args) {
		return "", t.errf(call, "argument count")
	}
	hs.onReturn = func(val string, ty c06GoType, ind2 string) (string, error) {
		a, err := t.assign(lhs, val, ty, define, sc)
		if err != nil {
			return "", err
		}
		k, err := t.stmts(rest, sc, ind2)
		if err != nil {
			return "", err
		}
		return ind2 + a + "\n" + k, nil
	}
	body, err := t.stmts(fd.Body.List, hs, ind)
	if err != nil {
		return "", fmt.Errorf("inlining %s: %v", fd.Name.Name, err)
	}
	return strings.Join(append(binds, body), "\n"), nil
}

func (sc *c06Scope) clone() *c06Scope {
	n := *sc
	n.vars = map[string]c06GoType{}
	for k, v := range sc.vars {
		n.vars[k] = v
	}
	n.consts = map[string]int64{}
	for k, v := range sc.consts {
		n.consts[k] = v
	}
	return &n
}

// function translates a top-level function or method of the package into a Lean `def`.
func (t *c06Translator) function(recv, name, leanName string, recvAlias ...c06AliasSpec) (string, error) {
	fd, err := t.c.funcDecl(t.dir, recv, name)
	if err != nil {
		return "", err
	}
	sc := &c06Scope{vars: map[string]c06GoType{}, consts: map[string]int64{}, alias: map[string]c06AliasVar{}, skip: map[string]bool{}}
	var params []string
	for _, a := range recvAlias {
		sc.alias[a.goExpr] = c06AliasVar{a.lean, a.typ}
		params = append(params, "("+a.lean+" : Int)")
	}
	addParam := func(n string, ty ast.Expr) error {
		ts := c06Render(t.c.fset, ty)
		if strings.HasPrefix(ts, "*") {
			si := t.structs[ts[1:]]
			if si == nil {
				return t.errf(ty, "unsupported parameter type %s", ts)
			}
			sc.vars[n] = c06GoType(ts)
			sc.mut = append(sc.mut, n)
			params = append(params, "("+n+" : "+si.leanName+")")
			return nil
		}
		if c06WrapFn(c06GoType(ts)) == "" {
			return t.errf(ty, "unsupported parameter type %s", ts)
		}
		sc.vars[n] = c06GoType(ts)
		params = append(params, "("+n+" : Int)")
		return nil
	}
	if fd.Recv != nil && len(recvAlias) == 0 {
		f := fd.Recv.List[0]
		if len(f.Names) != 1 {
			return "", t.errf(fd, "unnamed receiver")
		}
		if err := addParam(f.Names[0].Name, f.Type); err != nil {
			return "", err
		}
	}
	for _, f := range fd.Type.Params.List {
		for _, n := range f.Names {
			if err := addParam(n.Name, f.Type); err != nil {
				return "", err
			}
		}
	}
	var resTy c06GoType
	if fd.Type.Results != nil {
		if len(fd.Type.Results.List) != 1 || len(fd.Type.Results.List[0].Names) > 1 {
			return "", t.errf(fd, "multiple results")
		}
		resTy = c06GoType(c06Render(t.c.fset, fd.Type.Results.List[0].Type))
		if resTy != "bool" && c06WrapFn(resTy) == "" {
			return "", t.errf(fd, "unsupported result type %s", resTy)
		}
		sc.hasValue = true
	}
	sc.canPanic = c06BodyPanics(fd.Body)
	// does the body mutate anything? (assignment through a struct variable)
	mutates := false
	ast.Inspect(fd.Body, func(n ast.Node) bool {
		switch a := n.(type) {
		case *ast.AssignStmt:
			for _, l := range a.Lhs {
				if _, ok := l.(*ast.SelectorExpr); ok {
					mutates = true
				}
			}
		case *ast.IncDecStmt:
			if _, ok := a.X.(*ast.SelectorExpr); ok {
				mutates = true
			}
		}
		return true
	})
	if !mutates {
		sc.mut = nil
	}
	body, err := t.stmts(fd.Body.List, sc, "  ")
	if err != nil {
		return "", err
	}
	// Lean result type
	var parts []string
	for _, m := range sc.mut {
		parts = append(parts, t.structs[string(sc.vars[m])[1:]].leanName)
	}
	if sc.hasValue {
		if resTy == "bool" {
			parts = append(parts, "Bool")
		} else {
			parts = append(parts, "Int")
		}
	}
	rt := "Unit"
	if len(parts) > 0 {
		rt = strings.Join(parts, " × ")
	}
	if sc.canPanic {
		rt = "Res (" + rt + ")"
	}
	key := recv + "." + name
	t.fns[key] = &c06FnSig{leanName: leanName, result: resTy, pure: !mutates && !sc.canPanic && sc.hasValue}
	doc := fmt.Sprintf("/-- translated from `%s` (%s) -/\n", c06Render(t.c.fset, &ast.FuncDecl{Recv: fd.Recv, Name: fd.Name, Type: fd.Type}), t.dir)
	return doc + "def " + leanName + " " + strings.Join(params, " ") + " : " + rt + " :=\n" + body + "\n", nil
}
