package main

// C12Facts.fpCopied: which fields of the CLIENT's tls.Config reach the utls.Config that the
// handshake closure of Client.SetTLSFingerprint builds.
//
// Extraction is by meaning (a small flow-insensitive data-flow inside one function), not by
// shape:
//   * the literal is found wherever it is in the root package: any composite literal of type
//     <utls>.Config (<utls> = the local import name of github.com/refraction-networking/utls),
//     in SetTLSFingerprint's closure or in a helper it was extracted into;
//   * "the client's config" is every identifier assigned from a call to GetTLSClientConfig or
//     from a selector .TLSClientConfig, every parameter of type *tls.Config of the enclosing
//     function(s), and such a call / selector used directly;
//   * field F of the client's config reaches key K when K's value expression — or an
//     assignment `<lit var>.K = …` after construction — mentions <client's config>.F directly,
//     through local variables (transitively, any assignment form, any control structure) or as
//     an argument of a helper call.
// fpCopied lists the fields K ∈ {ServerName, RootCAs, InsecureSkipVerify, Certificates,
// NextProtos} for which K is reached by the SAME field of the client's config.
// REFUSES: no or several utls.Config literals, no identifiable client's config.

import (
	"fmt"
	"go/ast"
	"go/token"
	"path"
	"sort"
	"strings"
)

var c12FpFields = map[string]string{
	"ServerName":         "serverName",
	"RootCAs":            "rootCAs",
	"InsecureSkipVerify": "insecureSkipVerify",
	"Certificates":       "certificates",
	"NextProtos":         "nextProtos",
}

type c12FpResult struct {
	copied []string
	pos    token.Position
	fn     string
}

func c12Fingerprint(c *ctx) (*c12FpResult, error) {
	fm, err := c.files(".")
	if err != nil {
		return nil, err
	}
	var names []string
	for n := range fm {
		names = append(names, n)
	}
	sort.Strings(names)
	type hit struct {
		lit   *ast.CompositeLit
		fd    *ast.FuncDecl
		tlsNm string
	}
	var hits []hit
	for _, n := range names {
		f := fm[n]
		utlsName, tlsName := "", ""
		for _, im := range f.Imports {
			p := strings.Trim(im.Path.Value, `"`)
			local := path.Base(p)
			if im.Name != nil {
				local = im.Name.Name
			}
			switch p {
			case "github.com/refraction-networking/utls":
				utlsName = local
			case "crypto/tls":
				tlsName = local
			}
		}
		if utlsName == "" {
			continue
		}
		for _, d := range f.Decls {
			fd, ok := d.(*ast.FuncDecl)
			if !ok || fd.Body == nil {
				continue
			}
			ast.Inspect(fd.Body, func(x ast.Node) bool {
				cl, ok := x.(*ast.CompositeLit)
				if !ok {
					return true
				}
				if se, ok := cl.Type.(*ast.SelectorExpr); ok && se.Sel.Name == "Config" {
					if id, ok := se.X.(*ast.Ident); ok && id.Name == utlsName {
						hits = append(hits, hit{cl, fd, tlsName})
					}
				}
				return true
			})
		}
	}
	if len(hits) != 1 {
		return nil, fmt.Errorf("expected exactly one utls.Config literal in the root package, found %d", len(hits))
	}
	h := hits[0]
	fd := h.fd

	// the client's config: identifiers
	src := map[string]bool{}
	isTLSConfigPtr := func(t ast.Expr) bool {
		st, ok := t.(*ast.StarExpr)
		if !ok {
			return false
		}
		se, ok := st.X.(*ast.SelectorExpr)
		if !ok || se.Sel.Name != "Config" {
			return false
		}
		id, ok := se.X.(*ast.Ident)
		return ok && h.tlsNm != "" && id.Name == h.tlsNm
	}
	addParams := func(ft *ast.FuncType) {
		if ft == nil || ft.Params == nil {
			return
		}
		for _, fl := range ft.Params.List {
			if isTLSConfigPtr(fl.Type) {
				for _, n := range fl.Names {
					src[n.Name] = true
				}
			}
		}
	}
	addParams(fd.Type)
	ast.Inspect(fd.Body, func(x ast.Node) bool {
		if fl, ok := x.(*ast.FuncLit); ok {
			addParams(fl.Type)
		}
		return true
	})
	isSrcExpr := func(e ast.Expr) bool {
		switch x := e.(type) {
		case *ast.Ident:
			return src[x.Name]
		case *ast.CallExpr:
			if se, ok := x.Fun.(*ast.SelectorExpr); ok && se.Sel.Name == "GetTLSClientConfig" {
				return true
			}
		case *ast.SelectorExpr:
			return x.Sel.Name == "TLSClientConfig"
		case *ast.ParenExpr:
			return false
		}
		return false
	}
	type assign struct {
		lhs string
		rhs ast.Expr
	}
	var assigns []assign
	type fieldStore struct {
		base, key string
		rhs       ast.Expr
	}
	var stores []fieldStore
	ast.Inspect(fd.Body, func(x ast.Node) bool {
		switch s := x.(type) {
		case *ast.AssignStmt:
			for i, l := range s.Lhs {
				var r ast.Expr
				if len(s.Rhs) == len(s.Lhs) {
					r = s.Rhs[i]
				} else if len(s.Rhs) == 1 {
					r = s.Rhs[0]
				}
				if r == nil {
					continue
				}
				switch lh := l.(type) {
				case *ast.Ident:
					assigns = append(assigns, assign{lh.Name, r})
				case *ast.SelectorExpr:
					if b, ok := lh.X.(*ast.Ident); ok {
						stores = append(stores, fieldStore{b.Name, lh.Sel.Name, r})
					}
				}
			}
		case *ast.ValueSpec:
			for i, n := range s.Names {
				if i < len(s.Values) {
					assigns = append(assigns, assign{n.Name, s.Values[i]})
				}
			}
		}
		return true
	})
	// identifiers that hold the client's config (through any chain of plain copies)
	for changed := true; changed; {
		changed = false
		for _, a := range assigns {
			if !src[a.lhs] && isSrcExpr(a.rhs) {
				src[a.lhs] = true
				changed = true
			}
		}
	}
	direct := false
	ast.Inspect(fd.Body, func(x ast.Node) bool {
		if se, ok := x.(*ast.SelectorExpr); ok && isSrcExpr(se.X) {
			direct = true
		}
		return true
	})
	if !direct {
		return nil, fmt.Errorf("%s: no use of the client's tls.Config found in %s", c.fset.Position(h.lit.Pos()), fd.Name.Name)
	}
	// fields of the client's config an expression depends on
	deps := map[string]map[string]bool{}
	var fieldsOf func(e ast.Expr) map[string]bool
	fieldsOf = func(e ast.Expr) map[string]bool {
		out := map[string]bool{}
		ast.Inspect(e, func(x ast.Node) bool {
			switch v := x.(type) {
			case *ast.SelectorExpr:
				if isSrcExpr(v.X) {
					out[v.Sel.Name] = true
					return false
				}
			case *ast.Ident:
				for f := range deps[v.Name] {
					out[f] = true
				}
			case *ast.FuncLit:
				return false
			}
			return true
		})
		return out
	}
	for changed := true; changed; {
		changed = false
		for _, a := range assigns {
			for f := range fieldsOf(a.rhs) {
				if deps[a.lhs] == nil {
					deps[a.lhs] = map[string]bool{}
				}
				if !deps[a.lhs][f] {
					deps[a.lhs][f] = true
					changed = true
				}
			}
		}
	}
	// the variable(s) holding the literal
	litVars := map[string]bool{}
	for _, a := range assigns {
		r := a.rhs
		if u, ok := r.(*ast.UnaryExpr); ok && u.Op == token.AND {
			r = u.X
		}
		if r == ast.Expr(h.lit) {
			litVars[a.lhs] = true
		}
	}
	reached := map[string]map[string]bool{}
	add := func(key string, e ast.Expr) {
		if reached[key] == nil {
			reached[key] = map[string]bool{}
		}
		for f := range fieldsOf(e) {
			reached[key][f] = true
		}
	}
	for _, el := range h.lit.Elts {
		kv, ok := el.(*ast.KeyValueExpr)
		if !ok {
			return nil, fmt.Errorf("%s: utls.Config literal with positional elements", c.fset.Position(el.Pos()))
		}
		id, ok := kv.Key.(*ast.Ident)
		if !ok {
			continue
		}
		add(id.Name, kv.Value)
	}
	for _, st := range stores {
		if litVars[st.base] {
			add(st.key, st.rhs)
		}
	}
	res := &c12FpResult{pos: c.fset.Position(h.lit.Pos()), fn: fd.Name.Name}
	for _, k := range []string{"ServerName", "RootCAs", "InsecureSkipVerify", "Certificates", "NextProtos"} {
		if reached[k][k] {
			res.copied = append(res.copied, c12FpFields[k])
		}
	}
	return res, nil
}
